import EpyVerif.Lemmas.DynRuns
/-!
# C03 — Simulation time never runs backwards and all clocks agree

Model: `Model/Queue.lean` + `Model/Dyn.lean` (the two loops of `stochasticdynamics.py` / `synchronousdynamics.py` over
the posted-event queue of `networkdynamics.py`), for an **arbitrary** process: any registration tables, any loci, any
handler programs (which may post, un-post and query events and rewrite the user world), any event tap, any random
stream.  `K` is any linearly ordered time type; the driver runs the same definitions at `K = Float`.

`Fired` records, for each executed event, the time given to the handler (`htime`), the clock during the handler
(`clock`), the time reported to the tap (`tap`) and the event's own time (`own`; for a posted event the time it was
posted for).  `EvOK ev` says the four agree.
-/
open Queue Dyn Std
namespace C03

variable {K U E Λ : Type} [LT K] [LE K] [DecidableLT K] [DecidableLE K] [IsLinearOrder K] [LawfulOrderLT K] [Arith K]

/-- what C03 says about a finished (or interrupted) run -/
def RunOK (L : Loop K U E Λ) : Prop :=
  (∀ ev ∈ L.tr, EvOK ev) ∧                       -- handler time = clock = tap time = own time, for every event
  (L.tr.map (·.own)).Pairwise (· ≤ ·) ∧           -- events are executed in non-decreasing time order
  (∀ ev ∈ L.tr, ev.own ≤ L.t)                     -- none later than the reported end time

theorem runOK_of_G {L : Loop K U E Λ} {b : K} (g : G b L.s L.tr) (hb : b ≤ L.t) : RunOK L :=
  ⟨g.ok, g.mono, fun ev hev => Std.le_trans (g.below ev hev) hb⟩

/-- the state at `simulationStarted`: any queue produced by set-up (sorted, ids fresh, nothing in the past), no
    event yet, loop time = clock -/
theorem start_sto (s : St K U E) (hi : Queue.Inv s.q) :
    StoInv ({ s := s, tr := [], t := s.q.now } : Loop K U E Λ) :=
  ⟨⟨s.q.now, ⟨⟨hi.sorted, hi.ids⟩, hi.future, Std.le_refl _, by simp, by simp, by simp⟩, Std.le_refl _⟩,
   Std.le_refl _, fun _ => hi.future⟩

theorem start_syn (s : St K U E) (t1 : K) (hi : Queue.Inv s.q) (h01 : s.q.now ≤ t1) :
    LoopInv ({ s := s, tr := [], t := t1 } : Loop K U E Λ) :=
  ⟨⟨s.q.now, ⟨⟨hi.sorted, hi.ids⟩, hi.future, Std.le_refl _, by simp, by simp, by simp⟩, h01⟩, h01⟩

/-- **Stochastic dynamics.** For every process, every number of iterations and every random stream, the events of a
    run started from a set-up state have agreeing clocks, non-decreasing times, and none is later than `TIME`.
    Hypothesis: a Gillespie step does not go backwards (`t ≤ t + dt`; true of `(1/a)·ln(1/r₁)` for `0 < r₁ ≤ 1`). -/
theorem sto_run (P : Proc K U E Λ) (inner fuel : Nat) (s : St K U E) (hi : Queue.Inv s.q)
    (hdt : ∀ (t a r : K), t ≤ Arith.add t (Arith.gillespieDt a r)) :
    RunOK (runSto P inner fuel { s := s, tr := [], t := s.q.now }) := by
  have h := runSto_inv P inner hdt fuel _ rfl (start_sto (Λ := Λ) s hi)
  obtain ⟨b, g, hb⟩ := h.ex
  exact runOK_of_G g hb

/-- **Synchronous dynamics.** The same for the timestep loop started at `t1` (the code uses 1.0) with unit steps. -/
theorem syn_run (P : Proc K U E Λ) (inner fuel : Nat) (s : St K U E) (t1 : K) (hi : Queue.Inv s.q) (h01 : s.q.now ≤ t1)
    (hone : ∀ t : K, t ≤ Arith.add t Arith.one) :
    RunOK (runSyn P inner fuel { s := s, tr := [], t := t1 }) := by
  have h := runSyn_inv P inner hone fuel _ (start_syn (Λ := Λ) s t1 hi h01)
  obtain ⟨b, g, hb⟩ := h.ex
  exact runOK_of_G g hb

/-- one tap call per executed event, and the trace only grows: the events of `runPendingEvents` extend the trace -/
theorem pending_extends (P : Proc K U E Λ) (bound : K) (fuel : Nat) (s : St K U E) (tr : List (Fired K E Λ)) :
    ∃ ext, (runPending P bound fuel s tr).2.1 = tr ++ ext ∧ ∀ ev ∈ ext, ev.posted = true :=
  let ⟨ext, h1, h2⟩ := runPending_prefix P bound fuel s tr
  ⟨ext, h1, fun ev hev => (h2 ev hev).1⟩

/-- a posted event's handler receives exactly the time it was posted for, whatever the batch bound -/
theorem posted_gets_own_time (P : Proc K U E Λ) (bound : K) (s s' : St K U E) (ev : Fired K E Λ)
    (h : firePosted P bound s = some (s', ev)) : ev.htime = ev.own ∧ ev.tap = ev.own ∧ ev.own ≤ bound := by
  unfold firePosted at h
  split at h
  · simp at h
  · rename_i q1 x hp
    simp only [Option.some.injEq, Prod.mk.injEq] at h
    obtain ⟨-, rfl⟩ := h
    refine ⟨rfl, rfl, ?_⟩
    unfold popBefore at hp
    split at hp
    · simp at hp
    · split at hp
      · rename_i hle; simp only [Option.some.injEq, Prod.mk.injEq] at hp; obtain ⟨-, rfl⟩ := hp; exact hle
      · simp at hp

/-! non-vacuity: the hypotheses are satisfiable (times in `Nat`, a process that posts from inside a handler) -/
instance : Arith Nat := ⟨0, 1, (· + ·), (· * ·), id, (· == 0), fun _ _ => 1⟩

example : ∀ (t a r : Nat), t ≤ Arith.add t (Arith.gillespieDt a r) := fun t _ _ => Nat.le_add_right t 1
example : Queue.Inv ({ heap := [⟨2, 0, (), 0, true⟩, ⟨2, 1, (), 0, true⟩], finder := [(0, 2), (1, 2)], nextId := 2, now := 0 } : S Nat Unit) := by
  refine ⟨?_, ?_, ?_⟩
  · simp [before]
  · simp
  · simp

end C03
