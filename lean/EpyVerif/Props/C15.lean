import EpyVerif.Lemmas.Gens
import EpyVerif.Props.C10
/-!
# C15 — Network generators deliver the structures they promise

Model: `Model/Gens.lean` — the parts of the generators that are epydemic's own: the PLC degree-sequence sampler with its parity
repair, the composition / largest-component / relabelling glue of the core-periphery and modular generators, origin and
core-link marks, and (from `Model/Exp.lean`) the generator limit.  The random graphs themselves come from networkx
(`fast_gnp_random_graph`, `barabasi_albert_graph`, `configuration_model`): they are inputs of the model and assumptions of the
theorems, checked on the real outputs by the harness oracle.
-/
set_option linter.unusedSectionVars false
open Gens UF
namespace C15

variable {K : Type} [LT K] [LE K] [DecidableLT K] [DecidableLE K]

/-- **PLC**: the degree sequence handed to the configuration model has exactly `N` entries, every one between 1 and 99,
    and an even sum -/
theorem plc_sequence (p : Nat → K) (N : Nat) (rs rs' : List (R K)) (ns : List Nat) (h : plcDegrees p 100 N rs = some (ns, rs')) :
    ns.length = N ∧ (∀ k ∈ ns, 1 ≤ k ∧ k < 100) ∧ ns.sum % 2 = 0 := Gens.plc_sequence p 100 N rs rs' ns h

/-! ### paths survive restriction to a closed node set and relabelling -/

theorem conn_induced (E : List (Nat × Nat)) (S : List Nat) (hclosed : ∀ e ∈ E, e.1 ∈ S ↔ e.2 ∈ S) {a b : Nat} (h : Conn E a b) :
    (a ∈ S ↔ b ∈ S) ∧ (a ∈ S → Conn (E.filter (fun e => S.contains e.1 && S.contains e.2)) a b) := by
  induction h with
  | refl a => exact ⟨Iff.rfl, fun _ => .refl a⟩
  | edge he =>
    rename_i a b
    refine ⟨hclosed _ he, fun ha => .edge (List.mem_filter.2 ⟨he, ?_⟩)⟩
    have hb := (hclosed _ he).1 ha
    simp [ha, hb]
  | symm _ ih => exact ⟨ih.1.symm, fun hb => (ih.2 (ih.1.2 hb)).symm⟩
  | trans _ _ i1 i2 => exact ⟨i1.1.trans i2.1, fun ha => (i1.2 ha).trans (i2.2 (i1.1.1 ha))⟩

theorem conn_map (f : Nat → Nat) {E : List (Nat × Nat)} {a b : Nat} (h : Conn E a b) :
    Conn (E.map (fun e => (f e.1, f e.2))) (f a) (f b) := by
  induction h with
  | refl a => exact .refl _
  | edge he => exact .edge (List.mem_map.2 ⟨_, he, rfl⟩)
  | symm _ ih => exact ih.symm
  | trans _ _ i1 i2 => exact i1.trans i2

/-- **a relabelled largest component is connected**: for any listing `order` of the component, the restricted and relabelled
    edge set joins every two of the new labels `first .. first + k - 1` -/
theorem restrict_connected (n : Nat) (edges : List (Nat × Nat)) (hb : ∀ e ∈ edges, e.1 < n ∧ e.2 < n) (hn : 0 < n)
    (order : List Nat) (hperm : order.Perm (lccNodes n edges)) (first : Nat) :
    ∀ i j, i < order.length → j < order.length → Conn (restrict order first edges) (first + i) (first + j) := by
  obtain ⟨_, hconn, hclosed⟩ := lcc_connected n edges hb hn
  have hnd : order.Nodup := hperm.nodup_iff.2 (lcc_nodup n edges)
  have hcl : ∀ e ∈ edges, e.1 ∈ order ↔ e.2 ∈ order := by
    intro e he
    rw [hperm.mem_iff, hperm.mem_iff]
    exact ⟨fun h => hclosed _ h _ (hb e he).2 (.edge he), fun h => hclosed _ h _ (hb e he).1 (.symm (.edge he))⟩
  intro i j hi hj
  have ha : order[i] ∈ order := List.getElem_mem hi
  have hbm : order[j] ∈ order := List.getElem_mem hj
  have hc := hconn _ (hperm.mem_iff.1 ha) _ (hperm.mem_iff.1 hbm)
  have h1 := (conn_induced edges order hcl hc).2 ha
  have h2 := conn_map (newLabel order first) h1
  have ei : newLabel order first order[i] = first + i := by unfold newLabel; rw [hnd.idxOf_getElem]
  have ej : newLabel order first order[j] = first + j := by unfold newLabel; rw [hnd.idxOf_getElem]
  rw [ei, ej] at h2
  exact h2

/-! ### core-periphery -/

theorem crossRow_mem (phi : K) (n : Nat) : ∀ (ms : List Nat) (rs rs' : List (R K)) (es : List (Nat × Nat)),
    crossRow phi n ms rs = some (es, rs') → ∀ e ∈ es, e.1 = n ∧ e.2 ∈ ms := by
  intro ms
  induction ms with
  | nil => intro rs rs' es h; simp only [crossRow, Option.some.injEq, Prod.mk.injEq] at h; rw [← h.1]; simp
  | cons m ms ih =>
    intro rs rs' es h
    unfold crossRow at h
    split at h
    · simp at h
    · split at h
      · simp at h
      · rename_i es1 rs2 hrow
        simp only [Option.some.injEq, Prod.mk.injEq] at h
        intro e he
        rw [← h.1] at he
        split at he
        · rcases List.mem_cons.1 he with rfl | he
          · exact ⟨rfl, List.mem_cons_self⟩
          · obtain ⟨a, b⟩ := ih _ _ _ hrow e he; exact ⟨a, List.mem_cons_of_mem _ b⟩
        · obtain ⟨a, b⟩ := ih _ _ _ hrow e he; exact ⟨a, List.mem_cons_of_mem _ b⟩

theorem cross_mem (phi : K) (per : List Nat) : ∀ (ns : List Nat) (rs rs' : List (R K)) (es : List (Nat × Nat)),
    cross phi per ns rs = some (es, rs') → ∀ e ∈ es, e.1 ∈ ns ∧ e.2 ∈ per := by
  intro ns
  induction ns with
  | nil => intro rs rs' es h; simp only [cross, Option.some.injEq, Prod.mk.injEq] at h; rw [← h.1]; simp
  | cons n ns ih =>
    intro rs rs' es h
    unfold cross at h
    split at h
    · simp at h
    · rename_i es1 rs1 hrow
      split at h
      · simp at h
      · rename_i es2 rs2 hrest
        simp only [Option.some.injEq, Prod.mk.injEq] at h
        intro e he
        rw [← h.1] at he
        rcases List.mem_append.1 he with he | he
        · obtain ⟨a, b⟩ := crossRow_mem phi n per _ _ _ hrow e he; exact ⟨by rw [a]; exact List.mem_cons_self, b⟩
        · obtain ⟨a, b⟩ := ih _ _ _ hrest e he; exact ⟨List.mem_cons_of_mem _ a, b⟩

theorem restrict_range (order : List Nat) (first : Nat) (edges : List (Nat × Nat)) :
    ∀ e ∈ restrict order first edges, (first ≤ e.1 ∧ e.1 < first + order.length) ∧ (first ≤ e.2 ∧ e.2 < first + order.length) := by
  intro e he
  unfold restrict at he
  simp only [List.mem_map, List.mem_filter, Bool.and_eq_true, List.contains_iff_mem] at he
  obtain ⟨x, ⟨_, h1, h2⟩, rfl⟩ := he
  simp only [newLabel]
  have a := List.idxOf_lt_length_iff.2 h1
  have b := List.idxOf_lt_length_iff.2 h2
  omega

/-- **core-periphery**: the network returned is labelled `0 .. n-1`, every node is marked core (0) or periphery (1),
    its edges stay inside the labels, and it is connected -/
theorem core_periphery (Nc Np : Nat) (coreE perE : List (Nat × Nat)) (phi : K) (rs : List (R K)) (order : List Nat) (r : CP)
    (hc : ∀ e ∈ coreE, e.1 < Nc ∧ e.2 < Nc) (hp : ∀ e ∈ perE, e.1 < Np ∧ e.2 < Np) (hN : 0 < Nc + Np)
    (h : corePeriphery Nc Np coreE perE phi rs order = some r) :
    r.origin.length = r.n ∧ (∀ o ∈ r.origin, o = 0 ∨ o = 1) ∧ (∀ e ∈ r.edges, e.1 < r.n ∧ e.2 < r.n) ∧
    (∀ i j, i < r.n → j < r.n → Conn r.edges i j) := by
  unfold corePeriphery at h
  simp only [] at h
  split at h
  · simp at h
  · rename_i cr rs' hcross
    split at h
    · simp at h
    · rename_i hperm
      simp only [Option.some.injEq] at h
      subst h
      have hperm' : order.Perm _ := List.isPerm_iff.1 (by simpa only [Bool.not_eq_true', Bool.not_eq_false] using hperm)
      have hall : ∀ e ∈ coreE ++ perE.map (fun e => (e.1 + Nc, e.2 + Nc)) ++ cr, e.1 < Nc + Np ∧ e.2 < Nc + Np := by
        intro e he
        rcases List.mem_append.1 he with he | he
        · rcases List.mem_append.1 he with he | he
          · have := hc e he; omega
          · simp only [List.mem_map] at he; obtain ⟨x, hx, rfl⟩ := he; have := hp x hx; simp only []; omega
        · obtain ⟨a, b⟩ := cross_mem phi _ _ _ _ _ hcross e he
          simp only [List.mem_range, List.mem_map] at a b
          obtain ⟨y, hy, hy'⟩ := b; omega
      refine ⟨by simp, ?_, ?_, ?_⟩
      · intro o ho; simp only [List.mem_map] at ho; obtain ⟨v, _, rfl⟩ := ho; by_cases hv : v < Nc <;> simp [hv]
      · intro e he
        have := restrict_range order 0 _ e he
        simp only [] ; omega
      · intro i j hi hj
        have := restrict_connected (Nc + Np) _ hall hN order hperm' 0 i j hi hj
        simpa using this

/-! ### modular -/

/-- **one module**: an ER block restricted to its largest component is labelled `first .. first + k - 1` with `1 ≤ k ≤ N`
    and is connected -/
theorem block_spec (N : Nat) (es : List (Nat × Nat)) (first : Nat) (order nodes : List Nat) (edges : List (Nat × Nat))
    (hb : ∀ e ∈ es, e.1 < N ∧ e.2 < N) (hN : 0 < N) (h : block N es first order = some (nodes, edges)) :
    nodes = (List.range order.length).map (· + first) ∧ 0 < order.length ∧ order.length ≤ N ∧
    (∀ i j, i < order.length → j < order.length → Conn edges (first + i) (first + j)) ∧
    (∀ e ∈ edges, (first ≤ e.1 ∧ e.1 < first + order.length) ∧ (first ≤ e.2 ∧ e.2 < first + order.length)) := by
  unfold block at h
  simp only [] at h
  split at h
  · simp at h
  · rename_i hperm
    simp only [Option.some.injEq, Prod.mk.injEq] at h
    obtain ⟨rfl, rfl⟩ := h
    have hperm' : order.Perm (lccNodes N es) := List.isPerm_iff.1 (by simpa only [Bool.not_eq_true', Bool.not_eq_false] using hperm)
    have hne := (lcc_connected N es hb hN).1
    have hlen : order.length = (lccNodes N es).length := hperm'.length_eq
    refine ⟨rfl, ?_, ?_, restrict_connected N es hb hN order hperm' first, restrict_range order first es⟩
    · rw [hlen]; exact List.length_pos_iff.2 hne
    · rw [hlen]
      have : (lccNodes N es).length ≤ (List.range N).length := by unfold lccNodes; exact List.length_filter_le _ _
      simpa using this

/-- **the joining edges**: one per satellite, from a node of that satellite to a node of the centre -/
theorem links_spec (centre : List Nat) : ∀ (sats : List (List Nat)) (rs : List (R K)) (ls : List (Nat × Nat)),
    links centre sats rs = some ls →
    ls.length = sats.length ∧ ∀ i (h1 : i < ls.length) (h2 : i < sats.length), ls[i].1 ∈ sats[i] ∧ ls[i].2 ∈ centre := by
  intro sats
  induction sats with
  | nil => intro rs ls h; simp only [links, Option.some.injEq] at h; subst h; exact ⟨rfl, fun i h1 => by simp at h1⟩
  | cons sat rest ih =>
    intro rs ls h
    unfold links at h
    split at h
    · simp at h
    · rename_i a rs1 ha
      split at h
      · simp at h
      · rename_i b rs2 hb
        split at h
        · simp at h
        · rename_i ls' hl
          simp only [Option.some.injEq] at h; subst h
          obtain ⟨e1, e2⟩ := ih rs2 ls' hl
          have ha' := (popI_spec 0 centre.length rs rs1 a ha).2.1
          have hb' := (popI_spec 0 sat.length rs1 rs2 b hb).2.1
          refine ⟨by simp [e1], ?_⟩
          intro i h1 h2
          cases i with
          | zero =>
            simp only [List.getElem_cons_zero]
            exact ⟨by rw [List.getD_eq_getElem?_getD, List.getElem?_eq_getElem hb']; exact List.getElem_mem _,
                   by rw [List.getD_eq_getElem?_getD, List.getElem?_eq_getElem ha']; exact List.getElem_mem _⟩
          | succ i =>
            simp only [List.getElem_cons_succ]
            exact e2 i (by simpa using h1) (by simpa using h2)

/-- **core-link marks**: a node is flagged exactly when it is an endpoint of a joining edge -/
theorem flag_iff (ls : List (Nat × Nat)) (v : Nat) :
    ls.any (fun l => l.1 == v || l.2 == v) = true ↔ ∃ l ∈ ls, l.1 = v ∨ l.2 = v := by
  simp [List.any_eq_true]

/-! ### limits (shared with C10) -/

theorem limit (G : Type) (k l : Nat) (g : Exp.Gen G) (h : g.remaining = some l) : (Exp.Gen.take k g).1.length ≤ l :=
  (C10.limit_total k g l h).1

/-! ### non-vacuity: the samplers and the glue do return on concrete inputs -/

/-- acceptance threshold 5 against random numbers 0: two degrees 3 and 4 (odd sum); the repair replaces index 0 by a 6 -/
example : ((plcDegrees (K := Nat) (fun _ => 5) 100 2 [.i 1 100 3, .f 0, .i 1 100 4, .f 0, .i 0 2 0, .i 1 100 6, .f 0]).map (·.1)) = some [4, 6] := by
  decide +kernel

/-- one core node, two periphery nodes joined to each other, the core joined to periphery node 1 only -/
example : (corePeriphery (K := Nat) 1 2 [] [(0, 1)] 0 [.f 0, .f 1] [0, 1, 2]).isSome = true := by decide +kernel

/-- a centre of two joined nodes and one satellite of one node -/
example : (modular (K := Nat) 2 1 [(0, 1)] [0, 1] [([], [0])] [.i 0 2 1, .i 0 1 0]).isSome = true := by decide +kernel

end C15
