import EpyVerif.Lemmas.UFRun
/-!
# C13 — Newman–Ziff percolation reports true component sizes at every sample

Model: `Model/UF.lean` (`newmanziff.py`: the `_components` array with path compression, `join`, `occupy`, and the sampling
loop as repaired by the fix commit).  `Conn E a b` is connectivity in the working network whose edges are `E`.
Bond percolation is proved; the site variant (`occupySite`) is modelled and tied to the code by replay only (PARTIAL).
-/
set_option linter.unusedSectionVars false
open UF
namespace C13

/-- **bond percolation, any occupation order**: after occupying the edges `es` (in that order) of a network on `0..N-1`,
    there is a representative function `ρ` with: same representative ⇔ connected in the sub-network formed by the edges
    occupied so far; the size stored at a node's root = the size of its component; `gcc` = the largest component size;
    `ncomponents` = the number of components.  (`rootOf` with fuel `N+1` always reaches the root: part of the invariant.) -/
theorem bond_samples_true (N : Nat) (hN : 0 < N) (es : List (Nat × Nat)) (hb : ∀ e ∈ es, e.1 < N ∧ e.2 < N) :
    let s := occupyAll N ((fun _ => -1), 1, N) es
    ∃ ρ : Nat → Nat,
      (∀ a b, a < N → b < N → (ρ a = ρ b ↔ Conn es.reverse a b)) ∧
      (∀ n, n < N → (- s.1 (ρ n)).toNat = (List.range N).countP (fun b => decide (ρ b = ρ n))) ∧
      (∀ n, n < N → (List.range N).countP (fun b => decide (ρ b = ρ n)) ≤ s.2.1) ∧
      (∃ n, n < N ∧ (List.range N).countP (fun b => decide (ρ b = ρ n)) = s.2.1) ∧
      s.2.2 = nroots N s.1 := by
  intro s
  obtain ⟨ρ, d, h⟩ := occupyAll_inv N es [] ((fun _ => -1), 1, N) id (fun _ => 0) (init_inv N hN) hb
  simp only [List.append_nil] at h
  exact ⟨ρ, reported N es.reverse _ ρ d _ _ h⟩

/-- `componentSize(n)` (= minus the entry at `rootOf n`) is the true size of `n`'s component, and `rootOf` returns the
    representative without changing which nodes are connected -/
theorem componentSize_true (N : Nat) (E : List (Nat × Nat)) (c : Arr) (ρ d : Nat → Nat) (gcc ncomp : Nat)
    (h : Inv N E c ρ d gcc ncomp) (n : Nat) (hn : n < N) :
    (rootOf (N + 1) c n).2 = ρ n ∧
    (- (rootOf (N + 1) c n).1 (rootOf (N + 1) c n).2).toNat = (List.range N).countP (fun b => decide (ρ b = ρ n)) := by
  obtain ⟨e1, _, keep, _, _⟩ := rootOf_spec (N + 1) c d n h.depth h.rep (by have := h.dbound n; omega)
  refine ⟨e1, ?_⟩
  rw [e1, keep _ (h.rep.root n)]
  exact (reported N E c ρ d gcc ncomp h).2.1 n hn

/-- "the first k occupations with k/M ≥ p_j", over exact rationals -/
def dueQ (ps : List Rat) (M : Nat) (k j : Nat) : Bool :=
  if h : j < ps.length then decide (ps[j] ≤ (k : Rat) / M) else false

/-- sample points sorted ascending make the predicate antitone in the point index -/
theorem due_antitone (ps : List Rat) (hs : ps.Pairwise (· ≤ ·)) (M : Nat) :
    ∀ k j j', j' ≤ j → dueQ ps M k j = true → dueQ ps M k j' = true := by
  intro k j j' hjj h
  unfold dueQ at h ⊢
  by_cases hj : j < ps.length
  · have hj' : j' < ps.length := by omega
    simp only [hj, hj', dite_true, decide_eq_true_eq] at h ⊢
    rcases Nat.lt_or_eq_of_le hjj with hlt | heq
    · exact Rat.le_trans (List.pairwise_iff_getElem.1 hs j' j hj' hj hlt) h
    · subst heq; exact h
  · simp [hj] at h

/-- **sampling**: with sorted sample points `ps` and `M ≥ 1` elements, the samples are taken point by point in order, each
    exactly once, each labelled with its own point and taken after the first `k ≥ 1` occupations with `k/M ≥ p` (before any
    occupation for `p = 0`), in non-decreasing occupation order; if the last point is ≤ 1 every point gets its sample, the
    last one on the complete network -/
theorem sampling (ps : List Rat) (hs : ps.Pairwise (· ≤ ·)) (M : Nat) (zf : Bool) :
    Sched (dueQ ps M) ps.length zf M (schedule (dueQ ps M) ps.length M zf) ∧
    ((∀ p ∈ ps, p ≤ 1) → 1 ≤ M → (schedule (dueQ ps M) ps.length M zf).length = ps.length) := by
  obtain ⟨h1, h2⟩ := schedule_spec (dueQ ps M) ps.length M zf (due_antitone ps hs M)
  refine ⟨h1, fun hle hM => h2 ?_ hM⟩
  intro j hj
  unfold dueQ
  simp only [hj, dite_true, decide_eq_true_eq]
  have : (M : Rat) / M = 1 := by rw [Rat.div_def]; exact Rat.mul_inv_cancel _ (by exact_mod_cast (show M ≠ 0 by omega))
  rw [this]; exact hle _ (List.getElem_mem hj)

/-- non-vacuity: the path 0–1–2, edges occupied in the order (1,2), (0,1) -/
example : (occupyAll 3 ((fun _ => -1), 1, 3) [(1, 2), (0, 1)]).2 = (3, 1) := by decide

end C13
