import EpyVerif.Lemmas.UFRun
import EpyVerif.Lemmas.UFSite
/-!
# C13 — Newman–Ziff percolation reports true component sizes at every sample

Model: `Model/UF.lean` (`newmanziff.py`: the `_components` array with path compression, `join`, `occupy`, and the sampling
loop as repaired by the fix commit).  `Conn E a b` is connectivity in the working network whose edges are `E`.
Bond percolation is proved directly; site percolation is proved by reduction to it (unoccupied sites viewed as singleton
components, `UF.alpha`); the `gcc` / `ncomponents` counters of the site variant are carried along through the same reduction (`UF.SRel`,
`site_counters_true`).
-/
set_option linter.unusedSectionVars false
open UF
namespace C13

/-- **bond percolation, any occupation order**: after occupying the edges `es` (in that order) of a network on `0..N-1`,
    there is a representative function `ρ` with: same representative ⇔ connected in the sub-network formed by the edges
    occupied so far; the size stored at a node's root = the size of its component; `gcc` = the largest component size;
    `ncomponents` = the number of components.  (`rootOf` with fuel `N+1` always reaches the root: part of the invariant.) -/
theorem bond_samples_true (N : Nat) (hN : 0 < N) (es : List (Nat × Nat)) (hb : ∀ e ∈ es, e.1 < N ∧ e.2 < N) :
    let s := occupyAll N ((fun _ => -1), 1, N) es
    ∃ ρ : Nat → Nat,
      (∀ a b, a < N → b < N → (ρ a = ρ b ↔ Conn es.reverse a b)) ∧
      (∀ n, n < N → (- s.1 (ρ n)).toNat = (List.range N).countP (fun b => decide (ρ b = ρ n))) ∧
      (∀ n, n < N → (List.range N).countP (fun b => decide (ρ b = ρ n)) ≤ s.2.1) ∧
      (∃ n, n < N ∧ (List.range N).countP (fun b => decide (ρ b = ρ n)) = s.2.1) ∧
      s.2.2 = nroots N s.1 := by
  intro s
  obtain ⟨ρ, d, h⟩ := occupyAll_inv N es [] ((fun _ => -1), 1, N) id (fun _ => 0) (init_inv N hN) hb
  simp only [List.append_nil] at h
  exact ⟨ρ, reported N es.reverse _ ρ d _ _ h⟩

/-- `componentSize(n)` (= minus the entry at `rootOf n`) is the true size of `n`'s component, and `rootOf` returns the
    representative without changing which nodes are connected -/
theorem componentSize_true (N : Nat) (E : List (Nat × Nat)) (c : Arr) (ρ d : Nat → Nat) (gcc ncomp : Nat)
    (h : Inv N E c ρ d gcc ncomp) (n : Nat) (hn : n < N) :
    (rootOf (N + 1) c n).2 = ρ n ∧
    (- (rootOf (N + 1) c n).1 (rootOf (N + 1) c n).2).toNat = (List.range N).countP (fun b => decide (ρ b = ρ n)) := by
  obtain ⟨e1, _, keep, _, _⟩ := rootOf_spec (N + 1) c d n h.depth h.rep (by have := h.dbound n; omega)
  refine ⟨e1, ?_⟩
  rw [e1, keep _ (h.rep.root n)]
  exact (reported N E c ρ d gcc ncomp h).2.1 n hn

/-- "the first k occupations with k/M ≥ p_j", over exact rationals -/
def dueQ (ps : List Rat) (M : Nat) (k j : Nat) : Bool :=
  if h : j < ps.length then decide (ps[j] ≤ (k : Rat) / M) else false

/-- sample points sorted ascending make the predicate antitone in the point index -/
theorem due_antitone (ps : List Rat) (hs : ps.Pairwise (· ≤ ·)) (M : Nat) :
    ∀ k j j', j' ≤ j → dueQ ps M k j = true → dueQ ps M k j' = true := by
  intro k j j' hjj h
  unfold dueQ at h ⊢
  by_cases hj : j < ps.length
  · have hj' : j' < ps.length := by omega
    simp only [hj, hj', dite_true, decide_eq_true_eq] at h ⊢
    rcases Nat.lt_or_eq_of_le hjj with hlt | heq
    · exact Rat.le_trans (List.pairwise_iff_getElem.1 hs j' j hj' hj hlt) h
    · subst heq; exact h
  · simp [hj] at h

/-- **sampling**: with sorted sample points `ps` and `M ≥ 1` elements, the samples are taken point by point in order, each
    exactly once, each labelled with its own point and taken after the first `k ≥ 1` occupations with `k/M ≥ p` (before any
    occupation for `p = 0`), in non-decreasing occupation order; if the last point is ≤ 1 every point gets its sample, the
    last one on the complete network -/
theorem sampling (ps : List Rat) (hs : ps.Pairwise (· ≤ ·)) (M : Nat) (zf : Bool) :
    Sched (dueQ ps M) ps.length zf M (schedule (dueQ ps M) ps.length M zf) ∧
    ((∀ p ∈ ps, p ≤ 1) → 1 ≤ M → (schedule (dueQ ps M) ps.length M zf).length = ps.length) := by
  obtain ⟨h1, h2⟩ := schedule_spec (dueQ ps M) ps.length M zf (due_antitone ps hs M)
  refine ⟨h1, fun hle hM => h2 ?_ hM⟩
  intro j hj
  unfold dueQ
  simp only [hj, dite_true, decide_eq_true_eq]
  have : (M : Rat) / M = 1 := by rw [Rat.div_def]; exact Rat.mul_inv_cancel _ (by exact_mod_cast (show M ≠ 0 by omega))
  rw [this]; exact hle _ (List.getElem_mem hj)

/-- non-vacuity: the path 0–1–2, edges occupied in the order (1,2), (0,1) -/
example : (occupyAll 3 ((fun _ => -1), 1, 3) [(1, 2), (0, 1)]).2 = (3, 1) := by decide

/-! ### site percolation -/

/-- the working network of a site percolation run: every newly occupied site is joined to those of its neighbours that are
    occupied by then (newest bonds first) -/
def siteEdges (adj : Nat → List Nat) : List Nat → List Nat → List (Nat × Nat) → List (Nat × Nat)
  | [], _, E => E
  | v :: vs, occ, E =>
    siteEdges adj vs (v :: occ) ((((adj v).filter (fun m => decide (m = v ∨ m ∈ occ))).map (fun m => (v, m))).reverse ++ E)

/-- `SitePercolation`: occupy the sites `vs` in this order -/
def siteAll (N : Nat) (un : Int) (adj : Nat → List Nat) : List Nat → BState → BState
  | [], s => s
  | v :: vs, s => siteAll N un adj vs (occupySite (N + 1) un s.1 s.2.1 s.2.2 v (adj v))

theorem site_run (N : Nat) (un : Int) (adj : Nat → List Nat) (hadj : ∀ v m, m ∈ adj v → m < N) :
    ∀ (vs occ : List Nat) (E : List (Nat × Nat)) (s : BState) (ρ d : Nat → Nat) (g n : Nat),
    SiteOK N un s.1 → (∀ x, s.1 x ≠ un ↔ x ∈ occ) → Inv N E (alpha un s.1) ρ d g n → SRel N un s.1 s.2.1 s.2.2 g n →
    vs.Nodup → (∀ v ∈ vs, v < N ∧ v ∉ occ) →
    ∃ ρ' d' g' n', Inv N (siteEdges adj vs occ E) (alpha un (siteAll N un adj vs s).1) ρ' d' g' n' ∧
      SiteOK N un (siteAll N un adj vs s).1 ∧ (∀ x, (siteAll N un adj vs s).1 x ≠ un ↔ (x ∈ occ ∨ x ∈ vs)) ∧
      SRel N un (siteAll N un adj vs s).1 (siteAll N un adj vs s).2.1 (siteAll N un adj vs s).2.2 g' n' := by
  intro vs
  induction vs with
  | nil => intro occ E s ρ d g n ok ho inv srel _ _; exact ⟨ρ, d, g, n, inv, ok, fun x => by show s.1 x ≠ un ↔ _; simpa using ho x, srel⟩
  | cons v vs ih =>
    intro occ E s ρ d g n ok ho inv srel hnd hb
    obtain ⟨hv, hvo⟩ := hb v List.mem_cons_self
    have hun : s.1 v = un := by
      by_cases h : s.1 v = un
      · exact h
      · exact absurd ((ho v).1 h) hvo
    obtain ⟨ok1, un1, ρ1, d1, g1, n1, inv1, srel1⟩ := occupySite_inv N un s.1 s.2.1 s.2.2 v (adj v) E ρ d g n ok hv hun (fun m hm => hadj v m hm) inv srel
    have hf : (adj v).filter (fun m => decide (m = v ∨ s.1 m ≠ un)) = (adj v).filter (fun m => decide (m = v ∨ m ∈ occ)) := by
      apply List.filter_congr; intro x _; simp only [ho x]
    rw [hf] at inv1
    have ho1 : ∀ x, (occupySite (N + 1) un s.1 s.2.1 s.2.2 v (adj v)).1 x ≠ un ↔ x ∈ v :: occ := by
      intro x; rw [Ne, un1 x, List.mem_cons]
      constructor
      · intro h
        by_cases hx : x = v
        · exact Or.inl hx
        · right; apply (ho x).1; intro hc; exact h ⟨hc, hx⟩
      · rintro (h | h) ⟨hc, hx⟩
        · exact hx h
        · exact (ho x).2 h hc
    obtain ⟨ρ2, d2, g2, n2, inv2, ok2, ho2, srel2⟩ := ih (v :: occ) _ (occupySite (N + 1) un s.1 s.2.1 s.2.2 v (adj v)) ρ1 d1 g1 n1 ok1 ho1 inv1 srel1
      (List.nodup_cons.1 hnd).2 (fun x hx => ⟨(hb x (List.mem_cons_of_mem _ hx)).1, fun h => by
        rcases List.mem_cons.1 h with h | h
        · exact (List.nodup_cons.1 hnd).1 (h ▸ hx)
        · exact (hb x (List.mem_cons_of_mem _ hx)).2 h⟩)
    refine ⟨ρ2, d2, g2, n2, inv2, ok2, fun x => ?_, srel2⟩
    rw [show siteAll N un adj (v :: vs) s = siteAll N un adj vs (occupySite (N + 1) un s.1 s.2.1 s.2.2 v (adj v)) from rfl, ho2 x]
    simp only [List.mem_cons]
    constructor
    · rintro ((h | h) | h)
      · exact Or.inr (Or.inl h)
      · exact Or.inl h
      · exact Or.inr (Or.inr h)
    · rintro (h | h | h)
      · exact Or.inl (Or.inr h)
      · exact Or.inl (Or.inl h)
      · exact Or.inr h

theorem srel_init (N : Nat) (un : Int) : SRel N un (fun _ => un) 0 0 1 N :=
  ⟨by simp [unocc], rfl, Or.inl (fun _ => rfl)⟩

/-- **site percolation, any occupation order**: after occupying the distinct sites `vs` of a network on `0..N-1` (neighbours
    given by `adj`), viewing the sites not yet occupied as singletons, there is a representative function with: same
    representative ⇔ joined by a path of bonds between occupied sites; the size stored at the root = the size of the component;
    and a site is marked occupied exactly when it is in `vs` -/
theorem site_samples_true (N : Nat) (hN : 0 < N) (adj : Nat → List Nat) (hadj : ∀ v m, m ∈ adj v → m < N) (vs : List Nat)
    (hnd : vs.Nodup) (hb : ∀ v ∈ vs, v < N) :
    let un : Int := N + 1
    let s := siteAll N un adj vs ((fun _ => un), 0, 0)
    (∀ x, s.1 x ≠ un ↔ x ∈ vs) ∧
    ∃ ρ : Nat → Nat,
      (∀ a b, a < N → b < N → (ρ a = ρ b ↔ Conn (siteEdges adj vs [] []) a b)) ∧
      (∀ n, n < N → (- alpha un s.1 (ρ n)).toNat = (List.range N).countP (fun b => decide (ρ b = ρ n))) := by
  intro un s
  have ok0 : SiteOK N un (fun _ => un) := ⟨rfl, fun x hx => absurd rfl hx, fun x hx => absurd rfl hx⟩
  have ha0 : alpha un (fun _ => un) = fun _ => -1 := by funext x; simp [alpha]
  obtain ⟨ρ, d, g, n, inv, _, ho, _⟩ := site_run N un adj hadj vs [] [] ((fun _ => un), 0, 0) id (fun _ => 0) 1 N ok0
    (fun x => by simp) (by rw [ha0]; exact init_inv N hN) (srel_init N un) hnd (fun v hv => ⟨hb v hv, by simp⟩)
  refine ⟨fun x => by simpa using ho x, ρ, ?_⟩
  obtain ⟨r1, r2, _⟩ := reported N _ _ ρ d g n inv
  exact ⟨r1, r2⟩

/-- **site percolation, the reported counters**: after occupying the distinct sites `vs`, `ncomponents` is the number of roots
    among the occupied sites (one per component of the working network, which holds occupied sites only), and `gcc` is the size
    of a largest component among them: it bounds the component of every occupied site, is attained by one of them, and is 0
    while nothing is occupied. (Sizes are counted with the representative function of the working network's connectivity;
    an unoccupied site is connected to nothing.) -/
theorem site_counters_true (N : Nat) (hN : 0 < N) (adj : Nat → List Nat) (hadj : ∀ v m, m ∈ adj v → m < N) (vs : List Nat)
    (hnd : vs.Nodup) (hb : ∀ v ∈ vs, v < N) :
    let un : Int := N + 1
    let s := siteAll N un adj vs ((fun _ => un), 0, 0)
    s.2.2 = nroots N s.1 ∧
    ∃ ρ : Nat → Nat,
      (∀ a b, a < N → b < N → (ρ a = ρ b ↔ Conn (siteEdges adj vs [] []) a b)) ∧
      (∀ v ∈ vs, (List.range N).countP (fun b => decide (ρ b = ρ v)) ≤ s.2.1) ∧
      (vs = [] → s.2.1 = 0) ∧
      (vs ≠ [] → ∃ v ∈ vs, (List.range N).countP (fun b => decide (ρ b = ρ v)) = s.2.1) := by
  intro un s
  have ok0 : SiteOK N un (fun _ => un) := ⟨rfl, fun x hx => absurd rfl hx, fun x hx => absurd rfl hx⟩
  have ha0 : alpha un (fun _ => un) = fun _ => -1 := by funext x; simp [alpha]
  have hun : 0 < un := by show (0 : Int) < N + 1; omega
  obtain ⟨ρ, d, g, n, inv, ok, ho, srel⟩ := site_run N un adj hadj vs [] [] ((fun _ => un), 0, 0) id (fun _ => 0) 1 N ok0
    (fun x => by simp) (by rw [ha0]; exact init_inv N hN) (srel_init N un) hnd (fun v hv => ⟨hb v hv, by simp⟩)
  have ho' : ∀ x, s.1 x ≠ un ↔ x ∈ vs := fun x => by simpa using ho x
  have inv : Inv N (siteEdges adj vs [] []) (alpha un s.1) ρ d g n := inv
  have srel : SRel N un s.1 s.2.1 s.2.2 g n := srel
  obtain ⟨r1, r2, r3, ⟨w, hw, hwe⟩, r5⟩ := reported N _ _ ρ d g n inv
  have hempty : vs = [] → s.2.1 = 0 := by intro h; subst h; rfl
  generalize s = S at *
  refine ⟨?_, ρ, r1, ?_, hempty, ?_⟩
  · have h1 := srel.cnt
    rw [r5, nroots_alpha N un _ hun] at h1
    omega
  · intro v hv
    have h1 := r3 v (hb v hv)
    rcases srel.pos with h | h
    · exact absurd (h v) ((ho' v).2 hv)
    · have := srel.big
      omega
  · intro hne
    obtain ⟨v0, hv0⟩ := List.exists_mem_of_ne_nil vs hne
    have hpos : 1 ≤ S.2.1 := by
      rcases srel.pos with h | h
      · exact absurd (h v0) ((ho' v0).2 hv0)
      · exact h
    have hg : g = S.2.1 := by have := srel.big; omega
    by_cases hwo : S.1 w = un
    · -- the witness is an unoccupied singleton: the largest size is 1, and every occupied site attains it
      have hsz := r2 w hw
      have hrw : ρ w = w := inv.rep.self w (by unfold alpha; simp [hwo])
      rw [hrw] at hsz
      have ha : alpha un S.1 w = -1 := by unfold alpha; simp [hwo]
      rw [ha] at hsz
      have h1 : (List.range N).countP (fun b => decide (ρ b = ρ w)) = 1 := by rw [hrw]; simpa using hsz.symm
      have hle := r3 v0 (hb v0 hv0)
      have hge : 0 < (List.range N).countP (fun b => decide (ρ b = ρ v0)) := by
        rw [List.countP_pos_iff]; exact ⟨v0, List.mem_range.2 (hb v0 hv0), by simp⟩
      exact ⟨v0, hv0, by omega⟩
    · exact ⟨w, (ho' w).1 hwo, by rw [hwe, hg]⟩

/-- non-vacuity: the path 0–1–2–3, sites occupied in the order 1, 3, 0: two components, the largest of size 2 -/
example : (siteAll 4 5 (fun v => if v = 0 then [1] else if v = 1 then [0, 2] else if v = 2 then [1, 3] else [2]) [1, 3, 0]
    ((fun _ => 5), 0, 0)).2 = (2, 2) := by decide +kernel

end C13
