import EpyVerif.Model.Exp
import EpyVerif.Lemmas.QueueSpec
/-!
# C10 — Every run starts from a clean slate and prototypes are never modified

Model: `Model/Exp.lean` (generator limit; the fields `Dynamics.setUp` re-creates) and the queue of `Model/Queue.lean`.  The
run itself is the model of C01–C08 started from `setUp`'s result; that the real experiment object behaves like this model
after arbitrary earlier runs, including runs that raised at any point, is what the correspondence check replays (the model is
given only the last run) and what the fresh-twin oracle compares field by field.
-/
open Exp
namespace C10

/-- **history independence**: the state a run starts from does not depend on what any earlier run (completed, cut short or
    aborted by an exception anywhere) left in the experiment object -/
theorem setUp_forgets {Q L N T : Type} (eQ : Q) (eL : L) (z : T) (gen : Gen N) (old old' : Run Q L N T) :
    setUp eQ eL z gen old = setUp eQ eL z gen old' := rfl

/-- … so the outcome of the run, being a function of that state, the parameters and the random numbers, is the same -/
theorem outcome_independent {Q L N T R : Type} (eQ : Q) (eL : L) (z : T) (gen : Gen N) (run : Run Q L N T → R)
    (old old' : Run Q L N T) : run (setUp eQ eL z gen old).1 = run (setUp eQ eL z gen old').1 := rfl

/-- the run starts at time zero with empty loci and an empty queue -/
theorem starts_clean {Q L N T : Type} (eQ : Q) (eL : L) (z : T) (gen : Gen N) (old : Run Q L N T) :
    (setUp eQ eL z gen old).1.clock = z ∧ (setUp eQ eL z gen old).1.queue = eQ ∧ (setUp eQ eL z gen old).1.loci = eL :=
  ⟨rfl, rfl, rfl⟩

/-- the empty queue has no pending event, so every event pending later in the run was posted by that run -/
theorem empty_queue_clean {K E : Type} [LT K] [LE K] [DecidableLT K] [DecidableLE K] (t0 : K) :
    let q : Queue.S K E := { heap := [], finder := [], nextId := 0, now := t0 }
    Queue.FQ q ∧ ∀ id t, ¬ Queue.Pending q id t := by
  refine ⟨⟨by simp, by simp, by simp, by simp, ?_⟩, ?_⟩
  · intro id t; simp [Queue.Pending]
  · intro id t; simp [Queue.Pending]

/-- **generator limit**: a generator created with limit `l` yields at most `l` networks in total, however it is asked -/
theorem limit_total {G : Type} : ∀ (k : Nat) (g : Gen G) (l : Nat), g.remaining = some l →
    (Gen.take k g).1.length ≤ l ∧ ∃ l', (Gen.take k g).2.remaining = some l' ∧ (Gen.take k g).1.length + l' = l := by
  intro k
  induction k with
  | zero => intro g l h; exact ⟨by simp [Gen.take], l, by simpa [Gen.take] using h, by simp [Gen.take]⟩
  | succ k ih =>
    intro g l h
    cases l with
    | zero =>
      have hg : g.generate = (none, g) := by unfold Gen.generate; rw [h]
      simp only [Gen.take, hg]
      exact ih g 0 h
    | succ r =>
      have hg : g.generate = (some (g.make g.made), { g with remaining := some r, made := g.made + 1 }) := by
        unfold Gen.generate; rw [h]
      simp only [Gen.take, hg]
      obtain ⟨a, l', b, c⟩ := ih { g with remaining := some r, made := g.made + 1 } r rfl
      exact ⟨by simp; omega, l', b, by simp; omega⟩

/-- an unlimited generator always delivers -/
theorem unlimited_delivers {G : Type} : ∀ (k : Nat) (g : Gen G), g.remaining = none → (Gen.take k g).1.length = k := by
  intro k
  induction k with
  | zero => intro g _; simp [Gen.take]
  | succ k ih =>
    intro g h
    have hg : g.generate = (some (g.make g.made), { g with made := g.made + 1 }) := by unfold Gen.generate; rw [h]
    simp only [Gen.take, hg, List.length_cons]
    rw [ih _ (by simpa using h)]

/-- a fixed-network generator hands out the prototype's value every time: run `k` gets the same network as run 0
    (the prototype is a value here; that the Python object is copied, not shared, is checked on the real code) -/
theorem fixed_equal {G : Type} (proto : G) (k : Nat) (g : Gen G) (hm : g.make = fun _ => proto) :
    ∀ x ∈ (Gen.take k g).1, x = proto := by
  induction k generalizing g with
  | zero => simp [Gen.take]
  | succ k ih =>
    intro x hx
    unfold Gen.take at hx
    cases hgen : g.generate with
    | mk o g' =>
      have hm' : g'.make = fun _ => proto := by
        unfold Gen.generate at hgen
        split at hgen <;> simp only [Prod.mk.injEq] at hgen <;> rw [← hgen.2] <;> exact hm
      rw [hgen] at hx
      cases o with
      | none => exact ih g' hm' x hx
      | some y =>
        simp only [List.mem_cons] at hx
        rcases hx with rfl | hx
        · unfold Gen.generate at hgen
          split at hgen <;> simp only [Prod.mk.injEq, Option.some.injEq] at hgen
          · rw [← hgen.1, hm]
          · rw [← hgen.1, hm]
          · exact absurd hgen.1 (by simp)
        · exact ih g' hm' x hx

example : ((Gen.take 5 ({ remaining := some 2, made := 0, make := id } : Gen Nat)).1) = [0, 1] := by decide

end C10
