import EpyVerif.Model.Seq
import EpyVerif.Props.C12
import EpyVerif.Lemmas.CompDispatch
/-!
# C11 — Composed and multiply-instantiated processes do not interfere

Model: `Model/Seq.lean` (`ProcessSequence`: flattening, maximum time, equilibrium, results; parameter decoration) and the
multi-instance world of `Model/Comp.lean` / `Model/Sim.lean` (every tracking locus and every compartment map belongs to one
instance).
-/
set_option linter.unusedSectionVars false
open Seq Comp
namespace C11

/-! ### sequences -/

/-- a sequence of sequences schedules the leaves left to right, exactly once each (`allProcesses`) -/
theorem flatten_append (ps qs : List PTree) : leavesL (ps ++ qs) = leavesL ps ++ leavesL qs := by
  induction ps with
  | nil => simp [leavesL]
  | cons p ps ih => simp [leavesL, ih, List.append_assoc]

theorem flatten_nested (ps qs : List PTree) : leaves (.seq [.seq ps, .seq qs]) = leaves (.seq (ps ++ qs)) := by
  simp [leaves, leavesL, flatten_append]

mutual
/-- the maximum time of any nesting is the largest maximum time of a leaf (or 0 for the empty sequence) -/
theorem maxTime_ge (mt : Nat → Nat) : ∀ (p : PTree), ∀ i ∈ leaves p, mt i ≤ maxTime mt p
  | .leaf j => by intro i hi; simp [leaves] at hi; subst hi; simp [maxTime]
  | .seq ps => by intro i hi; simp only [leaves] at hi; simp only [maxTime]; exact maxTimeL_ge mt ps i hi
theorem maxTimeL_ge (mt : Nat → Nat) : ∀ (ps : List PTree), ∀ i ∈ leavesL ps, mt i ≤ maxTimeL mt ps
  | [] => by intro i hi; simp [leavesL] at hi
  | p :: ps => by
    intro i hi
    simp only [leavesL, List.mem_append] at hi
    simp only [maxTimeL]
    rcases hi with h | h
    · exact Nat.le_trans (maxTime_ge mt p i h) (Nat.le_max_left _ _)
    · exact Nat.le_trans (maxTimeL_ge mt ps i h) (Nat.le_max_right _ _)
end

mutual
theorem maxTime_attained (mt : Nat → Nat) : ∀ (p : PTree), maxTime mt p = 0 ∨ ∃ i ∈ leaves p, maxTime mt p = mt i
  | .leaf j => Or.inr ⟨j, by simp [leaves], by simp [maxTime]⟩
  | .seq ps => by simp only [leaves, maxTime]; exact maxTimeL_attained mt ps
theorem maxTimeL_attained (mt : Nat → Nat) : ∀ (ps : List PTree), maxTimeL mt ps = 0 ∨ ∃ i ∈ leavesL ps, maxTimeL mt ps = mt i
  | [] => Or.inl rfl
  | p :: ps => by
    simp only [maxTimeL, leavesL, List.mem_append]
    rcases Nat.le_total (maxTime mt p) (maxTimeL mt ps) with h | h
    · rw [Nat.max_eq_right h]
      rcases maxTimeL_attained mt ps with h0 | ⟨i, hi, he⟩
      · exact Or.inl h0
      · exact Or.inr ⟨i, Or.inr hi, he⟩
    · rw [Nat.max_eq_left h]
      rcases maxTime_attained mt p with h0 | ⟨i, hi, he⟩
      · exact Or.inl h0
      · exact Or.inr ⟨i, Or.inl hi, he⟩
end

mutual
/-- a (nested) sequence is at equilibrium exactly when every leaf is -/
theorem atEq_iff (eq : Nat → Bool) : ∀ (p : PTree), atEq eq p = true ↔ ∀ i ∈ leaves p, eq i = true
  | .leaf j => by simp [atEq, leaves]
  | .seq ps => by simp only [atEq, leaves]; exact atEqL_iff eq ps
theorem atEqL_iff (eq : Nat → Bool) : ∀ (ps : List PTree), atEqL eq ps = true ↔ ∀ i ∈ leavesL ps, eq i = true
  | [] => by simp [atEqL, leavesL]
  | p :: ps => by
    simp only [atEqL, leavesL, Bool.and_eq_true, List.mem_append, atEq_iff eq p, atEqL_iff eq ps]
    constructor
    · rintro ⟨h1, h2⟩ i (h | h); exact h1 i h; exact h2 i h
    · intro h; exact ⟨fun i hi => h i (Or.inl hi), fun i hi => h i (Or.inr hi)⟩
end

/-- `dict.update`: the key just written has the new value, every other key keeps its value (so a later component wins) -/
theorem update_lookup (d : List (String × Int)) (k : String) (v : Int) :
    (update d (k, v)).lookup k = some v ∧ ∀ k', k' ≠ k → (update d (k, v)).lookup k' = d.lookup k' := by
  refine ⟨by simp [update, List.lookup], ?_⟩
  intro k' hne
  have : (k' == k) = false := by simpa using hne
  simp [update, List.lookup, this]

/-- results of a sequence: the value reported for a key is the one of the last component (in schedule order) reporting it -/
theorem results_later_wins (rs : Nat → List (String × Int)) (p : PTree) (acc : List (String × Int)) (i : Nat) (k : String) (v : Int)
    (hr : rs i = [(k, v)]) : (results rs (.seq [p, .leaf i]) acc).lookup k = some v := by
  simp [results, resultsL, hr, List.foldl, update, List.lookup]

/-! ### parameter decoration -/

/-- a named instance takes each parameter from its own decorated name, … -/
theorem lookup_decorated (d : List (String × Int)) (n k : String) (v : Int) (dflt : Option Int)
    (h : d.lookup (k ++ "@" ++ n) = some v) : lookupDeco d (some n) k dflt = some v := by
  simp [lookupDeco, deco, h]

/-- … falling back to the shared undecorated name, … -/
theorem lookup_shared (d : List (String × Int)) (n k : String) (v : Int) (dflt : Option Int)
    (h0 : d.lookup (k ++ "@" ++ n) = none) (h : d.lookup k = some v) : lookupDeco d (some n) k dflt = some v := by
  simp [lookupDeco, deco, h0, h]

/-- … then to a declared default, and otherwise it is a `KeyError` -/
theorem lookup_default (d : List (String × Int)) (inst : Option String) (k : String) (dflt : Option Int)
    (h0 : d.lookup (deco inst k) = none) (h : d.lookup k = none) : lookupDeco d inst k dflt = dflt := by
  simp [lookupDeco, h0, h]

/-- an unnamed process just uses the plain name -/
theorem lookup_unnamed (d : List (String × Int)) (k : String) (dflt : Option Int) :
    lookupDeco d none k dflt = (d.lookup k).orElse (fun _ => dflt) := by
  unfold lookupDeco deco; cases d.lookup k <;> simp

/-! ### instances do not interfere -/

/-- an event of instance `inst` changes no compartment of another instance, and no locus that belongs to another instance
    (under the well-formedness of the registration tables) -/
theorem frame (cfg : Cfg) (wf : WfCfg cfg) (w : W) (inst n : Nat) (node : Node) (c : Nat) :
    (∀ inst' x, inst' ≠ inst → (changeCompartment cfg w inst node c).comp inst' x = w.comp inst' x) ∧
    (∀ i, (∀ x, watchedK (cfg.kind i) inst x = false) → (changeCompartment cfg w inst node c).loci i = w.loci i) ∧
    (changeCompartment cfg w inst node c).net = w.net := by
  obtain ⟨h1, h2⟩ := changeCompartment_net cfg wf w inst node c
  refine ⟨?_, fun i hi => changeCompartment_other cfg wf w inst node c i hi, h1⟩
  intro inst' x hne
  rw [h2]; simp [setComp, hne]

/-- a locus of another instance never watches this instance's compartments -/
theorem other_instance_unwatched (inst inst' c : Nat) (h : inst' ≠ inst) (x : Nat) :
    watchedK (.node inst' c) inst x = false ∧ ∀ L R pf, watchedK (.edge inst' L R pf) inst x = false := by
  simp [watchedK, h]

/-- a passive observer (a process whose handlers only observe) leaves the world, the random stream and the queue of the
    other processes untouched: adding it cannot change their event rates or their law -/
theorem observer_passive {K : Type} [LT K] [LE K] [DecidableLT K] [DecidableLE K] [Dyn.Arith K]
    (cfg : Sim.Cfg K) (t : K) (e : Elem) (s : Queue.St K (Sim.U K) Elem) :
    let s' := Queue.exec (Sim.runActs cfg [.observe] t e) s
    s'.u.w = s.u.w ∧ s'.u.rng = s.u.rng ∧ s'.q = s.q := by
  simp [Sim.runActs, Queue.exec]

example : leaves (.seq [.seq [.leaf 0], .seq [.leaf 1, .leaf 2]]) = [0, 1, 2] := by decide
example : lookupDeco [("p@a", 1), ("p", 2)] (some "a") "p" none = some 1 ∧ lookupDeco [("p@a", 1), ("p", 2)] (some "b") "p" none = some 2 := by decide

end C11
