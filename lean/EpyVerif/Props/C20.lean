import EpyVerif.Model.Pulse
import EpyVerif.Lemmas.QueueSpec
import EpyVerif.Lemmas.Dyn
import EpyVerif.Lemmas.Groups
/-!
# C20 — Pulse-coupled oscillators always have exactly one scheduled firing

Model: `Model/Pulse.lean` over the posted-event queue.  The oscillator arithmetic `Ops` is uninterpreted: the theorems hold for
every return map, rounding and period, under the one hypothesis that computed firing times are not in the past.
-/
set_option linter.unusedSectionVars false
open Queue Pulse
namespace C20

variable {K : Type} [LT K] [LE K] [DecidableLT K] [DecidableLE K] [Std.IsLinearOrder K] [Std.LawfulOrderLT K] [Dyn.Arith K]

/-! ### the node attribute as an association list -/

theorem lookup_set_self (l : List (Node × Nat)) (n : Node) (id : Nat) :
    ((n, id) :: l.filter (fun p => p.1 != n)).lookup n = some id := by simp [List.lookup]

theorem lookup_filter_ne (l : List (Node × Nat)) (n m : Node) (h : m ≠ n) :
    (l.filter (fun p => p.1 != n)).lookup m = l.lookup m := by
  induction l with
  | nil => rfl
  | cons p ps ih =>
    obtain ⟨a, b⟩ := p
    by_cases hp : a = n
    · subst hp
      have hm : (m == a) = false := by simpa using h
      simp [List.filter, List.lookup, hm, ih]
    · have h1 : ((a, b).1 != n) = true := by simpa using hp
      simp only [List.filter, h1, List.lookup]
      split
      · rfl
      · exact ih

theorem lookup_set_ne (l : List (Node × Nat)) (n m : Node) (id : Nat) (h : m ≠ n) :
    ((n, id) :: l.filter (fun p => p.1 != n)).lookup m = l.lookup m := by
  have : (m == n) = false := by simpa using h
  simp only [List.lookup, this]
  exact lookup_filter_ne l n m h

/-! ### the invariant -/

/-- node `n`'s stored event is pending for time `t` -/
def Due (s : St K (U K) Node) (n : Node) (t : K) : Prop := ∃ id, s.u.evid.lookup n = some id ∧ Pending s.q id t

/-- every node outside `ex` has exactly one pending firing event, which is the one it remembers; nodes in `ex` (the node
    whose event has just been taken off the queue) have none; nothing else is pending -/
structure One (ex : List Node) (s : St K (U K) Node) : Prop where
  fq : FQ s.q
  has : ∀ n ∈ s.u.nodes, n ∉ ex → ∃ t, Due s n t
  elem : ∀ x ∈ s.q.heap, x.live = true → x.elem ∈ s.u.nodes ∧ x.elem ∉ ex ∧ s.u.evid.lookup x.elem = some x.id
  lt : ∀ n id, s.u.evid.lookup n = some id → id < s.q.nextId
  gone : ∀ n ∈ ex, ∀ id, s.u.evid.lookup n = some id → ∀ t, ¬ Pending s.q id t
  inj : ∀ a b id, s.u.evid.lookup a = some id → s.u.evid.lookup b = some id → a = b

/-- **exactly one**: the pending events are in one-to-one correspondence with the nodes -/
theorem one_to_one {s : St K (U K) Node} (h : One [] s) :
    (∀ n ∈ s.u.nodes, ∃ id t, s.u.evid.lookup n = some id ∧ Pending s.q id t ∧
        ∀ id' t', Pending s.q id' t' → (∃ x ∈ s.q.heap, x.live = true ∧ x.id = id' ∧ x.elem = n) → id' = id ∧ t' = t) ∧
    (∀ id t, Pending s.q id t → ∃ n ∈ s.u.nodes, s.u.evid.lookup n = some id) := by
  constructor
  · intro n hn
    obtain ⟨t, id, hl, hp⟩ := h.has n hn (by simp)
    refine ⟨id, t, hl, hp, ?_⟩
    rintro id' t' hp' ⟨x, hx, hlive, hid, he⟩
    have := (h.elem x hx hlive).2.2
    rw [he, hl] at this
    have hid' : id' = id := by rw [← hid]; exact (Option.some.inj this).symm
    subst hid'
    exact ⟨rfl, pending_unique h.fq hp' hp⟩
  · rintro id t ⟨x, hx, hlive, hid, _⟩
    obtain ⟨a, _, c⟩ := h.elem x hx hlive
    exact ⟨x.elem, a, by rw [c, hid]⟩

/-- the invariant only looks at the queue, the node list and the stored ids -/
theorem One.congr {ex : List Node} {s s' : St K (U K) Node} (h : One ex s) (hq : s'.q = s.q) (hn : s'.u.nodes = s.u.nodes)
    (he : s'.u.evid = s.u.evid) : One ex s' := by
  refine ⟨by rw [hq]; exact h.fq, ?_, ?_, ?_, ?_, by rw [he]; exact h.inj⟩
  · intro n hn' hx; rw [hn] at hn'; obtain ⟨t, id, a, b⟩ := h.has n hn' hx; exact ⟨t, id, by rw [he]; exact a, by rw [hq]; exact b⟩
  · intro x hx hl; rw [hq] at hx; rw [hn, he]; exact h.elem x hx hl
  · intro n id hl; rw [he] at hl; rw [hq]; exact h.lt n id hl
  · intro n hn' id hl t; rw [he] at hl; rw [hq]; exact h.gone n hn' id hl t

/-! ### re-scheduling one node -/

/-- the queue after `unpostEvent(id, fatal=False)` of the node's current event, if it has one -/
def unpostOld (s : St K (U K) Node) (n : Node) : S K Node :=
  match s.u.evid.lookup n with
  | some old => (unpost s.q old).1
  | none => s.q

/-- the state after `setFiringTime(n, et)` -/
def setFTState (s : St K (U K) Node) (n : Node) (et : K) : St K (U K) Node :=
  let q1 := unpostOld s n
  { q := (post q1 et n 0).1, u := { s.u with evid := (n, q1.nextId) :: s.u.evid.filter (fun p => p.1 != n) } }

theorem unpost_fields (q : S K Node) (id : Nat) : (unpost q id).1.now = q.now ∧ (unpost q id).1.nextId = q.nextId := by
  unfold unpost; split <;> exact ⟨rfl, rfl⟩

theorem unpostOld_fields (s : St K (U K) Node) (n : Node) : (unpostOld s n).now = s.q.now ∧ (unpostOld s n).nextId = s.q.nextId := by
  unfold unpostOld; split
  · exact unpost_fields _ _
  · exact ⟨rfl, rfl⟩

theorem setFT_exec (s : St K (U K) Node) (n : Node) (et : K) (k : Prog K (U K) Node) (hp : ¬ et < s.q.now) :
    exec (setFT n et k) s = exec k (setFTState s n et) := by
  have hnow := (unpostOld_fields s n).1
  have hpost : ∀ q1 : S K Node, q1.now = s.q.now → (post q1 et n 0).2 = some q1.nextId := by
    intro q1 h1; unfold post; rw [h1]; simp [hp]
  unfold setFT setFTState unpostOld
  simp only [exec]
  cases hl : s.u.evid.lookup n with
  | none =>
    simp only [exec]
    rw [hpost s.q rfl]
    simp only [exec]
  | some old =>
    simp only [exec]
    rw [hpost _ (unpost_fields s.q old).1]
    simp only [exec]

/-- what un-posting the node's current event does to the queue, at the level of heap entries -/
theorem unpostOld_spec {ex : List Node} (s : St K (U K) Node) (n : Node) (h : One ex s) :
    FQ (unpostOld s n) ∧
    (∀ id t, Pending (unpostOld s n) id t ↔ (Pending s.q id t ∧ s.u.evid.lookup n ≠ some id)) ∧
    (∀ x ∈ (unpostOld s n).heap, x.live = true → x ∈ s.q.heap ∧ s.u.evid.lookup n ≠ some x.id) := by
  unfold unpostOld
  cases hl : s.u.evid.lookup n with
  | none => exact ⟨h.fq, fun id t => by simp, fun x hx _ => ⟨hx, by simp⟩⟩
  | some old =>
    simp only []
    cases hp : pendingTime s.q old with
    | none =>
      rw [unpost_missing s.q old hp]
      have hnp := (pendingTime_none h.fq old).1 hp
      refine ⟨h.fq, fun id t => ⟨fun hh => ⟨hh, fun he => ?_⟩, fun hh => hh.1⟩, fun x hx hlive => ⟨hx, fun he => ?_⟩⟩
      · have : old = id := Option.some.inj he
        subst this; exact hnp t hh
      · have : old = x.id := Option.some.inj he
        exact hnp x.time ⟨x, hx, hlive, this.symm, rfl⟩
    | some t0 =>
      obtain ⟨_, f1, f2⟩ := unpost_spec s.q old t0 h.fq hp
      refine ⟨f1, fun id t => ?_, ?_⟩
      · rw [f2 id t]
        constructor
        · rintro ⟨a, b⟩; exact ⟨b, fun he => a (Option.some.inj he).symm⟩
        · rintro ⟨a, b⟩; exact ⟨fun he => b (by rw [he]), a⟩
      · intro x hx hlive
        have hl' : lookup s.q.finder old = some t0 := hp
        unfold unpost at hx; simp only [hl'] at hx
        simp only [List.mem_map] at hx
        obtain ⟨y, hy, hyx⟩ := hx
        by_cases hid : y.id = old
        · simp only [hid, if_true] at hyx; rw [← hyx] at hlive; simp at hlive
        · simp only [hid, if_false] at hyx; subst hyx
          exact ⟨hy, fun he => hid (Option.some.inj he).symm⟩

theorem post_fields (q : S K Node) (t : K) (e : Node) (hh : Nat) (hp : ¬ t < q.now) :
    (post q t e hh).1.heap = Queue.insert ⟨t, q.nextId, e, hh, true⟩ q.heap ∧ (post q t e hh).1.nextId = q.nextId + 1 ∧
    (post q t e hh).1.now = q.now := by
  unfold post; simp [hp]

/-- **re-scheduling keeps the invariant**: after `setFiringTime(n, et)` node `n` is due at `et` (and is no longer an exception),
    every other node is due exactly when it was, and nothing else is pending -/
theorem setFT_one {ex : List Node} (s : St K (U K) Node) (n : Node) (et : K) (h : One ex s) (hn : n ∈ s.u.nodes)
    (hp : ¬ et < s.q.now) :
    One (ex.filter (· != n)) (setFTState s n et) ∧ Due (setFTState s n et) n et ∧
    (∀ m, m ≠ n → ∀ t, Due (setFTState s n et) m t ↔ Due s m t) ∧
    (setFTState s n et).q.now = s.q.now ∧ (setFTState s n et).u.nodes = s.u.nodes ∧ (setFTState s n et).u.adj = s.u.adj ∧
    (setFTState s n et).u.ftimes = s.u.ftimes ∧ (setFTState s n et).u.fnodes = s.u.fnodes ∧
    (setFTState s n et).u.perms = s.u.perms := by
  obtain ⟨u1, u2, u3⟩ := unpostOld_spec s n h
  obtain ⟨f1, f2⟩ := unpostOld_fields s n
  have hp1 : ¬ et < (unpostOld s n).now := by rw [f1]; exact hp
  obtain ⟨_, p1, p2⟩ := post_spec (unpostOld s n) et n 0 u1 hp1
  obtain ⟨g1, g2, g3⟩ := post_fields (unpostOld s n) et n 0 hp1
  have hself : (setFTState s n et).u.evid.lookup n = some (unpostOld s n).nextId := lookup_set_self _ _ _
  have hother : ∀ m, m ≠ n → (setFTState s n et).u.evid.lookup m = s.u.evid.lookup m := fun m hm => lookup_set_ne _ _ _ _ hm
  have hq : (setFTState s n et).q = (post (unpostOld s n) et n 0).1 := rfl
  have hfresh : ∀ a id, s.u.evid.lookup a = some id → id ≠ (unpostOld s n).nextId := by
    intro a id hl he; have := h.lt a id hl; rw [f2] at he; omega
  have hdueN : Due (setFTState s n et) n et := ⟨_, hself, by rw [hq, p2]; exact Or.inl ⟨rfl, rfl⟩⟩
  have hframe : ∀ m, m ≠ n → ∀ t, Due (setFTState s n et) m t ↔ Due s m t := by
    intro m hm t
    constructor
    · rintro ⟨id, hl, hpd⟩
      rw [hother m hm] at hl
      rw [hq, p2] at hpd
      rcases hpd with ⟨he, _⟩ | hpd
      · exact absurd he (hfresh m id hl)
      · exact ⟨id, hl, ((u2 id t).1 hpd).1⟩
    · rintro ⟨id, hl, hpd⟩
      refine ⟨id, by rw [hother m hm]; exact hl, ?_⟩
      rw [hq, p2]
      exact Or.inr ((u2 id t).2 ⟨hpd, fun he => hm (h.inj m n id hl he)⟩)
  refine ⟨⟨by rw [hq]; exact p1, ?_, ?_, ?_, ?_, ?_⟩, hdueN, hframe, by rw [hq, g3, f1], rfl, rfl, rfl, rfl, rfl⟩
  · intro m hm hmx
    by_cases hmn : m = n
    · subst hmn; exact ⟨et, hdueN⟩
    · have : m ∉ ex := fun hh => hmx (List.mem_filter.2 ⟨hh, by simpa using hmn⟩)
      obtain ⟨t, hd⟩ := h.has m hm this
      exact ⟨t, (hframe m hmn t).2 hd⟩
  · intro x hx hlive
    rw [hq, g1, mem_insert] at hx
    rcases hx with rfl | hx
    · exact ⟨hn, by simp [List.mem_filter], hself⟩
    · obtain ⟨hx0, hne⟩ := u3 x hx hlive
      obtain ⟨a, b, c⟩ := h.elem x hx0 hlive
      have hxn : x.elem ≠ n := fun he => hne (by rw [← he]; exact c)
      exact ⟨a, fun hh => b (List.mem_filter.1 hh).1, by rw [hother _ hxn]; exact c⟩
  · intro a id hl
    rw [hq, g2]
    by_cases han : a = n
    · subst han; rw [hself] at hl; have := Option.some.inj hl; omega
    · rw [hother a han] at hl; have := h.lt a id hl; rw [f2]; omega
  · intro a ha id hl t hpd
    obtain ⟨ha1, ha2⟩ := List.mem_filter.1 ha
    have han : a ≠ n := by simpa using ha2
    rw [hother a han] at hl
    rw [hq, p2] at hpd
    rcases hpd with ⟨he, _⟩ | hpd
    · exact hfresh a id hl he
    · exact h.gone a ha1 id hl t ((u2 id t).1 hpd).1
  · intro a b id hla hlb
    by_cases han : a = n <;> by_cases hbn : b = n
    · rw [han, hbn]
    · subst han; rw [hself] at hla; rw [hother b hbn] at hlb
      exact absurd (Option.some.inj hla).symm (hfresh b id hlb)
    · subst hbn; rw [hself] at hlb; rw [hother a han] at hla
      exact absurd (Option.some.inj hlb).symm (hfresh a id hla)
    · rw [hother a han] at hla; rw [hother b hbn] at hlb; exact h.inj a b id hla hlb

/-! ### reading a node's firing time -/

theorem due_unique {ex : List Node} {s : St K (U K) Node} (h : One ex s) {n : Node} {t t' : K} (h1 : Due s n t) (h2 : Due s n t') : t = t' := by
  obtain ⟨id, a, b⟩ := h1
  obtain ⟨id', a', b'⟩ := h2
  rw [a] at a'; have := Option.some.inj a'; subst this
  exact pending_unique h.fq b b'

theorem getFT_exec {ex : List Node} (s : St K (U K) Node) (m : Node) (k : K → Prog K (U K) Node) (h : One ex s)
    (hm : m ∈ s.u.nodes) (hx : m ∉ ex) : ∃ ft, Due s m ft ∧ exec (getFT m k) s = exec (k ft) s := by
  obtain ⟨t, id, hl, hp⟩ := h.has m hm hx
  refine ⟨t, ⟨id, hl, hp⟩, ?_⟩
  have := (pendingTime_iff h.fq id t).2 hp
  unfold getFT
  simp only [exec, hl, this]

/-! ### the cascade -/

/-- the firing time a bumped node ends up with: a function of the time and its previous firing time only -/
def cascadeTime (O : Ops K) (t ft : K) : K :=
  let phi := O.phaseOf t ft
  if O.isEnd (O.state phi) then ft
  else if O.isEnd (O.phaseOf t (O.fireAt t (O.bump phi))) then O.fireAt t O.zero else O.fireAt t (O.bump phi)

/-- what the invariant and the rest of the world look like from one state to a later one -/
structure Same (s s' : St K (U K) Node) : Prop where
  now : s'.q.now = s.q.now
  nodes : s'.u.nodes = s.u.nodes
  adj : s'.u.adj = s.u.adj
  ftimes : s'.u.ftimes = s.u.ftimes
  fnodes : s'.u.fnodes = s.u.fnodes
  perms : s'.u.perms = s.u.perms

theorem Same.refl (s : St K (U K) Node) : Same s s := ⟨rfl, rfl, rfl, rfl, rfl, rfl⟩
theorem Same.trans {a b c : St K (U K) Node} (h1 : Same a b) (h2 : Same b c) : Same a c :=
  ⟨h2.now.trans h1.now, h2.nodes.trans h1.nodes, h2.adj.trans h1.adj, h2.ftimes.trans h1.ftimes, h2.fnodes.trans h1.fnodes,
   h2.perms.trans h1.perms⟩

theorem setFT_step (s : St K (U K) Node) (n : Node) (et : K) (k : Prog K (U K) Node) (h : One [] s) (hn : n ∈ s.u.nodes)
    (hp : ¬ et < s.q.now) :
    ∃ s', exec (setFT n et k) s = exec k s' ∧ One [] s' ∧ Due s' n et ∧ (∀ m, m ≠ n → ∀ t, Due s' m t ↔ Due s m t) ∧ Same s s' := by
  obtain ⟨a, b, c, d1, d2, d3, d4, d5, d6⟩ := setFT_one s n et h hn hp
  exact ⟨setFTState s n et, setFT_exec s n et k hp, by simpa using a, b, c, ⟨d1, d2, d3, d4, d5, d6⟩⟩

/-- **one bumped node**: the invariant is kept, the node ends up due at `cascadeTime`, nobody else moves -/
theorem cascade_step (O : Ops K) (hfw : ∀ t phi, ¬ O.fireAt t phi < t) (t : K) (m : Node) (k : Prog K (U K) Node)
    (s : St K (U K) Node) (h : One [] s) (hm : m ∈ s.u.nodes) (hnow : s.q.now = t) :
    ∃ s', exec (cascade O t m k) s = exec k s' ∧ One [] s' ∧ (∀ ft, Due s m ft → Due s' m (cascadeTime O t ft)) ∧
      (∀ a, a ≠ m → ∀ x, Due s' a x ↔ Due s a x) ∧ Same s s' := by
  obtain ⟨ft, hd, he⟩ := getFT_exec s m _ h hm (by simp)
  unfold cascade
  rw [he]
  simp only []
  by_cases hend : O.isEnd (O.state (O.phaseOf t ft)) = true
  · simp only [hend, if_true]
    refine ⟨s, rfl, h, ?_, fun _ _ _ => Iff.rfl, Same.refl s⟩
    intro ft' hd'
    have := due_unique h hd hd'; subst this
    simpa [cascadeTime, hend] using hd
  · simp only [hend, Bool.false_eq_true, if_false]
    obtain ⟨s1, e1, o1, d1, fr1, sm1⟩ := setFT_step s m (O.fireAt t (O.bump (O.phaseOf t ft))) _ h hm (by rw [hnow]; exact hfw _ _)
    rw [e1]
    obtain ⟨ft1, hd1, he1⟩ := getFT_exec s1 m _ o1 (by rw [sm1.nodes]; exact hm) (by simp)
    rw [he1]
    have hft1 : ft1 = O.fireAt t (O.bump (O.phaseOf t ft)) := due_unique o1 hd1 d1
    by_cases hend2 : O.isEnd (O.phaseOf t ft1) = true
    · simp only [hend2, if_true]
      obtain ⟨s2, e2, o2, d2, fr2, sm2⟩ := setFT_step s1 m (O.fireAt t O.zero) k o1 (by rw [sm1.nodes]; exact hm)
        (by rw [sm1.now, hnow]; exact hfw _ _)
      refine ⟨s2, e2, o2, ?_, fun a ha x => (fr2 a ha x).trans (fr1 a ha x), sm1.trans sm2⟩
      intro ft' hd'
      have := due_unique h hd hd'; subst this
      rw [hft1] at hend2
      simpa [cascadeTime, hend, hend2] using d2
    · simp only [hend2, Bool.false_eq_true, if_false]
      refine ⟨s1, rfl, o1, ?_, fr1, sm1⟩
      intro ft' hd'
      have := due_unique h hd hd'; subst this
      rw [hft1] at hend2
      simpa [cascadeTime, hend, hend2] using d1

/-- the whole cascade of one firing: the invariant is kept, the firing node is not touched -/
theorem cascades_spec (O : Ops K) (hfw : ∀ t phi, ¬ O.fireAt t phi < t) (t : K) (n : Node) : ∀ (ms : List Node) (s : St K (U K) Node),
    One [] s → (∀ m ∈ ms, m ∈ s.u.nodes) → s.q.now = t →
    One [] (exec (cascades O t n ms) s) ∧ (∀ x, Due (exec (cascades O t n ms) s) n x ↔ Due s n x) ∧ Same s (exec (cascades O t n ms) s) := by
  intro ms
  induction ms with
  | nil => intro s h _ _; exact ⟨h, fun _ => Iff.rfl, Same.refl s⟩
  | cons m ms ih =>
    intro s h hall hnow
    unfold cascades
    by_cases hmn : m = n
    · simp only [hmn, if_true]
      exact ih s h (fun x hx => hall x (List.mem_cons_of_mem _ hx)) hnow
    · simp only [hmn, if_false]
      obtain ⟨s1, e1, o1, _, fr1, sm1⟩ := cascade_step O hfw t m (cascades O t n ms) s h (hall m List.mem_cons_self) hnow
      rw [e1]
      obtain ⟨a, b, c⟩ := ih s1 o1 (fun x hx => by rw [sm1.nodes]; exact hall x (List.mem_cons_of_mem _ hx)) (by rw [sm1.now]; exact hnow)
      exact ⟨a, fun x => (b x).trans (fr1 n (fun hh => hmn hh.symm) x), sm1.trans c⟩

/-! ### one firing -/

theorem fail_exec (msg : String) (s : St K (U K) Node) :
    exec (fail msg : Prog K (U K) Node) s = { s with u := { s.u with err := some msg } } := by
  simp [fail, exec]

/-- **a firing**: started in the state where `n`'s event has just been taken off the queue, the event `fired(t, n)` ends with
    every node having exactly one pending firing again, `n` due exactly `fireAt t 0` (one period later), and — unless the
    model flags an error — exactly `(t, n)` appended to the firing log -/
theorem fired_spec (O : Ops K) (hfw : ∀ t phi, ¬ O.fireAt t phi < t) (t : K) (n : Node) (s : St K (U K) Node)
    (h : One [n] s) (hn : n ∈ s.u.nodes) (hnow : s.q.now = t) (hadj : ∀ m ∈ s.u.adj n, m ∈ s.u.nodes) :
    One [] (exec (fired O t n) s) ∧ Due (exec (fired O t n) s) n (O.fireAt t O.zero) ∧
    (exec (fired O t n) s).q.now = t ∧ (exec (fired O t n) s).u.nodes = s.u.nodes ∧ (exec (fired O t n) s).u.adj = s.u.adj ∧
    (((exec (fired O t n) s).u.ftimes = s.u.ftimes ++ [t] ∧ (exec (fired O t n) s).u.fnodes = s.u.fnodes ++ [n]) ∨
     ((exec (fired O t n) s).u.err.isSome ∧ (exec (fired O t n) s).u.ftimes = s.u.ftimes ∧ (exec (fired O t n) s).u.fnodes = s.u.fnodes)) := by
  have hp : ¬ O.fireAt t O.zero < s.q.now := by rw [hnow]; exact hfw _ _
  obtain ⟨o1, d1, _, e1, e2, e3, e4, e5, e6⟩ := setFT_one s n (O.fireAt t O.zero) h hn hp
  have o1' : One [] (setFTState s n (O.fireAt t O.zero)) := by simpa using o1
  unfold fired
  rw [setFT_exec s n _ _ hp]
  generalize setFTState s n (O.fireAt t O.zero) = s1 at *
  have e1' : s1.q.now = t := e1.trans hnow
  have failcase : ∀ msg : String,
      One [] (exec (fail msg : Prog K (U K) Node) s1) ∧ Due (exec (fail msg : Prog K (U K) Node) s1) n (O.fireAt t O.zero) ∧
      (exec (fail msg : Prog K (U K) Node) s1).q.now = t ∧ (exec (fail msg : Prog K (U K) Node) s1).u.nodes = s.u.nodes ∧
      (exec (fail msg : Prog K (U K) Node) s1).u.adj = s.u.adj ∧
      (((exec (fail msg : Prog K (U K) Node) s1).u.ftimes = s.u.ftimes ++ [t] ∧ (exec (fail msg : Prog K (U K) Node) s1).u.fnodes = s.u.fnodes ++ [n]) ∨
       ((exec (fail msg : Prog K (U K) Node) s1).u.err.isSome ∧ (exec (fail msg : Prog K (U K) Node) s1).u.ftimes = s.u.ftimes ∧
        (exec (fail msg : Prog K (U K) Node) s1).u.fnodes = s.u.fnodes)) := by
    intro msg
    rw [fail_exec]
    refine ⟨o1'.congr rfl rfl rfl, ?_, e1', e2, e3, Or.inr ⟨rfl, e4, e5⟩⟩
    obtain ⟨id, a, b⟩ := d1; exact ⟨id, a, b⟩
  unfold firedTail
  simp only [exec]
  cases hperm : s1.u.perms with
  | nil => exact failcase _
  | cons order rest =>
    simp only []
    by_cases hok : order.isPerm ((s1.u.adj n).eraseDups.filter (· != n)) = true
    · simp only [hok, Bool.not_true, Bool.false_eq_true, if_false, exec]
      have hmem : ∀ m ∈ order, m ∈ s.u.nodes := by
        intro m hm
        have := (List.isPerm_iff.1 hok).mem_iff.1 hm
        rw [e3] at this
        exact hadj m (List.mem_eraseDups.1 (List.mem_filter.1 this).1)
      generalize hs2 : ({ s1 with u := logged s1.u t n rest } : St K (U K) Node) = s2
      have q2 : s2.q = s1.q := by rw [← hs2]
      have n2 : s2.u.nodes = s1.u.nodes := by rw [← hs2]; rfl
      have v2 : s2.u.evid = s1.u.evid := by rw [← hs2]; rfl
      have o2 : One [] s2 := o1'.congr q2 n2 v2
      have d2 : Due s2 n (O.fireAt t O.zero) := by obtain ⟨id, a, b⟩ := d1; exact ⟨id, by rw [v2]; exact a, by rw [q2]; exact b⟩
      obtain ⟨c1, c2, c3⟩ := cascades_spec O hfw t n order s2 o2 (fun m hm => by rw [n2, e2]; exact hmem m hm) (by rw [q2]; exact e1')
      refine ⟨c1, (c2 _).2 d2, by rw [c3.now, q2]; exact e1', by rw [c3.nodes, n2]; exact e2, by rw [c3.adj, ← hs2]; exact e3,
        Or.inl ⟨by rw [c3.ftimes, ← hs2]; show _ ++ [t] = _; rw [e4], by rw [c3.fnodes, ← hs2]; show _ ++ [n] = _; rw [e5]⟩⟩
    · have : (!order.isPerm ((s1.u.adj n).eraseDups.filter (· != n))) = true := by simpa using hok
      simp only [this, if_true]
      exact failcase _

/-! ### taking the next firing off the queue -/

/-- popping the earliest event leaves exactly its node without a scheduled firing -/
theorem after_pop (s : St K (U K) Node) (bound : K) (q1 : S K Node) (x : Entry K Node) (h : One [] s)
    (hp : popBefore s.q bound = some (q1, x)) :
    One [x.elem] { s with q := q1 } ∧ x.elem ∈ s.u.nodes ∧ q1.now = x.time := by
  obtain ⟨hxp, _, fq1, hnow, _, hrest⟩ := pop_spec s.q q1 bound x h.fq hp
  obtain ⟨hxmem, hlive, _, _, hnid, _, hsub, _⟩ := Dyn.popBefore_spec (⟨h.fq.sorted, h.fq.ids⟩ : Dyn.Inv0 s.q) hp
  obtain ⟨xa, _, xc⟩ := h.elem x hxmem hlive
  refine ⟨⟨fq1, ?_, ?_, ?_, ?_, h.inj⟩, xa, hnow⟩
  · intro m hm hmx
    obtain ⟨t, id, hl, hpd⟩ := h.has m hm (by simp)
    refine ⟨t, id, hl, (hrest id t).2 ⟨fun he => hmx ?_, hpd⟩⟩
    rw [he] at hl; simp [h.inj m x.elem x.id hl xc]
  · intro z hz hzl
    obtain ⟨a, _, c⟩ := h.elem z (hsub z hz).1 hzl
    refine ⟨a, ?_, c⟩
    intro he
    have he' : z.elem = x.elem := by simpa using he
    rw [he', xc] at c
    have hzid : z.id = x.id := (Option.some.inj c).symm
    exact ((hrest z.id z.time).1 ⟨z, hz, hzl, rfl, rfl⟩).1 hzid
  · intro n id hl; show id < q1.nextId; rw [hnid]; exact h.lt n id hl
  · intro n hn id hl t hpd
    have hn' : n = x.elem := by simpa using hn
    subst hn'
    rw [xc] at hl
    exact ((hrest id t).1 hpd).1 (Option.some.inj hl).symm

/-- closed adjacency: neighbours are nodes (the network is a graph on its own node set) -/
def Closed (u : U K) : Prop := ∀ n ∈ u.nodes, ∀ m ∈ u.adj n, m ∈ u.nodes

/-- the event tap of the dynamics only observes -/
def TapOK (tap : Dyn.Fired K Node Unit → St K (U K) Node → U K) : Prop :=
  ∀ ev s, (tap ev s).nodes = s.u.nodes ∧ (tap ev s).evid = s.u.evid ∧ (tap ev s).adj = s.u.adj

/-- **every executed firing keeps the invariant**: one step of `runPendingEvents` -/
theorem firePosted_one (O : Ops K) (hfw : ∀ t phi, ¬ O.fireAt t phi < t) (maxT bound : K) (tap : Dyn.Fired K Node Unit → St K (U K) Node → U K)
    (htap : TapOK tap) (s s' : St K (U K) Node) (ev : Dyn.Fired K Node Unit) (h : One [] s) (hc : Closed s.u)
    (hf : Dyn.firePosted (mkProc O maxT tap) bound s = some (s', ev)) :
    One [] s' ∧ Closed s'.u ∧ Due s' ev.elem (O.fireAt ev.own O.zero) := by
  unfold Dyn.firePosted at hf
  split at hf
  · simp at hf
  · rename_i q1 x hp
    simp only [Option.some.injEq, Prod.mk.injEq] at hf
    obtain ⟨o1, xn, hnow⟩ := after_pop s bound q1 x h hp
    obtain ⟨a, b, c, d, e, _⟩ := fired_spec O hfw x.time x.elem { s with q := q1 } o1 xn hnow (hc x.elem xn)
    obtain ⟨t1, t2, t3⟩ := htap ⟨true, x.time, x.time, q1.now, x.time, x.hid, x.elem, none, true, x.id⟩
      (exec (fired O x.time x.elem) { s with q := q1 })
    rw [← hf.1, ← hf.2]
    simp only [mkProc]
    refine ⟨a.congr rfl t1 t2, ?_, ?_⟩
    · intro n hn m hm
      rw [t1, d] at hn ⊢; rw [t3, e] at hm
      exact hc n hn m hm
    · obtain ⟨id, l1, l2⟩ := b
      exact ⟨id, by show (tap _ _).evid.lookup x.elem = _; rw [t2]; exact l1, l2⟩

/-- … and so does a whole batch -/
theorem runPending_one (O : Ops K) (hfw : ∀ t phi, ¬ O.fireAt t phi < t) (maxT bound : K) (tap : Dyn.Fired K Node Unit → St K (U K) Node → U K)
    (htap : TapOK tap) : ∀ (fuel : Nat) (s : St K (U K) Node) (tr : List (Dyn.Fired K Node Unit)), One [] s → Closed s.u →
      One [] (Dyn.runPending (mkProc O maxT tap) bound fuel s tr).1 ∧ Closed (Dyn.runPending (mkProc O maxT tap) bound fuel s tr).1.u := by
  intro fuel
  induction fuel with
  | zero => intro s tr h hc; exact ⟨h, hc⟩
  | succ f ih =>
    intro s tr h hc
    unfold Dyn.runPending
    split
    · exact ⟨h, hc⟩
    · rename_i s' ev hf
      obtain ⟨a, b, _⟩ := firePosted_one O hfw maxT bound tap htap s s' ev h hc hf
      exact ih s' _ a b

/-! ### set-up -/

/-- `initialisePhases()`: every node it visits gets its one pending firing (given a random number for each) -/
theorem initPhases_one (O : Ops K) (hfw : ∀ t phi, ¬ O.fireAt t phi < t) : ∀ (ns : List Node) (ex : List Node) (s : St K (U K) Node),
    One ex s → (∀ n ∈ ns, n ∈ s.u.nodes) → s.q.now = O.start → ns.length ≤ s.u.rng.length →
    One (ex.filter (fun a => !ns.contains a)) (exec (initPhases O ns) s) ∧ (exec (initPhases O ns) s).u.nodes = s.u.nodes ∧
    (exec (initPhases O ns) s).u.adj = s.u.adj := by
  intro ns
  induction ns with
  | nil =>
    intro ex s h _ _ _
    have : ex.filter (fun a => !([] : List Node).contains a) = ex := by simp
    rw [this]; exact ⟨h, rfl, rfl⟩
  | cons n ns ih =>
    intro ex s h hall hnow hrng
    unfold initPhases
    simp only [exec]
    cases hr : s.u.rng with
    | nil => rw [hr] at hrng; simp at hrng
    | cons r rest =>
      simp only [exec]
      generalize hs1 : ({ s with u := { s.u with rng := rest } } : St K (U K) Node) = s1
      have o1 : One ex s1 := h.congr (by rw [← hs1]) (by rw [← hs1]) (by rw [← hs1])
      have hn1 : n ∈ s1.u.nodes := by rw [← hs1]; exact hall n List.mem_cons_self
      have hp1 : ¬ O.fireAt O.start (O.ofState r) < s1.q.now := by rw [← hs1]; show ¬ _ < s.q.now; rw [hnow]; exact hfw _ _
      obtain ⟨o2, _, _, g1, g2, g3, _⟩ := setFT_one s1 n (O.fireAt O.start (O.ofState r)) o1 hn1 hp1
      rw [setFT_exec s1 n _ _ hp1]
      have hrng2 : ns.length ≤ (setFTState s1 n (O.fireAt O.start (O.ofState r))).u.rng.length := by
        show ns.length ≤ s1.u.rng.length; rw [← hs1]; show ns.length ≤ rest.length
        rw [hr] at hrng; simp at hrng; omega
      obtain ⟨a, b, c⟩ := ih (ex.filter (· != n)) (setFTState s1 n (O.fireAt O.start (O.ofState r))) o2
        (fun m hm => by rw [g2, ← hs1]; exact hall m (List.mem_cons_of_mem _ hm)) (by rw [g1, ← hs1]; exact hnow) hrng2
      refine ⟨?_, by rw [b, g2, ← hs1], by rw [c, g3, ← hs1]⟩
      have : (ex.filter (· != n)).filter (fun a => !ns.contains a) = ex.filter (fun a => !(n :: ns).contains a) := by
        rw [List.filter_filter]; congr 1; funext a
        by_cases h1 : a = n
        · subst h1; simp
        · have h2 : (a == n) = false := by simpa using h1
          simp [List.contains_cons, h2, h1]
      rw [← this]; exact a

/-- **the start of every run**: from the empty queue of a new run (C10) with no stored ids, after `initialisePhases()` every
    node has exactly one pending firing event (given one random number per node) -/
theorem start_one (O : Ops K) (hfw : ∀ t phi, ¬ O.fireAt t phi < t) (u : U K) (hev : u.evid = []) (hrng : u.nodes.length ≤ u.rng.length) :
    One [] (exec (initPhases O u.nodes) { q := { heap := [], finder := [], nextId := 0, now := O.start }, u := u }) := by
  have h0 : One u.nodes ({ q := { heap := [], finder := [], nextId := 0, now := O.start }, u := u } : St K (U K) Node) := by
    refine ⟨⟨by simp, by simp, by simp, by simp, by intro id t; simp [Pending]⟩, fun n hn hx => absurd hn hx, by simp,
      by intro n id hl; simp [hev] at hl, by intro n _ id hl; simp [hev] at hl, by intro a b id hl; simp [hev] at hl⟩
  have := (initPhases_one O hfw u.nodes u.nodes _ h0 (fun n hn => hn) rfl hrng).1
  have he : u.nodes.filter (fun a => !u.nodes.contains a) = [] := by
    apply List.filter_eq_nil_iff.2; intro a ha; simpa using ha
  rw [he] at this; exact this

/-! ### synchrony on a complete network -/

/-- two bumped nodes that were due at the same time are due at the same time afterwards (each one's new time is
    `cascadeTime`, a function of the time and its old firing time only): synchronised nodes stay synchronised through a cascade -/
theorem sync_pair (O : Ops K) (hfw : ∀ t phi, ¬ O.fireAt t phi < t) (t ft : K) (m1 m2 : Node) (k : Prog K (U K) Node)
    (s : St K (U K) Node) (h : One [] s) (h1 : m1 ∈ s.u.nodes) (h2 : m2 ∈ s.u.nodes) (hne : m1 ≠ m2) (hnow : s.q.now = t)
    (d1 : Due s m1 ft) (d2 : Due s m2 ft) :
    ∃ s', exec (cascade O t m1 (cascade O t m2 k)) s = exec k s' ∧ One [] s' ∧
      Due s' m1 (cascadeTime O t ft) ∧ Due s' m2 (cascadeTime O t ft) := by
  obtain ⟨s1, e1, o1, c1, f1, sm1⟩ := cascade_step O hfw t m1 (cascade O t m2 k) s h h1 hnow
  obtain ⟨s2, e2, o2, c2, f2, _⟩ := cascade_step O hfw t m2 k s1 o1 (by rw [sm1.nodes]; exact h2) (by rw [sm1.now]; exact hnow)
  refine ⟨s2, by rw [e1, e2], o2, (f2 m1 hne _).2 (c1 ft d1), c2 ft ((f1 m2 (fun hh => hne hh.symm) ft).2 d2)⟩

/-- **the counting argument**: every node bumped by one cascade at time `t` goes from its due time `φ m` to `cascadeTime O t (φ m)`
    (`cascade_step`), one function of the old due time; hence among the bumped nodes the number of distinct due times does not
    grow, no synchronised group shrinks, and a group of size `m` stays one of size at least `m` -/
theorem cascade_groups [DecidableEq K] (O : Ops K) (t : K) (bumped : Finset Node) (φ : Node → K) :
    (bumped.image (fun n => cascadeTime O t (φ n))).card ≤ (bumped.image φ).card ∧
    (∀ a ∈ bumped, (bumped.filter (fun b => φ b = φ a)).card ≤ (bumped.filter (fun b => cascadeTime O t (φ b) = cascadeTime O t (φ a))).card) ∧
    ∀ m, (∃ a ∈ bumped, m ≤ (bumped.filter (fun b => φ b = φ a)).card) →
      ∃ a ∈ bumped, m ≤ (bumped.filter (fun b => cascadeTime O t (φ b) = cascadeTime O t (φ a))).card :=
  ⟨(Groups.through bumped φ (cascadeTime O t)).1, (Groups.through bumped φ (cascadeTime O t)).2,
   fun m hm => Groups.largest bumped φ (fun n => cascadeTime O t (φ n)) (fun _ _ _ _ e => congrArg _ e) m hm⟩

/-! ### phases -/

/-- `max(min(x, 1), 0)` lies in `[0, 1]` whatever `x` is -/
theorem clamp_range (zero one x : K) (h01 : zero ≤ one) :
    let m := if one < x then one else x
    let c := if m < zero then zero else m
    zero ≤ c ∧ c ≤ one := by
  intro m c
  by_cases h1 : one < x
  · have hm : m = one := by simp [m, h1]
    have : ¬ one < zero := Std.not_lt.2 h01
    simp only [c, hm, this, if_false]; exact ⟨h01, Std.le_refl _⟩
  · have hm : m = x := by simp [m, h1]
    by_cases h2 : x < zero
    · simp only [c, hm, h2, if_true]; exact ⟨Std.le_refl _, h01⟩
    · simp only [c, hm, h2, if_false]; exact ⟨Std.not_lt.1 h2, Std.not_lt.1 h1⟩

/-! ### due no more than one period ahead

`ub t` stands for "one period after `t`" (rounded as the code rounds).  The two facts assumed of the arithmetic are that a
computed firing time never exceeds it and that it is monotone; they hold for `round(t + φ'·period, 5)` with `φ' ∈ [0,1]` and
are exercised, not proved, for doubles. -/

/-- nothing is pending in the past, and every node's firing is due no later than one period after the current time -/
structure Sched (ub : K → K) (s : St K (U K) Node) : Prop where
  nopast : ∀ id x, Pending s.q id x → s.q.now ≤ x
  within : ∀ n x, Due s n x → x ≤ ub s.q.now

theorem cascadeTime_le (O : Ops K) (ub : K → K) (hub : ∀ t phi, O.fireAt t phi ≤ ub t) (t ft : K) (h : ft ≤ ub t) :
    cascadeTime O t ft ≤ ub t := by
  unfold cascadeTime; simp only []
  split
  · exact h
  · split <;> exact hub _ _

theorem setFT_sched (ub : K → K) {ex : List Node} (s : St K (U K) Node) (n : Node) (et : K) (h : One ex s) (hn : n ∈ s.u.nodes)
    (hp : ¬ et < s.q.now) (hle : et ≤ ub s.q.now) (hs : Sched ub s) : Sched ub (setFTState s n et) := by
  obtain ⟨u1, u2, _⟩ := unpostOld_spec s n h
  obtain ⟨f1, f2⟩ := unpostOld_fields s n
  have hp1 : ¬ et < (unpostOld s n).now := by rw [f1]; exact hp
  obtain ⟨_, _, p2⟩ := post_spec (unpostOld s n) et n 0 u1 hp1
  obtain ⟨_, d1, fr, e1, _⟩ := setFT_one s n et h hn hp
  refine ⟨?_, ?_⟩
  · intro id x hpd
    rw [e1]
    have : Pending (post (unpostOld s n) et n 0).1 id x := hpd
    rw [p2] at this
    rcases this with ⟨_, rfl⟩ | hh
    · exact Std.not_lt.1 hp
    · exact hs.nopast id x ((u2 id x).1 hh).1
  · intro m x hd
    rw [e1]
    by_cases hm : m = n
    · subst hm
      have o1 := (setFT_one s m et h hn hp).1
      rw [due_unique o1 hd d1]; exact hle
    · exact hs.within m x ((fr m hm x).1 hd)

theorem due_node {ex : List Node} {s : St K (U K) Node} (h : One ex s) {a : Node} {x : K} (hd : Due s a x) : a ∈ s.u.nodes := by
  obtain ⟨id, hl, ⟨y, hy, hlive, hid, _⟩⟩ := hd
  obtain ⟨p1, _, p3⟩ := h.elem y hy hlive
  rw [hid] at p3
  rw [h.inj a y.elem id hl p3]; exact p1

theorem cascade_sched (O : Ops K) (hfw : ∀ t phi, ¬ O.fireAt t phi < t) (ub : K → K) (hub : ∀ t phi, O.fireAt t phi ≤ ub t)
    (t : K) (m : Node) (k : Prog K (U K) Node) (s : St K (U K) Node) (h : One [] s) (hm : m ∈ s.u.nodes) (hnow : s.q.now = t)
    (hs : Sched ub s) :
    ∃ s', exec (cascade O t m k) s = exec k s' ∧ One [] s' ∧ Sched ub s' ∧ (∀ a, a ≠ m → ∀ x, Due s' a x ↔ Due s a x) ∧ Same s s' := by
  -- replay the three possible paths of the cascade, carrying the schedule bound along
  obtain ⟨ft, hd, he⟩ := getFT_exec s m _ h hm (by simp)
  unfold cascade
  rw [he]
  simp only []
  by_cases hend : O.isEnd (O.state (O.phaseOf t ft)) = true
  · simp only [hend, if_true]
    exact ⟨s, rfl, h, hs, fun _ _ _ => Iff.rfl, Same.refl s⟩
  · simp only [hend, Bool.false_eq_true, if_false]
    have hp1 : ¬ O.fireAt t (O.bump (O.phaseOf t ft)) < s.q.now := by rw [hnow]; exact hfw _ _
    obtain ⟨o1, d1, fr1, g1, g2, g3, g4, g5, g6⟩ := setFT_one s m (O.fireAt t (O.bump (O.phaseOf t ft))) h hm hp1
    have o1' : One [] (setFTState s m (O.fireAt t (O.bump (O.phaseOf t ft)))) := by simpa using o1
    have sc1 := setFT_sched ub s m _ h hm hp1 (by rw [hnow]; exact hub _ _) hs
    rw [setFT_exec s m _ _ hp1]
    generalize setFTState s m (O.fireAt t (O.bump (O.phaseOf t ft))) = s1 at *
    have sm1 : Same s s1 := ⟨g1, g2, g3, g4, g5, g6⟩
    obtain ⟨ft1, hd1, he1⟩ := getFT_exec s1 m _ o1' (by rw [g2]; exact hm) (by simp)
    rw [he1]
    by_cases hend2 : O.isEnd (O.phaseOf t ft1) = true
    · simp only [hend2, if_true]
      have hp2 : ¬ O.fireAt t O.zero < s1.q.now := by rw [g1, hnow]; exact hfw _ _
      obtain ⟨o2, d2, fr2, k1, k2, k3, k4, k5, k6⟩ := setFT_one s1 m (O.fireAt t O.zero) o1' (by rw [g2]; exact hm) hp2
      have sc2 := setFT_sched ub s1 m _ o1' (by rw [g2]; exact hm) hp2 (by rw [g1, hnow]; exact hub _ _) sc1
      rw [setFT_exec s1 m _ _ hp2]
      exact ⟨_, rfl, by simpa using o2, sc2, fun a ha x => (fr2 a ha x).trans (fr1 a ha x), sm1.trans ⟨k1, k2, k3, k4, k5, k6⟩⟩
    · simp only [hend2, Bool.false_eq_true, if_false]
      exact ⟨s1, rfl, o1', sc1, fr1, sm1⟩

theorem cascades_sched (O : Ops K) (hfw : ∀ t phi, ¬ O.fireAt t phi < t) (ub : K → K) (hub : ∀ t phi, O.fireAt t phi ≤ ub t)
    (t : K) (n : Node) : ∀ (ms : List Node) (s : St K (U K) Node),
    One [] s → (∀ m ∈ ms, m ∈ s.u.nodes) → s.q.now = t → Sched ub s → Sched ub (exec (cascades O t n ms) s) := by
  intro ms
  induction ms with
  | nil => intro s _ _ _ hs; exact hs
  | cons m ms ih =>
    intro s h hall hnow hs
    unfold cascades
    by_cases hmn : m = n
    · simp only [hmn, if_true]
      exact ih s h (fun x hx => hall x (List.mem_cons_of_mem _ hx)) hnow hs
    · simp only [hmn, if_false]
      obtain ⟨s1, e1, o1, sc1, _, sm1⟩ := cascade_sched O hfw ub hub t m (cascades O t n ms) s h (hall m List.mem_cons_self) hnow hs
      rw [e1]
      exact ih s1 o1 (fun x hx => by rw [sm1.nodes]; exact hall x (List.mem_cons_of_mem _ hx)) (by rw [sm1.now]; exact hnow) sc1

/-- **within one period, at every instant of a batch**: if before a firing is taken off the queue nothing is pending in the
    past and every node is due within a period, the same holds after the event -/
theorem firePosted_sched (O : Ops K) (hfw : ∀ t phi, ¬ O.fireAt t phi < t) (ub : K → K) (hub : ∀ t phi, O.fireAt t phi ≤ ub t)
    (hmono : ∀ a b : K, a ≤ b → ub a ≤ ub b) (maxT bound : K) (tap : Dyn.Fired K Node Unit → St K (U K) Node → U K)
    (htap : TapOK tap) (s s' : St K (U K) Node) (ev : Dyn.Fired K Node Unit) (h : One [] s) (hc : Closed s.u) (hs : Sched ub s)
    (hf : Dyn.firePosted (mkProc O maxT tap) bound s = some (s', ev)) : Sched ub s' := by
  unfold Dyn.firePosted at hf
  split at hf
  · simp at hf
  · rename_i q1 x hp
    simp only [Option.some.injEq, Prod.mk.injEq] at hf
    obtain ⟨o1, xn, hnow⟩ := after_pop s bound q1 x h hp
    obtain ⟨hxp, _, _, _, hmin, hrest⟩ := pop_spec s.q q1 bound x h.fq hp
    have hfwd : s.q.now ≤ x.time := hs.nopast _ _ hxp
    -- the state just after the pop
    have sc0 : Sched ub ({ s with q := q1 } : St K (U K) Node) := by
      refine ⟨?_, ?_⟩
      · intro id y hpd
        show q1.now ≤ y; rw [hnow]
        obtain ⟨hne, hpd0⟩ := (hrest id y).1 hpd
        rcases hmin id y hpd0 with he | hk
        · exact absurd he hne
        · rcases hk with h1 | ⟨h1, _⟩
          · exact Std.le_of_lt h1
          · exact Std.not_lt.1 h1
      · intro m y ⟨id, hl, hpd⟩
        show y ≤ ub q1.now; rw [hnow]
        exact Std.le_trans (hs.within m y ⟨id, hl, ((hrest id y).1 hpd).2⟩) (hmono _ _ hfwd)
    -- fired = re-schedule n, log, cascades
    have hp0 : ¬ O.fireAt x.time O.zero < q1.now := by rw [hnow]; exact hfw _ _
    obtain ⟨oa, _, _, g1, g2, g3, g4, g5, g6⟩ := setFT_one { s with q := q1 } x.elem (O.fireAt x.time O.zero) o1 xn hp0
    have sca := setFT_sched ub { s with q := q1 } x.elem _ o1 xn hp0 (by show _ ≤ ub q1.now; rw [hnow]; exact hub _ _) sc0
    have oa' : One [] (setFTState { s with q := q1 } x.elem (O.fireAt x.time O.zero)) := by simpa using oa
    have key : Sched ub (exec (fired O x.time x.elem) { s with q := q1 }) := by
      unfold fired
      rw [setFT_exec _ _ _ _ hp0]
      generalize setFTState ({ s with q := q1 } : St K (U K) Node) x.elem (O.fireAt x.time O.zero) = s1 at *
      unfold firedTail
      simp only [exec]
      have failc : ∀ msg : String, Sched ub (exec (fail msg : Prog K (U K) Node) s1) := by
        intro msg; rw [fail_exec]
        exact ⟨sca.nopast, fun m y ⟨id, a, b⟩ => sca.within m y ⟨id, a, b⟩⟩
      cases hperm : s1.u.perms with
      | nil => exact failc _
      | cons order rest =>
        simp only []
        by_cases hok : order.isPerm ((s1.u.adj x.elem).eraseDups.filter (· != x.elem)) = true
        · simp only [hok, Bool.not_true, Bool.false_eq_true, if_false, exec]
          have hmem : ∀ m ∈ order, m ∈ s.u.nodes := by
            intro m hm
            have := (List.isPerm_iff.1 hok).mem_iff.1 hm
            rw [g3] at this
            exact hc x.elem xn m (List.mem_eraseDups.1 (List.mem_filter.1 this).1)
          generalize hs2 : ({ s1 with u := logged s1.u x.time x.elem rest } : St K (U K) Node) = s2
          have q2 : s2.q = s1.q := by rw [← hs2]
          have n2 : s2.u.nodes = s1.u.nodes := by rw [← hs2]; rfl
          have v2 : s2.u.evid = s1.u.evid := by rw [← hs2]; rfl
          have o2 : One [] s2 := oa'.congr q2 n2 v2
          have sc2 : Sched ub s2 := ⟨by rw [q2]; exact sca.nopast, fun m y ⟨id, a, b⟩ => by
            rw [q2]; exact sca.within m y ⟨id, by rw [← v2]; exact a, by rw [← q2]; exact b⟩⟩
          exact cascades_sched O hfw ub hub x.time x.elem order s2 o2 (fun m hm => by rw [n2, g2]; exact hmem m hm)
            (by rw [q2, g1]; exact hnow) sc2
        · have : (!order.isPerm ((s1.u.adj x.elem).eraseDups.filter (· != x.elem))) = true := by simpa using hok
          simp only [this, if_true]
          exact failc _
    obtain ⟨_, t2, _⟩ := htap ⟨true, x.time, x.time, q1.now, x.time, x.hid, x.elem, none, true, x.id⟩
      (exec (fired O x.time x.elem) { s with q := q1 })
    rw [← hf.1]
    simp only [mkProc]
    exact ⟨key.nopast, fun m y ⟨id, a, b⟩ => key.within m y ⟨id, by rw [← t2]; exact a, b⟩⟩

/-! ### non-vacuity -/

section Examples

/-- a toy arithmetic over ℕ: every firing is scheduled one time unit ahead -/
def toyOps : Ops Nat :=
  { phaseOf := fun _ _ => 0, fireAt := fun t _ => t + 1, state := id, bump := id, ofState := id, isEnd := fun x => x == 0, zero := 0, start := 0 }

instance : Dyn.Arith Nat := ⟨0, 1, (· + ·), (· * ·), id, (· == 0), fun a _ => a⟩

example : ∀ t phi : Nat, ¬ toyOps.fireAt t phi < t := by intro t phi; simp [toyOps]

def toyU : U Nat := { nodes := [0, 1], adj := fun n => if n = 0 then [1] else [0], rng := [3, 4] }

/-- the hypotheses of `start_one` are satisfiable, so `One []` is reached: two nodes, two random numbers -/
example : One [] (exec (initPhases toyOps toyU.nodes)
    ({ q := { heap := [], finder := [], nextId := 0, now := toyOps.start }, u := toyU } : St Nat (U Nat) Node)) :=
  start_one toyOps (by intro t phi; simp [toyOps]) toyU rfl (by decide)

/-- … and the bound hypotheses of `firePosted_sched` hold for `ub t = t + 1` -/
example : (∀ t phi : Nat, toyOps.fireAt t phi ≤ t + 1) ∧ (∀ a b : Nat, a ≤ b → a + 1 ≤ b + 1) :=
  ⟨fun t phi => Nat.le_refl _, fun a b h => by omega⟩

end Examples

end C20
