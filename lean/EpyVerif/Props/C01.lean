import EpyVerif.Lemmas.CompTopo
import EpyVerif.Lemmas.DynPres
import EpyVerif.Model.Sim
/-!
# C01 — Loci always equal the sets they are declared to track

Model: `Model/Comp.lean` (`compartmentedmodel.py`, `loci.py`, `MultiCompartmentedEdgeLocus`; loci are the verified
DrawSet of C09; `removeNode` and `Multi….compartments()` as repaired by the fix commits) and `Model/Sim.lean`
(handlers of the shipped models as action scripts, executed by either dynamics of `Model/Dyn.lean`).

Specification of a tracking locus (`InvAll`):
 * node locus for compartment c:   `e ∈ locus ↔ ∃ n, e = n ∧ comp n = c`
 * edge locus (L, R), L ∉ R:       `(a, b) ∈ locus ↔ b ∈ adj a ∧ comp a = L ∧ comp b ∈ R`   (left endpoint first)
`WfCfg` is the decidable well-formedness of the registration tables (generated from `/repo` on every run and checked
by `decide`): a locus is registered under exactly the compartments it watches, once, and L ∉ R.
For loci with L ∈ R (Opinion's PPT; a user's `trackEdgesBetweenCompartments(c, c)`) see `PARTIAL` / known finding K1.
-/
set_option linter.unusedSectionVars false
open Comp Bbt
namespace C01

/-- the process-API operations that change a node's compartment or the topology -/
inductive Op where
  | setc (n : Node) (c : Nat)
  | cc (n : Node) (c : Nat)
  | addNode (n : Node) (c : Option Nat)
  | rmNode (n : Node)
  | addEdge (n m : Node)
  | rmEdge (n m : Node)

def apply (cfg : Cfg) (inst : Nat) (w : W) : Op → W
  | .setc n c => setCompartment cfg w inst n c
  | .cc n c => changeCompartment cfg w inst n c
  | .addNode n c => Comp.addNode cfg w inst n c
  | .rmNode n => Comp.removeNode cfg w inst n
  | .addEdge n m => Comp.addEdge cfg w inst n m
  | .rmEdge n m => Comp.removeEdge cfg w inst n m

/-- the documented API contract: operations name existing nodes, `setCompartment` is for a node without a
    compartment, `addNode` is for a new name -/
def Legal (inst : Nat) (w : W) : Op → Prop
  | .setc n _ => n ∈ w.net.nodes ∧ w.comp inst n = none
  | .cc n _ => n ∈ w.net.nodes
  | .addNode n _ => n ∉ w.net.nodes
  | .rmNode _ => True
  | .addEdge n m => n ∈ w.net.nodes ∧ m ∈ w.net.nodes
  | .rmEdge _ _ => True

/-- what user code can rely on at every observation point -/
structure Good (cfg : Cfg) (w : W) : Prop where
  net : NetOK w.net
  nodup : w.net.nodes.Nodup
  off : ∀ inst n, n ∉ w.net.nodes → w.comp inst n = none
  loci : InvAll cfg w

theorem comp_of_change (cfg : Cfg) (wf : WfCfg cfg) (w : W) (inst : Nat) (n : Node) (c : Nat) (hn : n ∈ w.net.nodes)
    (off : ∀ inst n, n ∉ w.net.nodes → w.comp inst n = none) :
    ∀ inst' x, x ∉ (changeCompartment cfg w inst n c).net.nodes → (changeCompartment cfg w inst n c).comp inst' x = none := by
  obtain ⟨h1, h2⟩ := changeCompartment_net cfg wf w inst n c
  intro inst' x hx
  rw [h1] at hx; rw [h2]
  simp only [setComp]
  have : x ≠ n := fun e => hx (e ▸ hn)
  simp [this, off inst' x hx]

/-- **every API operation keeps every tracking locus equal to the set it tracks** -/
theorem step (cfg : Cfg) (wf : WfCfg cfg) (inst : Nat) (one : OneInst cfg inst) (w : W) (op : Op)
    (hl : Legal inst w op) (g : Good cfg w) : Good cfg (apply cfg inst w op) := by
  cases op with
  | cc n c =>
    have hl : n ∈ w.net.nodes := hl
    show Good cfg (changeCompartment cfg w inst n c)
    obtain ⟨h1, _⟩ := changeCompartment_net cfg wf w inst n c
    exact ⟨by show NetOK (changeCompartment cfg w inst n c).net; rw [h1]; exact g.net,
           by show (changeCompartment cfg w inst n c).net.nodes.Nodup; rw [h1]; exact g.nodup,
           comp_of_change cfg wf w inst n c hl g.off, changeCompartment_inv cfg wf w inst n c g.net.sym g.loci⟩
  | setc n c =>
    have hl : n ∈ w.net.nodes ∧ w.comp inst n = none := hl
    show Good cfg (setCompartment cfg w inst n c)
    rw [setCompartment_eq cfg w inst n c hl.2]
    obtain ⟨h1, _⟩ := changeCompartment_net cfg wf w inst n c
    exact ⟨by rw [h1]; exact g.net, by rw [h1]; exact g.nodup,
           comp_of_change cfg wf w inst n c hl.1 g.off, changeCompartment_inv cfg wf w inst n c g.net.sym g.loci⟩
  | addNode n c =>
    have hl : n ∉ w.net.nodes := hl
    show Good cfg (Comp.addNode cfg w inst n c)
    have hinv := addNode_inv cfg wf w inst n c g.net hl (g.off inst n hl) g.loci
    have hnet : (Comp.addNode cfg w inst n c).net = w.net.addNode n := by
      unfold Comp.addNode; cases c with
      | none => rfl
      | some c =>
        simp only []
        rw [setCompartment_eq cfg { w with net := w.net.addNode n } inst n c (g.off inst n hl)]
        exact (changeCompartment_net cfg wf _ inst n c).1
    have hnodes : (w.net.addNode n).nodes = w.net.nodes ++ [n] := by
      unfold Net.addNode Net.hasNode
      have : w.net.nodes.contains n = false := by simpa using hl
      simp only [this, Bool.false_eq_true, if_false]
    refine ⟨by show NetOK (Comp.addNode cfg w inst n c).net; rw [hnet]; exact addNode_ok w.net g.net n hl, ?_, ?_, hinv⟩
    · show (Comp.addNode cfg w inst n c).net.nodes.Nodup
      rw [hnet, hnodes]
      exact List.nodup_append.2 ⟨g.nodup, by simp, by intro a ha b hb; simp at hb; subst hb; exact fun e => hl (e ▸ ha)⟩
    · intro inst' x hx
      show (Comp.addNode cfg w inst n c).comp inst' x = none
      change x ∉ (Comp.addNode cfg w inst n c).net.nodes at hx
      rw [show (Comp.addNode cfg w inst n c).net.nodes = w.net.nodes ++ [n] by rw [hnet, hnodes]] at hx
      simp only [List.mem_append, List.mem_singleton, not_or] at hx
      unfold Comp.addNode; cases c with
      | none => exact g.off inst' x hx.1
      | some c =>
        simp only []
        rw [setCompartment_eq cfg { w with net := w.net.addNode n } inst n c (g.off inst n hl), (changeCompartment_net cfg wf _ inst n c).2]
        simp only [setComp, hx.2, and_false, if_false]
        exact g.off inst' x hx.1
  | rmNode n =>
    show Good cfg (Comp.removeNode cfg w inst n)
    have hinv := removeNode_inv cfg wf w inst n one g.net g.loci
    have hnet : (Comp.removeNode cfg w inst n).net = w.net.removeNode n := by
      unfold Comp.removeNode; simp only []
      rw [(fold_nodeRemove cfg n _ _).1, (fold_incident cfg inst n _ w).1]
    refine ⟨by show NetOK (Comp.removeNode cfg w inst n).net; rw [hnet]; exact removeNode_ok w.net g.net g.nodup n,
            by show (Comp.removeNode cfg w inst n).net.nodes.Nodup; rw [hnet]; exact g.nodup.sublist List.erase_sublist, ?_, hinv⟩
    intro inst' x hx
    show (Comp.removeNode cfg w inst n).comp inst' x = none
    change x ∉ (Comp.removeNode cfg w inst n).net.nodes at hx
    rw [hnet] at hx
    have hx' : x ∉ w.net.nodes.erase n := hx
    rw [List.Nodup.mem_erase_iff g.nodup] at hx'
    unfold Comp.removeNode; simp only []
    by_cases hxn : x = n
    · simp [hxn]
    · simp only [hxn, if_false]
      rw [(fold_nodeRemove cfg n _ _).2.1, (fold_incident cfg inst n _ w).2.1]
      exact g.off inst' x (fun h => hx' ⟨hxn, h⟩)
  | addEdge n m =>
    have hl : n ∈ w.net.nodes ∧ m ∈ w.net.nodes := hl
    show Good cfg (Comp.addEdge cfg w inst n m)
    have hinv := addEdge_inv cfg wf w inst n m one g.net g.loci
    obtain ⟨e1, e2, _⟩ := edgeHandlers_spec cfg { w with net := w.net.addEdge n m } inst n m true
    refine ⟨by show NetOK (Comp.addEdge cfg w inst n m).net; unfold Comp.addEdge; rw [e1]; exact addEdge_ok w.net g.net n m hl.1 hl.2,
            by show (Comp.addEdge cfg w inst n m).net.nodes.Nodup; unfold Comp.addEdge; rw [e1]; show (w.net.addEdge n m).nodes.Nodup; rw [addEdge_nodes]; exact g.nodup,
            ?_, hinv⟩
    intro inst' x hx
    show (Comp.addEdge cfg w inst n m).comp inst' x = none
    change x ∉ (Comp.addEdge cfg w inst n m).net.nodes at hx
    unfold Comp.addEdge at hx ⊢
    rw [e1] at hx; rw [e2]
    exact g.off inst' x (by rw [← addEdge_nodes w.net n m]; exact hx)
  | rmEdge n m =>
    show Good cfg (Comp.removeEdge cfg w inst n m)
    have hinv := removeEdge_inv cfg wf w inst n m one g.net g.loci
    obtain ⟨e1, e2, _⟩ := edgeHandlers_spec cfg w inst n m false
    refine ⟨by show NetOK (Comp.removeEdge cfg w inst n m).net; unfold Comp.removeEdge; simp only []; rw [e1]; exact removeEdge_ok w.net g.net n m,
            by show (Comp.removeEdge cfg w inst n m).net.nodes.Nodup; unfold Comp.removeEdge; simp only []; rw [e1]; exact g.nodup,
            ?_, hinv⟩
    intro inst' x hx
    show (Comp.removeEdge cfg w inst n m).comp inst' x = none
    change x ∉ (Comp.removeEdge cfg w inst n m).net.nodes at hx
    unfold Comp.removeEdge at hx ⊢
    simp only [] at hx ⊢
    rw [e1] at hx; rw [e2]
    exact g.off inst' x hx

/-- legality along a history -/
def LegalAll (cfg : Cfg) (inst : Nat) : W → List Op → Prop
  | _, [] => True
  | w, op :: ops => Legal inst w op ∧ LegalAll cfg inst (apply cfg inst w op) ops

/-- **every reachable state**: after any legal sequence of API calls — removing nodes that still have edges, edges within
    one tracked compartment, repeated no-op changes, … — every tracking locus equals the set it is declared to track -/
theorem reachable (cfg : Cfg) (wf : WfCfg cfg) (inst : Nat) (one : OneInst cfg inst) :
    ∀ (ops : List Op) (w : W), Good cfg w → LegalAll cfg inst w ops → Good cfg (ops.foldl (apply cfg inst) w) := by
  intro ops
  induction ops with
  | nil => intro w g _; exact g
  | cons op ops ih => intro w g hl; exact ih _ (step cfg wf inst one w op hl.1 g) hl.2

/-! ### consequences -/

/-- nothing that has left the network or the tracked condition remains drawable -/
theorem no_stale (cfg : Cfg) (w : W) (g : Good cfg w) (i inst L : Nat) (R : List Nat) (pf : Bool)
    (hk : cfg.kind i = .edge inst L R pf) (a b : Node) (h : (w.loci i).mem (a, b) = true) :
    b ∈ w.net.adj a ∧ a ∈ w.net.nodes ∧ w.comp inst a = some L ∧ ∃ c, w.comp inst b = some c ∧ c ∈ R := by
  have := g.loci i; rw [hk] at this
  obtain ⟨h1, h2⟩ := (this a b).1 h
  exact ⟨h1, g.net.closed a b h1, (qual_iff inst L R w a b).1 h2⟩

/-- the contents of a locus are a function of the current network state alone, not of the history -/
theorem state_determined (cfg : Cfg) (w w' : W) (g : Good cfg w) (g' : Good cfg w')
    (hnet : w'.net.adj = w.net.adj) (hcomp : w'.comp = w.comp) (i : Nat) (hk : cfg.kind i ≠ .plain) (x : Elem) :
    (w'.loci i).mem x = (w.loci i).mem x := by
  have h1 := g.loci i; have h2 := g'.loci i
  rw [Bool.eq_iff_iff]
  cases hkk : cfg.kind i with
  | plain => exact absurd hkk hk
  | node inst c => rw [hkk] at h1 h2; rw [h1 x, h2 x, hcomp]
  | edge inst L R pf => rw [hkk] at h1 h2; obtain ⟨a, b⟩ := x; rw [h1 a b, h2 a b]; simp only [qual, hcomp, hnet]

/-- every per-element event rate is the probability times the true number of eligible elements: the length of a
    locus is the number of distinct elements satisfying its specification (its iteration list is duplicate-free and
    has exactly the members) -/
theorem rate_true (s : LSet) : s.size = s.toList.length ∧ s.toList.Nodup ∧ ∀ x, x ∈ s.toList ↔ s.mem x = true := by
  refine ⟨TSet.size_eq s, ?_, fun x => (TSet.mem_iff s x).symm⟩
  have := s.wf.1; unfold BST Sorted at this
  exact this.imp (fun hlt heq => by subst heq; unfold Bbt.lt at hlt; rw [Std.compare_self] at hlt; cases hlt)

/-! ### every event of every run: handlers of the shipped models are sequences of these operations -/

/-- actions that touch the compartment world only through `changeCompartment` on the element's (left) node -/
def shippedB {K : Type} : Sim.Act K → Bool
  | .ccLeft _ _ | .occ _ | .hit _ | .postL _ _ | .postE _ _ | .postAbs _ _ | .unpost _ _ | .pending _ | .clock | .observe
  | .trial _ _ _ _ => true
  | _ => false
def Shipped {K : Type} (a : Sim.Act K) : Prop := shippedB a = true

theorem shipped_of_all {K : Type} (hs : List (List (Sim.Act K))) (h : hs.all (fun acts => acts.all shippedB) = true) :
    ∀ acts ∈ hs, ∀ a ∈ acts, Shipped a := by
  intro acts ha a haa
  exact (List.all_eq_true.1 ((List.all_eq_true.1 h) acts ha)) a haa

variable {K : Type} [LT K] [LE K] [DecidableLT K] [DecidableLE K] [Dyn.Arith K]

/-- loci = tracked sets, with every element of every locus naming nodes of the network -/
def WorldOK (cfg : Sim.Cfg K) (u : Sim.U K) : Prop := NetOK u.w.net ∧ InvAll cfg.comp u.w

theorem markOccupied_w (u : Sim.U K) (i : Nat) (e : Elem) (t : K) : (Sim.markOccupied u i e t).w = u.w := by
  unfold Sim.markOccupied; simp only []; split <;> rfl
theorem markHit_w (u : Sim.U K) (i : Option Nat) (n : Node) (t : K) : (Sim.markHit u i n t).w = u.w := by
  unfold Sim.markHit; split <;> rfl

/-- the actions a handler of a shipped model may consist of: the SIR-style ones (`Shipped`), and — for SIvR / Vaccinate —
    vaccination marks and updates of *plain* marker loci, which no tracking invariant constrains -/
def OkAct (cfg : Sim.Cfg K) : Sim.Act K → Prop
  | .vaccinate => True
  | .plainLeave l => cfg.comp.kind l = .plain
  | .sivrInfect _ _ _ _ ln lv => cfg.comp.kind ln = .plain ∧ cfg.comp.kind lv = .plain
  | a => Shipped a

theorem okAct_of_shipped (cfg : Sim.Cfg K) (a : Sim.Act K) (h : Shipped a) : OkAct cfg a := by
  cases a <;> first | exact h | (simp [Shipped, shippedB] at h)

theorem invAll_updPlain (cfg : Comp.Cfg) (loc : Nat) (hk : cfg.kind loc = .plain) (w : W) (f : LSet → LSet) (h : InvAll cfg w) :
    InvAll cfg (updLocus w loc f) := by
  intro i
  have hi := h i
  by_cases hil : i = loc
  · subst hil; rw [hk]; trivial
  · cases hkk : cfg.kind i with
    | plain => trivial
    | node a b => rw [hkk] at hi; simp only [updLocus, if_neg hil]; exact hi
    | edge a L R pf => rw [hkk] at hi; simp only [updLocus, if_neg hil]; exact hi

/-- a handler of a shipped model keeps every locus equal to its tracked set, whatever the queue does -/
theorem handler_keeps (cfg : Sim.Cfg K) (wf : WfCfg cfg.comp) (t : K) (e : Elem) : ∀ (acts : List (Sim.Act K)),
    (∀ a ∈ acts, OkAct cfg a) → ∀ (s : Queue.St K (Sim.U K) Elem), WorldOK cfg s.u →
      WorldOK cfg (Queue.exec (Sim.runActs cfg acts t e) s).u := by
  intro acts
  induction acts with
  | nil => intro _ s h; exact h
  | cons a as ih =>
    intro hs s h
    have hs' : ∀ a ∈ as, OkAct cfg a := fun a ha => hs a (List.mem_cons_of_mem _ ha)
    have ha := hs a List.mem_cons_self
    cases a with
    | ccLeft inst c =>
      simp only [Sim.runActs, Queue.exec]
      apply ih hs'
      obtain ⟨h1, _⟩ := changeCompartment_net cfg.comp wf s.u.w inst e.1 c
      exact ⟨by show NetOK (changeCompartment cfg.comp s.u.w inst e.1 c).net; rw [h1]; exact h.1,
             changeCompartment_inv cfg.comp wf s.u.w inst e.1 c h.1.sym h.2⟩
    | occ inst => simp only [Sim.runActs, Queue.exec]; apply ih hs'; unfold WorldOK; rw [markOccupied_w]; exact h
    | hit inst => simp only [Sim.runActs, Queue.exec]; apply ih hs'; unfold WorldOK; rw [markHit_w]; exact h
    | postL dt hh => simp only [Sim.runActs, Queue.exec]; exact ih hs' _ h
    | postE dt hh => simp only [Sim.runActs, Queue.exec]; exact ih hs' _ h
    | postAbs t' hh => simp only [Sim.runActs, Queue.exec]; exact ih hs' _ h
    | unpost id f => simp only [Sim.runActs, Queue.exec]; exact ih hs' _ h
    | pending id => simp only [Sim.runActs, Queue.exec]; exact ih hs' _ h
    | clock => simp only [Sim.runActs, Queue.exec]; exact ih hs' _ h
    | observe => simp only [Sim.runActs, Queue.exec]; exact ih hs' _ h
    | trial p inst c o =>
      simp only [Sim.runActs, Queue.exec]
      split
      · exact h
      · rename_i r u' hr
        have hw : u'.w = s.u.w := by
          unfold Sim.popF at hr; split at hr
          · simp only [Option.some.injEq, Prod.mk.injEq] at hr; rw [← hr.2]
          · simp at hr
        split
        · simp only [Queue.exec]
          apply ih hs'
          have hok : WorldOK cfg ({ u' with w := changeCompartment cfg.comp u'.w inst e.1 c } : Sim.U K) := by
            rw [hw]
            obtain ⟨h1, _⟩ := changeCompartment_net cfg.comp wf s.u.w inst e.1 c
            exact ⟨by show NetOK (changeCompartment cfg.comp s.u.w inst e.1 c).net; rw [h1]; exact h.1,
                   changeCompartment_inv cfg.comp wf s.u.w inst e.1 c h.1.sym h.2⟩
          split
          · unfold WorldOK; rw [markHit_w, markOccupied_w]; exact hok
          · exact hok
        · simp only [Queue.exec]; apply ih hs'; unfold WorldOK; rw [hw]; exact h
    | cc _ _ _ => exact absurd ha (by simp [OkAct, Shipped, shippedB])
    | setc _ _ _ => exact absurd ha (by simp [OkAct, Shipped, shippedB])
    | addNode _ _ _ => exact absurd ha (by simp [OkAct, Shipped, shippedB])
    | rmNode _ _ => exact absurd ha (by simp [OkAct, Shipped, shippedB])
    | addEdge _ _ _ => exact absurd ha (by simp [OkAct, Shipped, shippedB])
    | rmEdge _ _ _ => exact absurd ha (by simp [OkAct, Shipped, shippedB])
    | adAdd _ _ _ => exact absurd ha (by simp [OkAct, Shipped, shippedB])
    | vaccinate => simp only [Sim.runActs, Queue.exec]; exact ih hs' _ h
    | plainLeave l =>
      simp only [Sim.runActs, Queue.exec]
      exact ih hs' _ ⟨h.1, invAll_updPlain cfg.comp l ha s.u.w (fun x => TSet.discard x (eN e.1)) h.2⟩
    | sivrInfect i c off eff ln lv =>
      have take_ok : ∀ (u : Sim.U K) (loc : Nat), cfg.comp.kind loc = .plain → u.w = s.u.w →
          WorldOK cfg (Sim.markHit (Sim.markOccupied
            ({ u with w := updLocus (changeCompartment cfg.comp u.w i e.1 c) loc (·.add (eN e.1)) } : Sim.U K) i e t) (some i) e.1 t) := by
        intro u loc hk hw
        unfold WorldOK; rw [markHit_w, markOccupied_w, hw]
        obtain ⟨h1, _⟩ := changeCompartment_net cfg.comp wf s.u.w i e.1 c
        exact ⟨by show NetOK (changeCompartment cfg.comp s.u.w i e.1 c).net; rw [h1]; exact h.1,
               invAll_updPlain cfg.comp loc hk _ (fun x => TSet.add x (eN e.1)) (changeCompartment_inv cfg.comp wf s.u.w i e.1 c h.1.sym h.2)⟩
      simp only [Sim.runActs, Queue.exec]
      split
      · split
        · split
          · exact h
          · rename_i r u' hr
            have hw : u'.w = s.u.w := by
              unfold Sim.popF at hr; split at hr
              · simp only [Option.some.injEq, Prod.mk.injEq] at hr; rw [← hr.2]
              · simp at hr
            split
            · simp only [Queue.exec]; exact ih hs' _ (take_ok u' lv ha.2 hw)
            · simp only [Queue.exec]; apply ih hs'; unfold WorldOK; rw [hw]; exact h
        · simp only [Queue.exec]; exact ih hs' _ (take_ok s.u ln ha.1 rfl)
      · simp only [Queue.exec]; exact ih hs' _ (take_ok s.u ln ha.1 rfl)
    | adDel _ _ => exact absurd ha (by simp [OkAct, Shipped, shippedB])

/-- **whole runs**: for a process whose handlers are shipped-style action scripts and whose tap only reads, loci equal
    their tracked sets after set-up and after every event of any run of either dynamics (so at every point user code can
    observe), whatever the schedule -/
theorem runs_keep (cfg : Sim.Cfg K) (wf : WfCfg cfg.comp) (tap : Dyn.Fired K Elem Sim.Loc → Queue.St K (Sim.U K) Elem → Sim.U K)
    (hsh : ∀ h, ∀ a ∈ cfg.handlers h, OkAct cfg a) (htap : ∀ ev s, (tap ev s).w = s.u.w) :
    Dyn.Pres (Sim.mkProc cfg tap) (WorldOK cfg) := by
  refine ⟨?_, ?_, ?_, ?_⟩
  · intro h t e s hi; exact handler_keeps cfg wf t e (cfg.handlers h) (hsh h) s hi
  · intro ev s hi; unfold WorldOK; rw [show ((Sim.mkProc cfg tap).tap ev s).w = s.u.w from htap ev s]; exact hi
  · intro u r u' hr hi
    have : u'.w = u.w := by
      simp only [Sim.mkProc] at hr; unfold Sim.popF at hr; split at hr
      · simp only [Option.some.injEq, Prod.mk.injEq] at hr; rw [← hr.2]
      · simp at hr
    unfold WorldOK; rw [this]; exact hi
  · intro u l e u' hd hi
    have hdraw : ∀ (t : T Elem) (u u' : Sim.U K) (e : Elem), Sim.drawT t u = some (e, u') → u'.w = u.w := by
      intro t
      induction t with
      | nil => intro u u' e h; simp [Sim.drawT] at h
      | node l d r hh ls rs ihl ihr =>
        intro u u' e h
        unfold Sim.drawT at h
        split at h
        · simp only [Option.some.injEq, Prod.mk.injEq] at h; rw [← h.2]
        · split at h
          · simp at h
          · rename_i i u1 hp
            have h1 : u1.w = u.w := by
              unfold Sim.popI at hp; split at hp
              · split at hp
                · simp only [Option.some.injEq, Prod.mk.injEq] at hp; rw [← hp.2]
                · simp at hp
              · simp at hp
            split at h
            · rw [ihl u1 u' e h, h1]
            · split at h
              · simp only [Option.some.injEq, Prod.mk.injEq] at h; rw [← h.2, h1]
              · rw [ihr u1 u' e h, h1]
    have : u'.w = u.w := by
      simp only [Sim.mkProc] at hd
      cases l with
      | l i => exact hdraw _ _ _ _ hd
      | single i e' => simp only [Option.some.injEq, Prod.mk.injEq] at hd; rw [← hd.2]
    unfold WorldOK; rw [this]; exact hi

/-! ### L ∈ R: the full statement is false of the code (known finding K1) — a concrete witness, checked by the kernel -/

/-- registration table of a single edge locus tracking compartment 0 against itself (`trackEdgesBetweenCompartments(c, c)`) -/
def cfgLL : Cfg := { kind := fun i => if i = 0 then .edge 0 0 [0] false else .plain, effects := fun _ c => if c = 0 then [0, 0] else [] }

/-- the path 0–1, both nodes initially in compartment 1 -/
def wLL : W := { net := { nodes := [0, 1], adj := fun n => if n = 0 then [1] else if n = 1 then [0] else [] },
                 comp := fun _ n => if n = 0 ∨ n = 1 then some 1 else none, loci := fun _ => TSet.empty }

/-- history `[1→A, 0→A, 1→B]` (A = 0, B = 1): afterwards no edge has both endpoints in A, but the locus still holds a pair -/
theorem lin_r_stale :
    let w := [Op.cc 1 0, .cc 0 0, .cc 1 1].foldl (apply cfgLL 0) wLL
    (w.comp 0 1 = some 1) ∧ ((w.loci 0).toList ≠ []) := by
  decide +kernel

/-! ### non-vacuity: a concrete reachable world satisfies `Good` (well-formed tables of every shipped model are checked by `decide`
    in the generated `Tables.lean` on every run) -/

/-- one tracking locus (0): the nodes of instance 0 in compartment 0 -/
def cfgN : Comp.Cfg := { kind := fun i => if i = 0 then .node 0 0 else .plain, effects := fun inst c => if inst = 0 ∧ c = 0 then [0] else [] }

/-- the path 0–1 with node 0 in compartment 0 and node 1 in compartment 1 -/
def wN : W := { net := { nodes := [0, 1], adj := fun n => if n = 0 then [1] else if n = 1 then [0] else [] },
                comp := fun i n => if i = 0 ∧ n = 0 then some 0 else if i = 0 ∧ n = 1 then some 1 else none,
                loci := fun i => if i = 0 then TSet.empty.add (eN 0) else TSet.empty }

example : Good cfgN wN := by
  refine ⟨⟨?_, ?_, ?_⟩, by simp [wN], ?_, ?_⟩
  · intro a b; simp only [wN]; by_cases ha : a = 0 <;> by_cases hb : b = 0 <;> by_cases ha1 : a = 1 <;> by_cases hb1 : b = 1 <;> simp_all
  · intro x; simp only [wN]; split
    · simp
    · split <;> simp
  · intro x y h; simp only [wN] at h ⊢; split at h
    · simp_all
    · split at h <;> simp_all
  · intro inst n hn; simp only [wN, List.mem_cons, List.not_mem_nil, or_false, not_or] at hn ⊢; simp [hn.1, hn.2]
  · intro i
    by_cases hi : i = 0
    · subst hi
      show NSpec 0 0 wN (wN.loci 0)
      intro e
      simp only [wN, if_true, TSet.mem_add, TSet.mem_empty, Bool.false_eq_true, or_false]
      constructor
      · rintro rfl; exact ⟨0, rfl, by simp⟩
      · rintro ⟨n, rfl, hn⟩
        by_cases h0 : n = 0
        · rw [h0]
        · by_cases h1 : n = 1 <;> simp [h0, h1] at hn
    · simp only [cfgN, hi, if_false]

end C01
