import EpyVerif.Lemmas.BbtFinal
import EpyVerif.Lemmas.BbtDraw
/-!
# C09 — DrawSet is a correct ordered set with an exactly uniform O(log n) draw

Only property theorems live here. Model: `EpyVerif/Model/Bbt.lean` (tied to `epydemic/bbt.py`,
`drawset.py` by `Driver/Set.lean`). Spec: a `DrawSet` denotes the sorted duplicate-free list `toList`.
-/
open Std
namespace Bbt.C09
variable {α : Type} [Ord α] [TransOrd α] [LawfulEqOrd α]

/-- Every reachable DrawSet (any sequence of add / discard / remove from empty) is a balanced search tree
    with correct cached heights and sizes, and has exactly the contents of the mathematical set. -/
theorem set_semantics (ops : List (Op α)) :
    WF (run ops) ∧ toList (run ops) = ops.foldl specStep [] := reachable ops

/-- iteration is in strictly ascending order -/
theorem iter_ascending (ops : List (Op α)) : Sorted (toList (run ops)) := (reachable ops).1.1

/-- `remove` raises KeyError exactly for absent elements -/
theorem remove_keyerror (ops : List (Op α)) (e : α) :
    (step (run ops) (.remove e)).2 = true ↔ e ∈ toList (run ops) := remove_flag _ e (reachable ops).1

/-- membership after an operation is that of the set -/
theorem mem_after_add (ops : List (Op α)) (e x : α) :
    x ∈ toList (run (ops ++ [.add e])) ↔ x = e ∨ x ∈ toList (run ops) := by
  have h := (reachable ops).1
  have e1 : run (ops ++ [.add e]) = (step (run ops) (.add e)).1 := by
    simp [run, List.foldl_append]
  rw [e1, (step_wf _ (.add e) h).2]; exact mem_ins e x _

/-- `len()` is the number of elements -/
theorem len_correct (ops : List (Op α)) : len (run ops) = (toList (run ops)).length := by
  rw [len_eq (reachable ops).1.2, size_eq_length]

/-- height is logarithmic: 2^(h/2) ≤ n + 1 -/
theorem height_logarithmic (ops : List (Op α)) : 2 ^ (rh (run ops) / 2) ≤ (toList (run ops)).length + 1 := by
  have := height_log (run ops) (reachable ops).1.2
  rwa [size_eq_length] at this

end Bbt.C09

namespace Bbt.C09
open Std
/-- `draw()` returns each current member with probability exactly 1/n -/
theorem draw_uniform (ops : List (Op Int)) (e : Int) (h : e ∈ toList (run ops)) :
    pr (run ops) e = 1 / ((toList (run ops)).length : ℚ) := by
  have wf := (reachable ops).1
  have hs : SizesOK (run ops) := by
    have : ∀ t : T Int, Good t → SizesOK t := by
      intro t; induction t with
      | nil => intro _; trivial
      | node l d r h ls rs ihl ihr =>
        intro g; simp only [Good] at g; exact ⟨ihl g.1, ihr g.2.1, g.2.2.2.1, g.2.2.2.2.1⟩
    exact this _ wf.2
  have nd : (toList (run ops)).Nodup := by
    have := wf.1; unfold BST Sorted at this
    exact this.imp (fun hlt heq => by subst heq; unfold lt at hlt; rw [compare_self] at hlt; cases hlt)
  rw [pr_uniform _ e hs nd h, size_eq_length]

/-- non-vacuity: a concrete history with a rotation and a two-child deletion -/
example : toList (run [Op.add (3:Int), .add 1, .add 2, .add 5, .add 4, .discard 2, .remove 9]) = [1, 3, 4, 5] := by
  decide +kernel

end Bbt.C09

