import EpyVerif.Props.C01
import EpyVerif.Props.C04
/-!
# C07 — Compartmented models keep a partition and follow their transition diagram

Model: `Model/Comp.lean` + `Model/Sim.lean` (handlers as action scripts, extracted from the source on every run) under
either dynamics of `Model/Dyn.lean`.  The per-model facts (which locus each event is registered on, which compartment
each handler moves the node to, the arrows of the diagram) are generated tables with `decide` obligations
(`harness/extract_tables.py`); the theorems below say what those obligations buy, for every network and every schedule.
-/
set_option linter.unusedSectionVars false
open Comp Bbt Queue Dyn
namespace C07

variable {K : Type} [LT K] [LE K] [DecidableLT K] [DecidableLE K] [Arith K]

/-! ### partition -/

/-- every node of the network is in exactly one of the model's `ncomp` compartments (compartments are a function of the
    node, so "exactly one" is "some") -/
def Partition (inst ncomp : Nat) (u : Sim.U K) : Prop := ∀ n ∈ u.w.net.nodes, ∃ c, c < ncomp ∧ u.w.comp inst n = some c

/-- action scripts that only move nodes between the first `ncomp` compartments and do not touch the topology -/
def targetsB (ncomp : Nat) : Sim.Act K → Bool
  | .ccLeft _ c => decide (c < ncomp)
  | .trial _ _ c _ => decide (c < ncomp)
  | .sivrInfect _ c _ _ _ _ => decide (c < ncomp)
  | .vaccinate => true
  | .plainLeave _ => true
  | a => C01.shippedB a

theorem partition_change (cfg : Comp.Cfg) (wf : WfCfg cfg) (w : W) (inst inst' ncomp : Nat) (n : Node) (c : Nat) (hc : c < ncomp)
    (h : ∀ x ∈ w.net.nodes, ∃ c, c < ncomp ∧ w.comp inst' x = some c) :
    ∀ x ∈ (changeCompartment cfg w inst n c).net.nodes, ∃ c', c' < ncomp ∧ (changeCompartment cfg w inst n c).comp inst' x = some c' := by
  obtain ⟨h1, h2⟩ := changeCompartment_net cfg wf w inst n c
  intro x hx
  rw [h1] at hx; rw [h2]
  simp only [setComp]
  split
  · exact ⟨c, hc, rfl⟩
  · exact h x hx

theorem popF_w (u u' : Sim.U K) (r : K) (h : Sim.popF u = some (r, u')) : u'.w = u.w ∧ u'.vacc = u.vacc := by
  unfold Sim.popF at h; split at h
  · simp only [Option.some.injEq, Prod.mk.injEq] at h; rw [← h.2]; exact ⟨rfl, rfl⟩
  · simp at h

theorem handler_partition (cfg : Sim.Cfg K) (wf : WfCfg cfg.comp) (inst ncomp : Nat) (t : K) (e : Elem) :
    ∀ (acts : List (Sim.Act K)), (∀ a ∈ acts, targetsB ncomp a = true) → ∀ (s : St K (Sim.U K) Elem), Partition inst ncomp s.u →
      Partition inst ncomp (exec (Sim.runActs cfg acts t e) s).u := by
  intro acts
  induction acts with
  | nil => intro _ s h; exact h
  | cons a as ih =>
    intro hs s h
    have hs' : ∀ a ∈ as, targetsB ncomp a = true := fun a ha => hs a (List.mem_cons_of_mem _ ha)
    have ha := hs a List.mem_cons_self
    cases a with
    | ccLeft i c =>
      simp only [Sim.runActs, exec]
      apply ih hs'
      exact partition_change cfg.comp wf s.u.w i inst ncomp e.1 c (by simpa [targetsB] using ha) h
    | occ i => simp only [Sim.runActs, exec]; apply ih hs'; unfold Partition; rw [C01.markOccupied_w]; exact h
    | hit i => simp only [Sim.runActs, exec]; apply ih hs'; unfold Partition; rw [C01.markHit_w]; exact h
    | postL dt hh => simp only [Sim.runActs, exec]; exact ih hs' _ h
    | postE dt hh => simp only [Sim.runActs, exec]; exact ih hs' _ h
    | postAbs t' hh => simp only [Sim.runActs, exec]; exact ih hs' _ h
    | unpost id f => simp only [Sim.runActs, exec]; exact ih hs' _ h
    | pending id => simp only [Sim.runActs, exec]; exact ih hs' _ h
    | clock => simp only [Sim.runActs, exec]; exact ih hs' _ h
    | observe => simp only [Sim.runActs, exec]; exact ih hs' _ h
    | trial p i c o =>
      simp only [Sim.runActs, exec]
      split
      · exact h
      · rename_i r u' hr
        have hw : u'.w = s.u.w := by
          unfold Sim.popF at hr; split at hr
          · simp only [Option.some.injEq, Prod.mk.injEq] at hr; rw [← hr.2]
          · simp at hr
        split
        · simp only [exec]
          apply ih hs'
          have hok : Partition inst ncomp ({ u' with w := changeCompartment cfg.comp u'.w i e.1 c } : Sim.U K) := by
            rw [hw]; exact partition_change cfg.comp wf s.u.w i inst ncomp e.1 c (by simpa [targetsB] using ha) h
          split
          · unfold Partition; rw [C01.markHit_w, C01.markOccupied_w]; exact hok
          · exact hok
        · simp only [exec]; apply ih hs'; unfold Partition; rw [hw]; exact h
    | cc _ _ _ => simp [targetsB, C01.shippedB] at ha
    | setc _ _ _ => simp [targetsB, C01.shippedB] at ha
    | addNode _ _ _ => simp [targetsB, C01.shippedB] at ha
    | rmNode _ _ => simp [targetsB, C01.shippedB] at ha
    | addEdge _ _ _ => simp [targetsB, C01.shippedB] at ha
    | rmEdge _ _ _ => simp [targetsB, C01.shippedB] at ha
    | adAdd _ _ _ => simp [targetsB, C01.shippedB] at ha
    | vaccinate => simp only [Sim.runActs, exec]; exact ih hs' _ h
    | plainLeave l => simp only [Sim.runActs, exec]; exact ih hs' _ h
    | sivrInfect i c off eff ln lv =>
      have hc : c < ncomp := by simpa [targetsB] using ha
      have take_ok : ∀ (u : Sim.U K) (loc : Nat), u.w = s.u.w →
          Partition inst ncomp (Sim.markHit (Sim.markOccupied
            ({ u with w := updLocus (changeCompartment cfg.comp u.w i e.1 c) loc (·.add (eN e.1)) } : Sim.U K) i e t) (some i) e.1 t) := by
        intro u loc hw
        unfold Partition; rw [C01.markHit_w, C01.markOccupied_w, hw]
        exact partition_change cfg.comp wf s.u.w i inst ncomp e.1 c hc h
      simp only [Sim.runActs, exec]
      split
      · rename_i tv hv
        split
        · split
          · exact h
          · rename_i r u' hr
            have hw : u'.w = s.u.w := (popF_w s.u u' r hr).1
            split
            · simp only [exec]; exact ih hs' _ (take_ok u' lv hw)
            · simp only [exec]; apply ih hs'; unfold Partition; rw [hw]; exact h
        · simp only [exec]; exact ih hs' _ (take_ok s.u ln rfl)
      · simp only [exec]; exact ih hs' _ (take_ok s.u ln rfl)
    | adDel _ _ => simp [targetsB, C01.shippedB] at ha

/-! ### arrows: what a fired event changes -/

/-- the compartment a member of locus `i` is in, by C01 -/
theorem member_source (cfg : Comp.Cfg) (w : W) (inv : InvAll cfg w) (i : Nat) (e : Elem) (hm : (w.loci i).mem e = true) :
    match cfg.kind i with
    | .node inst c => w.comp inst e.1 = some c
    | .edge inst L R _ => w.comp inst e.1 = some L ∧ e.2 ∈ w.net.adj e.1 ∧ ∃ c, w.comp inst e.2 = some c ∧ c ∈ R
    | .plain => True := by
  have hi := inv i
  cases hk : cfg.kind i with
  | plain => trivial
  | node inst c =>
    rw [hk] at hi; simp only []
    obtain ⟨n, rfl, hn⟩ := (hi e).1 hm
    exact hn
  | edge inst L R pf =>
    rw [hk] at hi; simp only []
    obtain ⟨a, b⟩ := e
    obtain ⟨h1, h2⟩ := (hi a b).1 hm
    obtain ⟨h3, h4⟩ := (qual_iff inst L R w a b).1 h2
    exact ⟨h3, h1, h4⟩

/-- **every change of compartment made by a fired event is the arrow (source of its locus → target of its handler), and an
    infection goes through an edge of the current network to a neighbour that is in the locus' right (infectious) compartment
    at that very moment**: for an event registered on locus `i` whose handler starts with `changeCompartment(n, c)` -/
theorem event_arrow (cfg : Comp.Cfg) (wf : WfCfg cfg) (w : W) (inv : InvAll cfg w) (i inst L : Nat) (R : List Nat) (pf : Bool)
    (hk : cfg.kind i = .edge inst L R pf) (e : Elem) (hm : (w.loci i).mem e = true) (c : Nat) :
    w.comp inst e.1 = some L ∧ (changeCompartment cfg w inst e.1 c).comp inst e.1 = some c ∧
    e.2 ∈ w.net.adj e.1 ∧ (∃ r, w.comp inst e.2 = some r ∧ r ∈ R) ∧
    (∀ x, x ≠ e.1 → (changeCompartment cfg w inst e.1 c).comp inst x = w.comp inst x) := by
  have := member_source cfg w inv i e hm
  rw [hk] at this
  obtain ⟨h1, h2, h3⟩ := this
  obtain ⟨_, hc⟩ := changeCompartment_net cfg wf w inst e.1 c
  refine ⟨h1, by rw [hc]; exact setComp_comp_self _ _ _ _, h2, h3, ?_⟩
  intro x hx; rw [hc]; exact setComp_comp_other _ _ _ _ _ hx

theorem event_arrow_node (cfg : Comp.Cfg) (wf : WfCfg cfg) (w : W) (inv : InvAll cfg w) (i inst L : Nat)
    (hk : cfg.kind i = .node inst L) (e : Elem) (hm : (w.loci i).mem e = true) (c : Nat) :
    w.comp inst e.1 = some L ∧ (changeCompartment cfg w inst e.1 c).comp inst e.1 = some c ∧
    (∀ x, x ≠ e.1 → (changeCompartment cfg w inst e.1 c).comp inst x = w.comp inst x) := by
  have := member_source cfg w inv i e hm
  rw [hk] at this
  obtain ⟨_, hc⟩ := changeCompartment_net cfg wf w inst e.1 c
  refine ⟨this, by rw [hc]; exact setComp_comp_self _ _ _ _, ?_⟩
  intro x hx; rw [hc]; exact setComp_comp_other _ _ _ _ _ hx

/-- table check (generated per model, closed by `decide`): for every registered event, (tracked compartment of its locus,
    first target of its handler) is an arrow of the diagram -/
def respects (kinds : List LKind) (events : List (Nat × Nat)) (arrows : List (Nat × Nat)) : Bool :=
  events.all fun ev => match kinds.getD ev.1 .plain with
    | .node _ c => arrows.contains (c, ev.2)
    | .edge _ L _ _ => arrows.contains (L, ev.2)
    | .plain => true

/-! ### fixed recovery -/

/-- the fixed-recovery `infect` script: after it has run at time `t` on edge `(n, m)` the node has a pending removal,
    due exactly `T` later (and `n` is in the infected compartment) — given `t ≤ t + T` -/
theorem fixed_recovery_posts (cfg : Sim.Cfg K) (inst cI hRemove : Nat) (T t : K) (e : Elem) (s : St K (Sim.U K) Elem)
    [Std.IsLinearOrder K] [Std.LawfulOrderLT K]
    (hq : FQ s.q) (hnow : s.q.now = t) (hfw : ¬ Arith.add t T < t) :
    let s' := exec (Sim.runActs cfg [.ccLeft inst cI, .occ inst, .hit inst, .postL T hRemove] t e) s
    pendingTime s'.q s.q.nextId = some (Arith.add t T) ∧ FQ s'.q := by
  simp only [Sim.runActs, exec]
  have : ¬ Arith.add t T < s.q.now := by rw [hnow]; exact hfw
  obtain ⟨_, h2, h3, _⟩ := C04.post_ok s.q (Arith.add t T) (eN e.1) hRemove hq this
  exact ⟨h3, h2⟩

/-! ### a run that stops because nothing can happen -/

/-- when a per-element event with positive probability contributes rate zero its locus is empty, so (C01) no element of
    the network satisfies its condition — e.g. no susceptible–infected edge.  Stated for the exact arithmetic of ℚ. -/
theorem empty_locus_no_edge (cfg : Comp.Cfg) (w : W) (inv : InvAll cfg w) (i inst L : Nat) (R : List Nat) (pf : Bool)
    (hk : cfg.kind i = .edge inst L R pf) (h0 : (w.loci i).size = 0) :
    ∀ a b, b ∈ w.net.adj a → ¬ (w.comp inst a = some L ∧ ∃ c, w.comp inst b = some c ∧ c ∈ R) := by
  intro a b hab hq
  have hi := inv i; rw [hk] at hi
  have hm : (w.loci i).mem (a, b) = true := (hi a b).2 ⟨hab, (qual_iff inst L R w a b).2 hq⟩
  have : (a, b) ∈ (w.loci i).toList := (TSet.mem_iff _ _).1 hm
  rw [TSet.size_eq] at h0
  rw [List.length_eq_zero_iff.1 h0] at this
  simp at this

theorem empty_locus_no_node (cfg : Comp.Cfg) (w : W) (inv : InvAll cfg w) (i inst c : Nat)
    (hk : cfg.kind i = .node inst c) (h0 : (w.loci i).size = 0) : ∀ n, w.comp inst n ≠ some c := by
  intro n hn
  have hi := inv i; rw [hk] at hi
  have hm : (w.loci i).mem (eN n) = true := (hi (eN n)).2 ⟨n, rfl, hn⟩
  have : eN n ∈ (w.loci i).toList := (TSet.mem_iff _ _).1 hm
  rw [TSet.size_eq] at h0
  rw [List.length_eq_zero_iff.1 h0] at this
  simp at this

/-- over ℚ: if the total rate is zero then every per-element event with positive probability has an empty locus -/
theorem zero_total_rate (rs : List (Nat × Rat × Nat)) (sizes : Nat → Nat) (hp : ∀ r ∈ rs, 0 ≤ r.2.1)
    (h : (rs.map (fun r => r.2.1 * (sizes r.1 : Rat))).sum = 0) : ∀ r ∈ rs, 0 < r.2.1 → sizes r.1 = 0 := by
  induction rs with
  | nil => intro r hr; simp at hr
  | cons x xs ih =>
    intro r hr hpos
    simp only [List.map_cons, List.sum_cons] at h
    have hx : 0 ≤ x.2.1 * (sizes x.1 : Rat) := Rat.mul_nonneg (hp x List.mem_cons_self) (by exact_mod_cast Nat.zero_le _)
    have hs : 0 ≤ (xs.map (fun r => r.2.1 * (sizes r.1 : Rat))).sum := by
      have : ∀ (l : List (Nat × Rat × Nat)), (∀ r ∈ l, 0 ≤ r.2.1) → 0 ≤ (l.map (fun r => r.2.1 * (sizes r.1 : Rat))).sum := by
        intro l; induction l with
        | nil => intro _; simp
        | cons y ys ihy =>
          intro hl; simp only [List.map_cons, List.sum_cons]
          have h1 : 0 ≤ y.2.1 * (sizes y.1 : Rat) := Rat.mul_nonneg (hl y List.mem_cons_self) (by exact_mod_cast Nat.zero_le _)
          have h2 := ihy (fun r hr => hl r (List.mem_cons_of_mem _ hr))
          grind
      exact this xs (fun r hr => hp r (List.mem_cons_of_mem _ hr))
    have hx0 : x.2.1 * (sizes x.1 : Rat) = 0 := by grind
    have hs0 : (xs.map (fun r => r.2.1 * (sizes r.1 : Rat))).sum = 0 := by grind
    rcases List.mem_cons.1 hr with rfl | hr
    · rcases Rat.mul_eq_zero.1 hx0 with h1 | h1
      · grind
      · exact_mod_cast h1
    · exact ih (fun r hr => hp r (List.mem_cons_of_mem _ hr)) hs0 r hr hpos

/-! ### vaccination (SIvR.infect) -/

/-- **a vaccine of efficacy 1 that has taken effect prevents infection**: when the node is vaccinated, the offset has passed and
    the random number drawn does not exceed the efficacy (always the case for efficacy 1, random numbers being below 1), the
    infection event leaves every compartment and every locus as it was -/
theorem vaccine_holds (cfg : Sim.Cfg K) (inst c : Nat) (offset eff : K) (locN locV : Nat) (t : K) (e : Elem) (s : St K (Sim.U K) Elem)
    (tv r : K) (u' : Sim.U K) (hv : s.u.vacc.lookup e.1 = some tv) (hoff : Arith.add tv offset < t)
    (hr : Sim.popF s.u = some (r, u')) (hle : ¬ eff < r) :
    (exec (Sim.runActs cfg [.sivrInfect inst c offset eff locN locV] t e) s).u.w = s.u.w := by
  simp only [Sim.runActs, exec, hv, hoff, if_true, hr, hle, if_false]
  exact (popF_w s.u u' r hr).1

/-- **a vaccine of efficacy 0 changes nothing**: when the random number drawn exceeds the efficacy (always the case for
    efficacy 0, random numbers being positive) the vaccinated node is infected exactly as an unvaccinated one would be —
    same compartment change and same loci — except that it is listed in the infected-vaccinated marker locus -/
theorem vaccine_void (cfg : Sim.Cfg K) (inst c : Nat) (offset eff : K) (locN locV : Nat) (t : K) (e : Elem) (s : St K (Sim.U K) Elem)
    (tv r : K) (u' : Sim.U K) (hv : s.u.vacc.lookup e.1 = some tv) (hoff : Arith.add tv offset < t)
    (hr : Sim.popF s.u = some (r, u')) (hlt : eff < r) :
    (exec (Sim.runActs cfg [.sivrInfect inst c offset eff locN locV] t e) s).u.w =
      updLocus (changeCompartment cfg.comp s.u.w inst e.1 c) locV (·.add (eN e.1)) := by
  simp only [Sim.runActs, exec, hv, hoff, if_true, hr, hlt]
  rw [C01.markHit_w, C01.markOccupied_w, (popF_w s.u u' r hr).1]

/-- an unvaccinated node, or one whose vaccine has not yet taken effect, is infected as in plain SIR -/
theorem unvaccinated_as_sir (cfg : Sim.Cfg K) (inst c : Nat) (offset eff : K) (locN locV : Nat) (t : K) (e : Elem) (s : St K (Sim.U K) Elem)
    (h : s.u.vacc.lookup e.1 = none ∨ ∃ tv, s.u.vacc.lookup e.1 = some tv ∧ ¬ Arith.add tv offset < t) :
    (exec (Sim.runActs cfg [.sivrInfect inst c offset eff locN locV] t e) s).u.w =
      updLocus (changeCompartment cfg.comp s.u.w inst e.1 c) locN (·.add (eN e.1)) := by
  rcases h with h | ⟨tv, h, hn⟩
  · simp only [Sim.runActs, exec, h]; rw [C01.markHit_w, C01.markOccupied_w]
  · simp only [Sim.runActs, exec, h, hn, if_false]; rw [C01.markHit_w, C01.markOccupied_w]

/-- vaccination touches neither compartments nor loci nor the network -/
theorem vaccinate_passive (cfg : Sim.Cfg K) (t : K) (e : Elem) (s : St K (Sim.U K) Elem) :
    (exec (Sim.runActs cfg [.vaccinate] t e) s).u.w = s.u.w ∧
    (exec (Sim.runActs cfg [.vaccinate] t e) s).u.vacc.lookup e.1 = some t := by
  simp [Sim.runActs, exec, List.lookup]

end C07
