import EpyVerif.Lemmas.Swap
/-!
# C18 — ShuffleK rewiring preserves every node's degree

Model: `Model/Swap.lean` — the working network as a duplicate-free node list with a symmetric Boolean adjacency, and one
accepted swap `a–b, c–d → a–d, c–b`.  `guardOK` is the conjunction of the guards under which `ShuffleK.build` performs a
swap (`a–b` present, `c ∉ {a, b}`, `d ∈ N(c) \ {a, b, c}`, neither `a–d` nor `c–b` present); the driver re-checks it on every
swap the real code performs.  A completed build is a sequence of such swaps.
-/
set_option linter.unusedSectionVars false
namespace Shuffle

theorem guard_iff (g : G) (a b c d : Node) (hnd : g.ns.Nodup) (hsym : ∀ x y, g.adj x y = g.adj y x) :
    guardOK g a b c d = true → SwapOK g a b c d := by
  intro h
  simp only [guardOK, Bool.and_eq_true, List.contains_eq_mem, decide_eq_true_eq, Bool.not_eq_true', bne_iff_ne, ne_eq] at h
  obtain ⟨⟨⟨⟨⟨⟨⟨⟨⟨⟨⟨⟨⟨ma, mb⟩, mc⟩, md⟩, ab⟩, cd⟩, nad⟩, ncb⟩, n1⟩, n2⟩, n3⟩, n4⟩, n5⟩, n6⟩ := h
  exact ⟨hnd, hsym, ma, mb, mc, md, ab, cd, nad, ncb, n1, n2, n3, n4, n5, n6⟩

/-- the swap keeps the adjacency symmetric -/
theorem swap_sym (g : G) (a b c d : Node) (hsym : ∀ x y, g.adj x y = g.adj y x) :
    ∀ x y, (swap g a b c d).adj x y = (swap g a b c d).adj y x := by
  intro x y
  simp only [swap]
  have p : ∀ u v, isPair x y u v = isPair y x u v := by
    intro u v; simp only [isPair]; cases h1 : (x == u) <;> cases h2 : (y == v) <;> cases h3 : (x == v) <;> cases h4 : (y == u) <;> simp
  rw [p a b, p c d, p a d, p c b, hsym x y]

/-- no self-loop is introduced: if the network had none, the swapped one has none -/
theorem swap_no_loops (g : G) (a b c d : Node) (ok : SwapOK g a b c d) (h : ∀ x, g.adj x x = false) :
    ∀ x, (swap g a b c d).adj x x = false := by
  intro x
  simp only [swap]
  have h1 : isPair x x a d = false := by
    simp only [isPair]; cases hxa : (x == a) <;> cases hxd : (x == d) <;> simp
    have := ok.ne_da; simp at hxa hxd; exact absurd (hxd.symm.trans hxa) this
  have h2 : isPair x x c b = false := by
    simp only [isPair]; cases hxc : (x == c) <;> cases hxb : (x == b) <;> simp
    have := ok.ne_cb; simp at hxc hxb; exact absurd (hxc.symm.trans hxb) this
  simp [h1, h2, h x]

/-- the two new edges were absent and the two removed ones present: the set of edges changes in exactly these four -/
theorem swap_edges (g : G) (a b c d : Node) (ok : SwapOK g a b c d) :
    (swap g a b c d).adj a b = false ∧ (swap g a b c d).adj c d = false ∧
    (swap g a b c d).adj a d = true ∧ (swap g a b c d).adj c b = true ∧
    (∀ x y, isPair x y a b = false → isPair x y c d = false → isPair x y a d = false → isPair x y c b = false →
      (swap g a b c d).adj x y = g.adj x y) := by
  obtain ⟨_, _, _, _, _, _, _, _, _, _, n1, n2, n3, n4, n5, n6⟩ := ok
  refine ⟨?_, ?_, ?_, ?_, ?_⟩
  · simp [swap, isPair]
  · simp [swap, isPair]
  · simp only [swap, isPair]; simp; grind
  · simp only [swap, isPair]; simp; grind
  · intro x y h1 h2 h3 h4; simp [swap, h1, h2, h3, h4]

/-- a sequence of swaps, each of which passes the guards in the network it is applied to -/
def swaps (g : G) : List (Node × Node × Node × Node) → G
  | [] => g
  | (a, b, c, d) :: rest => swaps (swap g a b c d) rest

def guardsOK (g : G) : List (Node × Node × Node × Node) → Bool
  | [] => true
  | (a, b, c, d) :: rest => guardOK g a b c d && guardsOK (swap g a b c d) rest

/-- **whenever a build completes** (any number of accepted swaps): same nodes, every node's degree unchanged, adjacency still
    symmetric, and no self-loop if there was none -/
theorem build_preserves (g : G) (hnd : g.ns.Nodup) (hsym : ∀ x y, g.adj x y = g.adj y x) :
    ∀ (sw : List (Node × Node × Node × Node)), guardsOK g sw = true →
      (swaps g sw).ns = g.ns ∧ (∀ v, deg (swaps g sw) v = deg g v) ∧
      (∀ x y, (swaps g sw).adj x y = (swaps g sw).adj y x) ∧
      ((∀ x, g.adj x x = false) → ∀ x, (swaps g sw).adj x x = false) := by
  intro sw
  induction sw generalizing g with
  | nil => intro _; exact ⟨rfl, fun _ => rfl, hsym, fun h => h⟩
  | cons s rest ih =>
    obtain ⟨a, b, c, d⟩ := s
    intro h
    simp only [guardsOK, Bool.and_eq_true] at h
    have ok := guard_iff g a b c d hnd hsym h.1
    obtain ⟨i1, i2, i3, i4⟩ := ih (swap g a b c d) hnd (swap_sym g a b c d hsym) h.2
    refine ⟨i1, fun v => (i2 v).trans (swap_degree g a b c d ok v), i3, fun hl => i4 (swap_no_loops g a b c d ok hl)⟩

/-- rewiring fraction 0 performs no swap: the network is identical -/
theorem zero_swaps (g : G) : swaps g [] = g := rfl

end Shuffle
