import EpyVerif.Props.C03
import EpyVerif.Props.C04
import EpyVerif.Props.C17
import EpyVerif.Model.Stats
import EpyVerif.Model.Sim
/-!
# C12 — Monitor time series and network statistics report the true state

Monitor (`monitor.py`): `build` posts a repeating event at time 0 with interval `d`; its handler `observe` appends the time
and the size of every locus of the simulation; `postRepeatingEvent`'s closure then re-posts it `d` later.  In the model
(`Model/Sim.lean`) that handler is the script `[observe, postE d self]`.  NetworkStatistics (`statistics.py`, `KMAX` as
repaired) is `Model/Stats.lean`.
-/
set_option linter.unusedSectionVars false
open Queue Dyn Comp
namespace C12

variable {K : Type} [LT K] [LE K] [DecidableLT K] [DecidableLE K] [Arith K]

/-- one observation appends exactly its own time and the current size of every locus, one entry per locus, and touches
    nothing else of the world (passive observer) -/
theorem observe_records (cfg : Sim.Cfg K) (t : K) (e : Elem) (s : St K (Sim.U K) Elem) :
    let s' := exec (Sim.runActs cfg [.observe] t e) s
    s'.u.mon.times = s.u.mon.times ++ [t] ∧ s'.u.mon.vals = s.u.mon.vals ++ [Sim.lociSizes s.u] ∧
    (Sim.lociSizes s.u).length = s.u.nloci ∧ s'.u.w = s.u.w ∧ s'.q = s.q := by
  simp [Sim.runActs, exec, Sim.lociSizes]

/-- the series stay as long as the list of observation times -/
theorem series_lengths (cfg : Sim.Cfg K) (t : K) (e : Elem) (s : St K (Sim.U K) Elem)
    (h : s.u.mon.vals.length = s.u.mon.times.length) :
    (exec (Sim.runActs cfg [.observe] t e) s).u.mon.vals.length = (exec (Sim.runActs cfg [.observe] t e) s).u.mon.times.length := by
  simp [Sim.runActs, exec, h]

/-- after observing at `t` the monitor is pending again for `t + d` (so observations are at 0, d, 2d, …) -/
theorem observe_reposts (cfg : Sim.Cfg K) (t d : K) (e : Elem) (h : Nat) (s : St K (Sim.U K) Elem)
    [Std.IsLinearOrder K] [Std.LawfulOrderLT K] (hq : FQ s.q) (hnow : s.q.now = t) (hfw : ¬ Arith.add t d < t) :
    pendingTime (exec (Sim.runActs cfg [.observe, .postE d h] t e) s).q s.q.nextId = some (Arith.add t d) := by
  simp only [Sim.runActs, exec]
  exact C04.repeating_step s.q t d e h hq hnow hfw

/-- **position of an observation among the events**: in the trace of any run (C03: own times non-decreasing) every event
    fired before a given event has a time ≤ its time and every event fired after it a time ≥ its time; so what an
    observation at time `o` sees is the state after every event strictly earlier than `o` and before every event strictly
    later than `o` -/
theorem obs_position {E Λ : Type} (tr : List (Fired K E Λ)) (h : (tr.map (·.own)).Pairwise (· ≤ ·)) (k : Nat) (hk : k < tr.length) :
    (∀ j (hj : j < k), (tr[j]'(by omega)).own ≤ tr[k].own) ∧ (∀ j (hj : k < j) (hj' : j < tr.length), tr[k].own ≤ tr[j].own) := by
  have hp : tr.Pairwise (fun a b => a.own ≤ b.own) := List.pairwise_map.1 h
  constructor
  · intro j hj; exact List.pairwise_iff_getElem.1 hp j k (by omega) hk hj
  · intro j hj hj'; exact List.pairwise_iff_getElem.1 hp k j hk hj' hj

/-! ### NetworkStatistics -/

/-- `KMEAN`'s numerator Σ i·hist[i] is the sum of the degrees, whatever the degree sequence -/
theorem kmean_numerator (ds : List Nat) (maxk : Nat) (h : ∀ d ∈ ds, d ≤ maxk) :
    ((List.range (maxk+1)).map (fun i => i * ds.count i)).sum = ds.sum := NetGF.sum_weighted_count_range ds maxk h

/-- the histogram over 0..kmax accounts for every node -/
theorem hist_total (ds : List Nat) (maxk : Nat) (h : ∀ d ∈ ds, d ≤ maxk) :
    ((List.range (maxk+1)).map (fun i => ds.count i)).sum = ds.length := NetGF.sum_count_range ds maxk h

/-- `KMAX` (repaired) is the largest degree: every degree is ≤ it, and it is attained (non-empty network) -/
theorem kmax_is_max (ds : List Nat) : (∀ d ∈ ds, d ≤ Stats.maxDeg ds) ∧ (ds ≠ [] → Stats.maxDeg ds ∈ ds) := by
  unfold Stats.maxDeg
  have key : ∀ (l : List Nat) (a : Nat), a ≤ l.foldl max a ∧ (∀ d ∈ l, d ≤ l.foldl max a) ∧ (l.foldl max a = a ∨ l.foldl max a ∈ l) := by
    intro l
    induction l with
    | nil => intro a; exact ⟨Nat.le_refl _, by simp, Or.inl rfl⟩
    | cons x xs ih =>
      intro a
      simp only [List.foldl_cons]
      obtain ⟨h1, h2, h3⟩ := ih (max a x)
      refine ⟨Nat.le_trans (Nat.le_max_left a x) h1, ?_, ?_⟩
      · intro d hd
        rcases List.mem_cons.1 hd with rfl | hd
        · exact Nat.le_trans (Nat.le_max_right a d) h1
        · exact h2 d hd
      · rcases h3 with h3 | h3
        · rw [h3]
          by_cases hax : a ≤ x
          · right; rw [Nat.max_eq_right hax]; exact List.mem_cons_self
          · left; rw [Nat.max_eq_left (by omega)]
        · right; exact List.mem_cons_of_mem _ h3
  refine ⟨(key ds 0).2.1, ?_⟩
  intro hne
  rcases (key ds 0).2.2 with h | h
  · -- the maximum is 0: some element exists and is ≤ 0
    cases ds with
    | nil => exact absurd rfl hne
    | cons x xs =>
      have := (key (x :: xs) 0).2.1 x List.mem_cons_self
      rw [h] at this ⊢
      have : x = 0 := by omega
      rw [this]; exact List.mem_cons_self
  · exact h

example : (Stats.stats { nodes := [0, 1, 2, 3], adj := fun n => if n = 0 then [1, 2] else if n = 1 then [0] else if n = 2 then [0] else [] }).kmax = 2 := by
  decide

end C12
