import EpyVerif.Props.C07
/-!
# C08 — Occupied edges and hitting times record a consistent contact tree

Two layers.
* On the executable model (`Model/Sim.lean`): what one `infect` event of a once-infectable model records
  (`infect_records`): exactly its edge becomes occupied, with occupation time = the node's hitting time = the event's
  time; an already occupied edge / already hit node is not overwritten (`firstOnly`); nothing else changes.
  By C07 (`event_arrow`) the infected node was susceptible and its infector infectious at that very moment, by C03 event
  times never decrease, by C05 a stale choice is skipped.
* On the resulting *infection log* (the list of (child, parent, time) in firing order): if every child is new and every
  parent is a seed or an earlier child with a strictly smaller time, the recorded edges form a forest in rank form:
  there is a depth function increasing by one along every edge and a root function constant along every edge whose
  values are seeds; children are pairwise distinct (so #occupied = #infected non-seeds); seeds are never children.
-/
set_option linter.unusedSectionVars false
open Comp Bbt Queue Dyn
namespace C08

variable {K : Type} [LT K] [LE K] [DecidableLT K] [DecidableLE K] [Arith K]

/-! ### what an infection event records -/

theorem markOccupied_new (u : Sim.U K) (inst : Nat) (e : Elem) (t : K)
    (h : u.occ.any (fun o => o.1 == inst && o.2.1 == (Sim.unord e.1 e.2).1 && o.2.2 == (Sim.unord e.1 e.2).2) = false) :
    Sim.markOccupied u inst e t =
      { u with occ := (inst, (Sim.unord e.1 e.2).1, (Sim.unord e.1 e.2).2) :: u.occ,
               tocc := ((Sim.unord e.1 e.2).1, (Sim.unord e.1 e.2).2, t) ::
                 u.tocc.filter (fun o => !(o.1 == (Sim.unord e.1 e.2).1 && o.2.1 == (Sim.unord e.1 e.2).2)) } := by
  unfold Sim.markOccupied
  simp only []
  rw [if_neg]; rw [h]; exact Bool.false_ne_true

theorem markHit_new (u : Sim.U K) (i : Option Nat) (n : Node) (t : K) (h : u.hit.any (fun h => h.1 == n) = false) :
    Sim.markHit u i n t = { u with hit := (n, t, i) :: u.hit } := by
  unfold Sim.markHit
  rw [if_neg]; rw [h]; exact Bool.false_ne_true

/-- the `infect` script `[changeCompartment(n, I); markOccupied(e, t); markHit(n, t)]` on a node that has not been hit and
    an edge that is not occupied: afterwards exactly that edge is additionally occupied, at time `t`, and the node's
    hitting time is `t`; the queue is untouched -/
theorem infect_records (cfg : Sim.Cfg K) (inst cI : Nat) (t : K) (e : Elem) (s : St K (Sim.U K) Elem)
    (hno : s.u.occ.any (fun o => o.1 == inst && o.2.1 == (Sim.unord e.1 e.2).1 && o.2.2 == (Sim.unord e.1 e.2).2) = false)
    (hnh : s.u.hit.any (fun h => h.1 == e.1) = false) :
    (exec (Sim.runActs cfg [.ccLeft inst cI, .occ inst, .hit inst] t e) s).u.occ
        = (inst, (Sim.unord e.1 e.2).1, (Sim.unord e.1 e.2).2) :: s.u.occ ∧
    ((Sim.unord e.1 e.2).1, (Sim.unord e.1 e.2).2, t) ∈ (exec (Sim.runActs cfg [.ccLeft inst cI, .occ inst, .hit inst] t e) s).u.tocc ∧
    (exec (Sim.runActs cfg [.ccLeft inst cI, .occ inst, .hit inst] t e) s).u.hit = (e.1, t, some inst) :: s.u.hit ∧
    (exec (Sim.runActs cfg [.ccLeft inst cI, .occ inst, .hit inst] t e) s).u.w = changeCompartment cfg.comp s.u.w inst e.1 cI ∧
    (exec (Sim.runActs cfg [.ccLeft inst cI, .occ inst, .hit inst] t e) s).q = s.q := by
  simp only [Sim.runActs, exec]
  have e1 := markOccupied_new ({ s.u with w := changeCompartment cfg.comp s.u.w inst e.1 cI } : Sim.U K) inst e t hno
  rw [e1]
  have e2 := markHit_new (K := K) (i := some inst) (n := e.1) (t := t) (u := { ({ s.u with w := changeCompartment cfg.comp s.u.w inst e.1 cI } : Sim.U K) with
      occ := (inst, (Sim.unord e.1 e.2).1, (Sim.unord e.1 e.2).2) :: s.u.occ,
      tocc := ((Sim.unord e.1 e.2).1, (Sim.unord e.1 e.2).2, t) ::
                 s.u.tocc.filter (fun o => !(o.1 == (Sim.unord e.1 e.2).1 && o.2.1 == (Sim.unord e.1 e.2).2)) }) hnh
  rw [e2]
  refine ⟨?_, ?_, ?_, ?_, ?_⟩ <;> first | rfl | exact List.mem_cons_self | trivial

/-- a node that already has a hitting time keeps it (SIS: the recorded time is that of the first infection), and an edge
    that is already occupied keeps its occupation time -/
theorem first_only (u : Sim.U K) (inst : Nat) (e : Elem) (t : K)
    (ho : u.occ.any (fun o => o.1 == inst && o.2.1 == (Sim.unord e.1 e.2).1 && o.2.2 == (Sim.unord e.1 e.2).2) = true)
    (hh : u.hit.any (fun h => h.1 == e.1) = true) :
    Sim.markOccupied u inst e t = u ∧ Sim.markHit u (some inst) e.1 t = u := by
  simp only [Sim.markOccupied, Sim.markHit, ho, hh, if_true, and_self]

/-! ### the infection log is a forest -/

structure Inf (K : Type) where
  child : Node
  parent : Node
  t : K

/-- what C05/C07/C03 guarantee of each infection of a once-infectable model; the log is kept newest first (as the model
    keeps `hit`): the child is neither a seed nor an earlier child; the parent is a seed, or an earlier child whose own
    time is strictly smaller -/
def Valid (seeds : List Node) : List (Inf K) → Prop
  | [] => True
  | x :: pre => Valid seeds pre ∧ x.child ∉ seeds ∧ (∀ y ∈ pre, y.child ≠ x.child) ∧
      (x.parent ∈ seeds ∨ ∃ y ∈ pre, y.child = x.parent ∧ y.t < x.t)

theorem parent_placed (seeds : List Node) : ∀ (log : List (Inf K)), Valid seeds log →
    ∀ y ∈ log, y.parent ∈ seeds ∨ ∃ z ∈ log, z.child = y.parent := by
  intro log
  induction log with
  | nil => intro _ y hy; simp at hy
  | cons x pre ih =>
    intro hv y hy
    obtain ⟨hpre, _, _, hpar⟩ := hv
    rcases List.mem_cons.1 hy with rfl | hy
    · rcases hpar with h | ⟨z, hz, hzc, _⟩
      · exact Or.inl h
      · exact Or.inr ⟨z, List.mem_cons_of_mem _ hz, hzc⟩
    · rcases ih hpre y hy with h | ⟨z, hz, hzc⟩
      · exact Or.inl h
      · exact Or.inr ⟨z, List.mem_cons_of_mem _ hz, hzc⟩

/-- **forest, in rank form**: there are a depth and a root for every node such that seeds are roots of depth 0 and every
    recorded edge goes from a node to a parent one level up in the same tree; children are pairwise distinct and never seeds -/
theorem forest (seeds : List Node) : ∀ (log : List (Inf K)), Valid seeds log →
    ∃ (depth : Node → Nat) (root : Node → Node),
      (∀ s ∈ seeds, depth s = 0 ∧ root s = s) ∧
      (∀ x ∈ log, depth x.child = depth x.parent + 1 ∧ root x.child = root x.parent ∧ root x.child ∈ seeds) ∧
      (log.map (·.child)).Nodup ∧ (∀ x ∈ log, x.child ∉ seeds) := by
  intro log
  induction log with
  | nil => intro _; exact ⟨fun _ => 0, fun n => n, fun s _ => ⟨rfl, rfl⟩, by simp, by simp, by simp⟩
  | cons x pre ih =>
    intro hv
    obtain ⟨hpre, hns, hnew, hpar⟩ := hv
    obtain ⟨depth, root, hs, he, hnd, hc⟩ := ih hpre
    have hproot : root x.parent ∈ seeds := by
      rcases hpar with h | ⟨y, hy, hyc, _⟩
      · rw [(hs _ h).2]; exact h
      · rw [← hyc]; exact (he y hy).2.2
    have hxp : x.parent ≠ x.child := by
      rcases hpar with h | ⟨y, hy, hyc, _⟩
      · exact fun e => hns (e ▸ h)
      · exact fun e => hnew y hy (hyc.trans e)
    refine ⟨fun n => if n = x.child then depth x.parent + 1 else depth n,
            fun n => if n = x.child then root x.parent else root n, ?_, ?_, ?_, ?_⟩
    · intro s hsm
      have : s ≠ x.child := fun e => hns (e ▸ hsm)
      simp only [this, if_false]; exact hs s hsm
    · intro y hy
      rcases List.mem_cons.1 hy with rfl | hy
      · simp only [if_true, hxp, if_false]
        exact ⟨trivial, trivial, hproot⟩
      · have h1 : y.child ≠ x.child := hnew y hy
        have h2 : y.parent ≠ x.child := by
          intro e
          rcases parent_placed seeds pre hpre y hy with h | ⟨z, hz, hzc⟩
          · exact hns (e ▸ h)
          · exact hnew z hz (hzc.trans e)
        simp only [h1, h2, if_false]; exact he y hy
    · simp only [List.map_cons, List.nodup_cons]
      refine ⟨?_, hnd⟩
      intro hm
      obtain ⟨y, hy, hyc⟩ := List.mem_map.1 hm
      exact hnew y hy hyc
    · intro y hy
      rcases List.mem_cons.1 hy with rfl | hy
      · exact hns
      · exact hc y hy

/-- the hitting time of a non-seed infector is recorded and strictly earlier than that of the node it infects -/
theorem hit_later (seeds : List Node) (pre : List (Inf K)) (x : Inf K) (h : Valid seeds (x :: pre)) :
    x.parent ∈ seeds ∨ ∃ y ∈ pre, y.child = x.parent ∧ y.t < x.t ∧ ∀ z ∈ pre, z.child = x.parent → z = y := by
  obtain ⟨hpre, _, _, hpar⟩ := h
  rcases hpar with h1 | ⟨y, hy, hyc, hyt⟩
  · exact Or.inl h1
  · right
    refine ⟨y, hy, hyc, hyt, ?_⟩
    obtain ⟨_, _, _, _, hnd, _⟩ := forest seeds pre hpre
    intro z hz hzc
    exact Queue.inj_of_nodup_map _ _ hnd hz hy (hzc.trans hyc.symm)

end C08
