import EpyVerif.Lemmas.DynRuns
/-!
# C05 — Event functions are only invoked on live members of their locus

Model: `Model/Dyn.lean`.  Every `Fired` record of a stochastic (per-element / fixed-rate) event carries `member`, the
value of `e in locus` in the world the handler starts from.  The theorems say it is `true` for every event either loop
executes, that an event with probability zero or an empty locus contributes nothing to a timestep, and that a chosen
element which has left its locus by its turn is skipped.  Combined with C01 (loci = tracked sets) membership is the
tracked condition itself.
-/
open Queue Dyn Std
namespace C05

variable {K U E Λ : Type} [LT K] [LE K] [DecidableLT K] [DecidableLE K] [IsLinearOrder K] [LawfulOrderLT K] [Arith K]

/-- synchronous dynamics: the re-check before firing — an element that is no longer in its locus is skipped,
    state and trace unchanged -/
theorem skip_stale (P : Proc K U E Λ) (t : K) (acc : St K U E × List (Fired K E Λ)) (x : Λ × E × Nat)
    (h : P.mem acc.1.u x.1 x.2.1 = false) : synFire P t acc x = acc := by
  unfold synFire; simp [h]

/-- synchronous dynamics: whatever a tranche fires was a member when fired -/
theorem fire_member_sync (P : Proc K U E Λ) (t : K) (evs : List (Λ × E × Nat)) (acc : St K U E × List (Fired K E Λ))
    (h : StochMember acc.2) : StochMember (evs.foldl (synFire P t) acc).2 := foldl_member P t evs acc h

/-- an event with probability zero or an empty locus is not even tried in a timestep (per-element part) -/
theorem zero_or_empty_not_chosen (P : Proc K U E Λ) (l : Λ) (p : K) (h : Nat) (rest : List (Λ × K × Nat)) (u : U)
    (acc : List (Λ × E × Nat)) (hz : P.size u l = 0 ∨ ¬ Arith.zero < p) :
    perElPart P ((l, p, h) :: rest) u acc = perElPart P rest u acc := by
  conv => lhs; unfold perElPart
  have : ¬ (P.size u l > 0 ∧ Arith.zero < p) := by
    rintro ⟨h1, h2⟩; rcases hz with hz | hz
    · omega
    · exact hz h2
  simp [this]

theorem zero_or_empty_not_chosen_fixed (P : Proc K U E Λ) (l : Λ) (p : K) (h : Nat) (rest : List (Λ × K × Nat)) (u : U)
    (acc : List (Λ × E × Nat)) (hz : P.size u l = 0 ∨ ¬ Arith.zero < p) :
    fixedPart P ((l, p, h) :: rest) u acc = fixedPart P rest u acc := by
  conv => lhs; unfold fixedPart
  have : ¬ (P.size u l > 0 ∧ Arith.zero < p) := by
    rintro ⟨h1, h2⟩; rcases hz with hz | hz
    · omega
    · exact hz h2
  simp [this]

/-- stochastic dynamics: one iteration adds posted events and at most one stochastic event, which — when `draw`
    returns a member, as C09 proves of `DrawSet.draw` — was a member of its locus when its handler was called -/
theorem fire_member_sto (P : Proc K U E Λ) (fuel : Nat) (L : Loop K U E Λ)
    (hdraw : ∀ u l e u', P.draw u l = some (e, u') → P.mem u' l e = true)
    (h : StochMember L.tr) : StochMember (stoIter P fuel L).1.tr := by
  unfold stoIter
  split
  · exact h
  · simp only []
    split
    · split
      · exact h
      · obtain ⟨ext, h1, h2⟩ := runPending_prefix P _ fuel L.s L.tr
        show StochMember (runPending _ _ _ _ _).2.1
        rw [h1]; intro ev hev
        rcases List.mem_append.1 hev with h' | h'
        · exact h ev h'
        · exact (h2 ev h').2
    · split
      · exact h
      · rename_i r1 u1 _
        try simp only []
        split
        · exact h
        · rename_i tr u2 _
          obtain ⟨ext, h1, h2⟩ := runPending_prefix P (Arith.add L.t (Arith.gillespieDt (total (rates P L.s.u)) r1)) fuel
            ({ L.s with u := u2 } : St K U E) L.tr
          have hm : StochMember (runPending P (Arith.add L.t (Arith.gillespieDt (total (rates P L.s.u)) r1)) fuel
              ({ L.s with u := u2 } : St K U E) L.tr).2.1 := by
            rw [h1]; intro ev hev
            rcases List.mem_append.1 hev with h' | h'
            · exact h ev h'
            · exact (h2 ev h').2
          split
          · exact hm
          · split
            · split
              · exact hm
              · rename_i e u3 hd
                intro ev hev
                rcases List.mem_append.1 hev with h' | h'
                · exact hm ev h'
                · simp at h'; subst h'
                  simp only [fireStoch]
                  exact hdraw _ _ _ _ hd
            · exact hm

end C05
