import EpyVerif.Lemmas.Select
import EpyVerif.Lemmas.Measure
import EpyVerif.Props.C09
import EpyVerif.Props.C05
/-!
# C02 — Stochastic dynamics samples the continuous-time Markov chain of the model

Per-step law of `StochasticDynamics.do`, in two layers.
* deterministic: the event kind the loop selects as a function of `r₂` (`select_spec`: the entry whose cumulative-rate interval
  contains `r₂·a`; a zero-rate event is never selected; the fall-through branch is dead), the element as a function of the
  drawn integers (C09), and the time step as a function of `r₁`;
* measure: for ideal uniform `r₁, r₂` the sets of random numbers leading to each outcome have Lebesgue measure
  `rate/a` (`select_law`) and `e^{-a s}` for `dt > s` (`dt_law`); a member of a locus of size n is drawn with probability
  exactly `1/n` (`draw_law`).  Hence the one-step kernel is `rateₖ/a · 1/|locusₖ|` with an `Exp(a)` holding time: the
  embedded jump chain and holding times of the CTMC whose generator gives each eligible element its event probability
  (and by C01 `|locusₖ|` is the true number of eligible elements).

PARTIAL: the passage from per-step kernel + holding times to the law of whole outcomes (final size, duration) is the
textbook construction of a CTMC and is not formalised.
-/
open Dyn
namespace C02

variable {Λ : Type}

/-- the selection scan returns the event whose cumulative-rate interval contains `xc = r₂·a` -/
theorem select_spec (rs : List (Λ × Rat × Nat)) (xc : Rat) (first : Λ × Rat × Nat) (h0 : 0 ≤ xc) (h1 : xc < total rs) :
    ∃ k, ∃ hk : k < rs.length, select xc Arith.zero rs first = rs[k] ∧
      rateSum (rs.take k) ≤ xc ∧ xc < rateSum (rs.take k) + rs[k].2.1 := by
  rw [total_eq] at h1
  obtain ⟨k, hk, e, a, b⟩ := select_spec_aux xc rs 0 first h0 (by grind)
  exact ⟨k, hk, e, by grind, by grind⟩

/-- an event whose rate is zero (probability zero, or an empty locus) is never selected, when all rates are non-negative -/
theorem zero_rate_never (rs : List (Λ × Rat × Nat)) (xc : Rat) (first : Λ × Rat × Nat) (h0 : 0 ≤ xc) (h1 : xc < total rs) :
    0 < (select xc Arith.zero rs first).2.1 := by
  obtain ⟨k, hk, e, a, b⟩ := select_spec rs xc first h0 h1
  rw [e]; grind

/-- conversely (non-negative rates): every `xc` inside the `k`-th cumulative-rate interval selects the `k`-th event, so the set
    of `r₂` selecting it is the whole interval, whose measure is `select_law` — the kernel is `rateₖ/a` exactly, not just at most -/
theorem select_complete (rs : List (Λ × Rat × Nat)) (xc : Rat) (first : Λ × Rat × Nat) (k : Nat) (hk : k < rs.length)
    (hn : ∀ r ∈ rs, 0 ≤ r.2.1) (h0 : rateSum (rs.take k) ≤ xc) (h1 : xc < rateSum (rs.take k) + rs[k].2.1) :
    select xc Arith.zero rs first = rs[k] :=
  select_complete_aux xc rs 0 first k hk hn (by grind) (by grind)

/-- the premises are satisfiable: rates 1, 0, 2 and `xc = 1` select the third entry (the zero-rate one is skipped) -/
example : select (1 : Rat) Arith.zero [((0 : Nat), (1 : Rat), 3), (1, 0, 0), (2, 2, 5)] (0, 1, 3) = (2, 2, 5) := by decide +kernel

/-- `r₂·a` always lies in `[0, a)` for `r₂ ∈ [0, 1)` and `a > 0`: the fall-through of the Python loop is unreachable -/
theorem scan_never_falls_through (a r2 : Rat) (ha : 0 < a) (h0 : 0 ≤ r2) (h1 : r2 < 1) : 0 ≤ r2 * a ∧ r2 * a < a := by
  constructor
  · exact Rat.mul_nonneg h0 (Rat.le_of_lt ha)
  · have : r2 * a < 1 * a := Rat.mul_lt_mul_of_pos_right h1 ha
    grind

/-- measure of the `r₂` that select the event with cumulative rate `cum` and rate `rate`: `rate / a` -/
theorem select_law (a cum rate : ℝ) (ha : 0 < a) (hc : 0 ≤ cum) (hr : 0 ≤ rate) (hs : cum + rate ≤ a) :
    MeasureTheory.volume {r : ℝ | r ∈ Set.Ico 0 1 ∧ cum ≤ r * a ∧ r * a < cum + rate} = ENNReal.ofReal (rate / a) :=
  Bridge.select_law a cum rate ha hc hr hs

/-- the time step `ln(1/r₁)/a` exceeds `s` with probability `e^{-a s}`: exponential with the total rate -/
theorem dt_law (a s : ℝ) (ha : 0 < a) (hs : 0 ≤ s) :
    MeasureTheory.volume {r : ℝ | r ∈ Set.Ioo 0 1 ∧ s < Real.log (1 / r) / a} = ENNReal.ofReal (Real.exp (-(a * s))) :=
  Bridge.dt_law a s ha hs

/-- every member of the chosen locus is drawn with probability exactly `1/n` (C09) -/
theorem draw_law (ops : List (Bbt.Op Int)) (e : Int) (h : e ∈ Bbt.toList (Bbt.run ops)) :
    Bbt.pr (Bbt.run ops) e = 1 / ((Bbt.toList (Bbt.run ops)).length : ℚ) := Bbt.C09.draw_uniform ops e h

/-- the event probabilities `rateₖ / a` of one step sum to one -/
theorem kernel_normalised (rs : List (Λ × Rat × Nat)) (ha : rateSum rs ≠ 0) :
    (rs.map (fun r => r.2.1 / rateSum rs)).sum = 1 := by
  have : ∀ (l : List (Λ × Rat × Nat)) (c : Rat), (l.map (fun r => r.2.1 / c)).sum = (l.map (·.2.1)).sum / c := by
    intro l c; induction l with
    | nil => simp
    | cons x xs ih => simp only [List.map_cons, List.sum_cons, ih]; rw [add_div]
  rw [this]; exact div_self ha

end C02
