import EpyVerif.Lemmas.QueueSpec
/-!
# C04 — Posted events fire exactly once, at their time, in posting order on ties

Model: `Model/Queue.lean` (heap-with-lazy-deletion + finder dict of `networkdynamics.py`) and the loops of
`Model/Dyn.lean`.  Abstract state: `Pending q id t` — event `id` is pending for time `t` (a finite map, `pending_unique`).
Handlers are arbitrary programs over the queue API (`Prog`), so "posted from inside another event" is covered.
-/
set_option linter.unusedSectionVars false
open Queue Dyn Std
namespace C04

variable {K U E Λ : Type} [LT K] [LE K] [DecidableLT K] [DecidableLE K] [IsLinearOrder K] [LawfulOrderLT K] [Arith K]

/-! ### the API refines a finite map of pending events -/

/-- posting into the past: `ValueError`, nothing changes -/
theorem post_rejected (q : S K E) (t : K) (e : E) (h : Nat) (hp : t < q.now) : post q t e h = (q, none) := post_past q t e h hp

/-- posting for `t ≥ now` returns a fresh id that is pending for exactly `t`; no other event is affected -/
theorem post_ok (q : S K E) (t : K) (e : E) (h : Nat) (hq : FQ q) (hp : ¬ t < q.now) :
    (post q t e h).2 = some q.nextId ∧ FQ (post q t e h).1 ∧ pendingTime (post q t e h).1 q.nextId = some t ∧
    (∀ id, id ≠ q.nextId → pendingTime (post q t e h).1 id = pendingTime q id) := by
  obtain ⟨h1, h2, h3⟩ := post_spec q t e h hq hp
  refine ⟨h1, h2, (pendingTime_iff h2 _ _).2 ((h3 _ _).2 (Or.inl ⟨rfl, rfl⟩)), ?_⟩
  intro id hne
  cases hc : pendingTime q id with
  | none =>
    rw [pendingTime_none h2]; intro t' hp'
    rcases (h3 id t').1 hp' with ⟨h', _⟩ | h'
    · exact hne h'
    · exact (pendingTime_none hq id).1 hc t' h'
  | some t' => exact (pendingTime_iff h2 _ _).2 ((h3 _ _).2 (Or.inr ((pendingTime_iff hq _ _).1 hc)))

/-- un-posting a pending event returns the time it was due and makes it not pending; nothing else changes -/
theorem unpost_ok (q : S K E) (id : Nat) (t : K) (hq : FQ q) (hp : pendingTime q id = some t) :
    (unpost q id).2 = some t ∧ FQ (unpost q id).1 ∧ pendingTime (unpost q id).1 id = none ∧
    (∀ id', id' ≠ id → pendingTime (unpost q id).1 id' = pendingTime q id') := by
  obtain ⟨h1, h2, h3⟩ := unpost_spec q id t hq hp
  refine ⟨h1, h2, (pendingTime_none h2 id).2 (fun t' hp' => ((h3 id t').1 hp').1 rfl), ?_⟩
  intro id' hne
  cases hc : pendingTime q id' with
  | none => rw [pendingTime_none h2]; intro t' hp'; exact (pendingTime_none hq id').1 hc t' ((h3 id' t').1 hp').2
  | some t' => exact (pendingTime_iff h2 _ _).2 ((h3 _ _).2 ⟨hne, (pendingTime_iff hq _ _).1 hc⟩)

/-- asking for / un-posting an event that has fired or been un-posted: `KeyError` (`None` when non-fatal), no change -/
theorem unpost_stale (q : S K E) (id : Nat) (h : pendingTime q id = none) : unpost q id = (q, none) := unpost_missing q id h

/-- firing pops the least pending event in `(time, id)` order, which is due; it is pending for exactly the time the
    handler is given, and is not pending afterwards -/
theorem fire_spec (P : Proc K U E Λ) (bound : K) (s s' : St K U E) (ev : Fired K E Λ) (hq : FQ s.q)
    (hf : firePosted P bound s = some (s', ev)) :
    Pending s.q ev.pid ev.own ∧ ev.htime = ev.own ∧ ev.own ≤ bound ∧
    (∀ id t, Pending s.q id t → id = ev.pid ∨ keyLt (ev.own, ev.pid) (t, id)) := by
  unfold firePosted at hf
  cases hp : popBefore s.q bound with
  | none => rw [hp] at hf; simp at hf
  | some r =>
    obtain ⟨q1, x⟩ := r
    rw [hp] at hf
    simp only [Option.some.injEq, Prod.mk.injEq] at hf
    obtain ⟨-, rfl⟩ := hf
    obtain ⟨h1, h2, _, _, h5, _⟩ := pop_spec s.q q1 bound x hq hp
    exact ⟨h1, rfl, h2, h5⟩

/-- nothing fires only when nothing pending is due by the bound -/
theorem nothing_due (P : Proc K U E Λ) (bound : K) (s : St K U E) (hq : FQ s.q) (hf : firePosted P bound s = none) :
    ∀ id t, Pending s.q id t → bound < t := by
  apply pop_none s.q bound hq
  unfold firePosted at hf
  cases hp : popBefore s.q bound with
  | none => rfl
  | some r => rw [hp] at hf; simp at hf

/-! ### ids are never reused: once not pending, never pending again (so an un-posted or fired event never fires) -/

def Dead (q : S K E) (id : Nat) : Prop := id < q.nextId ∧ ∀ t, ¬ Pending q id t

theorem dead_post (q : S K E) (t : K) (e : E) (h : Nat) (id : Nat) (hq : FQ q) (hd : Dead q id) :
    Dead (post q t e h).1 id ∧ FQ (post q t e h).1 := by
  by_cases hp : t < q.now
  · rw [post_past q t e h hp]; exact ⟨hd, hq⟩
  · obtain ⟨_, h2, h3⟩ := post_spec q t e h hq hp
    refine ⟨⟨?_, ?_⟩, h2⟩
    · unfold post; simp only [hp, if_false]; have := hd.1; omega
    · intro t' hp'
      rcases (h3 id t').1 hp' with ⟨h', _⟩ | h'
      · have := hd.1; omega
      · exact hd.2 t' h'

theorem dead_unpost (q : S K E) (id' id : Nat) (hq : FQ q) (hd : Dead q id) :
    Dead (unpost q id').1 id ∧ FQ (unpost q id').1 := by
  cases hc : pendingTime q id' with
  | none => rw [unpost_missing q id' hc]; exact ⟨hd, hq⟩
  | some t =>
    obtain ⟨_, h2, h3⟩ := unpost_spec q id' t hq hc
    refine ⟨⟨?_, fun t' hp' => hd.2 t' ((h3 id t').1 hp').2⟩, h2⟩
    have : (unpost q id').1.nextId = q.nextId := by unfold unpost; split <;> rfl
    rw [this]; exact hd.1

/-- whatever a handler does, a dead id stays dead and the queue stays a finite map -/
theorem dead_exec (p : Prog K U E) (id : Nat) : ∀ (s : St K U E), FQ s.q → Dead s.q id →
    Dead (exec p s).q id ∧ FQ (exec p s).q := by
  induction p with
  | done => intro s hq hd; exact ⟨hd, hq⟩
  | post t e h k ih => intro s hq hd; obtain ⟨a, b⟩ := dead_post s.q t e h id hq hd; exact ih _ _ b a
  | unpost id' k ih => intro s hq hd; obtain ⟨a, b⟩ := dead_unpost s.q id' id hq hd; exact ih _ _ b a
  | pending id' k ih => intro s hq hd; exact ih _ _ hq hd
  | clock k ih => intro s hq hd; exact ih _ _ hq hd
  | get k ih => intro s hq hd; exact ih _ _ hq hd
  | put u k ih => intro s hq hd; exact ih _ hq hd

/-- firing an event makes it dead, keeps every dead id dead, and only a pending (hence not dead) event can fire -/
theorem fire_dead (P : Proc K U E Λ) (bound : K) (s s' : St K U E) (ev : Fired K E Λ) (hq : FQ s.q)
    (hf : firePosted P bound s = some (s', ev)) :
    FQ s'.q ∧ Dead s'.q ev.pid ∧ (∀ id, Dead s.q id → Dead s'.q id ∧ id ≠ ev.pid) := by
  unfold firePosted at hf
  cases hp : popBefore s.q bound with
  | none => rw [hp] at hf; simp at hf
  | some r =>
    obtain ⟨q1, x⟩ := r
    rw [hp] at hf
    simp only [Option.some.injEq, Prod.mk.injEq] at hf
    obtain ⟨rfl, rfl⟩ := hf
    obtain ⟨h1, _, h3, _, _, h6⟩ := pop_spec s.q q1 bound x hq hp
    have hn : q1.nextId = s.q.nextId := (popBefore_spec ⟨hq.sorted, hq.ids⟩ hp).2.2.2.2.1
    have hxid : x.id < s.q.nextId := by obtain ⟨y, hy, _, hi, _⟩ := h1; rw [← hi]; exact hq.ids y hy
    have dx : Dead q1 x.id := ⟨by rw [hn]; exact hxid, fun t hp' => ((h6 x.id t).1 hp').1 rfl⟩
    obtain ⟨a, b⟩ := dead_exec (P.handler x.hid x.time x.elem) x.id ({ s with q := q1 } : St K U E) h3 dx
    refine ⟨b, a, ?_⟩
    intro id hd
    have d1 : Dead q1 id := ⟨by rw [hn]; exact hd.1, fun t hp' => hd.2 t ((h6 id t).1 hp').2⟩
    refine ⟨(dead_exec (P.handler x.hid x.time x.elem) id ({ s with q := q1 } : St K U E) h3 d1).1, ?_⟩
    rintro rfl; exact hd.2 _ h1

/-! ### order of firings through whole runs -/

/-- **stochastic dynamics**: over any run the posted events fire in strictly increasing `(time, id)` order — before any
    event with a later time and after every earlier-posted event with the same time, also when posted from inside
    another event for a time preceding events already queued -/
theorem fired_order_sto (P : Proc K U E Λ) (inner fuel : Nat) (s : St K U E) (hi : Queue.Inv s.q)
    (hnd : (s.q.heap.map (·.id)).Nodup) (hdt : ∀ (t a r : K), t ≤ Arith.add t (Arith.gillespieDt a r)) :
    (keys (runSto P inner fuel { s := s, tr := [], t := s.q.now }).tr).Pairwise keyLt := by
  have h0 : H s ([] : List (Fired K E Λ)) := ⟨⟨hi.sorted, hi.ids⟩, hnd, by simp [keys], by simp [keys]⟩
  have hs : StoInv ({ s := s, tr := [], t := s.q.now } : Loop K U E Λ) :=
    ⟨⟨s.q.now, ⟨⟨hi.sorted, hi.ids⟩, hi.future, Std.le_refl _, by simp, by simp, by simp⟩, Std.le_refl _⟩,
     Std.le_refl _, fun _ => hi.future⟩
  exact (runSto_H P inner hdt fuel _ rfl hs h0).sortedP

/-- **synchronous dynamics**: the same -/
theorem fired_order_syn (P : Proc K U E Λ) (inner fuel : Nat) (s : St K U E) (t1 : K) (hi : Queue.Inv s.q)
    (hnd : (s.q.heap.map (·.id)).Nodup) (h01 : s.q.now ≤ t1) (hone : ∀ t : K, t ≤ Arith.add t Arith.one) :
    (keys (runSyn P inner fuel { s := s, tr := [], t := t1 }).tr).Pairwise keyLt := by
  have h0 : H s ([] : List (Fired K E Λ)) := ⟨⟨hi.sorted, hi.ids⟩, hnd, by simp [keys], by simp [keys]⟩
  have hl : LoopInv ({ s := s, tr := [], t := t1 } : Loop K U E Λ) :=
    ⟨⟨s.q.now, ⟨⟨hi.sorted, hi.ids⟩, hi.future, Std.le_refl _, by simp, by simp, by simp⟩, h01⟩, h01⟩
  exact (runSyn_H P inner hone fuel _ hl h0).sortedP

/-- strictly increasing keys are pairwise different: no `(time, id)` fires twice -/
theorem keyLt_irrefl (a : K × Nat) : ¬ keyLt a a := by
  rintro (h | ⟨_, h⟩)
  · exact Std.lt_irrefl h
  · omega

/-- **end of a stochastic run**: when the loop ends by itself, every event still pending is due no earlier than the
    reported end time — i.e. everything posted for strictly before `TIME` has fired (or was un-posted) -/
theorem stochastic_end (P : Proc K U E Λ) (inner fuel : Nat) (s : St K U E) (hi : Queue.Inv s.q)
    (hdt : ∀ (t a r : K), t ≤ Arith.add t (Arith.gillespieDt a r)) :
    let L := runSto P inner fuel { s := s, tr := [], t := s.q.now }
    L.stuck = false → ∀ x ∈ L.s.q.heap, x.live = true → L.t ≤ x.time := by
  intro L
  have hs : StoInv ({ s := s, tr := [], t := s.q.now } : Loop K U E Λ) :=
    ⟨⟨s.q.now, ⟨⟨hi.sorted, hi.ids⟩, hi.future, Std.le_refl _, by simp, by simp, by simp⟩, Std.le_refl _⟩,
     Std.le_refl _, fun _ => hi.future⟩
  exact (runSto_inv P inner hdt fuel _ rfl hs).late

/-- **repeating events**: a handler that re-posts itself `dt` later (what `postRepeatingEvent` builds) leaves, after
    firing at `t`, the same handler pending on the same element for `t + dt` -/
theorem repeating_step (q : S K E) (t dt : K) (e : E) (h : Nat) (hq : FQ q) (hnow : q.now = t)
    (hfw : ¬ Arith.add t dt < t) :
    pendingTime (post q (Arith.add t dt) e h).1 q.nextId = some (Arith.add t dt) := by
  have : ¬ Arith.add t dt < q.now := by rw [hnow]; exact hfw
  exact (post_ok q (Arith.add t dt) e h hq this).2.2.1

/-! non-vacuity -/
example : FQ ({ heap := [⟨2, 0, (), 0, true⟩, ⟨2, 1, (), 0, false⟩, ⟨3, 2, (), 0, true⟩], finder := [(2, 3), (0, 2)], nextId := 3, now := 1 } : S Nat Unit) := by
  refine ⟨by simp [before], by simp, by simp, by simp, ?_⟩
  intro id t; unfold Pending; simp; omega

end C04
