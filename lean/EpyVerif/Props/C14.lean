import EpyVerif.Model.Perc
import EpyVerif.Lemmas.Uniform
import Mathlib.Algebra.Order.Floor.Ring
import Mathlib.Tactic.Linarith
import Mathlib.Data.Rat.Floor
/-!
# C14 — Percolate keeps a uniformly random ⌊T·M⌋-subset of the edges

Model: `Perc.split` (the shuffled edge list `π` split at `occ = int(M·T)`; `occupy` gets the prefix, `unoccupy` the rest,
the working network keeps exactly the prefix).  Uniformity: for a uniform shuffle, the number of permutations whose kept
set (image of the prefix positions) is a given set depends only on its size.
-/
namespace C14
open Perc

variable {α : Type}

/-- occupied and unoccupied are a partition of the shuffled list: together everything, in order, nothing twice -/
theorem split_partition (es : List α) (occ : Nat) : (split es occ).1 ++ (split es occ).2 = es := by
  simp [split]

theorem split_disjoint [DecidableEq α] (es : List α) (hnd : es.Nodup) (occ : Nat) :
    ∀ e, e ∈ (split es occ).1 → e ∉ (split es occ).2 := by
  intro e h1 h2
  have := split_partition es occ
  rw [← this] at hnd
  exact (List.nodup_append.1 hnd).2.2 e h1 e h2 rfl

/-- exactly `occ` edges are kept when `occ ≤ M` (none for T = 0, all for T = 1) -/
theorem kept_count (es : List α) (occ : Nat) (h : occ ≤ es.length) :
    (split es occ).1.length = occ ∧ (split es occ).2.length = es.length - occ := by
  simp [split, Nat.min_eq_left h]

theorem kept_none (es : List α) : (split es 0).1 = [] ∧ (split es 0).2 = es := by simp [split]
theorem kept_all (es : List α) : (split es es.length).1 = es ∧ (split es es.length).2 = [] := by simp [split]

/-- `occ = ⌊T·M⌋` lies between 0 and M for T in [0, 1] (over ℚ) -/
theorem occ_bounds (T : ℚ) (M : ℕ) (h0 : 0 ≤ T) (h1 : T ≤ 1) : ⌊(M : ℚ) * T⌋.toNat ≤ M := by
  have hM : (0 : ℚ) ≤ (M : ℚ) := Nat.cast_nonneg M
  have hle : (M : ℚ) * T ≤ M := by nlinarith
  have : ⌊(M : ℚ) * T⌋ ≤ (M : ℤ) := by
    have := Int.floor_le_floor hle
    simpa using this
  omega

/-- **every subset of the kept size is equally likely**: the number of shuffles of the M positions whose kept set is `S`
    equals the number whose kept set is `S'`, whenever `|S| = |S'|` -/
theorem subset_uniform {β : Type} [Fintype β] [DecidableEq β] (P S S' : Finset β) (h : S.card = S'.card) :
    (Finset.univ.filter (fun π : Equiv.Perm β => P.image π = S)).card
      = (Finset.univ.filter (fun π : Equiv.Perm β => P.image π = S')).card := Uniform.subset_uniform P S S' h

example : split [10, 20, 30, 40] 1 = ([10], [20, 30, 40]) := by decide

end C14
