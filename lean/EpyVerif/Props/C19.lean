import EpyVerif.Lemmas.AddDel
import EpyVerif.Props.C01
/-!
# C19 — Addition-deletion keeps its population bookkeeping exact

Model: `Sim.adAdd?` / `Sim.adDelW` (`Model/Sim.lean`), the bodies of `AddDelete.add` and `AddDelete.delete` with the
overrides of the three documented combinations (`AdMode`): alone, one object that is also the disease model (multiple
inheritance, or the sequence recipe completed so that edges and removals go through the disease model), and the cookbook's
named-sequence recipe verbatim.
-/
set_option linter.unusedSectionVars false
open Comp Sim Bbt
namespace C19

variable {K : Type} [LT K] [LE K] [DecidableLT K] [DecidableLE K] [Dyn.Arith K]

/-- the all-nodes locus holds exactly the nodes of the working network -/
def AllNodes (w : W) (loc : Nat) : Prop := ∀ e, (w.loci loc).mem e = true ↔ ∃ n, e = eN n ∧ n ∈ w.net.nodes

structure Inv (loc : Nat) (w : W) : Prop where
  net : NetOK w.net
  nodup : w.net.nodes.Nodup
  all : AllNodes w loc

/-- **fresh name**: `newNodeName()` is never the name of a node of the network -/
theorem fresh_name (g : Net) : newName g ∉ g.nodes := newName_fresh g

/-! ### addition -/

theorem adNewNode_spec (cfg : Comp.Cfg) (wf : WfCfg cfg) (loc : Nat) (hk : cfg.kind loc = .plain) (mode : AdMode) (w : W) :
    (adNewNode cfg loc mode w).net = w.net.addNode (newName w.net) ∧
    ∀ x, ((adNewNode cfg loc mode w).loci loc).mem x = true ↔ (x = eN (newName w.net) ∨ (w.loci loc).mem x = true) := by
  have base : ∀ x, ((updLocus { w with net := w.net.addNode (newName w.net) } loc (·.add (eN (newName w.net)))).loci loc).mem x = true ↔
      (x = eN (newName w.net) ∨ (w.loci loc).mem x = true) := by
    intro x; simp only [updLocus, if_true]; exact TSet.mem_add _ _ _
  unfold adNewNode
  cases mode with
  | alone => exact ⟨rfl, base⟩
  | inherit inst S R =>
    simp only []
    obtain ⟨h1, h2⟩ := setCompartment_frame cfg wf loc hk
      (updLocus { w with net := w.net.addNode (newName w.net) } loc (·.add (eN (newName w.net)))) inst (newName w.net) S
    exact ⟨h1, fun x => by rw [h2]; exact base x⟩
  | seq inst S R =>
    simp only []
    obtain ⟨h1, h2⟩ := setCompartment_frame cfg wf loc hk
      (updLocus { w with net := w.net.addNode (newName w.net) } loc (·.add (eN (newName w.net)))) inst (newName w.net) S
    exact ⟨h1, fun x => by rw [h2]; exact base x⟩

theorem adEdge_spec (cfg : Comp.Cfg) (wf : WfCfg cfg) (loc : Nat) (hk : cfg.kind loc = .plain) (mode : AdMode) (i : Node) (w : W) (j : Node) :
    (adEdge cfg mode i w j).net = w.net.addEdge i j ∧ ∀ x, ((adEdge cfg mode i w j).loci loc).mem x = true ↔ (w.loci loc).mem x = true := by
  cases mode with
  | alone => exact ⟨rfl, fun _ => Iff.rfl⟩
  | seq _ _ _ => exact ⟨rfl, fun _ => Iff.rfl⟩
  | inherit inst _ _ => exact addEdge_frame cfg wf loc hk w inst i j

theorem adEdge_fold (cfg : Comp.Cfg) (wf : WfCfg cfg) (loc : Nat) (hk : cfg.kind loc = .plain) (mode : AdMode) (i : Node) :
    ∀ (order : List Node) (w : W),
    (order.foldl (adEdge cfg mode i) w).net = order.foldl (fun g j => g.addEdge i j) w.net ∧
    ∀ x, ((order.foldl (adEdge cfg mode i) w).loci loc).mem x = true ↔ (w.loci loc).mem x = true := by
  intro order
  induction order with
  | nil => intro w; exact ⟨rfl, fun _ => Iff.rfl⟩
  | cons j js ih =>
    intro w
    simp only [List.foldl_cons]
    obtain ⟨a, b⟩ := ih (adEdge cfg mode i w j)
    obtain ⟨c, d⟩ := adEdge_spec cfg wf loc hk mode i w j
    exact ⟨by rw [a, c], fun x => (b x).trans (d x)⟩

/-- joining a node to a list of distinct other existing nodes, none yet a neighbour -/
theorem fold_addEdge (i : Node) : ∀ (order : List Node) (g : Net), NetOK g → i ∈ g.nodes → order.Nodup → i ∉ order →
    (∀ j ∈ order, j ∈ g.nodes ∧ j ∉ g.adj i) →
    let g' := order.foldl (fun g j => g.addEdge i j) g
    NetOK g' ∧ g'.nodes = g.nodes ∧ g'.adj i = g.adj i ++ order ∧
    ∀ x y, x ≠ i → y ≠ i → (y ∈ g'.adj x ↔ y ∈ g.adj x) := by
  intro order
  induction order with
  | nil => intro g ok _ _ _ _; exact ⟨ok, rfl, by simp, fun _ _ _ _ => Iff.rfl⟩
  | cons j js ih =>
    intro g ok hi hnd hni hall
    simp only [List.foldl_cons]
    have hj := hall j List.mem_cons_self
    have hij : i ≠ j := fun h => hni (h ▸ List.mem_cons_self)
    have ok1 := addEdge_ok g ok i j hi hj.1
    have hadj : (g.addEdge i j).adj i = g.adj i ++ [j] := by
      unfold Net.addEdge Net.hasEdge
      have : (g.adj i).contains j = false := by simpa using hj.2
      rw [this]; simp
    obtain ⟨a, b, c, d⟩ := ih (g.addEdge i j) ok1 (by rw [addEdge_nodes]; exact hi) (List.nodup_cons.1 hnd).2
      (fun h => hni (List.mem_cons_of_mem _ h))
      (fun x hx => ⟨by rw [addEdge_nodes]; exact (hall x (List.mem_cons_of_mem _ hx)).1, by
        rw [hadj]; simp only [List.mem_append, List.mem_singleton, not_or]
        exact ⟨(hall x (List.mem_cons_of_mem _ hx)).2, fun h => (List.nodup_cons.1 hnd).1 (h ▸ hx)⟩⟩)
    refine ⟨a, by rw [b, addEdge_nodes], by rw [c, hadj]; simp, fun x y hx hy => ?_⟩
    rw [d x y hx hy, addEdge_adj g ok i j x y]
    constructor
    · rintro (h | ⟨h, _⟩ | ⟨_, h⟩)
      · exact h
      · exact absurd h hx
      · exact absurd h hy
    · intro h; exact Or.inl h

/-- **addition**: when `add` returns, the new node has a fresh name, is joined to exactly `c` distinct nodes that existed
    before, none of them itself, no other edge changed, and the all-nodes locus again equals the node set -/
theorem add_degree (cfg : Comp.Cfg) (wf : WfCfg cfg) (loc : Nat) (hk : cfg.kind loc = .plain) (c : Nat) (mode : AdMode)
    (u u' : U K) (h : adAdd? cfg loc c mode u = some u') (inv : Inv loc u.w) :
    let i := newName u.w.net
    i ∉ u.w.net.nodes ∧ u'.w.net.nodes = u.w.net.nodes ++ [i] ∧
    (u'.w.net.adj i).length = c ∧ (u'.w.net.adj i).Nodup ∧ i ∉ u'.w.net.adj i ∧ (∀ j ∈ u'.w.net.adj i, j ∈ u.w.net.nodes) ∧
    (∀ x y, x ≠ i → y ≠ i → (y ∈ u'.w.net.adj x ↔ y ∈ u.w.net.adj x)) ∧ Inv loc u'.w := by
  intro i
  have hfresh : i ∉ u.w.net.nodes := newName_fresh _
  obtain ⟨n1, n2⟩ := adNewNode_spec cfg wf loc hk mode u.w
  unfold adAdd? at h
  simp only [] at h
  split at h
  · simp at h
  · rename_i es u1 hp
    obtain ⟨hw1, new, he, hl, hnd, hall⟩ := pickMany_spec _ i c [] _ u1 es hp
    simp only [List.nil_append] at he
    subst he
    split at h
    · simp at h
    · rename_i order u2 hpp
      have hw2 : u2.w = u1.w := by
        unfold popP at hpp; split at hpp
        · simp only [Option.some.injEq, Prod.mk.injEq] at hpp; rw [← hpp.2]
        · simp at hpp
      split at h
      · rename_i hperm
        simp only [Option.some.injEq] at h
        have hperm' : order.Perm es := List.isPerm_iff.1 hperm
        have hw : u2.w = adNewNode cfg loc mode u.w := hw2.trans hw1
        -- the chosen nodes
        have hnew : ∀ j ∈ es, j ≠ i ∧ j ∈ u.w.net.nodes := by
          intro j hj
          obtain ⟨hji, e, hem, hej⟩ := hall j hj
          refine ⟨hji, ?_⟩
          have := (TSet.mem_iff _ e).2 hem
          rw [n2 e] at this
          rcases this with h' | h'
          · exfalso; apply hji; rw [← hej, h']; rfl
          · obtain ⟨n, hn, hnn⟩ := (inv.all e).1 h'
            rw [← hej, hn]; exact hnn
        have hnodes0 : (u.w.net.addNode i).nodes = u.w.net.nodes ++ [i] := by
          unfold Net.addNode Net.hasNode
          have : u.w.net.nodes.contains i = false := by simpa using hfresh
          rw [this]; simp
        have ok0 : NetOK (u.w.net.addNode i) := addNode_ok _ inv.net i hfresh
        have hadj0 : (u.w.net.addNode i).adj i = [] := by
          unfold Net.addNode Net.hasNode
          have : u.w.net.nodes.contains i = false := by simpa using hfresh
          rw [this]; simp
        obtain ⟨f1, f2⟩ := adEdge_fold cfg wf loc hk mode i order u2.w
        obtain ⟨g1, g2, g3, g4⟩ := fold_addEdge i order (u.w.net.addNode i) ok0 (by rw [hnodes0]; simp)
          (hperm'.nodup_iff.2 (hnd List.nodup_nil)) (fun hh => (hnew i (hperm'.mem_iff.1 hh)).1 rfl)
          (fun j hj => ⟨by rw [hnodes0]; exact List.mem_append_left _ (hnew j (hperm'.mem_iff.1 hj)).2, by rw [hadj0]; simp⟩)
        have hnet : u'.w.net = order.foldl (fun g j => g.addEdge i j) (u.w.net.addNode i) := by
          rw [← h]; show (order.foldl (adEdge cfg mode i) u2.w).net = _
          rw [f1, hw, n1]
        rw [hnet]

        refine ⟨hfresh, by rw [g2, hnodes0], by rw [g3, hadj0]; simp [hperm'.length_eq, hl], by
          rw [g3, hadj0]; simpa using hperm'.nodup_iff.2 (hnd List.nodup_nil), by
          rw [g3, hadj0]; simpa using fun hh => (hnew i (hperm'.mem_iff.1 hh)).1 rfl, by
          intro j hj; rw [g3, hadj0] at hj; simp only [List.nil_append] at hj; exact (hnew j (hperm'.mem_iff.1 hj)).2, by
          intro x y hx hy; rw [g4 x y hx hy]; exact addNode_adj _ inv.net i x y hfresh, ?_⟩
        refine ⟨by rw [hnet]; exact g1, by rw [hnet, g2, hnodes0]; exact List.nodup_append.2 ⟨inv.nodup, by simp, by
          intro a ha b hb; simp at hb; subst hb; intro hab; exact hfresh (hab ▸ ha)⟩, ?_⟩
        intro e
        have : (u'.w.loci loc).mem e = true ↔ (u2.w.loci loc).mem e = true := by rw [← h]; exact f2 e
        rw [this, hw, n2 e, hnet, g2, hnodes0, inv.all e]
        constructor
        · rintro (h' | ⟨n, hn, hm⟩)
          · exact ⟨i, h', by simp⟩
          · exact ⟨n, hn, List.mem_append_left _ hm⟩
        · rintro ⟨n, hn, hm⟩
          rcases List.mem_append.1 hm with hm | hm
          · exact Or.inr ⟨n, hn, hm⟩
          · left; simp at hm; rw [hn, hm]
      · simp at h

/-- **why the property exempts small populations**: `add` can only return when at least `c` nodes existed before it
    (with fewer the real rejection loop never ends) -/
theorem add_needs_c_others (cfg : Comp.Cfg) (wf : WfCfg cfg) (loc : Nat) (hk : cfg.kind loc = .plain) (c : Nat) (mode : AdMode)
    (u u' : U K) (h : adAdd? cfg loc c mode u = some u') (inv : Inv loc u.w) : c ≤ u.w.net.nodes.length := by
  obtain ⟨_, _, hlen, hnd, _, hmem, _, _⟩ := add_degree cfg wf loc hk c mode u u' h inv
  rw [← hlen]
  exact (List.subperm_of_subset hnd (fun j hj => hmem j hj)).length_le

/-! ### deletion -/

theorem adDelW_spec (cfg : Comp.Cfg) (wf : WfCfg cfg) (loc : Nat) (hk : cfg.kind loc = .plain) (mode : AdMode) (n : Node) (w : W) :
    (adDelW cfg loc mode n w).net = w.net.removeNode n ∧
    ∀ x, ((adDelW cfg loc mode n w).loci loc).mem x = true ↔ (x ≠ eN n ∧ (w.loci loc).mem x = true) := by
  unfold adDelW
  cases mode with
  | alone =>
    refine ⟨rfl, fun x => ?_⟩
    simp only [updLocus, if_true]; exact TSet.mem_discard _ _ _
  | seq inst S R =>
    obtain ⟨c1, c2⟩ := changeCompartment_frame cfg wf loc hk w inst n R
    refine ⟨by simp only [updLocus]; rw [c1], fun x => ?_⟩
    simp only [updLocus, if_true]
    rw [TSet.mem_discard, c2]
  | inherit inst S R =>
    obtain ⟨c1, c2⟩ := changeCompartment_frame cfg wf loc hk w inst n R
    obtain ⟨r1, r2⟩ := removeNode_frame cfg wf loc hk (changeCompartment cfg w inst n R) inst n
    refine ⟨by simp only [updLocus]; rw [r1, c1], fun x => ?_⟩
    simp only [updLocus, if_true]
    rw [TSet.mem_discard, r2 x, c2]

/-- **deletion**: the node is gone together with every edge it had, nothing else changed, and the all-nodes locus again
    equals the node set -/
theorem delete_clean (cfg : Comp.Cfg) (wf : WfCfg cfg) (loc : Nat) (hk : cfg.kind loc = .plain) (mode : AdMode) (n : Node) (w : W)
    (inv : Inv loc w) :
    let w' := adDelW cfg loc mode n w
    n ∉ w'.net.nodes ∧ w'.net.nodes = w.net.nodes.erase n ∧ w'.net.adj n = [] ∧ (∀ x, n ∉ w'.net.adj x) ∧
    (∀ x y, y ∈ w'.net.adj x ↔ (y ∈ w.net.adj x ∧ x ≠ n ∧ y ≠ n)) ∧ Inv loc w' := by
  intro w'
  obtain ⟨d1, d2⟩ := adDelW_spec cfg wf loc hk mode n w
  have hnodes : w'.net.nodes = w.net.nodes.erase n := by show (adDelW cfg loc mode n w).net.nodes = _; rw [d1]; rfl
  have hadj : ∀ x y, y ∈ w'.net.adj x ↔ (y ∈ w.net.adj x ∧ x ≠ n ∧ y ≠ n) := by
    intro x y; show y ∈ (adDelW cfg loc mode n w).net.adj x ↔ _; rw [d1]; exact removeNode_adj _ inv.net n x y
  have hnot : n ∉ w'.net.nodes := by rw [hnodes]; exact fun h => (List.Nodup.mem_erase_iff inv.nodup).1 h |>.1 rfl
  refine ⟨hnot, hnodes, ?_, fun x h => ((hadj x n).1 h).2.2 rfl, hadj, ?_⟩
  · show (adDelW cfg loc mode n w).net.adj n = []; rw [d1]; simp [Net.removeNode]
  · refine ⟨by show NetOK (adDelW cfg loc mode n w).net; rw [d1]; exact removeNode_ok _ inv.net inv.nodup n,
      by rw [hnodes]; exact inv.nodup.erase n, ?_⟩
    intro e
    show ((adDelW cfg loc mode n w).loci loc).mem e = true ↔ _
    rw [d2 e, inv.all e, hnodes]
    constructor
    · rintro ⟨hne, m, hm, hmm⟩
      exact ⟨m, hm, (List.Nodup.mem_erase_iff inv.nodup).2 ⟨fun h => hne (by rw [hm, h]), hmm⟩⟩
    · rintro ⟨m, hm, hmm⟩
      obtain ⟨h1, h2⟩ := (List.Nodup.mem_erase_iff inv.nodup).1 hmm
      exact ⟨fun h => h1 (by rw [hm] at h; simpa [eN] using h), m, hm, h2⟩

/-! ### whole runs: the order balance -/

inductive Ev where
  | add
  | del (n : Node)

/-- any sequence of add / delete events; a delete is fired by the dynamics on a current member of the all-nodes locus (C05);
    `none`: some `add` did not return -/
def runEvs (cfg : Comp.Cfg) (loc c : Nat) (mode : AdMode) : List Ev → U K → Option (U K)
  | [], u => some u
  | .add :: evs, u => match adAdd? cfg loc c mode u with
    | some u' => runEvs cfg loc c mode evs u'
    | none => none
  | .del n :: evs, u => if (u.w.loci loc).mem (eN n) then runEvs cfg loc c mode evs (adDel cfg loc mode n u) else none

def adds : List Ev → Nat
  | [] => 0
  | .add :: evs => adds evs + 1
  | .del _ :: evs => adds evs
def dels : List Ev → Nat
  | [] => 0
  | .add :: evs => dels evs
  | .del _ :: evs => dels evs + 1

/-- **bookkeeping over any schedule**: after any sequence of additions and deletions the all-nodes locus equals the node
    set, and the final order is the initial order plus the additions minus the deletions -/
theorem order_balance (cfg : Comp.Cfg) (wf : WfCfg cfg) (loc : Nat) (hk : cfg.kind loc = .plain) (c : Nat) (mode : AdMode) :
    ∀ (evs : List Ev) (u u' : U K), runEvs cfg loc c mode evs u = some u' → Inv loc u.w →
      Inv loc u'.w ∧ u'.w.net.nodes.length + dels evs = u.w.net.nodes.length + adds evs := by
  intro evs
  induction evs with
  | nil => intro u u' h inv; simp only [runEvs, Option.some.injEq] at h; subst h; exact ⟨inv, rfl⟩
  | cons ev evs ih =>
    intro u u' h inv
    cases ev with
    | add =>
      simp only [runEvs] at h
      split at h
      · rename_i u1 ha
        obtain ⟨_, hn, _, _, _, _, _, inv1⟩ := add_degree cfg wf loc hk c mode u u1 ha inv
        obtain ⟨i2, hb⟩ := ih u1 u' h inv1
        refine ⟨i2, ?_⟩
        rw [hn] at hb; simp only [List.length_append, List.length_singleton] at hb
        simp only [adds, dels]; omega
      · simp at h
    | del n =>
      simp only [runEvs] at h
      split at h
      · rename_i hm
        obtain ⟨_, hn, _, _, _, inv1⟩ := delete_clean cfg wf loc hk mode n u.w inv
        obtain ⟨i2, hb⟩ := ih (adDel cfg loc mode n u) u' h inv1
        refine ⟨i2, ?_⟩
        have hmem : n ∈ u.w.net.nodes := by
          obtain ⟨m, hm1, hm2⟩ := (inv.all (eN n)).1 hm
          have : n = m := by simpa [eN] using hm1
          rw [this]; exact hm2
        have hl : (adDel cfg loc mode n u).w.net.nodes.length + 1 = u.w.net.nodes.length := by
          show (adDelW cfg loc mode n u.w).net.nodes.length + 1 = _
          rw [hn, List.length_erase_of_mem hmem]
          have : 0 < u.w.net.nodes.length := List.length_pos_of_mem hmem
          omega
        simp only [adds, dels]; omega
      · simp at h

/-! ### combined with a disease model by inheritance (or by the completed sequence recipe): C01's invariant is kept -/

theorem adAdd?_shape (cfg : Comp.Cfg) (wf : WfCfg cfg) (loc : Nat) (hk : cfg.kind loc = .plain) (c : Nat) (mode : AdMode)
    (u u' : U K) (h : adAdd? cfg loc c mode u = some u') (inv : Inv loc u.w) :
    ∃ order : List Node, u'.w = order.foldl (adEdge cfg mode (newName u.w.net)) (adNewNode cfg loc mode u.w) ∧
      ∀ j ∈ order, j ≠ newName u.w.net ∧ j ∈ u.w.net.nodes := by
  obtain ⟨n1, n2⟩ := adNewNode_spec cfg wf loc hk mode u.w
  unfold adAdd? at h
  simp only [] at h
  split at h
  · simp at h
  · rename_i es u1 hp
    obtain ⟨hw1, new, he, hl, hnd, hall⟩ := pickMany_spec _ (newName u.w.net) c [] _ u1 es hp
    simp only [List.nil_append] at he
    subst he
    split at h
    · simp at h
    · rename_i order u2 hpp
      have hw2 : u2.w = u1.w := by
        unfold popP at hpp; split at hpp
        · simp only [Option.some.injEq, Prod.mk.injEq] at hpp; rw [← hpp.2]
        · simp at hpp
      split at h
      · rename_i hperm
        simp only [Option.some.injEq] at h
        have hperm' : order.Perm es := List.isPerm_iff.1 hperm
        refine ⟨order, by rw [← h]; show order.foldl _ u2.w = _; rw [hw2.trans hw1], ?_⟩
        intro j hj
        obtain ⟨hji, e, hem, hej⟩ := hall j (hperm'.mem_iff.1 hj)
        refine ⟨hji, ?_⟩
        have := (TSet.mem_iff _ e).2 hem
        rw [n2 e] at this
        rcases this with h' | h'
        · exfalso; apply hji; rw [← hej, h']; rfl
        · obtain ⟨n, hn, hnn⟩ := (inv.all e).1 h'
          rw [← hej, hn]; exact hnn
      · simp at h

theorem good_updPlain (cfg : Comp.Cfg) (loc : Nat) (hk : cfg.kind loc = .plain) (w : W) (f : LSet → LSet) (g : C01.Good cfg w) :
    C01.Good cfg (updLocus w loc f) := by
  refine ⟨g.net, g.nodup, g.off, ?_⟩
  intro i
  have hi := g.loci i
  by_cases hil : i = loc
  · subst hil; rw [hk]; trivial
  · cases hkk : cfg.kind i with
    | plain => trivial
    | node a b => rw [hkk] at hi; simp only [updLocus, if_neg hil]; exact hi
    | edge a L R pf => rw [hkk] at hi; simp only [updLocus, if_neg hil]; exact hi

theorem fold_addEdge_good (cfg : Comp.Cfg) (wf : WfCfg cfg) (inst : Nat) (one : OneInst cfg inst) (i : Node) :
    ∀ (order : List Node) (w : W), C01.Good cfg w → i ∈ w.net.nodes → (∀ j ∈ order, j ∈ w.net.nodes) →
      C01.Good cfg (order.foldl (fun w j => Comp.addEdge cfg w inst i j) w) := by
  intro order
  induction order with
  | nil => intro w g _ _; exact g
  | cons j js ih =>
    intro w g hi hall
    simp only [List.foldl_cons]
    have hn : (Comp.addEdge cfg w inst i j).net.nodes = w.net.nodes := by
      unfold Comp.addEdge; rw [(edgeHandlers_spec cfg _ inst i j true).1]; exact addEdge_nodes _ _ _
    exact ih _ (C01.step cfg wf inst one w (.addEdge i j) ⟨hi, hall j List.mem_cons_self⟩ g) (by rw [hn]; exact hi)
      (fun x hx => by rw [hn]; exact hall x (List.mem_cons_of_mem _ hx))

/-- **addition, inheritance**: nodes and edges enter the disease model's compartments and loci consistently — every tracking
    locus still equals the set it tracks (C01's invariant) -/
theorem inherit_add_good (cfg : Comp.Cfg) (wf : WfCfg cfg) (loc : Nat) (hk : cfg.kind loc = .plain) (c inst S R : Nat)
    (one : OneInst cfg inst) (u u' : U K) (h : adAdd? cfg loc c (.inherit inst S R) u = some u') (inv : Inv loc u.w)
    (g : C01.Good cfg u.w) : C01.Good cfg u'.w := by
  obtain ⟨order, hw, hall⟩ := adAdd?_shape cfg wf loc hk c _ u u' h inv
  have hfresh := newName_fresh u.w.net
  -- addNewNode: add the node, put it in the all-nodes locus, make it susceptible
  have g1 : C01.Good cfg (Comp.addNode cfg u.w inst (newName u.w.net) none) := C01.step cfg wf inst one u.w (.addNode _ none) hfresh g
  have g2 := good_updPlain cfg loc hk _ (·.add (eN (newName u.w.net))) g1
  have hin : newName u.w.net ∈ (u.w.net.addNode (newName u.w.net)).nodes := by
    unfold Net.addNode Net.hasNode
    have : u.w.net.nodes.contains (newName u.w.net) = false := by simpa using hfresh
    rw [this]; simp
  have g3 : C01.Good cfg (adNewNode cfg loc (.inherit inst S R) u.w) :=
    C01.step cfg wf inst one _ (.setc (newName u.w.net) S) ⟨hin, g.off inst _ hfresh⟩ g2
  have hnodes : (adNewNode cfg loc (.inherit inst S R) u.w).net.nodes = (u.w.net.addNode (newName u.w.net)).nodes := by
    rw [(adNewNode_spec cfg wf loc hk _ u.w).1]
  rw [hw]
  exact fold_addEdge_good cfg wf inst one _ order _ g3 (by rw [hnodes]; exact hin)
    (fun j hj => by
      rw [hnodes]; unfold Net.addNode Net.hasNode
      have : u.w.net.nodes.contains (newName u.w.net) = false := by simpa using hfresh
      rw [this]; simp; exact Or.inl (hall j hj).2)

/-- **deletion, inheritance**: the node and its edges leave the disease model's compartments and loci consistently -/
theorem inherit_del_good (cfg : Comp.Cfg) (wf : WfCfg cfg) (loc : Nat) (hk : cfg.kind loc = .plain) (inst S R : Nat)
    (one : OneInst cfg inst) (n : Node) (w : W) (hn : n ∈ w.net.nodes) (g : C01.Good cfg w) :
    C01.Good cfg (adDelW cfg loc (.inherit inst S R) n w) := by
  unfold adDelW
  exact good_updPlain cfg loc hk _ _
    (C01.step cfg wf inst one _ (.rmNode n) trivial (C01.step cfg wf inst one w (.cc n R) hn g))

/-! ### the cookbook's sequence recipe, verbatim, does **not** keep the disease model's loci (known finding K2) -/

/-- SIR-like tables: compartments S=0, I=1, R=2; locus 0 = SI edges, locus 1 = all nodes (plain) -/
def cfgK2 : Comp.Cfg :=
  { kind := fun i => if i = 0 then .edge 0 0 [1] false else .plain,
    effects := fun _ c => if c = 0 ∨ c = 1 then [0] else [] }

/-- node 0 infected, the new-born node 1 susceptible, joined by `AddDelete.addEdge` as the recipe does -/
def wK2 : W :=
  let w0 : W := { net := { nodes := [0], adj := fun _ => [] }, comp := fun _ n => if n = 0 then some 1 else none, loci := fun _ => TSet.empty }
  let w1 := setCompartment cfgK2 { w0 with net := w0.net.addNode 1 } 0 1 0
  adEdge cfgK2 (.seq 0 0 2) 1 w1 0

/-- the S–I edge (1, 0) exists in the network but is missing from the SI locus: the full property fails for the recipe -/
theorem seq_recipe_misses_edge :
    (0 : Int) ∈ wK2.net.adj 1 ∧ wK2.comp 0 1 = some 0 ∧ wK2.comp 0 0 = some 1 ∧ (wK2.loci 0).mem (1, 0) = false := by
  decide +kernel

/-! ### non-vacuity: the invariant holds of a concrete world, and `add` does return there -/

/-- one node, no edges, locus 1 (plain) = all nodes -/
def w1 : W := { net := { nodes := [0], adj := fun _ => [] }, comp := fun _ _ => none,
                loci := fun i => if i = 1 then TSet.empty.add (eN 0) else TSet.empty }

example : Inv 1 w1 := by
  refine ⟨⟨fun a b => by simp [w1], fun x => by simp [w1], fun x y h => by simp [w1] at h⟩, by simp [w1], ?_⟩
  intro e
  show ((if (1 : Nat) = 1 then TSet.empty.add (eN 0) else TSet.empty).mem e = true) ↔ _
  rw [if_pos rfl, TSet.mem_add]
  simp [w1]

/-- from that world, with degree 1 and the random stream "draw index 0 of 2, then iterate the set as [0]", `add` returns and the
    hypotheses of `add_degree` are met -/
example : (adAdd? (K := Nat) cfgK2 1 1 .alone { w := w1, rng := [.i 2 0, .perm [0]] }).isSome = true := by decide +kernel

end C19
