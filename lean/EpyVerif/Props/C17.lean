import EpyVerif.Lemmas.NetGF
import EpyVerif.Lemmas.GFDen
import EpyVerif.Lemmas.GFNet
/-!
# C17 — Degree-distribution generating functions match their distributions

Network clause (exact, over ℚ): model `Model/NetGF.lean` of `DiscreteGF._coefficientsFromNetwork`.
Analytic clause: the order bookkeeping of `ContinuousGF` (a function object that stands for the `order`-th derivative of
its series) is exact algebra; that numpy's contour sum and mpmath's polylog deliver the Taylor coefficients "within
numerical tolerance" is a statement about floating point and is compared numerically by the harness, not proved (PARTIAL).
-/
open NetGF
namespace C17

/-- the i-th coefficient is the fraction of nodes of degree i -/
theorem coeff_is_fraction (ds : List Nat) (maxk i : Nat) (hi : i ≤ maxk) :
    (coeffs ds maxk).getD i 0 = (ds.count i : ℚ) / ds.length := by
  unfold coeffs
  rw [List.getD_eq_getElem?_getD, List.getElem?_map, List.getElem?_range (by omega)]
  rfl

/-- beyond the maximum degree the coefficient list has ended (the wrapper returns 0 there) -/
theorem coeff_length (ds : List Nat) (maxk : Nat) : (coeffs ds maxk).length = maxk + 1 := by simp [coeffs]

/-- G(1) = 1 for every non-empty degree sequence (isolated nodes and hubs included) -/
theorem eval_at_one (ds : List Nat) (maxk : Nat) (hne : ds ≠ []) (h : ∀ d ∈ ds, d ≤ maxk) : (coeffs ds maxk).sum = 1 :=
  eval_one ds maxk hne h

/-- G'(1) = Σ i·p_i = (Σ degrees)/N -/
theorem dx_at_one (ds : List Nat) (maxk : Nat) (h : ∀ d ∈ ds, d ≤ maxk) :
    ((List.range (maxk+1)).map (fun (i : Nat) => ((i : Nat) : ℚ) * (((ds.count i : Nat) : ℚ) / ((ds.length : Nat) : ℚ)))).sum
      = ((ds.sum : Nat) : ℚ) / ((ds.length : Nat) : ℚ) := dx_one ds maxk h

/-- Σ degrees = 2M (handshake; a self-loop counts twice, as networkx reports it): so G'(1) = 2M/N -/
theorem degree_sum (ns : List Nat) (es : List (Nat × Nat)) (hnd : ns.Nodup)
    (h1 : ∀ e ∈ es, e.1 ∈ ns) (h2 : ∀ e ∈ es, e.2 ∈ ns) : (ns.map (deg es)).sum = 2 * es.length :=
  handshake ns es hnd h1 h2

/-- the largest degree bounds every degree, so the list built up to `max(seq)` loses nothing -/
theorem maxDeg_bounds (ds : List Nat) : ∀ d ∈ ds, d ≤ maxDeg ds := by
  unfold maxDeg
  have : ∀ (l : List Nat) (a : Nat), a ≤ l.foldl max a ∧ ∀ d ∈ l, d ≤ l.foldl max a := by
    intro l
    induction l with
    | nil => intro a; exact ⟨Nat.le_refl _, by simp⟩
    | cons x xs ih =>
      intro a
      simp only [List.foldl_cons]
      obtain ⟨h1, h2⟩ := ih (max a x)
      refine ⟨Nat.le_trans (Nat.le_max_left a x) h1, ?_⟩
      intro d hd
      rcases List.mem_cons.1 hd with rfl | hd
      · exact Nat.le_trans (Nat.le_max_right a d) h1
      · exact h2 d hd
  exact (this ds 0).2


/-! ### the same two identities through the code's own evaluation loop

`gf_from_network(g)` is `DiscreteGF(g)`: the list above wrapped as `GF.leaf`, i.e. with the list's own length as
largest term, so `FunctionGF.evaluate` adds up every coefficient however large the largest degree is. -/

/-- `gf_from_network(g)(1) = 1` for every non-empty degree sequence — a hub of any degree included -/
theorem net_value_at_one (ds : List Nat) (hne : ds ≠ []) : GF.eval (GF.leaf (coeffs ds (maxDeg ds))) 1 = 1 := by
  rw [GF.eval_leaf_one]; exact eval_one ds _ hne (maxDeg_bounds ds)

/-- `gf_from_network(g).dx()(1)` is (Σ degrees)/N, which `degree_sum` makes 2M/N -/
theorem net_slope_at_one (ds : List Nat) :
    GF.eval (GF.dx 1 (GF.leaf (coeffs ds (maxDeg ds)))) 1 = ((ds.sum : Nat) : ℚ) / ((ds.length : Nat) : ℚ) := by
  rw [GF.eval_dx_leaf_one, coeff_length, ← dx_one ds (maxDeg ds) (maxDeg_bounds ds)]
  congr 1
  apply List.map_congr_left
  intro i hi
  rw [List.mem_range] at hi
  rw [coeff_is_fraction ds (maxDeg ds) i (by omega)]

/-- coefficients through the wrapper: the fraction of nodes of degree i, and 0 beyond the largest degree -/
theorem net_coeff (ds : List Nat) (i : Nat) :
    GF.coeff (GF.leaf (coeffs ds (maxDeg ds))) i = if i ≤ maxDeg ds then (ds.count i : ℚ) / ds.length else 0 := by
  simp only [GF.coeff, GF.leaf, GF.listCoeff]
  split
  · rename_i h; exact coeff_is_fraction ds _ i h
  · rename_i h; rw [List.getD_eq_default]; rw [coeff_length]; omega

/-! ### order bookkeeping of `ContinuousGF` -/

/-- differentiating `k` times and then reading coefficient `i` extracts `a_{i+o+k}·(i+o+k)!/i!` -/
theorem dx_coeff (g : CGF) (k i : Nat) : (g.dx k).coeff i = g.a (i + (g.order + k)) * fallingFrom i (g.order + k) := rfl

/-- scaling keeps the order: `(c·g)` after `dx` is `c` times `g` after `dx` — scaling and differentiation commute -/
theorem scale_dx_comm (g : CGF) (c : ℚ) (k i : Nat) : ((g.dx k).scale c).coeff i = ((g.scale c).dx k).coeff i := rfl

theorem scale_coeff (g : CGF) (c : ℚ) (i : Nat) : (g.scale c).coeff i = c * g.coeff i := by
  simp only [CGF.scale, CGF.coeff]; ring

/-- `dx` composes additively in the order -/
theorem dx_dx (g : CGF) (j k : Nat) : (g.dx j).dx k = g.dx (j + k) := by simp [CGF.dx, Nat.add_assoc]

/-- the falling product is the one the power-series derivative produces: for order 0 the coefficient is `a_i`, and one more
    derivative multiplies by the shifted index, in agreement with `coeff_iter_deriv` of C16 -/
theorem coeff_order_zero (a : Nat → ℚ) (i : Nat) : (⟨a, 0⟩ : CGF).coeff i = a i := by simp [CGF.coeff, fallingFrom]

theorem coeff_matches_series_derivative (a : Nat → ℚ) (k i : Nat) :
    (⟨a, k⟩ : CGF).coeff i = PowerSeries.coeff i ((PowerSeries.derivativeFun)^[0] ((PowerSeries.derivative ℚ)^[k] (PowerSeries.mk a))) := by
  simp only [Function.iterate_zero, id]
  rw [GF.coeff_iter_deriv]
  simp only [CGF.coeff, fallingFrom, PowerSeries.coeff_mk]
  have : ∀ (l : List Nat) (z : ℚ), l.foldl (fun m j => m * ((i + (j+1) : Nat) : ℚ)) z = z * l.foldl (fun m j => m * ((i + (j+1) : Nat) : ℚ)) 1 := by
    intro l; induction l with
    | nil => intro z; simp
    | cons x xs ih => intro z; simp only [List.foldl_cons]; rw [ih, ih (1 * _)]; ring
  rw [this (List.range k) (a (i + k))]

example : coeffs [1, 1, 2, 0] 2 = [1/4, 1/2, 1/4] := by
  simp [coeffs, List.range, List.range.loop]; norm_num

end C17
