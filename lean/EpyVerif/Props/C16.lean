import EpyVerif.Lemmas.GFEval2
import EpyVerif.Lemmas.GFFast
/-!
# C16 — Generating-function algebra agrees with exact polynomial arithmetic

Only property theorems live here. Model: `EpyVerif/Model/GF.lean` (`G`, `coeff`, `eval`, `dx`, `scale`;
tied to `epydemic/gf/{gf,function_gf,discrete_gf,sum_gf,product_gf}.py` by `Driver/GF.lean`).
Spec: the formal power series `den e` whose i-th coefficient is `coeff e i`, and for the evaluation
view the polynomial `poly e`.

Python `f + g` is `G.sum`, `f - g` is `G.sum f (scale (-1) g)`, `f * g` is `G.prod`, `f * c` is `scale c f`,
`f / c` is `scale (1/c) f`, `f + c` is `G.sum f (leaf [c])`, a coefficient list `cs` is `leaf cs` (= `fn (listCoeff cs) (len cs)`), `f.dx(k)` is `dx k f`.
-/
open PowerSeries Polynomial
namespace GF.C16

/-- (f+g)[i] = f[i] + g[i] -/
theorem coeff_add (a b : G) (i : Nat) : coeff (.sum a b) i = coeff a i + coeff b i := rfl

/-- (f-g)[i] = f[i] - g[i]  (the code builds `f + g * -1`) -/
theorem coeff_sub (a b : G) (i : Nat) : coeff (.sum a (scale (-1) b)) i = coeff a i - coeff b i := by
  simp only [coeff, coeff_scale]; ring

/-- (f*g)[i] is the Cauchy product (the code's `forwards + backwards` enumeration is the antidiagonal) -/
theorem coeff_mul (a b : G) (i : Nat) :
    coeff (.prod a b) i = ∑ p ∈ Finset.antidiagonal i, coeff a p.1 * coeff b p.2 := coeff_prod a b i

/-- (c*f)[i] = c * f[i], for every expression (sums distribute, products scale their first factor) -/
theorem coeff_smul (c : ℚ) (e : G) (i : Nat) : coeff (scale c e) i = c * coeff e i := coeff_scale c e i

/-- (f/c)[i] = f[i] / c -/
theorem coeff_div (c : ℚ) (e : G) (i : Nat) : coeff (scale (1 / c) e) i = coeff e i / c := by
  rw [coeff_scale]; ring

/-- adding a constant changes the constant coefficient only -/
theorem coeff_add_const (c : ℚ) (e : G) (i : Nat) :
    coeff (.sum e (leaf [c])) i = coeff e i + (if i = 0 then c else 0) := by
  simp only [coeff, leaf, listCoeff]
  cases i <;> simp

/-- the whole algebra is a homomorphism into formal power series -/
theorem den_hom (a b : G) (c : ℚ) (k : Nat) :
    den (.sum a b) = den a + den b ∧ den (.prod a b) = den a * den b ∧ den (scale c a) = c • den a
    ∧ den (dx k a) = (d⁄dX ℚ)^[k] (den a) :=
  ⟨den_sum a b, den_prod a b, den_scale c a, den_dx k a⟩

/-- the first derivative has coefficients (i+1)·f[i+1], for every expression incl. products (product rule) -/
theorem coeff_dx_one (e : G) (i : Nat) : coeff (dx 1 e) i = ((i : ℚ) + 1) * coeff e (i + 1) := by
  have h := congrArg (PowerSeries.coeff i) (den_dx 1 e)
  simp only [den, PowerSeries.coeff_mk, Function.iterate_one, PowerSeries.coeff_derivative] at h
  rw [h]; ring

/-- the k-th derivative has coefficients (i+k)!/i! · f[i+k] -/
theorem coeff_dx (k : Nat) (e : G) (i : Nat) :
    coeff (dx k e) i = (List.range k).foldl (fun m j => m * ((i + (j + 1) : Nat) : ℚ)) (coeff e (i + k)) := by
  have h := congrArg (PowerSeries.coeff i) (den_dx k e)
  rw [coeff_iter_deriv] at h
  simpa [den] using h

/-- dx(0) is the identity on coefficients -/
theorem coeff_dx_zero (e : G) (i : Nat) : coeff (dx 0 e) i = coeff e i := by
  rw [coeff_dx]; simp

/-- the hypothesis of `FunctionGF.evaluate` (nothing beyond the largest term) is stable under every operator -/
theorem leafOK_scale (c : ℚ) : ∀ e : G, LeafOK e → LeafOK (scale c e) := by
  intro e; induction e with
  | fn f n => intro h i hi; simp [h i hi]
  | sum a b iha ihb => intro h; exact ⟨iha h.1, ihb h.2⟩
  | prod a b iha _ => intro h; exact ⟨iha h.1, h.2⟩

theorem leafOK_dx : ∀ (k : Nat) (e : G), LeafOK e → LeafOK (dx k e) := by
  intro k e
  induction k, e using dx.induct with
  | case1 k f n =>
    intro h; rw [dx]; intro i hi
    have : f (i + k) = 0 := h _ (by omega)
    simp only [dfn, this]
    generalize List.range k = l
    induction l with
    | nil => rfl
    | cons x xs ih => simpa using ih
  | case2 k a b iha ihb => intro h; rw [dx]; exact ⟨iha h.1, ihb h.2⟩
  | case3 a b => intro h; rw [dx]; exact h
  | case4 k a b ih1 ih2 ih3 =>
    intro h; rw [dx]; exact ih3 ⟨⟨ih1 h.1, h.2⟩, ⟨h.1, ih2 h.2⟩⟩

/-- evaluation view: the value the code computes is the value at x of the polynomial with the reported
    coefficients, i.e. Σ f[i]·xⁱ (hypothesis: no leaf has coefficients beyond its largest term; `built_ok` below
    discharges it for everything built from coefficient lists) -/
theorem eval_eq_sum (e : G) (h : LeafOK e) (x : ℚ) :
    ∃ p : ℚ[X], (∀ i, p.coeff i = coeff e i) ∧ eval e x = p.sum (fun i a => a * x ^ i) := by
  obtain ⟨p, hc, he⟩ := eval_is_polynomial e h x
  exact ⟨p, hc, by rw [← he, Polynomial.eval_eq_sum]⟩

/-- derivative views agree: the polynomial of `dx k e` is the k-th derivative of the polynomial of `e`,
    so values and coefficients of derivatives are those of the derivative polynomial -/
theorem poly_dx (k : Nat) (e : G) (h : LeafOK e) : poly (dx k e) = Polynomial.derivative^[k] (poly e) := by
  have hd : ∀ g : G, LeafOK g → ((poly g : ℚ[X]) : PowerSeries ℚ) = den g := by
    intro g hg; ext i; rw [Polynomial.coeff_coe, poly_coeff g hg]; simp [den]
  have hk : ∀ (k : Nat) (p : ℚ[X]), ((Polynomial.derivative^[k] p : ℚ[X]) : PowerSeries ℚ) = (d⁄dX ℚ)^[k] (p : PowerSeries ℚ) := by
    intro k; induction k with
    | zero => intro p; rfl
    | succ k ih => intro p; rw [Function.iterate_succ_apply', Function.iterate_succ_apply', ← ih, PowerSeries.derivative_coe]
  apply Polynomial.coe_injective
  rw [hd _ (leafOK_dx k e h), den_dx, hk, hd e h]

theorem eval_dx (k : Nat) (e : G) (h : LeafOK e) (x : ℚ) :
    eval (dx k e) x = (Polynomial.derivative^[k] (poly e)).eval x := by
  rw [← poly_dx k e h, eval_poly]

/-- differentiating a coefficient list past its degree gives 0 -/
theorem dx_past_degree (cs : List ℚ) (k i : Nat) (hk : cs.length ≤ k) :
    coeff (dx k (leaf cs)) i = 0 := by
  rw [coeff_dx]
  have : coeff (leaf cs) (i + k) = 0 := by
    simp only [coeff, leaf, listCoeff]; rw [List.getD_eq_default]; omega
  rw [this]
  generalize List.range k = l
  induction l with
  | nil => rfl
  | cons x xs ih => simpa using ih


/-! ### The property at full strength: every expression over coefficient lists

`E` is the syntax of the property's quantifier ("every generating function built from coefficient lists by addition,
subtraction, multiplication by other functions and by constants, division by constants and differentiation to any
order"), `build` is what the Python operators construct for it, `spec` is exact polynomial arithmetic. -/

inductive E where
  | cs (l : List ℚ)
  | add (a b : E) | sub (a b : E) | mul (a b : E)
  | smul (a : E) (c : ℚ) | div (a : E) (c : ℚ) | addc (a : E) (c : ℚ) | subc (a : E) (c : ℚ)
  | dx (a : E) (k : Nat)

def build : E → G
  | .cs l => leaf l
  | .add a b => .sum (build a) (build b)
  | .sub a b => .sum (build a) (scale (-1) (build b))
  | .mul a b => .prod (build a) (build b)
  | .smul a c => scale c (build a)
  | .div a c => scale (1 / c) (build a)
  | .addc a c => .sum (build a) (leaf [c])
  | .subc a c => .sum (build a) (leaf [c * -1])
  | .dx a k => GF.dx k (build a)

noncomputable def spec : E → ℚ[X]
  | .cs l => ∑ i ∈ Finset.range l.length, Polynomial.C (l.getD i 0) * Polynomial.X ^ i
  | .add a b => spec a + spec b
  | .sub a b => spec a - spec b
  | .mul a b => spec a * spec b
  | .smul a c => Polynomial.C c * spec a
  | .div a c => Polynomial.C (1 / c) * spec a
  | .addc a c => spec a + Polynomial.C c
  | .subc a c => spec a - Polynomial.C c
  | .dx a k => Polynomial.derivative^[k] (spec a)

theorem leafOK_leaf (l : List ℚ) : LeafOK (leaf l) := by
  intro i hi; simp only [listCoeff]; rw [List.getD_eq_default]; omega

theorem poly_leaf (l : List ℚ) : poly (leaf l) = ∑ i ∈ Finset.range l.length, Polynomial.C (l.getD i 0) * Polynomial.X ^ i := by
  simp only [leaf, poly, listCoeff, Finset.sum_range_succ]
  rw [List.getD_eq_default _ _ (Nat.le_refl _)]; simp

theorem poly_scale (c : ℚ) : ∀ g : G, poly (scale c g) = Polynomial.C c * poly g := by
  intro g; induction g with
  | fn f n => simp only [scale, poly, Finset.mul_sum, Polynomial.C_mul, mul_assoc]
  | sum a b iha ihb => simp only [scale, poly, iha, ihb, mul_add]
  | prod a b iha _ => simp only [scale, poly, iha, mul_assoc]

/-- everything the operators build from coefficient lists satisfies the evaluation hypothesis -/
theorem built_ok : ∀ e : E, LeafOK (build e) := by
  intro e; induction e with
  | cs l => exact leafOK_leaf l
  | add a b iha ihb => exact ⟨iha, ihb⟩
  | sub a b iha ihb => exact ⟨iha, leafOK_scale _ _ ihb⟩
  | mul a b iha ihb => exact ⟨iha, ihb⟩
  | smul a c ih => exact leafOK_scale _ _ ih
  | div a c ih => exact leafOK_scale _ _ ih
  | addc a c ih => exact ⟨ih, leafOK_leaf _⟩
  | subc a c ih => exact ⟨ih, leafOK_leaf _⟩
  | dx a k ih => exact leafOK_dx k _ ih

theorem built_poly : ∀ e : E, poly (build e) = spec e := by
  intro e; induction e with
  | cs l => exact poly_leaf l
  | add a b iha ihb => simp only [build, poly, spec, iha, ihb]
  | sub a b iha ihb => simp only [build, poly, spec, poly_scale, iha, ihb]; simp [sub_eq_add_neg]
  | mul a b iha ihb => simp only [build, poly, spec, iha, ihb]
  | smul a c ih => simp only [build, spec, poly_scale, ih]
  | div a c ih => simp only [build, spec, poly_scale, ih]
  | addc a c ih => simp only [build, poly, spec, ih, poly_leaf]; simp
  | subc a c ih => simp only [build, poly, spec, ih, poly_leaf]; simp [sub_eq_add_neg]
  | dx a k ih => simp only [build, spec]; rw [poly_dx k _ (built_ok a), ih]

/-- **C16.** For every expression over coefficient lists — of any length, any shape, any depth — the i-th coefficient
    and the value at x that the code computes are those of the polynomial obtained by exact polynomial arithmetic;
    derivatives are the case `e = .dx a k`. (Division is by a non-zero constant: Python raises for `f / 0`.) -/
theorem three_views (e : E) (i : Nat) (x : ℚ) :
    coeff (build e) i = (spec e).coeff i ∧ eval (build e) x = (spec e).eval x := by
  rw [← built_poly e]
  exact ⟨(poly_coeff _ (built_ok e) i).symm, (eval_poly x _).symm⟩

/-- the derivative view spelled out: coefficients and values of `g.dx(k)` are those of the k-th derivative polynomial -/
theorem derivative_views (e : E) (k i : Nat) (x : ℚ) :
    coeff (GF.dx k (build e)) i = (Polynomial.derivative^[k] (spec e)).coeff i
    ∧ eval (GF.dx k (build e)) x = (Polynomial.derivative^[k] (spec e)).eval x := three_views (.dx e k) i x

/-- non-vacuity beyond the former fixed 301-term window: a list of n ones, for every n (302 included), has value n at 1 -/
theorem ones_at_one (n : Nat) : eval (leaf (List.replicate n 1)) 1 = n := by
  have h := (three_views (.cs (List.replicate n 1)) 0 1).2
  simp only [build, spec] at h
  rw [h, Polynomial.eval_finset_sum]
  rw [Finset.sum_congr rfl (g := fun _ => (1 : ℚ))]
  · simp
  · intro i hi
    rw [Finset.mem_range, List.length_replicate] at hi
    simp [List.getD_eq_getElem?_getD, List.getElem?_replicate, hi]

/-- what `Driver/GF.lean` prints (bottom-up tables, running powers) is the model's `coeff` / `eval`,
    so the correspondence run really compares the code with the functions the theorems above are about -/
theorem driver_is_model (n : Nat) (e : G) (x : ℚ) :
    tab n e = (List.range n).map (coeff e) ∧ evalF e x = eval e x := ⟨tab_eq n e, evalF_eq x e⟩

/-- non-vacuity: (1 + 2x)(3 + x) = 3 + 7x + 2x², its derivative is 7 + 4x -/
example : coeff (.prod (leaf [1, 2]) (leaf [3, 1])) 1 = 7 := by
  simp [coeff, pairs, leaf, listCoeff, List.range, List.range.loop]; norm_num
example : coeff (dx 1 (.prod (leaf [1, 2]) (leaf [3, 1]))) 1 = 4 := by
  rw [coeff_dx_one]
  simp [coeff, pairs, leaf, listCoeff, List.range, List.range.loop]; norm_num

example : LeafOK (.prod (leaf [1, 2]) (leaf [3, 1])) := by
  refine ⟨?_, ?_⟩ <;> intro i hi <;> simp only [listCoeff] <;> rw [List.getD_eq_default] <;> simp at hi ⊢ <;> omega

end GF.C16
