import Mathlib.Data.Fintype.Pi
import Mathlib.Data.Fintype.BigOperators
import Mathlib.Logic.Equiv.Basic
import Mathlib.Algebra.BigOperators.Group.Finset.Piecewise
import EpyVerif.Lemmas.Measure
import EpyVerif.Lemmas.DynRuns
/-!
# C06 — Synchronous dynamics applies independent per-element trials each timestep

Model: `Dyn.synIter` / `tranche` (`synchronousdynamics.py`).  Deterministic layer: the tranche is a function of the
stream of random numbers, one fresh number per element per per-element event (in registration order, elements in
iteration order of the locus *as it is at the start of the step*), then one per fixed-rate event plus its draw; an element
fires iff its own number is `≤ p`.  Measure layer: for an ideal uniform number that test succeeds with probability `p`
(`trial_law`), so the indicators are Bernoulli(p) on distinct coordinates of the stream.

Product law in counting form (`pattern_count`, `pattern_count_pow`): over any finite set of equally likely values the tuples of
fresh numbers giving a firing pattern number `s^k·t^(n-k)` — independence of the coordinates' indicators, hence the Binomial weights.

PARTIAL: that distinct coordinates of numpy's stream are independent and uniform is the assumption of an ideal generator; the
passage from the counting form to Lebesgue product measure on [0,1)^n and on to Geometric / exact absorption laws of a whole run
is not formalised.
-/
set_option linter.unusedSectionVars false
open Queue Dyn
namespace C06

variable {K U E Λ : Type} [LT K] [LE K] [DecidableLT K] [DecidableLE K] [Arith K]

/-- `n` successive calls of `rng.random()` -/
def pops (P : Proc K U E Λ) : Nat → U → Option (List K × U)
  | 0, u => some ([], u)
  | n + 1, u => match P.rand u with
    | none => none
    | some (r, u') => (pops P n u').map (fun x => (r :: x.1, x.2))

/-- **one independent coordinate per element**: the trials of one per-element event over the elements `es` consume exactly
    `es.length` fresh random numbers, the i-th number decides the i-th element and nothing else, by the test `r ≤ p` -/
theorem perElTrials_coord (P : Proc K U E Λ) (l : Λ) (p : K) (h : Nat) : ∀ (es : List E) (u : U) (acc : List (Λ × E × Nat)),
    perElTrials P l p h es u acc =
      (pops P es.length u).map (fun x => (acc ++ ((es.zip x.1).filter (fun y => decide (y.2 ≤ p))).map (fun y => (l, y.1, h)), x.2)) := by
  intro es
  induction es with
  | nil => intro u acc; simp [perElTrials, pops]
  | cons e es ih =>
    intro u acc
    simp only [perElTrials, pops, List.length_cons]
    cases hr : P.rand u with
    | none => simp
    | some x =>
      obtain ⟨r, u'⟩ := x
      simp only []
      rw [ih]
      cases hp : pops P es.length u' with
      | none => simp
      | some y =>
        simp only [Option.map_some, List.zip_cons_cons, List.filter_cons]
        by_cases hle : r ≤ p
        · simp [hle]
        · simp [hle]

/-- an element whose number exceeds `p` does not fire; one whose number is at most `p` does (it is put in the tranche) -/
theorem fires_iff (P : Proc K U E Λ) (l : Λ) (p : K) (h : Nat) (es : List E) (u : U) (rs : List K) (u' : U)
    (hp : pops P es.length u = some (rs, u')) (e : E) (r : K) (hm : (e, r) ∈ es.zip rs) :
    (r ≤ p → ∃ res, perElTrials P l p h es u [] = some (res, u') ∧ (l, e, h) ∈ res) := by
  intro hle
  rw [perElTrials_coord, hp]
  refine ⟨_, rfl, ?_⟩
  simp only [List.nil_append, List.mem_map, List.mem_filter, decide_eq_true_eq]
  exact ⟨(e, r), ⟨hm, hle⟩, rfl⟩

/-- `n` calls give `n` numbers -/
theorem pops_length (P : Proc K U E Λ) : ∀ (n : Nat) (u : U) (rs : List K) (u' : U), pops P n u = some (rs, u') → rs.length = n := by
  intro n
  induction n with
  | zero => intro u rs u' h; simp [pops] at h; simp [h.1.symm]
  | succ n ih =>
    intro u rs u' h
    simp only [pops] at h
    cases hr : P.rand u with
    | none => simp [hr] at h
    | some x =>
      obtain ⟨r, u1⟩ := x
      simp only [hr] at h
      cases hp : pops P n u1 with
      | none => simp [hp] at h
      | some y =>
        simp only [hp, Option.map_some, Option.some.injEq, Prod.mk.injEq] at h
        rw [← h.1]; simp [ih u1 y.1 y.2 (by rw [hp])]

/-- conversely: whatever is put in the tranche was put there by its own coordinate passing the test, and the tranche keeps
    the iteration order of the locus with nothing repeated that the locus does not repeat -/
theorem fires_only_if (P : Proc K U E Λ) (l : Λ) (p : K) (h : Nat) (es : List E) (u : U) (rs : List K) (u' : U)
    (hp : pops P es.length u = some (rs, u')) (res : List (Λ × E × Nat)) (u'' : U)
    (hr : perElTrials P l p h es u [] = some (res, u'')) :
    u'' = u' ∧ res = ((es.zip rs).filter (fun y => decide (y.2 ≤ p))).map (fun y => (l, y.1, h)) ∧
      ∀ x ∈ res, ∃ r, (x.2.1, r) ∈ es.zip rs ∧ r ≤ p := by
  rw [perElTrials_coord, hp] at hr
  simp only [Option.map_some, List.nil_append, Option.some.injEq, Prod.mk.injEq] at hr
  obtain ⟨h1, h2⟩ := hr
  refine ⟨h2.symm, h1.symm, ?_⟩
  intro x hx
  rw [← h1] at hx
  simp only [List.mem_map, List.mem_filter, decide_eq_true_eq] at hx
  obtain ⟨y, ⟨hy1, hy2⟩, rfl⟩ := hx
  exact ⟨y.2, hy1, hy2⟩

/-- the number of elements that fire is the number of coordinates that pass: the count is a sum of the `es.length` indicators -/
theorem fired_count (P : Proc K U E Λ) (l : Λ) (p : K) (h : Nat) (es : List E) (u : U) (rs : List K) (u' : U)
    (hp : pops P es.length u = some (rs, u')) :
    ∃ res, perElTrials P l p h es u [] = some (res, u') ∧ res.length = (rs.filter (fun r => decide (r ≤ p))).length := by
  rw [perElTrials_coord, hp]
  refine ⟨_, rfl, ?_⟩
  simp only [List.nil_append, List.length_map]
  have : ∀ (es : List E) (rs : List K), rs.length = es.length →
      ((es.zip rs).filter (fun y => decide (y.2 ≤ p))).length = (rs.filter (fun r => decide (r ≤ p))).length := by
    intro es
    induction es with
    | nil => intro rs h; cases rs <;> simp_all
    | cons e es ih =>
      intro rs h
      cases rs with
      | nil => simp at h
      | cons r rs =>
        simp only [List.zip_cons_cons, List.filter_cons]
        have := ih rs (by simpa using h)
        by_cases hle : r ≤ p <;> simp [hle, this]
  exact this es rs (pops_length P _ u rs u' hp)

/-- a per-element event with probability zero or an empty locus consumes no random number and fires nothing (C05) -/
theorem no_trial_when_zero (P : Proc K U E Λ) (l : Λ) (p : K) (h : Nat) (rest : List (Λ × K × Nat)) (u : U)
    (acc : List (Λ × E × Nat)) (hz : P.size u l = 0 ∨ ¬ Arith.zero < p) :
    perElPart P ((l, p, h) :: rest) u acc = perElPart P rest u acc := by
  conv => lhs; unfold perElPart
  have : ¬ (P.size u l > 0 ∧ Arith.zero < p) := by
    rintro ⟨h1, h2⟩; rcases hz with hz | hz
    · omega
    · exact hz h2
  simp [this]

/-- **time advances in unit steps**: an iteration that goes round again has advanced the loop's time by exactly one unit -/
theorem unit_step (P : Proc K U E Λ) (fuel : Nat) (L : Loop K U E Λ) (hc : (synIter P fuel L).2 = true) :
    (synIter P fuel L).1.t = Arith.add L.t Arith.one := by
  unfold synIter at hc ⊢
  split
  · rename_i h; simp [h] at hc
  · rename_i h
    simp only [h, Bool.false_eq_true, if_false] at hc ⊢
    split
    · rename_i hf; simp [hf] at hc
    · rename_i hf
      simp only [hf, Bool.false_eq_true, if_false] at hc
      split
      · rename_i ht; simp [ht] at hc
      · rfl

/-- **posted events first**: the events of one timestep are the posted events due by `t`, then the chosen stochastic ones -/
theorem posted_first (P : Proc K U E Λ) (fuel : Nat) (L : Loop K U E Λ) [Std.IsLinearOrder K] [Std.LawfulOrderLT K] :
    ∃ posted stoch, (synIter P fuel L).1.tr = L.tr ++ posted ++ stoch ∧
      (∀ ev ∈ posted, ev.posted = true) ∧ (∀ ev ∈ stoch, ev.posted = false) := by
  unfold synIter
  split
  · exact ⟨[], [], by simp, by simp, by simp⟩
  · simp only []
    obtain ⟨ext, h1, h2⟩ := runPending_prefix P L.t fuel (setNow L.s L.t) L.tr
    split
    · exact ⟨ext, [], by simp [h1], fun ev hev => (h2 ev hev).1, by simp⟩
    · split
      · exact ⟨ext, [], by simp [h1], fun ev hev => (h2 ev hev).1, by simp⟩
      · rename_i evs u' _
        have : ∀ (evs : List (Λ × E × Nat)) (acc : St K U E × List (Fired K E Λ)),
            ∃ st, (evs.foldl (synFire P L.t) acc).2 = acc.2 ++ st ∧ ∀ ev ∈ st, ev.posted = false := by
          intro evs
          induction evs with
          | nil => intro acc; exact ⟨[], by simp, by simp⟩
          | cons x xs ih =>
            intro acc
            simp only [List.foldl_cons]
            obtain ⟨st, e1, e2⟩ := ih (synFire P L.t acc x)
            by_cases hm : P.mem acc.1.u x.1 x.2.1 = true
            · have hs : synFire P L.t acc x = ((fireStoch P L.t x.1 x.2.2 x.2.1 acc.1).1, acc.2 ++ [(fireStoch P L.t x.1 x.2.2 x.2.1 acc.1).2]) := by
                unfold synFire; simp [hm]
              rw [hs] at e1 ⊢
              refine ⟨(fireStoch P L.t x.1 x.2.2 x.2.1 acc.1).2 :: st, by rw [e1]; simp, ?_⟩
              intro ev hev
              rcases List.mem_cons.1 hev with rfl | hev
              · rfl
              · exact e2 ev hev
            · have hs : synFire P L.t acc x = acc := by unfold synFire; simp [hm]
              rw [hs] at e1 ⊢
              exact ⟨st, e1, e2⟩
        obtain ⟨st, e1, e2⟩ := this evs ({ setNow (runPending P L.t fuel (setNow L.s L.t) L.tr).1 L.t with u := u' },
          (runPending P L.t fuel (setNow L.s L.t) L.tr).2.1)
        exact ⟨ext, st, by rw [e1, h1], fun ev hev => (h2 ev hev).1, e2⟩

/-- a Bernoulli trial `rng.random() <= p` on an ideal uniform number succeeds with probability `p` (`1` when `p ≥ 1`) -/
theorem trial_law (p : ℝ) (h0 : 0 ≤ p) (h1 : p < 1) :
    MeasureTheory.volume {r : ℝ | r ∈ Set.Ico 0 1 ∧ r ≤ p} = ENNReal.ofReal p := Bridge.trial_law p h0 h1

theorem trial_law_one (p : ℝ) (h1 : 1 ≤ p) :
    MeasureTheory.volume {r : ℝ | r ∈ Set.Ico 0 1 ∧ r ≤ p} = 1 := Bridge.trial_law_one p h1

/-- **product law, counting form**: over any finite set `A` of equally likely stream values, the `n`-tuples of fresh numbers that
    produce exactly the firing pattern `b` (coordinate `i` passes the test iff `b i`) number `∏ᵢ #{a | pass a = b i}`: the
    indicators of distinct coordinates are independent -/
theorem pattern_count {A : Type} [Fintype A] [DecidableEq A] (pass : A → Bool) (n : Nat) (b : Fin n → Bool) :
    Fintype.card {f : Fin n → A // ∀ i, pass (f i) = b i} = ∏ i, Fintype.card {a : A // pass a = b i} := by
  rw [← Fintype.card_pi]
  exact Fintype.card_congr (Equiv.subtypePiEquivPi (p := fun i a => pass a = b i))

/-- … that is `s^k · t^(n-k)` with `s` passing values, `t` failing ones and `k` elements firing: the Binomial weight of a pattern -/
theorem pattern_count_pow {A : Type} [Fintype A] [DecidableEq A] (pass : A → Bool) (n : Nat) (b : Fin n → Bool) :
    Fintype.card {f : Fin n → A // ∀ i, pass (f i) = b i} =
      Fintype.card {a : A // pass a = true} ^ (Finset.univ.filter (fun i => b i = true)).card *
      Fintype.card {a : A // pass a = false} ^ (Finset.univ.filter (fun i => ¬ b i = true)).card := by
  rw [pattern_count]
  have : ∀ i, Fintype.card {a : A // pass a = b i} =
      if b i = true then Fintype.card {a : A // pass a = true} else Fintype.card {a : A // pass a = false} := by
    intro i; cases h : b i <;> simp
  simp only [this]
  rw [Finset.prod_ite, Finset.prod_const, Finset.prod_const]

/-- non-vacuity: 4 equally likely values of which 1 passes, 3 coordinates, pattern (fire, not, not): 1·3·3 = 9 of the 64 streams -/
example : Fintype.card {f : Fin 3 → Fin 4 // ∀ i, (fun a : Fin 4 => decide (a = 0)) (f i) = (fun i : Fin 3 => decide (i = 0)) i} = 9 := by
  decide +kernel

end C06
