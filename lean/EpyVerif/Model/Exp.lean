/-! The experiment object between runs (`networkexperiment.py`, `networkdynamics.py`, `generator.py`): a network generator with
    an optional limit, and the per-run fields of the dynamics that `setUp` re-creates.  Core Lean only. -/
namespace Exp

/-- `NetworkGenerator`: `_remaining` (None = unbounded) and the network `_generate` produces on the k-th call -/
structure Gen (G : Type) where
  remaining : Option Nat
  made : Nat
  make : Nat → G

/-- `generate()`: `none` is Python's `None` (`__next__` turns it into StopIteration) -/
def Gen.generate {G : Type} (g : Gen G) : Option G × Gen G :=
  match g.remaining with
  | none => (some (g.make g.made), { g with made := g.made + 1 })
  | some (r + 1) => (some (g.make g.made), { g with remaining := some r, made := g.made + 1 })
  | some 0 => (none, g)

/-- any number of `generate()` calls: the networks obtained -/
def Gen.take {G : Type} : Nat → Gen G → List G × Gen G
  | 0, g => ([], g)
  | k + 1, g =>
    match g.generate with
    | (some x, g') => let r := Gen.take k g'; (x :: r.1, r.2)
    | (none, g') => Gen.take k g'

/-- the per-run fields of `Dynamics` (everything `setUp` assigns), abstractly: `Q` posted-event queue with its finder and id
    counter, `L` loci tables, `N` working network, clock -/
structure Run (Q L N T : Type) where
  queue : Q
  loci : L
  net : Option N
  clock : T

/-- `Dynamics.setUp`, the part before the process is built: new working network from the generator, empty loci tables, empty
    queue, id counter and clock at zero — whatever the fields held before -/
def setUp {Q L N T : Type} (emptyQ : Q) (emptyL : L) (zero : T) (gen : Gen N) (_old : Run Q L N T) : Run Q L N T × Gen N :=
  let r := gen.generate
  ({ queue := emptyQ, loci := emptyL, net := r.1, clock := zero }, r.2)

end Exp
