/-! Functional model of epydemic/bbt.py TreeNode (prototype). -/
namespace Bbt

inductive T (α : Type) where
  | nil : T α
  | node (l : T α) (d : α) (r : T α) (h ls rs : Nat) : T α
deriving Repr, BEq

variable {α : Type}

/-- `lh`/`rh` in the python: child._height + 1, or 0 for no child -/
def hp : T α → Nat
  | .nil => 0
  | .node _ _ _ h _ _ => h + 1

/-- python `len(node)` from cached sizes -/
def len : T α → Nat
  | .nil => 0
  | .node _ _ _ _ ls rs => ls + 1 + rs

/-- real number of nodes -/
def size : T α → Nat
  | .nil => 0
  | .node l _ r _ _ _ => size l + 1 + size r

/-- `_updateHeightAndSizes` applied to a node with given children -/
def mk (l : T α) (d : α) (r : T α) : T α :=
  .node l d r (max (hp l) (hp r)) (len l) (len r)

def unbal (l r : T α) : Bool :=
  let lh := hp l; let rh := hp r
  (if lh ≥ rh then lh - rh else rh - lh) > 1

/-- `z._rotate()` where z = (l,d,r) with fresh caches irrelevant; returns new local root (with updated caches).
    Branches by position of the taller subtree. Fuel-free: structural on explicit size measure. -/
def rotate (fuel : Nat) (l : T α) (d : α) (r : T α) : T α :=
  match fuel with
  | 0 => mk l d r
  | fuel+1 =>
    let fix (l : T α) (d : α) (r : T α) : T α :=
      if unbal l r then rotate fuel l d r else mk l d r
    if hp l > hp r then
      -- y = l (left child)
      match l with
      | .nil => mk l d r
      | .node yl yd yr _ _ _ =>
        if hp yl > hp yr then
          -- x = yl : c-b-a single right rotation
          let z' := fix yr d r
          mk yl yd z'
        else
          -- x = yr : c-a-b double
          match yr with
          | .nil => mk l d r
          | .node xl xd xr _ _ _ =>
            let z' := fix xr d r
            let y' := fix yl yd xl
            mk y' xd z'
    else
      -- y = r (right child)
      match r with
      | .nil => mk l d r
      | .node yl yd yr _ _ _ =>
        if hp yl > hp yr then
          -- x = yl : a-c-b double
          match yl with
          | .nil => mk l d r
          | .node xl xd xr _ _ _ =>
            let z' := fix l d xl
            let y' := fix xr yd yr
            mk z' xd y'
        else
          -- x = yr : a-b-c single left
          let z' := fix l d yl
          mk z' yd yr

end Bbt

namespace Bbt
variable {α : Type}

def fix (l : T α) (d : α) (r : T α) : T α :=
  if unbal l r then rotate (size l + size r + 1) l d r else mk l d r

/-- TreeNode.add : returns (tree, added, stillChecking) -/
def addAux [Ord α] (e : α) : T α → T α × Bool × Bool
  | .nil => (mk .nil e .nil, true, true)
  | t@(.node l d r _ _ _) =>
    match compare e d with
    | .eq => (t, false, false)
    | .lt =>
      let (l', added, chk) := addAux e l
      if !added then (t, false, false)
      else if chk && unbal l' r then (rotate (size l' + size r + 1) l' d r, true, false)
      else (mk l' d r, true, chk)
    | .gt =>
      let (r', added, chk) := addAux e r
      if !added then (t, false, false)
      else if chk && unbal l r' then (rotate (size l + size r' + 1) l d r', true, false)
      else (mk l d r', true, chk)

def add [Ord α] (t : T α) (e : α) : T α := (addAux e t).1

/-- remove rightmost node, rebalancing recursively; returns (tree', max) -/
def removeMax : T α → α → T α × α
  | .nil, dflt => (.nil, dflt)
  | .node l d .nil _ _ _, _ => (l, d)
  | .node l d r _ _ _, dflt => let (r', m) := removeMax r dflt; (fix l d r', m)

def removeMin : T α → α → T α × α
  | .nil, dflt => (.nil, dflt)
  | .node .nil d r _ _ _, _ => (r, d)
  | .node l d r _ _ _, dflt => let (l', m) := removeMin l dflt; (fix l' d r, m)

def hgtField : T α → Nat
  | .nil => 0
  | .node _ _ _ h _ _ => h

def discardAux [Ord α] (e : α) : T α → T α × Bool
  | .nil => (.nil, false)
  | t@(.node l d r _ _ _) =>
    match compare e d with
    | .lt => let (l', p) := discardAux e l; if p then (fix l' d r, true) else (t, false)
    | .gt => let (r', p) := discardAux e r; if p then (fix l d r', true) else (t, false)
    | .eq =>
      match l, r with
      | .nil, .nil => (.nil, true)
      | .nil, r => (r, true)
      | l, .nil => (l, true)
      | l, r =>
        if hgtField l > hgtField r then
          let (l', m) := removeMax l d; (fix l' m r, true)
        else
          let (r', m) := removeMin r d; (fix l m r', true)

def discard [Ord α] (t : T α) (e : α) : T α := (discardAux e t).1

end Bbt

