import EpyVerif.Model.Comp
/-! `NetworkStatistics.results` (statistics.py, `KMAX` as repaired) on the model network. Connected components by a fuelled
    search; networkx's `degree_histogram` / `connected_components` themselves are trusted, this is the specification side. -/
namespace Stats
open Comp

/-- networkx degree: a self-loop counts twice -/
def degree (g : Net) (n : Node) : Nat := (g.adj n).length + (if (g.adj n).contains n then 1 else 0)

def degrees (g : Net) : List Nat := g.nodes.map (degree g)

def maxDeg (ds : List Nat) : Nat := ds.foldl max 0

/-- nodes reachable from the frontier, given the visited set (fuel = number of nodes) -/
def reach (g : Net) : Nat → List Node → List Node → List Node
  | 0, _, seen => seen
  | f+1, frontier, seen =>
    let next := (frontier.flatMap g.adj).filter (fun m => !seen.contains m)
    let next := next.eraseDups
    if next.isEmpty then seen else reach g f next (seen ++ next)

def components (g : Net) : List (List Node) :=
  g.nodes.foldl (fun acc n => if acc.any (·.contains n) then acc else acc ++ [reach g g.nodes.length [n] [n]]) []

structure Result where
  N : Nat
  M : Nat
  ktotal : Nat
  kmax : Nat
  ncomp : Nat
  lcc : Nat
  slcc : Nat
deriving Repr

def stats (g : Net) : Result :=
  let ds := degrees g
  let sizes := ((components g).map List.length).toArray.qsort (· > ·) |>.toList
  { N := g.nodes.length, M := ds.sum / 2, ktotal := ds.sum, kmax := maxDeg ds, ncomp := sizes.length,
    lcc := sizes.getD 0 0, slcc := sizes.getD 1 0 }

end Stats
