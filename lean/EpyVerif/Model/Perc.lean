/-! `Percolate.percolate` (percolate.py, as repaired: `unoccupied = es[occ:]`): split a shuffled edge list at `occ = int(M·T)`. -/
namespace Perc

def split {α : Type} (es : List α) (occ : Nat) : List α × List α := (es.take occ, es.drop occ)

end Perc
