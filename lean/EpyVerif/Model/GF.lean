/-! Prototype model of epydemic.gf (FunctionGF/DiscreteGF, SumGF, ProductGF) over Rat. -/
namespace GF

/-- `fn f n`: a `FunctionGF` with coefficient function `f` and `_maxTerm = n` (the largest term `evaluate` adds up) -/
inductive G where
  | fn (f : Nat → Rat) (n : Nat)
  | sum (a b : G)
  | prod (a b : G)

def listCoeff (cs : List Rat) : Nat → Rat := fun i => cs.getD i 0

/-- `DiscreteGF(coefficients=cs)`: the wrapper function, and `len(cs)` as largest term -/
def leaf (cs : List Rat) : G := .fn (listCoeff cs) cs.length

/-- `DiscreteGF(f=f)`: no largest term given, 300 -/
def leafFn (f : Nat → Rat) : G := .fn f 300

/-- ProductGF.getCoefficient's own enumeration: pairs a ≤ b with a + b = i, then the mirrored ones -/
def pairs (i : Nat) : List (Nat × Nat) :=
  let forwards := (List.range (i+1)).flatMap (fun a => ((List.range (i+1)).filter (fun b => a ≤ b && a + b == i)).map (fun b => (a, b)))
  let backwards := (forwards.filter (fun p => p.1 != p.2)).map (fun p => (p.2, p.1))
  forwards ++ backwards

def coeff : G → Nat → Rat
  | .fn f _, i => f i
  | .sum a b, i => coeff a i + coeff b i
  | .prod a b, i => (pairs i).foldl (fun c p => c + coeff a p.1 * coeff b p.2) 0

def scale (c : Rat) : G → G
  | .fn f n => .fn (fun i => c * f i) n
  | .sum a b => .sum (scale c a) (scale c b)
  | .prod a b => .prod (scale c a) b

def G.size : G → Nat
  | .fn _ _ => 1
  | .sum a b => a.size + b.size + 1
  | .prod a b => a.size + b.size + 1

def dfn (f : Nat → Rat) (order : Nat) : Nat → Rat := fun i =>
  (List.range order).foldl (fun m j => m * ((i + (j+1) : Nat) : Rat)) (f (i + order))

/-- `derivative(order)` -/
def dx : Nat → G → G
  | k, .fn f n => .fn (dfn f k) n
  | k, .sum a b => .sum (dx k a) (dx k b)
  | 0, .prod a b => .prod a b
  | k+1, .prod a b => dx k (.sum (.prod (dx 1 a) b) (.prod a (dx 1 b)))
termination_by k g => (k, g.size)
decreasing_by
  all_goals simp_wf
  · apply Prod.Lex.right; simp [G.size]; omega
  · apply Prod.Lex.right; simp [G.size]; omega
  · cases k with
    | zero => apply Prod.Lex.right; simp [G.size]; omega
    | succ k => apply Prod.Lex.left; omega
  · cases k with
    | zero => apply Prod.Lex.right; simp [G.size]; omega
    | succ k => apply Prod.Lex.left; omega
  · apply Prod.Lex.left; omega

def pow (x : Rat) : Nat → Rat | 0 => 1 | n+1 => pow x n * x

def eval : G → Rat → Rat
  | .fn f n, x => (List.range (n + 1)).foldl (fun v i => v + f i * pow x i) 0
  | .sum a b, x => eval a x + eval b x
  | .prod a b, x => eval a x * eval b x

end GF

