import EpyVerif.Model.Dyn
import EpyVerif.Model.Comp
/-! Assembly: the world of a simulation (network, compartments, loci, marks, scripted random stream, logs), the
    handler language the translator / harness emits (`Act`), and the `Dyn.Proc` built from a configuration. -/
namespace Sim
open Queue Dyn Comp Bbt

inductive Rnd (K : Type) where
  | f (x : K)                 -- rng.random()
  | i (hi : Nat) (x : Nat)    -- rng.integers(hi)
  | perm (l : List Int)       -- the order in which Python iterated a set (AddDelete.add: `for j in es`), as observed

/-- loci as the dynamics sees them -/
inductive Loc where
  | l (i : Nat)                       -- a registered locus
  | single (i : Nat) (e : Elem)       -- `SingletonLocus(e)` over locus `i` (variable-infection SIR)
deriving Repr, BEq

structure Series (K : Type) where
  times : List K := []
  vals : List (List Nat) := []        -- one row per observation

structure U (K : Type) where
  w : Comp.W
  occ : List (Nat × Node × Node) := []         -- (instance, a, b): OCCUPIED flag of that instance on the edge
  tocc : List (Node × Node × K) := []          -- the shared attribute tOccupied
  hit : List (Node × K × Option Nat) := []     -- tHitting and hittingProcess (instance) — shared, undecorated
  infv : List (Node × Node × K) := []          -- per-edge infectivity (variable infection)
  vacc : List (Node × K) := []                 -- vaccinated nodes with their vaccination time (shared, undecorated attributes)
  rng : List (Rnd K) := []
  log : Array String := #[]                    -- results of API calls made by scripted handlers in the current event
  mon : Series K := {}
  out : Array String := #[]                    -- protocol lines produced by the event tap
  err : Option String := none
  nloci : Nat := 0

/-- how an addition-deletion process is combined with a disease model (adddelete.py, cookbook "dynamic population") -/
inductive AdMode where
  | alone
  | inherit (inst S R : Nat)   -- one object is both (`class DynamicSIR(SIR, AddDelete)`), or the completed sequence recipe
  | seq (inst S R : Nat)       -- the cookbook's named sequence, verbatim: only addNewNode / removeNode talk to the disease model
deriving Repr

/-- handler bodies, as emitted by the translator / the scripted process -/
inductive Act (K : Type) where
  | ccLeft (inst c : Nat)            -- (n, _) = e ; changeCompartment(n, c)      (also used for node elements)
  | occ (inst : Nat)                 -- markOccupied(e, t, firstOnly=True)
  | hit (inst : Nat)                 -- markHit(n, t, firstOnly=True)
  | postL (dt : K) (h : Nat)         -- postEvent(t + dt, n, h)
  | postE (dt : K) (h : Nat)         -- postEvent(t + dt, e, h)                   (also: the tail of a repeating event)
  | postAbs (t : K) (h : Nat)        -- try: postEvent(t, e, h) except ValueError      — result logged
  | unpost (id : Nat) (fatal : Bool) -- try: unpostEvent(id, fatal) except KeyError    — result logged
  | pending (id : Nat)               -- try: pendingEventTime(id) except KeyError      — result logged
  | clock                            -- currentSimulationTime()                        — logged
  | cc (inst : Nat) (n : Node) (c : Nat)
  | setc (inst : Nat) (n : Node) (c : Nat)
  | addNode (inst : Nat) (n : Node) (c : Option Nat)
  | rmNode (inst : Nat) (n : Node)
  | addEdge (inst : Nat) (n m : Node)
  | rmEdge (inst : Nat) (n m : Node)
  | observe                          -- Monitor.observe: time and len() of every locus
  | trial (p : K) (inst c : Nat) (thenOcc : Bool)  -- SIvR.infect: if rng.random() > p then changeCompartment, (occ, hit)
  | vaccinate                                       -- Vaccinate.vaccinate → SIvR.vaccinateNode(t, n)
  | sivrInfect (inst c : Nat) (offset eff : K) (locN locV : Nat)   -- SIvR.infect
  | plainLeave (loc : Nat)                          -- locus.leaveHandler(g, n) of a plain locus
  | adAdd (loc c : Nat) (mode : AdMode)            -- AddDelete.add
  | adDel (loc : Nat) (mode : AdMode)              -- AddDelete.delete

structure Cfg (K : Type) where
  comp : Comp.Cfg
  perEl : List (Nat × K × Nat)
  fixed : List (Nat × K × Nat)
  varInf : Option (Nat × Nat) := none       -- variable infection: (SI locus, handler)
  varAt : Nat := 0                          -- … whose per-edge entries follow the first `varAt` static entries (its own process's)
  handlers : Nat → List (Act K)
  /-- `atEquilibrium` of each component: maximum time, and loci that must all be empty as an alternative -/
  eq : List (K × Option (List Nat))
  fmt : K → String                          -- how a number is printed in logs (bit pattern)

variable {K : Type} [LT K] [LE K] [DecidableLT K] [DecidableLE K] [Arith K]

def popF (u : U K) : Option (K × U K) :=
  match u.rng with
  | .f x :: rest => some (x, { u with rng := rest })
  | _ => none

def popI (u : U K) (hi : Nat) : Option (Nat × U K) :=
  match u.rng with
  | .i h x :: rest => if h = hi ∧ x < hi then some (x, { u with rng := rest }) else none
  | _ => none

/-- `TreeNode.draw` with the scripted integers -/
def drawT : T Elem → U K → Option (Elem × U K)
  | .nil, _ => none
  | .node l d r _ ls rs, u =>
    if ls + 1 + rs = 1 then some (d, u) else
      match popI u (ls + 1 + rs) with
      | none => none
      | some (i, u') => if i < ls then drawT l u' else if i = ls then some (d, u') else drawT r u'

def popP (u : U K) : Option (List Int × U K) :=
  match u.rng with
  | .perm l :: rest => some (l, { u with rng := rest })
  | _ => none

/-! ### addition-deletion (adddelete.py) -/

/-- `i = order + 1; while i in g.nodes(): i = i + 1` — at most `fuel` increments -/
def firstFree (ns : List Node) : Int → Nat → Int
  | i, 0 => i
  | i, fuel + 1 => if ns.contains i then firstFree ns (i + 1) fuel else i

/-- `newNodeName()` (order-many increments always suffice: `C19.fresh_name`) -/
def newName (g : Net) : Node := firstFree g.nodes (g.nodes.length + 1) g.nodes.length

/-- `while True: j = ns.draw(); if (j not in es) and (i != j): break` — every pass but a draw from a one-element locus
    consumes a random integer, so the passes are bounded by the random stream; `none`: the real loop does not return -/
def pickOne (s : LSet) (i : Node) (es : List Node) : Nat → U K → Option (Node × U K)
  | 0, _ => none
  | fuel + 1, u =>
    match drawT s.t u with
    | none => none
    | some (e, u') => if !es.contains e.1 && e.1 != i then some (e.1, u') else pickOne s i es fuel u'

/-- `for _ in range(c): …; es.add(j)` -/
def pickMany (s : LSet) (i : Node) : Nat → List Node → U K → Option (List Node × U K)
  | 0, es, u => some (es, u)
  | c + 1, es, u =>
    match pickOne s i es (u.rng.length + 1) u with
    | none => none
    | some (j, u') => pickMany s i c (es ++ [j]) u'

/-- the edge `(i, j)` added by `self.addEdge` of the add-delete process -/
def adEdge (cfg : Comp.Cfg) (mode : AdMode) (i : Node) (w : W) (j : Node) : W :=
  match mode with
  | .inherit inst _ _ => Comp.addEdge cfg w inst i j
  | _ => { w with net := w.net.addEdge i j }

/-- the world after `addNewNode()` -/
def adNewNode (cfg : Comp.Cfg) (loc : Nat) (mode : AdMode) (w : W) : W :=
  let i := newName w.net
  let w := updLocus { w with net := w.net.addNode i } loc (·.add (eN i))
  match mode with
  | .alone => w
  | .inherit inst S _ | .seq inst S _ => setCompartment cfg w inst i S

/-- `AddDelete.add`; `none`: the real call does not return (or the observed iteration order is not one of the chosen set) -/
def adAdd? (cfg : Comp.Cfg) (loc c : Nat) (mode : AdMode) (u : U K) : Option (U K) :=
  let i := newName u.w.net
  let w := adNewNode cfg loc mode u.w
  match pickMany (w.loci loc) i c [] { u with w := w } with
  | none => none
  | some (es, u1) =>
    match popP u1 with
    | none => none
    | some (order, u2) =>
      if order.isPerm es then some { u2 with w := order.foldl (adEdge cfg mode i) u2.w } else none

def adAdd (cfg : Comp.Cfg) (loc c : Nat) (mode : AdMode) (u : U K) : U K :=
  match adAdd? cfg loc c mode u with
  | some u' => u'
  | none => { u with err := some "AddDelete.add: cannot draw c distinct other nodes (the real loop does not return), or bad iteration order" }

def adDelW (cfg : Comp.Cfg) (loc : Nat) (mode : AdMode) (n : Node) (w : W) : W :=
  let w1 := match mode with
    | .alone => w
    | .inherit inst _ R | .seq inst _ R => changeCompartment cfg w inst n R
  let w2 := match mode with
    | .inherit inst _ _ => Comp.removeNode cfg w1 inst n
    | _ => { w1 with net := w1.net.removeNode n, comp := fun j x => if x = n then none else w1.comp j x }
  updLocus w2 loc (·.discard (eN n))

def adDel (cfg : Comp.Cfg) (loc : Nat) (mode : AdMode) (n : Node) (u : U K) : U K :=
  { u with w := adDelW cfg loc mode n u.w,
           occ := u.occ.filter (fun o => !(o.2.1 == n || o.2.2 == n)),
           tocc := u.tocc.filter (fun o => !(o.1 == n || o.2.1 == n)),
           hit := u.hit.filter (fun h => h.1 != n) }

def logU (u : U K) (s : String) : U K := { u with log := u.log.push s }

def unord (a b : Node) : Node × Node := if a ≤ b then (a, b) else (b, a)

def markOccupied (u : U K) (inst : Nat) (e : Elem) (t : K) : U K :=
  let p := unord e.1 e.2
  if u.occ.any (fun o => o.1 == inst && o.2.1 == p.1 && o.2.2 == p.2) then u
  else { u with occ := (inst, p.1, p.2) :: u.occ,
                tocc := (p.1, p.2, t) :: u.tocc.filter (fun o => !(o.1 == p.1 && o.2.1 == p.2)) }

def markHit (u : U K) (inst : Option Nat) (n : Node) (t : K) : U K :=
  if u.hit.any (fun h => h.1 == n) then u else { u with hit := (n, t, inst) :: u.hit }

def optStr (fmt : K → String) : Option K → String
  | some t => fmt t
  | none => "None"

def lociSizes (u : U K) : List Nat := (List.range u.nloci).map (fun i => (u.w.loci i).size)

/-- the program of a handler (structurally recursive over its action list) -/
def runActs (cfg : Cfg K) : List (Act K) → K → Elem → Prog K (U K) Elem
  | [], _, _ => .done
  | .ccLeft inst c :: rest, t, e =>
    .get fun u => .put { u with w := changeCompartment cfg.comp u.w inst e.1 c } (runActs cfg rest t e)
  | .occ inst :: rest, t, e => .get fun u => .put (markOccupied u inst e t) (runActs cfg rest t e)
  | .hit inst :: rest, t, e => .get fun u => .put (markHit u (some inst) e.1 t) (runActs cfg rest t e)
  | .postL dt h :: rest, t, e => .post (Arith.add t dt) (eN e.1) h fun _ => runActs cfg rest t e
  | .postE dt h :: rest, t, e => .post (Arith.add t dt) e h fun _ => runActs cfg rest t e
  | .postAbs t' h :: rest, t, e =>
    .post t' e h fun r => .get fun u =>
      .put (logU u (match r with | some id => s!"post={id}" | none => "post=ValueError")) (runActs cfg rest t e)
  | .unpost id fatal :: rest, t, e =>
    .unpost id fun r => .get fun u =>
      .put (logU u (match r with | some x => s!"unpost={cfg.fmt x}" | none => if fatal then "unpost=KeyError" else "unpost=None"))
        (runActs cfg rest t e)
  | .pending id :: rest, t, e =>
    .pending id fun r => .get fun u =>
      .put (logU u (match r with | some x => s!"pending={cfg.fmt x}" | none => "pending=KeyError")) (runActs cfg rest t e)
  | .clock :: rest, t, e => .clock fun c => .get fun u => .put (logU u s!"clock={cfg.fmt c}") (runActs cfg rest t e)
  | .cc inst n c :: rest, t, e =>
    .get fun u => .put { u with w := changeCompartment cfg.comp u.w inst n c } (runActs cfg rest t e)
  | .setc inst n c :: rest, t, e =>
    .get fun u => .put { u with w := setCompartment cfg.comp u.w inst n c } (runActs cfg rest t e)
  | .addNode inst n c :: rest, t, e =>
    .get fun u => .put { u with w := Comp.addNode cfg.comp u.w inst n c } (runActs cfg rest t e)
  | .rmNode inst n :: rest, t, e =>
    .get fun u => .put { u with w := Comp.removeNode cfg.comp u.w inst n,
                                occ := u.occ.filter (fun o => !(o.2.1 == n || o.2.2 == n)),
                                tocc := u.tocc.filter (fun o => !(o.1 == n || o.2.1 == n)),
                                hit := u.hit.filter (fun h => h.1 != n) } (runActs cfg rest t e)
  | .addEdge inst n m :: rest, t, e =>
    .get fun u => .put { u with w := Comp.addEdge cfg.comp u.w inst n m } (runActs cfg rest t e)
  | .rmEdge inst n m :: rest, t, e =>
    .get fun u =>
      let p := unord n m
      .put { u with w := Comp.removeEdge cfg.comp u.w inst n m,
                    occ := u.occ.filter (fun o => !(o.2.1 == p.1 && o.2.2 == p.2)),
                    tocc := u.tocc.filter (fun o => !(o.1 == p.1 && o.2.1 == p.2)) } (runActs cfg rest t e)
  | .observe :: rest, t, e =>
    .get fun u => .put { u with mon := { times := u.mon.times ++ [t], vals := u.mon.vals ++ [lociSizes u] } }
      (runActs cfg rest t e)
  | .vaccinate :: rest, t, e =>
    .get fun u => .put { u with vacc := (e.1, t) :: u.vacc.filter (fun v => v.1 != e.1) } (runActs cfg rest t e)
  | .plainLeave loc :: rest, t, e =>
    .get fun u => .put { u with w := updLocus u.w loc (·.discard (eN e.1)) } (runActs cfg rest t e)
  | .sivrInfect inst c offset eff locN locV :: rest, t, e =>
    .get fun u =>
      let take := fun (u : U K) (loc : Nat) =>
        let u1 := { u with w := updLocus (changeCompartment cfg.comp u.w inst e.1 c) loc (·.add (eN e.1)) }
        markHit (markOccupied u1 inst e t) (some inst) e.1 t
      match u.vacc.lookup e.1 with
      | some tv =>
        if Arith.add tv offset < t then
          match popF u with
          | none => .put { u with err := some "rng: random() expected in SIvR.infect" } .done
          | some (r, u') => if eff < r then .put (take u' locV) (runActs cfg rest t e) else .put u' (runActs cfg rest t e)
        else .put (take u locN) (runActs cfg rest t e)
      | none => .put (take u locN) (runActs cfg rest t e)
  | .adAdd loc c mode :: rest, t, e => .get fun u => .put (adAdd cfg.comp loc c mode u) (runActs cfg rest t e)
  | .adDel loc mode :: rest, t, e => .get fun u => .put (adDel cfg.comp loc mode e.1 u) (runActs cfg rest t e)
  | .trial p inst c thenOcc :: rest, t, e =>
    .get fun u =>
      match popF u with
      | none => .put { u with err := some "rng: random() expected in handler" } .done
      | some (r, u') =>
        if p < r then
          let u1 := { u' with w := changeCompartment cfg.comp u'.w inst e.1 c }
          let u2 := if thenOcc then markHit (markOccupied u1 inst e t) (some inst) e.1 t else u1
          .put u2 (runActs cfg rest t e)
        else .put u' (runActs cfg rest t e)

def locSet (u : U K) : Loc → LSet
  | .l i => u.w.loci i
  | .single i _ => u.w.loci i

def infectivity (u : U K) (e : Elem) : Option K :=
  let p := unord e.1 e.2
  (u.infv.find? (fun o => o.1 == p.1 && o.2.1 == p.2)).map (·.2.2)

def mkProc (cfg : Cfg K) (tap : Fired K Elem Loc → St K (U K) Elem → U K) : Proc K (U K) Elem Loc where
  handler := fun h t e => runActs cfg (cfg.handlers h) t e
  tap := tap
  atEq := fun s t => cfg.eq.all fun c =>
    decide (c.1 ≤ t) || (match c.2 with | some ls => ls.all (fun l => (s.u.w.loci l).size == 0) | none => false)
  perEl := fun u =>
    let stat := cfg.perEl.map (fun x => (Loc.l x.1, x.2.1, x.2.2))
    match cfg.varInf with
    | none => stat
    | some (si, h) =>
      stat.take cfg.varAt ++ (u.w.loci si).toList.filterMap (fun e => (infectivity u e).map (fun p => (Loc.single si e, p, h)))
        ++ stat.drop cfg.varAt
  fixed := fun _ => cfg.fixed.map (fun x => (Loc.l x.1, x.2.1, x.2.2))
  size := fun u l => match l with | .l i => (u.w.loci i).size | .single i e => if (u.w.loci i).mem e then 1 else 0
  elems := fun u l => match l with | .l i => (u.w.loci i).toList | .single _ e => [e]
  mem := fun u l e => match l with | .l i => (u.w.loci i).mem e | .single i e' => e == e' && (u.w.loci i).mem e
  draw := fun u l => match l with | .l i => drawT (u.w.loci i).t u | .single _ e => some (e, u)
  rand := popF

end Sim
