/-! Posted-event queue of `epydemic/networkdynamics.py`.

  * `heapq` on lists `[t, id, …]` is modelled as a list kept sorted by `(time, id)` (trusted: heapq is a priority queue);
  * lazy deletion (`ev[3] = None`) is the `live` flag, `_discardUnpostedEvents` is `dropDead`;
  * `_postedEventFinder` is `finder`;
  * handlers are arbitrary user code that may call the queue API and use the results: interaction trees `Prog`.

  Everything is generic in the type `K` of times (only `<` and `≤`, decidable).  Theorems are proved for every linear
  order (`Lemmas/Queue.lean`); the driver runs the same definitions at `K = Float`. -/
namespace Queue

structure Entry (K E : Type) where
  time : K
  id : Nat
  elem : E
  hid : Nat            -- which event function (interned by the harness)
  live : Bool          -- false once un-posted
deriving Repr

structure S (K E : Type) where
  heap : List (Entry K E)         -- sorted by (time, id)
  finder : List (Nat × K)         -- `_postedEventFinder` : id ↦ time of the queued entry
  nextId : Nat
  now : K

variable {K E : Type} [LT K] [LE K] [DecidableLT K] [DecidableLE K]

/-- Python's list comparison of `[t, id, …]`: first the times, on a tie the ids -/
def before (a b : Entry K E) : Prop := a.time < b.time ∨ (¬ b.time < a.time ∧ a.id < b.id)
instance (a b : Entry K E) : Decidable (before a b) := by unfold before; exact inferInstance

def insert (x : Entry K E) : List (Entry K E) → List (Entry K E)
  | [] => [x]
  | y :: ys => if before x y then x :: y :: ys else y :: insert x ys

/-- `postEvent`: `none` is `ValueError` (state unchanged) -/
def post (s : S K E) (t : K) (e : E) (h : Nat) : S K E × Option Nat :=
  if t < s.now then (s, none)
  else ({ s with heap := insert ⟨t, s.nextId, e, h, true⟩ s.heap,
                 finder := (s.nextId, t) :: s.finder,
                 nextId := s.nextId + 1 }, some s.nextId)

def lookup (f : List (Nat × K)) (id : Nat) : Option K := (f.find? (·.1 == id)).map (·.2)

/-- `pendingEventTime`: `none` is `KeyError` -/
def pendingTime (s : S K E) (id : Nat) : Option K := lookup s.finder id

/-- `unpostEvent`: `none` is `KeyError` (fatal) / `None` (non-fatal) -/
def unpost (s : S K E) (id : Nat) : S K E × Option K :=
  match lookup s.finder id with
  | none => (s, none)
  | some t => ({ s with heap := s.heap.map (fun x => if x.id = id then { x with live := false } else x),
                        finder := s.finder.filter (·.1 != id) }, some t)

/-- `_discardUnpostedEvents` -/
def dropDead : List (Entry K E) → List (Entry K E)
  | [] => []
  | x :: xs => if x.live then x :: xs else dropDead xs

/-- `nextPendingEventTime` -/
def nextTime (s : S K E) : Option K := (dropDead s.heap).head?.map (·.time)

/-- `nextPendingEventBefore(t)` followed by `setCurrentSimulationTime(et)`: pops the event -/
def popBefore (s : S K E) (t : K) : Option (S K E × Entry K E) :=
  match dropDead s.heap with
  | [] => none
  | x :: xs => if x.time ≤ t then
      some ({ s with heap := xs, finder := s.finder.filter (·.1 != x.id), now := x.time }, x)
    else none

/-- handler programs: the queue API, the clock, and arbitrary reads / writes of the user world `U` -/
inductive Prog (K U E : Type) where
  | done
  | post (t : K) (e : E) (h : Nat) (k : Option Nat → Prog K U E)
  | unpost (id : Nat) (k : Option K → Prog K U E)
  | pending (id : Nat) (k : Option K → Prog K U E)
  | clock (k : K → Prog K U E)
  | get (k : U → Prog K U E)
  | put (u : U) (k : Prog K U E)

structure St (K U E : Type) where
  q : S K E
  u : U

variable {U : Type}

def exec : Prog K U E → St K U E → St K U E
  | .done, s => s
  | .post t e h k, s => let r := post s.q t e h; exec (k r.2) { s with q := r.1 }
  | .unpost id k, s => let r := unpost s.q id; exec (k r.2) { s with q := r.1 }
  | .pending id k, s => exec (k (pendingTime s.q id)) s
  | .clock k, s => exec (k s.q.now) s
  | .get k, s => exec (k s.u) s
  | .put u k, s => exec k { s with u := u }

end Queue
