import EpyVerif.Model.Queue
/-! The two simulation loops of `stochasticdynamics.py` and `synchronousdynamics.py` over the posted-event queue,
    generic in the time/number type `K`, the user world `U` (network, loci, random stream, …) and the element type `E`.

    The loops are those of the *repaired* code (fix commits for D4 and D5 in /repo): `runPendingEvents` reports the
    event's own time to the tap, and the synchronous loop puts the clock back to `t` after the posted batch.  -/
namespace Dyn
open Queue

/-- the arithmetic the loops use; `Float` in the driver, uninterpreted in the theorems -/
class Arith (K : Type) where
  zero : K
  one : K
  add : K → K → K
  mul : K → K → K
  ofNat : Nat → K
  isZero : K → Bool           -- `a == 0.0`
  gillespieDt : K → K → K     -- `a r1 ↦ (1.0 / a) * math.log(1.0 / r1)`

structure Fired (K E Λ : Type) where
  posted : Bool
  own : K            -- the event's own time
  htime : K          -- time passed to the handler
  clock : K          -- `currentSimulationTime()` while the handler runs
  tap : K            -- time reported to `eventFired`
  hid : Nat
  elem : E
  locus : Option Λ   -- the locus a stochastic event was drawn from
  member : Bool      -- was the element in that locus when the handler was called (posted events: true)
  pid : Nat          -- id of a posted event (0 for stochastic ones)

structure Proc (K U E Λ : Type) where
  handler : Nat → K → E → Prog K U E
  tap : Fired K E Λ → St K U E → U        -- `eventFired`: sees everything, changes only the user world
  atEq : St K U E → K → Bool            -- `process.atEquilibrium(t)`
  perEl : U → List (Λ × K × Nat)        -- (locus, probability, handler) in registration order
  fixed : U → List (Λ × K × Nat)
  size : U → Λ → Nat                  -- `len(locus)`
  elems : U → Λ → List E              -- iteration order of the locus
  mem : U → Λ → E → Bool              -- `e in locus`
  draw : U → Λ → Option (E × U)       -- `locus.draw()`; consumes integers from the stream kept in `U`
  rand : U → Option (K × U)             -- `rng.random()`

variable {K U E Λ : Type} [LT K] [LE K] [DecidableLT K] [DecidableLE K] [Arith K]

def setNow (s : St K U E) (t : K) : St K U E := { s with q := { s.q with now := t } }

def firePosted (P : Proc K U E Λ) (bound : K) (s : St K U E) : Option (St K U E × Fired K E Λ) :=
  match popBefore s.q bound with
  | none => none
  | some (q1, x) =>
    let s1 := exec (P.handler x.hid x.time x.elem) { s with q := q1 }
    let ev : Fired K E Λ := ⟨true, x.time, x.time, q1.now, x.time, x.hid, x.elem, none, true, x.id⟩
    some ({ s1 with u := P.tap ev s1 }, ev)

/-- `runPendingEvents(bound)`; the Bool says the loop ended by itself (nothing due), not by running out of fuel -/
def runPending (P : Proc K U E Λ) (bound : K) : Nat → St K U E → List (Fired K E Λ) → St K U E × List (Fired K E Λ) × Bool
  | 0, s, tr => (s, tr, false)
  | f+1, s, tr =>
    match firePosted P bound s with
    | none => (s, tr, true)
    | some (s', ev) => runPending P bound f s' (tr ++ [ev])

def fireStoch (P : Proc K U E Λ) (t : K) (l : Λ) (h : Nat) (e : E) (s : St K U E) : St K U E × Fired K E Λ :=
  let s1 := exec (P.handler h t e) s
  let ev : Fired K E Λ := ⟨false, t, t, s.q.now, t, h, e, some l, P.mem s.u l e, 0⟩
  ({ s1 with u := P.tap ev s1 }, ev)

/-! ### stochastic (Gillespie) dynamics -/

def rates (P : Proc K U E Λ) (u : U) : List (Λ × K × Nat) :=
  (P.perEl u).map (fun x => (x.1, Arith.mul x.2.1 (Arith.ofNat (P.size u x.1)), x.2.2)) ++ P.fixed u

def total (rs : List (Λ × K × Nat)) : K := rs.foldl (fun a r => Arith.add a r.2.1) Arith.zero

/-- the selection loop: first entry with `xs + rate > xc`, falling through to the last one -/
def select (xc : K) : K → List (Λ × K × Nat) → (Λ × K × Nat) → (Λ × K × Nat)
  | _, [], last => last
  | xs, tr :: rest, _ => if xc < Arith.add xs tr.2.1 then tr else select xc (Arith.add xs tr.2.1) rest tr

structure Loop (K U E Λ : Type) where
  s : St K U E
  tr : List (Fired K E Λ)
  t : K
  steps : Nat := 0        -- synchronous: timesteps with events
  stuck : Bool := false   -- the model could not go on (inner fuel or scripted random stream exhausted)

/-- one iteration of `while not proc.atEquilibrium(t)`; the Bool says "go round again" -/
def stoIter (P : Proc K U E Λ) (fuel : Nat) (L : Loop K U E Λ) : Loop K U E Λ × Bool :=
  if P.atEq L.s L.t then (L, false) else
  let rs := rates P L.s.u
  let a := total rs
  if Arith.isZero a then
    match nextTime L.s.q with
    | none => (L, false)
    | some et =>
      let r := runPending P et fuel L.s L.tr
      ({ L with s := r.1, tr := r.2.1, t := et, stuck := !r.2.2 }, r.2.2)
  else
    match P.rand L.s.u with
    | none => ({ L with stuck := true }, false)
    | some (r1, u1) =>
      let dt := Arith.gillespieDt a r1
      let pick : Option ((Λ × K × Nat) × U) :=
        match rs with
        | [] => none
        | [one] => some (one, u1)
        | first :: _ => (P.rand u1).map (fun r2 => (select (Arith.mul r2.1 a) Arith.zero rs first, r2.2))
      match pick with
      | none => ({ L with stuck := true }, false)
      | some (tr, u2) =>
        let nt := Arith.add L.t dt
        let r := runPending P nt fuel { L.s with u := u2 } L.tr
        if !r.2.2 then ({ L with s := r.1, tr := r.2.1, t := nt, stuck := true }, false) else
        let s := setNow r.1 nt
        if P.size s.u tr.1 > 0 then
          match P.draw s.u tr.1 with
          | none => ({ L with s := s, tr := r.2.1, t := nt, stuck := true }, false)
          | some (e, u3) =>
            let f := fireStoch P nt tr.1 tr.2.2 e { s with u := u3 }
            ({ L with s := f.1, tr := r.2.1 ++ [f.2], t := nt }, true)
        else ({ L with s := s, tr := r.2.1, t := nt }, true)

def runSto (P : Proc K U E Λ) (inner : Nat) : Nat → Loop K U E Λ → Loop K U E Λ
  | 0, L => L
  | f+1, L => let r := stoIter P inner L; if r.2 then runSto P inner f r.1 else r.1

/-! ### synchronous dynamics -/

/-- `allEventsInTimestep`: one trial per element per per-element event, then one per fixed-rate event plus a draw -/
def perElTrials (P : Proc K U E Λ) (l : Λ) (p : K) (h : Nat) :
    List E → U → List (Λ × E × Nat) → Option (List (Λ × E × Nat) × U)
  | [], u, acc => some (acc, u)
  | e :: es, u, acc =>
    match P.rand u with
    | none => none
    | some (r, u') => perElTrials P l p h es u' (if r ≤ p then acc ++ [(l, e, h)] else acc)

def perElPart (P : Proc K U E Λ) : List (Λ × K × Nat) → U → List (Λ × E × Nat) → Option (List (Λ × E × Nat) × U)
  | [], u, acc => some (acc, u)
  | (l, p, h) :: rest, u, acc =>
    if P.size u l > 0 ∧ Arith.zero < p then
      match perElTrials P l p h (P.elems u l) u acc with
      | none => none
      | some (acc', u') => perElPart P rest u' acc'
    else perElPart P rest u acc

def fixedPart (P : Proc K U E Λ) : List (Λ × K × Nat) → U → List (Λ × E × Nat) → Option (List (Λ × E × Nat) × U)
  | [], u, acc => some (acc, u)
  | (l, p, h) :: rest, u, acc =>
    if P.size u l > 0 ∧ Arith.zero < p then
      match P.rand u with
      | none => none
      | some (r, u') =>
        if r ≤ p then
          match P.draw u' l with
          | none => none
          | some (e, u'') => fixedPart P rest u'' (acc ++ [(l, e, h)])
        else fixedPart P rest u' acc
    else fixedPart P rest u acc

def tranche (P : Proc K U E Λ) (u : U) : Option (List (Λ × E × Nat) × U) :=
  match perElPart P (P.perEl u) u [] with
  | none => none
  | some (acc, u') => fixedPart P (P.fixed u) u' acc

/-- the membership re-check before firing -/
def synFire (P : Proc K U E Λ) (t : K) (acc : St K U E × List (Fired K E Λ)) (x : Λ × E × Nat) :
    St K U E × List (Fired K E Λ) :=
  if P.mem acc.1.u x.1 x.2.1 then
    let r := fireStoch P t x.1 x.2.2 x.2.1 acc.1
    (r.1, acc.2 ++ [r.2])
  else acc

def synIter (P : Proc K U E Λ) (fuel : Nat) (L : Loop K U E Λ) : Loop K U E Λ × Bool :=
  if P.atEq L.s L.t then (L, false) else
  let s := setNow L.s L.t
  let r := runPending P L.t fuel s L.tr
  if !r.2.2 then ({ L with s := r.1, tr := r.2.1, stuck := true }, false) else
  let s := setNow r.1 L.t
  match tranche P s.u with
  | none => ({ L with s := s, tr := r.2.1, stuck := true }, false)
  | some (evs, u') =>
    let r2 := evs.foldl (synFire P L.t) ({ s with u := u' }, r.2.1)
    ({ s := r2.1, tr := r2.2, t := Arith.add L.t Arith.one,
       steps := if r2.2.length > L.tr.length then L.steps + 1 else L.steps, stuck := L.stuck }, true)

def runSyn (P : Proc K U E Λ) (inner : Nat) : Nat → Loop K U E Λ → Loop K U E Λ
  | 0, L => L
  | f+1, L => let r := synIter P inner L; if r.2 then runSyn P inner f r.1 else r.1

end Dyn
