import EpyVerif.Model.Dyn
/-! Pulse-coupled oscillators (`pulsecoupled.py`) over the posted-event queue.  The oscillator arithmetic (phase ↔ firing
    time, return map, rounding to five places) is a record of functions: uninterpreted in the theorems, IEEE doubles with an
    exact decimal rounding in the driver.  Core Lean only. -/
namespace Pulse
open Queue Dyn

abbrev Node := Int

/-- the arithmetic of the oscillator -/
structure Ops (K : Type) where
  phaseOf : K → K → K        -- t, firing time ↦ `normalisePhase(1 - (ft - t) / period)`                  (getPhase)
  fireAt : K → K → K         -- t, φ ↦ `round(t + normalisePhase(1 - φ) * period, 5)`                     (setPhase ∘ setFiringTime)
  state : K → K              -- `phaseToState`
  bump : K → K               -- `bumpPhase`
  ofState : K → K            -- `stateToPhase` (initial phases)
  isEnd : K → Bool           -- `x == 1.0 or x == 0.0`
  zero : K                   -- the phase 0.0
  start : K                  -- the time 0.0

structure U (K : Type) where
  nodes : List Node
  adj : Node → List Node
  evid : List (Node × Nat) := []        -- node attribute NODE_EVENT_ID (first match)
  ftimes : List K := []
  fnodes : List Node := []
  perms : List (List Node) := []        -- observed order of `_bumping.pop()` for each firing
  rng : List K := []
  out : Array String := #[]
  err : Option String := none

variable {K : Type}

def fail (msg : String) : Prog K (U K) Node := .get fun u => .put { u with err := some msg } .done

/-- `getFiringTime(n)` then continue; a missing attribute or an id that is not pending is an exception in the real code -/
def getFT (n : Node) (k : K → Prog K (U K) Node) : Prog K (U K) Node :=
  .get fun u => match u.evid.lookup n with
    | none => fail "getPhase: node has no firing event"
    | some id => .pending id fun r => match r with
      | none => fail "pendingEventTime: KeyError"
      | some ft => k ft

/-- `setFiringTime(n, et)` (`et` already rounded): un-post the node's current event if any, post the new one, remember its id -/
def setFT (n : Node) (et : K) (k : Prog K (U K) Node) : Prog K (U K) Node :=
  let cont : Prog K (U K) Node :=
    .post et n 0 fun r => match r with
      | none => fail "postEvent: ValueError (firing time in the past)"
      | some id => .get fun u => .put { u with evid := (n, id) :: u.evid.filter (fun p => p.1 != n) } k
  .get fun u => match u.evid.lookup n with
    | some id => .unpost id fun _ => cont
    | none => cont

/-- `cascade(t, n, m)` -/
def cascade (O : Ops K) (t : K) (m : Node) (k : Prog K (U K) Node) : Prog K (U K) Node :=
  getFT m fun ft =>
    let phi := O.phaseOf t ft
    if O.isEnd (O.state phi) then k
    else
      setFT m (O.fireAt t (O.bump phi)) <|
        getFT m fun ft' =>
          if O.isEnd (O.phaseOf t ft') then setFT m (O.fireAt t O.zero) k else k

def cascades (O : Ops K) (t : K) (n : Node) : List Node → Prog K (U K) Node
  | [] => .done
  | m :: ms => if m = n then cascades O t n ms else cascade O t m (cascades O t n ms)

/-- the world after the log entry of a firing has been written and the pop order taken -/
def logged (u : U K) (t : K) (n : Node) (rest : List (List Node)) : U K :=
  { u with ftimes := u.ftimes ++ [t], fnodes := u.fnodes ++ [n], perms := rest }

/-- the rest of `fired` after the node itself has been re-scheduled: log, then bump the neighbours in the observed order -/
def firedTail (O : Ops K) (t : K) (n : Node) : Prog K (U K) Node :=
  .get fun u =>
    match u.perms with
    | [] => fail "pop order of the bumped set expected"
    | order :: rest =>
      if !(order.isPerm ((u.adj n).eraseDups.filter (· != n))) then fail "observed pop order is not a permutation of the neighbours"
      else .put (logged u t n rest) (cascades O t n order)

/-- the event `fired(t, n)` -/
def fired (O : Ops K) (t : K) (n : Node) : Prog K (U K) Node :=
  setFT n (O.fireAt t O.zero) (firedTail O t n)

/-- `initialisePhases()` -/
def initPhases (O : Ops K) : List Node → Prog K (U K) Node
  | [] => .done
  | n :: ns => .get fun u => match u.rng with
    | [] => fail "rng: random() expected in initialisePhases"
    | r :: rest => .put { u with rng := rest } (setFT n (O.fireAt O.start (O.ofState r)) (initPhases O ns))

variable [LT K] [LE K] [DecidableLT K] [DecidableLE K]

def mkProc (O : Ops K) (maxT : K) (tap : Fired K Node Unit → St K (U K) Node → U K) : Proc K (U K) Node Unit where
  handler := fun _ t n => fired O t n
  tap := tap
  atEq := fun _ t => decide (maxT ≤ t)
  perEl := fun _ => []
  fixed := fun _ => []
  size := fun _ _ => 0
  elems := fun _ _ => []
  mem := fun _ _ _ => false
  draw := fun _ _ => none
  rand := fun _ => none

/-- `results()`: the final phases, read at the final clock -/
def finalPhases (O : Ops K) (s : St K (U K) Node) : List (Option K) :=
  s.u.nodes.map fun n => (s.u.evid.lookup n).bind (fun id => (pendingTime s.q id).map (O.phaseOf s.q.now))

end Pulse
