import EpyVerif.Model.UF
/-! The epydemic-specific parts of the network generators (`plc_generator.py`, `coreperiphery_generator.py`,
    `modular_generator.py`): degree-sequence sampling with parity repair, composition of ER blocks, restriction to the largest
    connected component (computed with the verified union–find of `Model/UF.lean`), relabelling, origin and core-link marks.
    The random graphs themselves (`fast_gnp_random_graph`, `configuration_model`, …) are inputs.  Core Lean only. -/
namespace Gens
open UF

/-! ### scripted randomness -/
inductive R (K : Type) where
  | f (x : K)                   -- rng.random()
  | i (lo hi x : Nat)           -- rng.integers(lo, hi) / rng.choice over hi - lo items

variable {K : Type} [LT K] [LE K] [DecidableLT K] [DecidableLE K]

def popF : List (R K) → Option (K × List (R K))
  | .f x :: rest => some (x, rest)
  | _ => none

def popI (lo hi : Nat) : List (R K) → Option (Nat × List (R K))
  | .i l h x :: rest => if l = lo ∧ h = hi ∧ lo ≤ x ∧ x < hi then some (x, rest) else none
  | _ => none

/-! ### PLC degree sequence -/

/-- `while True: k = rng.integers(1, maxdeg); if rng.random() < p(k): break` — each pass consumes two random values -/
def drawDeg (p : Nat → K) (maxdeg : Nat) : Nat → List (R K) → Option (Nat × List (R K))
  | 0, _ => none
  | fuel + 1, rs =>
    match popI 1 maxdeg rs with
    | none => none
    | some (k, rs1) =>
      match popF rs1 with
      | none => none
      | some (r, rs2) => if r < p k then some (k, rs2) else drawDeg p maxdeg fuel rs2

def drawSeq (p : Nat → K) (maxdeg : Nat) : Nat → List Nat → List (R K) → Option (List Nat × List (R K))
  | 0, ns, rs => some (ns, rs)
  | n + 1, ns, rs =>
    match drawDeg p maxdeg (rs.length + 1) rs with
    | none => none
    | some (k, rs') => drawSeq p maxdeg n (ns ++ [k]) rs'

/-- `while t % 2 != 0: i = rng.integers(0, len(ns)); del ns[i]; draw again; append` (the repaired index range) -/
def repair (p : Nat → K) (maxdeg : Nat) : Nat → List Nat → List (R K) → Option (List Nat × List (R K))
  | 0, _, _ => none
  | fuel + 1, ns, rs =>
    if ns.sum % 2 = 0 then some (ns, rs)
    else
      match popI 0 ns.length rs with
      | none => none
      | some (i, rs1) =>
        match drawDeg p maxdeg (rs1.length + 1) rs1 with
        | none => none
        | some (k, rs2) => repair p maxdeg fuel (ns.eraseIdx i ++ [k]) rs2

/-- `_generateFrom`, up to the call of `configuration_model` -/
def plcDegrees (p : Nat → K) (maxdeg N : Nat) (rs : List (R K)) : Option (List Nat × List (R K)) :=
  match drawSeq p maxdeg N [] rs with
  | none => none
  | some (ns, rs') => repair p maxdeg (rs'.length + 1) ns rs'

/-! ### components, largest component, relabelling -/

/-- the component array as a table of its first `n` entries, and back (everything beyond is `-1`: a root of its own) -/
def tabulate (n : Nat) (c : Arr) : List Int := (List.range n).map c
def view (t : List Int) : Arr := fun m => t.getD m (-1)

/-- one edge of the network entered into the union–find structure (tabulated after every edge so that the model is
    executable in reasonable time; `Lemmas/Gens.lean` shows the tabulation changes nothing) -/
def compStep (n : Nat) (s : List Int × Nat × Nat) (e : Nat × Nat) : List Int × Nat × Nat :=
  let r := occupyBond (n + 1) (view s.1) s.2.1 s.2.2 e.1 e.2
  (tabulate n r.1, r.2.1, r.2.2)

def compTab (n : Nat) (edges : List (Nat × Nat)) : List Int := (edges.foldl (compStep n) (List.replicate n (-1), 1, n)).1

def root (n : Nat) (c : Arr) (v : Nat) : Nat := (rootOf (n + 1) c v).2

/-- the representative of every node's component, as a table -/
def rootsOf (n : Nat) (edges : List (Nat × Nat)) : List Nat :=
  let t := compTab n edges
  (List.range n).map (fun v => root n (view t) v)

/-- `max(connected_components(g), key=len)` over the nodes `0..n-1` in order: the first component of maximal size -/
def lccNodes (n : Nat) (edges : List (Nat × Nat)) : List Nat :=
  let rs := rootsOf n edges
  let r := fun v => rs.getD v v
  let size := fun v => ((List.range n).filter (fun w => r w == r v)).length
  let best := (List.range n).foldl (fun b v => if size v > size b then v else b) 0
  (List.range n).filter (fun w => r w == r best)

/-- `convert_node_labels_to_integers(g.subgraph(S).copy(), first_label)`: position in `S` plus the first label -/
def newLabel (S : List Nat) (first : Nat) (v : Nat) : Nat := first + S.idxOf v

def restrict (S : List Nat) (first : Nat) (edges : List (Nat × Nat)) : List (Nat × Nat) :=
  (edges.filter (fun e => S.contains e.1 && S.contains e.2)).map (fun e => (newLabel S first e.1, newLabel S first e.2))

/-! ### core-periphery -/

/-- the edges joining core and periphery: `for n in core: for m in periphery: if rng.random() <= phi_per` -/
def crossRow (phi : K) (n : Nat) : List Nat → List (R K) → Option (List (Nat × Nat) × List (R K))
  | [], rs => some ([], rs)
  | m :: ms, rs =>
    match popF rs with
    | none => none
    | some (r, rs1) =>
      match crossRow phi n ms rs1 with
      | none => none
      | some (es, rs2) => some (if r ≤ phi then (n, m) :: es else es, rs2)

def cross (phi : K) (per : List Nat) : List Nat → List (R K) → Option (List (Nat × Nat) × List (R K))
  | [], rs => some ([], rs)
  | n :: ns, rs =>
    match crossRow phi n per rs with
    | none => none
    | some (es, rs1) =>
      match cross phi per ns rs1 with
      | none => none
      | some (es', rs2) => some (es ++ es', rs2)

structure CP where
  n : Nat                        -- order of the result
  origin : List Nat              -- origin of node i (0 core, 1 periphery), i = 0..n-1
  edges : List (Nat × Nat)
deriving Repr

/-- `order`: the node order of the component as networkx hands it to the relabelling (graph order, or Python set order for a small
    component) — observed, and checked here to be a permutation of the component -/
def corePeriphery (Nc Np : Nat) (coreE perE : List (Nat × Nat)) (phi : K) (rs : List (R K)) (order : List Nat) : Option CP :=
  let perE' := perE.map (fun e => (e.1 + Nc, e.2 + Nc))
  match cross phi ((List.range Np).map (· + Nc)) (List.range Nc) rs with
  | none => none
  | some (cr, _) =>
    let all := coreE ++ perE' ++ cr
    let S := lccNodes (Nc + Np) all
    if !order.isPerm S then none else
    some { n := order.length, origin := order.map (fun v => if v < Nc then 0 else 1), edges := restrict order 0 all }

/-! ### modular -/

structure Mod where
  nodes : List (Nat × Nat × Bool)     -- (label, origin, core-link)
  edges : List (Nat × Nat)
deriving Repr

/-- one ER block restricted to its largest component and relabelled from `first` -/
def block (N : Nat) (es : List (Nat × Nat)) (first : Nat) (order : List Nat) : Option (List Nat × List (Nat × Nat)) :=
  let S := lccNodes N es
  if !order.isPerm S then none else some ((List.range order.length).map (· + first), restrict order first es)

/-- the satellites in order: labels start at `Ncentre`, advancing by `Nsat` per satellite whatever its component's size -/
def satellites (Nsat : Nat) : List (List (Nat × Nat) × List Nat) → Nat → Option (List (List Nat × List (Nat × Nat)))
  | [], _ => some []
  | (es, order) :: rest, l =>
    match block Nsat es l order, satellites Nsat rest (l + Nsat) with
    | some b, some bs => some (b :: bs)
    | _, _ => none

/-- `m = rng.choice(centre); n = rng.choice(satellite)` for each satellite in order -/
def links (centre : List Nat) : List (List Nat) → List (R K) → Option (List (Nat × Nat))
  | [], _ => some []
  | sat :: rest, rs =>
    match popI 0 centre.length rs with
    | none => none
    | some (a, rs1) =>
      match popI 0 sat.length rs1 with
      | none => none
      | some (b, rs2) =>
        match links centre rest rs2 with
        | none => none
        | some ls => some ((sat.getD b 0, centre.getD a 0) :: ls)

def modular (Nc Nsat : Nat) (centreE : List (Nat × Nat)) (centreOrder : List Nat) (satE : List (List (Nat × Nat) × List Nat))
    (rs : List (R K)) : Option Mod :=
  match block Nc centreE 0 centreOrder with
  | none => none
  | some c =>
    match satellites Nsat satE Nc with
    | none => none
    | some sats =>
      match links c.1 (sats.map (·.1)) rs with
      | none => none
      | some ls =>
        let flagged := fun v => ls.any (fun l => l.1 == v || l.2 == v)
        let nodes := c.1.map (fun v => (v, 0, flagged v)) ++
          (sats.zipIdx.flatMap (fun si => si.1.1.map (fun v => (v, si.2 + 1, flagged v))))
        some { nodes := nodes, edges := c.2 ++ sats.flatMap (·.2) ++ ls }

end Gens
