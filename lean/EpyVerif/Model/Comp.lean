import EpyVerif.Lemmas.TSet
/-! The compartment / locus bookkeeping of `compartmentedmodel.py`, `loci.py` and `opinion_model.py`
    (`MultiCompartmentedEdgeLocus`), over a model of the part of `networkx.Graph` the code uses
    (insertion-ordered adjacency).  Loci are `TSet`s, i.e. the verified DrawSet of C09.

    `removeNode` is the *repaired* one (fix D1 in /repo): it calls the remove handlers of every incident edge first. -/
open Std
namespace Comp
open Bbt

abbrev Node := Int
/-- elements of loci: an edge `(a, b)`, or a node `v` stored as `(v, 0)`; ordered as Python orders ints / tuples -/
abbrev Elem := Int × Int
instance : Ord Elem := lexOrd

abbrev LSet := TSet Elem

inductive LKind where
  | node (inst : Nat) (c : Nat)                                  -- CompartmentedNodeLocus
  | edge (inst : Nat) (L : Nat) (R : List Nat) (plusFirst : Bool) -- CompartmentedEdgeLocus (−1 tested first) / Multi… (+1 first)
  | plain                                                          -- any other Locus (its handlers add / discard the element itself)
deriving Inhabited, Repr

structure Cfg where
  kind : Nat → LKind
  /-- `_effects` of instance `inst`: compartment ↦ loci in registration order (a locus with L = R is listed twice) -/
  effects : Nat → Nat → List Nat

structure Net where
  nodes : List Node
  adj : Node → List Node

structure W where
  net : Net
  comp : Nat → Node → Option Nat     -- per instance; `none`: the node has no compartment
  loci : Nat → LSet

def eN (n : Node) : Elem := (n, 0)

/-! ### the graph -/
def Net.hasNode (g : Net) (n : Node) : Bool := g.nodes.contains n
def Net.hasEdge (g : Net) (n m : Node) : Bool := (g.adj n).contains m

def Net.addNode (g : Net) (n : Node) : Net :=
  if g.hasNode n then g else { nodes := g.nodes ++ [n], adj := fun x => if x = n then [] else g.adj x }

def Net.addEdge (g : Net) (n m : Node) : Net :=
  if g.hasEdge n m then g else
  { g with adj := fun x =>
      if x = n then g.adj n ++ [m]
      else if x = m then g.adj m ++ [n]
      else g.adj x }

def Net.removeEdge (g : Net) (n m : Node) : Net :=
  { g with adj := fun x =>
      if x = n then (g.adj n).erase m
      else if x = m then (g.adj m).erase n
      else g.adj x }

def Net.removeNode (g : Net) (n : Node) : Net :=
  { nodes := g.nodes.erase n, adj := fun x => if x = n then [] else (g.adj x).erase n }

/-! ### loci -/
def inR (R : List Nat) (o : Option Nat) : Bool := match o with | some c => R.contains c | none => false

/-- does `(n, m)` have the tracked compartments in that orientation -/
def qual (inst L : Nat) (R : List Nat) (w : W) (n m : Node) : Bool :=
  w.comp inst n == some L && inR R (w.comp inst m)

/-- `matches(g, n, m)` as the oriented pair it selects -/
def orient (k : LKind) (w : W) (n m : Node) : Option (Node × Node) :=
  match k with
  | .edge inst L R plusFirst =>
    if plusFirst then (if qual inst L R w n m then some (n, m) else if qual inst L R w m n then some (m, n) else none)
    else (if qual inst L R w m n then some (m, n) else if qual inst L R w n m then some (n, m) else none)
  | _ => none

def updLocus (w : W) (i : Nat) (f : LSet → LSet) : W :=
  { w with loci := fun j => if j = i then f (w.loci i) else w.loci j }

def stepAdd (k : LKind) (i : Nat) (n : Node) (w : W) (m : Node) : W :=
  match orient k w n m with | some (a, b) => updLocus w i (·.add (a, b)) | none => w
def stepDis (k : LKind) (i : Nat) (n : Node) (w : W) (m : Node) : W :=
  match orient k w n m with | some (a, b) => updLocus w i (·.discard (a, b)) | none => w

/-- `enterHandler` / `leaveHandler` of locus `i` for node `n` -/
def nodeHandler (cfg : Cfg) (w : W) (i : Nat) (n : Node) (enter : Bool) : W :=
  match cfg.kind i with
  | .node _ _ => updLocus w i (fun s => if enter then s.add (eN n) else s.discard (eN n))
  | .plain => updLocus w i (fun s => if enter then s.add (eN n) else s.discard (eN n))
  | k@(.edge ..) => (w.net.adj n).foldl (if enter then stepAdd k i n else stepDis k i n) w

/-- `addHandler` / `removeHandler` of locus `i` for the edge `(n, m)` -/
def edgeHandler (cfg : Cfg) (w : W) (i : Nat) (n m : Node) (add : Bool) : W :=
  match cfg.kind i with
  | .node _ _ => w
  | .plain => updLocus w i (fun s => if add then s.add (n, m) else s.discard (n, m))
  | k@(.edge ..) => if add then stepAdd k i n w m else stepDis k i n w m

def effectsOf (cfg : Cfg) (inst : Nat) (o : Option Nat) : List Nat :=
  match o with | some c => cfg.effects inst c | none => []

def setComp (w : W) (inst : Nat) (n : Node) (c : Option Nat) : W :=
  { w with comp := fun j x => if j = inst ∧ x = n then c else w.comp j x }

/-- `_callLeaveHandlers(n, ·)` -/
def leaveW (cfg : Cfg) (w : W) (inst : Nat) (n : Node) : W :=
  (effectsOf cfg inst (w.comp inst n)).foldl (fun w i => nodeHandler cfg w i n false) w
/-- `_callEnterHandlers(n, ·)` -/
def enterW (cfg : Cfg) (w : W) (inst : Nat) (n : Node) : W :=
  (effectsOf cfg inst (w.comp inst n)).foldl (fun w i => nodeHandler cfg w i n true) w

def setCompartment (cfg : Cfg) (w : W) (inst : Nat) (n : Node) (c : Nat) : W :=
  enterW cfg (setComp w inst n (some c)) inst n

def changeCompartment (cfg : Cfg) (w : W) (inst : Nat) (n : Node) (c : Nat) : W :=
  enterW cfg (setComp (leaveW cfg w inst n) inst n (some c)) inst n

/-- `_callAddHandlers((n, m))` / `_callRemoveHandlers((n, m))`: once for each endpoint's compartment -/
def edgeHandlers (cfg : Cfg) (w : W) (inst : Nat) (n m : Node) (add : Bool) : W :=
  let go := fun (w : W) (o : Option Nat) => (effectsOf cfg inst o).foldl (fun w i => edgeHandler cfg w i n m add) w
  go (go w (w.comp inst n)) (w.comp inst m)

def addEdge (cfg : Cfg) (w : W) (inst : Nat) (n m : Node) : W :=
  edgeHandlers cfg { w with net := w.net.addEdge n m } inst n m true

def removeEdge (cfg : Cfg) (w : W) (inst : Nat) (n m : Node) : W :=
  let w := edgeHandlers cfg w inst n m false
  { w with net := w.net.removeEdge n m }

def addNode (cfg : Cfg) (w : W) (inst : Nat) (n : Node) (c : Option Nat) : W :=
  let w := { w with net := w.net.addNode n }
  match c with
  | some c => setCompartment cfg w inst n c
  | none => w

/-- `removeHandler` of locus `i` for the node `n` (edge loci ignore non-tuples) -/
def nodeRemoveHandler (cfg : Cfg) (w : W) (i : Nat) (n : Node) : W :=
  match cfg.kind i with
  | .edge .. => w
  | _ => updLocus w i (·.discard (eN n))

/-- the repaired `removeNode`: remove handlers of every incident edge, then of the node, then the graph operation -/
def removeNode (cfg : Cfg) (w : W) (inst : Nat) (n : Node) : W :=
  let w := (w.net.adj n).foldl (fun w m => edgeHandlers cfg w inst n m false) w
  let w := (effectsOf cfg inst (w.comp inst n)).foldl (fun w i => nodeRemoveHandler cfg w i n) w
  { w with net := w.net.removeNode n, comp := fun j x => if x = n then none else w.comp j x }

end Comp
