/-! Union–find and percolation loops of `epydemic/newmanziff.py`: `_components` as `Nat → Int` with point update,
    `rootOf` with path compression (fuel `N+1`, justified in `Lemmas/UFBond.lean`), `join`, `occupy` for bonds and sites,
    and the sampling loop (the repaired one: `while samplePoint < len and (i+1)/M >= p[samplePoint]`). -/
namespace UF

abbrev Arr := Nat → Int
def upd (c : Arr) (n : Nat) (v : Int) : Arr := fun m => if m = n then v else c m

def rootOf : Nat → Arr → Nat → Arr × Nat
  | 0, c, n => (c, n)
  | f+1, c, n =>
    if c n < 0 then (c, n)
    else
      let p := rootOf f c (c n).toNat
      (upd p.1 n p.2, p.2)

def join (c : Arr) (r1 r2 : Nat) : Arr :=
  let msize := c r2
  let c1 := upd c r2 r1
  upd c1 r1 (c1 r1 + msize)

/-- `BondPercolation.occupy` on the component array -/
def occupyBond (F : Nat) (c : Arr) (gcc ncomp : Nat) (n m : Nat) : Arr × Nat × Nat :=
  let p1 := rootOf F c n
  let p2 := rootOf F p1.1 m
  if p2.2 ≠ p1.2 then
    let c' := join p2.1 p1.2 p2.2
    (c', max gcc (- c' p1.2).toNat, ncomp - 1)
  else (p2.1, gcc, ncomp)

/-- `SitePercolation.occupy`: `unocc = N + 1` marks an unoccupied site; `nbrs` = neighbours in the original network -/
def occupySite (F : Nat) (unocc : Int) (c : Arr) (gcc ncomp : Nat) (nr : Nat) (nbrs : List Nat) : Arr × Nat × Nat :=
  let c0 := upd c nr (-1)
  let r := nbrs.foldl (fun (acc : Arr × Nat × Nat) m =>
    if acc.1 m ≠ unocc then
      let p := rootOf F acc.1 m
      if p.2 ≠ nr then
        let c' := join p.1 nr p.2
        (c', (- c' nr).toNat, acc.2.2 - 1)
      else (p.1, acc.2.1, acc.2.2)
    else acc) (c0, 1, ncomp + 1)
  (r.1, max gcc r.2.1, r.2.2)

/-- the sampling schedule: after `k` occupations take every not yet taken sample point that has become due -/
def takeDue (due : Nat → Nat → Bool) (npts k : Nat) : Nat → Nat → List (Nat × Nat)
  | 0, _ => []
  | f+1, j => if j < npts ∧ due k j then (j, k) :: takeDue due npts k f (j + 1) else []

/-- `percolate()`: which sample point is taken after how many occupations.  `zeroFirst` = the first point is 0.0 -/
def schedule (due : Nat → Nat → Bool) (npts M : Nat) (zeroFirst : Bool) : List (Nat × Nat) :=
  let init : List (Nat × Nat) := if zeroFirst ∧ 0 < npts then [(0, 0)] else []
  (List.range M).foldl (fun acc i => acc ++ takeDue due npts (i + 1) npts acc.length) init

end UF
