import EpyVerif.Model.GF
/-! Bottom-up coefficient tables, used by `Driver/GF.lean` instead of the exponential recursion of `coeff`
    (the Python memoises with `lru_cache`).  `Lemmas/GFFast.lean` proves `tab n e = (List.range n).map (coeff e)`. -/
namespace GF

/-- the first `n` coefficients of `e` -/
def tab (n : Nat) : G → List Rat
  | .fn f _ => (List.range n).map f
  | .sum a b => List.zipWith (· + ·) (tab n a) (tab n b)
  | .prod a b =>
    let A := tab n a
    let B := tab n b
    (List.range n).map (fun i => (List.range (i + 1)).foldl (fun c j => c + A.getD j 0 * B.getD (i - j) 0) 0)

/-- `eval` with a running power instead of recomputing `pow x i` for every term -/
def evalF : G → Rat → Rat
  | .fn f n, x => ((List.range (n + 1)).foldl (fun (s : Rat × Rat) i => (s.1 + f i * s.2, s.2 * x)) (0, 1)).1
  | .sum a b, x => evalF a x + evalF b x
  | .prod a b, x => evalF a x * evalF b x

end GF
