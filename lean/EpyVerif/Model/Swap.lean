/-! ShuffleK (shuffle.py): the degree-preserving swap a–b, c–d → a–d, c–b on a graph given as node list + Boolean adjacency. -/
namespace Shuffle
abbrev Node := Int

structure G where
  ns : List Node
  adj : Node → Node → Bool

def deg (g : G) (v : Node) : Nat := g.ns.countP (g.adj v)

def isPair (x y a b : Node) : Bool := (x == a && y == b) || (x == b && y == a)

/-- remove a–b and c–d, add a–d and c–b -/
def swap (g : G) (a b c d : Node) : G :=
  { g with adj := fun x y =>
      if isPair x y a b || isPair x y c d then false
      else if isPair x y a d || isPair x y c b then true
      else g.adj x y }

/-- the guards under which ShuffleK accepts a swap (all decidable) -/
def guardOK (g : G) (a b c d : Node) : Bool :=
  g.ns.contains a && g.ns.contains b && g.ns.contains c && g.ns.contains d &&
  g.adj a b && g.adj c d && !g.adj a d && !g.adj c b &&
  a != b && c != a && c != b && d != a && d != b && d != c

end Shuffle
