/-! `DiscreteGF._coefficientsFromNetwork` (gf/discrete_gf.py): the degree histogram normalised by the order, and the
    order bookkeeping of `ContinuousGF` (gf/continuous_gf.py). Core Lean only. -/
namespace NetGF

/-- degree of v in an edge list, networkx convention (a self-loop counts twice) -/
def deg (es : List (Nat × Nat)) (v : Nat) : Nat := (es.map (·.1)).count v + (es.map (·.2)).count v

/-- `cs = [hist[i] / N for i in range(maxk + 1)]` -/
def coeffs (ds : List Nat) (maxk : Nat) : List Rat := (List.range (maxk+1)).map (fun i => (ds.count i : Rat) / ds.length)

def maxDeg (ds : List Nat) : Nat := ds.foldl max 0

/-- a `ContinuousGF`: the Taylor coefficients of the underlying series, and how many derivatives the object already stands for -/
structure CGF where
  a : Nat → Rat
  order : Nat

def fallingFrom (i k : Nat) : Rat := (List.range k).foldl (fun m j => m * ((i + (j+1) : Nat) : Rat)) 1

/-- `getCoefficient(i)`: `f^{(i+order)}(0) / i!`, i.e. `a_{i+order} · (i+order)!/i!` -/
def CGF.coeff (g : CGF) (i : Nat) : Rat := g.a (i + g.order) * fallingFrom i g.order
def CGF.dx (g : CGF) (k : Nat) : CGF := { g with order := g.order + k }
def CGF.scale (g : CGF) (c : Rat) : CGF := { g with a := fun i => c * g.a i }

end NetGF
