/-! `ProcessSequence` (processsequence.py) and the parameter decoration of `Process` (process.py). Core Lean only. -/
namespace Seq

/-- nesting of component processes: a leaf process (by id) or a sequence of components -/
inductive PTree where
  | leaf (id : Nat)
  | seq (ps : List PTree)

mutual
/-- `allProcesses()`: the leaves, left to right -/
def leaves : PTree → List Nat
  | .leaf i => [i]
  | .seq ps => leavesL ps
def leavesL : List PTree → List Nat
  | [] => []
  | p :: ps => leaves p ++ leavesL ps
end

mutual
/-- `maximumTime()`: `t = 0; for p: t = max(t, p.maximumTime())` -/
def maxTime (mt : Nat → Nat) : PTree → Nat
  | .leaf i => mt i
  | .seq ps => maxTimeL mt ps
def maxTimeL (mt : Nat → Nat) : List PTree → Nat
  | [] => 0
  | p :: ps => max (maxTime mt p) (maxTimeL mt ps)
end

mutual
/-- `atEquilibrium(t)`: every component is -/
def atEq (eq : Nat → Bool) : PTree → Bool
  | .leaf i => eq i
  | .seq ps => atEqL eq ps
def atEqL (eq : Nat → Bool) : List PTree → Bool
  | [] => true
  | p :: ps => atEq eq p && atEqL eq ps
end

/-- Python `dict.update` of one key, as an association list read by first match: later values win -/
def update (d : List (String × Int)) (kv : String × Int) : List (String × Int) := kv :: d

mutual
/-- `results()`: `res.update(p.results())` for every component in order -/
def results (rs : Nat → List (String × Int)) : PTree → List (String × Int) → List (String × Int)
  | .leaf i, acc => (rs i).foldl update acc
  | .seq ps, acc => resultsL rs ps acc
def resultsL (rs : Nat → List (String × Int)) : List PTree → List (String × Int) → List (String × Int)
  | [], acc => acc
  | p :: ps, acc => resultsL rs ps (results rs p acc)
end

/-- `decoratedName(k)`: `k@name` for a named instance -/
def deco (inst : Option String) (k : String) : String := match inst with | some n => k ++ "@" ++ n | none => k

/-- `getDecoratedName(d, k)` / `getParameters`: the decorated key, else the plain key, else the default, else `KeyError` -/
def lookupDeco (d : List (String × Int)) (inst : Option String) (k : String) (dflt : Option Int) : Option Int :=
  match d.lookup (deco inst k) with
  | some v => some v
  | none => match d.lookup k with
    | some v => some v
    | none => dflt

end Seq
