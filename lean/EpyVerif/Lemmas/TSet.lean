import EpyVerif.Lemmas.BbtFinal
/-! `TSet`: a DrawSet that carries the proof that it is a balanced search tree with correct caches (C09), so that
    every locus of the simulation model can be used as a mathematical set.  Core Lean only: usable by drivers. -/
open Std
namespace Bbt
variable {α : Type} [Ord α] [TransOrd α] [LawfulEqOrd α]

/-- `TreeNode.find` / `DrawSet.__contains__` -/
def contains (e : α) : T α → Bool
  | .nil => false
  | .node l d r _ _ _ => match compare e d with | .eq => true | .lt => contains e l | .gt => contains e r

theorem contains_spec (e : α) : ∀ (t : T α), BST t → (contains e t = true ↔ e ∈ toList t) := by
  intro t
  induction t with
  | nil => intro _; simp [contains]
  | node l d r h ls rs ihl ihr =>
    intro hb
    obtain ⟨bl, br, hl, hr⟩ := bst_split hb
    simp only [contains, toList_node, List.mem_append, List.mem_cons]
    cases hc : compare e d with
    | eq => simp [compare_eq_iff_eq.1 hc]
    | lt =>
      simp only []
      rw [ihl bl]
      constructor
      · intro h; exact Or.inl h
      · rintro (h | h | h)
        · exact h
        · subst h; rw [compare_self] at hc; cases hc
        · have := hr e h; unfold lt at this
          have h2 := OrientedCmp.gt_iff_lt.2 this
          rw [hc] at h2; cases h2
    | gt =>
      simp only []
      rw [ihr br]
      constructor
      · intro h; exact Or.inr (Or.inr h)
      · rintro (h | h | h)
        · have := hl e h; unfold lt at this; rw [hc] at this; cases this
        · subst h; rw [compare_self] at hc; cases hc
        · exact h

theorem mem_del (e x : α) (l : List α) : x ∈ del e l ↔ x ≠ e ∧ x ∈ l := by
  unfold del
  simp only [List.mem_filter, bne_iff_ne, ne_eq]
  constructor
  · rintro ⟨h1, h2⟩; exact ⟨fun h => h2 (by subst h; exact compare_self), h1⟩
  · rintro ⟨h1, h2⟩; exact ⟨h2, fun h => h1 (compare_eq_iff_eq.1 h)⟩

structure TSet (α : Type) [Ord α] [TransOrd α] [LawfulEqOrd α] where
  t : T α
  wf : WF t

namespace TSet

def empty : TSet α := ⟨.nil, ⟨by simp [BST, Sorted], trivial⟩⟩
def add (s : TSet α) (e : α) : TSet α := ⟨Bbt.add s.t e, (step_wf s.t (.add e) s.wf).1⟩
def discard (s : TSet α) (e : α) : TSet α := ⟨Bbt.discard s.t e, (step_wf s.t (.discard e) s.wf).1⟩
def mem (s : TSet α) (e : α) : Bool := contains e s.t
def toList (s : TSet α) : List α := Bbt.toList s.t
def size (s : TSet α) : Nat := len s.t

theorem mem_iff (s : TSet α) (e : α) : s.mem e = true ↔ e ∈ s.toList := contains_spec e s.t s.wf.1

@[simp] theorem mem_empty (e : α) : (empty : TSet α).mem e = false := rfl

theorem mem_add (s : TSet α) (e x : α) : (s.add e).mem x = true ↔ (x = e ∨ s.mem x = true) := by
  rw [mem_iff, mem_iff]
  show x ∈ Bbt.toList (Bbt.add s.t e) ↔ _
  have := (step_wf s.t (.add e) s.wf).2
  simp only [step, specStep] at this
  rw [this]; exact mem_ins e x _

theorem mem_discard (s : TSet α) (e x : α) : (s.discard e).mem x = true ↔ (x ≠ e ∧ s.mem x = true) := by
  rw [mem_iff, mem_iff]
  show x ∈ Bbt.toList (Bbt.discard s.t e) ↔ _
  have := (step_wf s.t (.discard e) s.wf).2
  simp only [step, specStep] at this
  rw [this]; exact mem_del e x _

theorem size_eq (s : TSet α) : s.size = s.toList.length := by
  unfold size toList; rw [len_eq s.wf.2, size_eq_length]

end TSet
end Bbt
