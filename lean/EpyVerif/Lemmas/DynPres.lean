import EpyVerif.Model.Dyn
/-! A property of the user world that every handler, the tap and the random-number consumers preserve holds at every
    point of every run of either loop.  (Used for C01/C07/C08/C19: "loci = tracked sets", partitions, …) -/
namespace Dyn
open Queue

variable {K U E Λ : Type} [LT K] [LE K] [DecidableLT K] [DecidableLE K] [Arith K]

structure Pres (P : Proc K U E Λ) (I : U → Prop) : Prop where
  handler : ∀ (h : Nat) (t : K) (e : E) (s : St K U E), I s.u → I (exec (P.handler h t e) s).u
  tap : ∀ (ev : Fired K E Λ) (s : St K U E), I s.u → I (P.tap ev s)
  rand : ∀ u r u', P.rand u = some (r, u') → I u → I u'
  draw : ∀ u l e u', P.draw u l = some (e, u') → I u → I u'

variable {P : Proc K U E Λ} {I : U → Prop}

theorem firePosted_pres (hp : Pres P I) (bound : K) {s s' : St K U E} {ev : Fired K E Λ}
    (hf : firePosted P bound s = some (s', ev)) (h : I s.u) : I s'.u := by
  unfold firePosted at hf
  split at hf
  · simp at hf
  · rename_i q1 x _
    simp only [Option.some.injEq, Prod.mk.injEq] at hf
    obtain ⟨rfl, -⟩ := hf
    exact hp.tap _ _ (hp.handler x.hid x.time x.elem ({ s with q := q1 } : St K U E) h)

theorem runPending_pres (hp : Pres P I) (bound : K) : ∀ (fuel : Nat) (s : St K U E) (tr : List (Fired K E Λ)),
    I s.u → I (runPending P bound fuel s tr).1.u := by
  intro fuel
  induction fuel with
  | zero => intro s tr h; exact h
  | succ f ih =>
    intro s tr h
    unfold runPending
    cases hf : firePosted P bound s with
    | none => exact h
    | some r => obtain ⟨s', ev⟩ := r; exact ih s' _ (firePosted_pres hp bound hf h)

theorem fireStoch_pres (hp : Pres P I) (t : K) (l : Λ) (hh : Nat) (e : E) (s : St K U E) (h : I s.u) :
    I (fireStoch P t l hh e s).1.u := hp.tap _ _ (hp.handler hh t e s h)

theorem perElTrials_pres (hp : Pres P I) (l : Λ) (p : K) (hh : Nat) : ∀ (es : List E) (u : U) (acc : List (Λ × E × Nat))
    (r : List (Λ × E × Nat) × U), perElTrials P l p hh es u acc = some r → I u → I r.2 := by
  intro es
  induction es with
  | nil => intro u acc r h hi; simp [perElTrials] at h; rw [← h]; exact hi
  | cons e es ih =>
    intro u acc r h hi
    unfold perElTrials at h
    split at h
    · simp at h
    · rename_i r' u' hr; exact ih u' _ r h (hp.rand u r' u' hr hi)

theorem perElPart_pres (hp : Pres P I) : ∀ (xs : List (Λ × K × Nat)) (u : U) (acc : List (Λ × E × Nat))
    (r : List (Λ × E × Nat) × U), perElPart P xs u acc = some r → I u → I r.2 := by
  intro xs
  induction xs with
  | nil => intro u acc r h hi; simp [perElPart] at h; rw [← h]; exact hi
  | cons x xs ih =>
    intro u acc r h hi
    obtain ⟨l, p, hh⟩ := x
    unfold perElPart at h
    split at h
    · split at h
      · simp at h
      · rename_i acc' u' ht
        exact ih u' acc' r h (perElTrials_pres hp l p hh _ u acc (acc', u') ht hi)
    · exact ih u acc r h hi

theorem fixedPart_pres (hp : Pres P I) : ∀ (xs : List (Λ × K × Nat)) (u : U) (acc : List (Λ × E × Nat))
    (r : List (Λ × E × Nat) × U), fixedPart P xs u acc = some r → I u → I r.2 := by
  intro xs
  induction xs with
  | nil => intro u acc r h hi; simp [fixedPart] at h; rw [← h]; exact hi
  | cons x xs ih =>
    intro u acc r h hi
    obtain ⟨l, p, hh⟩ := x
    unfold fixedPart at h
    split at h
    · split at h
      · simp at h
      · rename_i r' u' hr
        have h1 := hp.rand u r' u' hr hi
        split at h
        · split at h
          · simp at h
          · rename_i e u'' hd; exact ih u'' _ r h (hp.draw u' l e u'' hd h1)
        · exact ih u' acc r h h1
    · exact ih u acc r h hi

theorem tranche_pres (hp : Pres P I) (u : U) (r : List (Λ × E × Nat) × U) (h : tranche P u = some r) (hi : I u) : I r.2 := by
  unfold tranche at h
  split at h
  · simp at h
  · rename_i acc u' h1
    exact fixedPart_pres hp _ u' acc r h (perElPart_pres hp _ u [] (acc, u') h1 hi)

theorem synFire_pres (hp : Pres P I) (t : K) (acc : St K U E × List (Fired K E Λ)) (x : Λ × E × Nat) (h : I acc.1.u) :
    I (synFire P t acc x).1.u := by
  unfold synFire; split
  · exact fireStoch_pres hp t x.1 x.2.2 x.2.1 acc.1 h
  · exact h

theorem foldl_pres (hp : Pres P I) (t : K) (evs : List (Λ × E × Nat)) : ∀ (acc : St K U E × List (Fired K E Λ)),
    I acc.1.u → I (evs.foldl (synFire P t) acc).1.u := by
  induction evs with
  | nil => intro acc h; exact h
  | cons x xs ih => intro acc h; exact ih _ (synFire_pres hp t acc x h)

theorem synIter_pres (hp : Pres P I) (fuel : Nat) (L : Loop K U E Λ) (h : I L.s.u) : I (synIter P fuel L).1.s.u := by
  unfold synIter
  split
  · exact h
  · simp only []
    have h1 : I (runPending P L.t fuel (setNow L.s L.t) L.tr).1.u := runPending_pres hp L.t fuel (setNow L.s L.t) L.tr h
    split
    · exact h1
    · split
      · exact h1
      · rename_i evs u' ht
        have h2 : I u' := tranche_pres hp _ (evs, u') ht h1
        exact foldl_pres hp L.t evs _ h2

theorem runSyn_pres (hp : Pres P I) (inner : Nat) : ∀ (fuel : Nat) (L : Loop K U E Λ), I L.s.u → I (runSyn P inner fuel L).s.u := by
  intro fuel
  induction fuel with
  | zero => intro L h; exact h
  | succ f ih =>
    intro L h
    unfold runSyn; simp only []
    have := synIter_pres hp inner L h
    split
    · exact ih _ this
    · exact this

theorem stoIter_pres (hp : Pres P I) (fuel : Nat) (L : Loop K U E Λ) (h : I L.s.u) : I (stoIter P fuel L).1.s.u := by
  unfold stoIter
  split
  · exact h
  · simp only []
    split
    · split
      · exact h
      · exact runPending_pres hp _ fuel L.s L.tr h
    · split
      · exact h
      · rename_i r1 u1 hr1
        have h1 : I u1 := hp.rand _ _ _ hr1 h
        try simp only []
        split
        · exact h
        · rename_i tr u2 hpick
          have h2 : I u2 := by
            split at hpick
            · simp at hpick
            · simp only [Option.some.injEq, Prod.mk.injEq] at hpick; rw [← hpick.2]; exact h1
            · cases hr2 : P.rand u1 with
              | none => rw [hr2] at hpick; simp at hpick
              | some r2 =>
                rw [hr2] at hpick; simp only [Option.map_some, Option.some.injEq, Prod.mk.injEq] at hpick
                rw [← hpick.2]; exact hp.rand u1 r2.1 r2.2 hr2 h1
          have h3 := runPending_pres hp (Arith.add L.t (Arith.gillespieDt (total (rates P L.s.u)) r1)) fuel
            ({ L.s with u := u2 } : St K U E) L.tr h2
          split
          · exact h3
          · split
            · split
              · exact h3
              · rename_i e u3 hd
                exact fireStoch_pres hp _ _ _ _ _ (hp.draw _ _ _ _ hd h3)
            · exact h3

theorem runSto_pres (hp : Pres P I) (inner : Nat) : ∀ (fuel : Nat) (L : Loop K U E Λ), I L.s.u → I (runSto P inner fuel L).s.u := by
  intro fuel
  induction fuel with
  | zero => intro L h; exact h
  | succ f ih =>
    intro L h
    unfold runSto; simp only []
    have := stoIter_pres hp inner L h
    split
    · exact ih _ this
    · exact this

end Dyn
