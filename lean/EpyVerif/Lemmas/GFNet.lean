import EpyVerif.Lemmas.GFEval
import Mathlib.Algebra.BigOperators.Fin
import Mathlib.Algebra.BigOperators.Intervals
import Mathlib.Data.List.GetD
/-! The value at 1 of a coefficient-list generating function and of its first derivative, computed through the
    model's `eval` (the loop of `FunctionGF.evaluate` up to the list's own largest term). Used by C17. -/
namespace GF

theorem list_range_map_sum (g : Nat → ℚ) (n : Nat) : ((List.range n).map g).sum = ∑ i ∈ Finset.range n, g i := by
  induction n with
  | zero => simp
  | succ n ih => rw [List.range_succ, List.map_append, List.sum_append, ih, Finset.sum_range_succ]; simp

theorem sum_range_getD (l : List ℚ) : ∑ i ∈ Finset.range l.length, l.getD i 0 = l.sum := by
  rw [Finset.sum_range, ← Fin.sum_univ_getElem l]
  apply Finset.sum_congr rfl
  intro i _
  rw [List.getD_eq_getElem _ _ i.2]

theorem eval_fn (f : Nat → ℚ) (n : Nat) (x : ℚ) : eval (.fn f n) x = ∑ i ∈ Finset.range (n + 1), f i * x ^ i := by
  simp only [eval]
  rw [foldl_range_sum (fun i => f i * pow x i)]
  apply Finset.sum_congr rfl; intro i _; rw [pow_eq]

/-- G(1) of a coefficient list is the sum of all its coefficients, whatever its length -/
theorem eval_leaf_one (l : List ℚ) : eval (leaf l) 1 = l.sum := by
  rw [leaf, eval_fn, Finset.sum_range_succ]
  simp only [one_pow, mul_one, listCoeff]
  rw [List.getD_eq_default _ _ (Nat.le_refl _), add_zero, sum_range_getD]

/-- G'(1) of a coefficient list is Σ i·cᵢ -/
theorem eval_dx_leaf_one (l : List ℚ) :
    eval (dx 1 (leaf l)) 1 = ((List.range l.length).map (fun (i : Nat) => ((i : Nat) : ℚ) * l.getD i 0)).sum := by
  rw [leaf, dx, eval_fn, list_range_map_sum]
  simp only [one_pow, mul_one, dfn, listCoeff, List.range_one, List.foldl_cons, List.foldl_nil, Nat.zero_add]
  have h := Finset.sum_range_succ' (fun j => l.getD j 0 * ((j : Nat) : ℚ)) (l.length + 1)
  simp only [Nat.cast_zero, mul_zero, add_zero] at h
  rw [← h, Finset.sum_range_succ, Finset.sum_range_succ]
  rw [List.getD_eq_default _ _ (Nat.le_refl _), List.getD_eq_default _ _ (Nat.le_succ _)]
  simp only [zero_mul, add_zero]
  apply Finset.sum_congr rfl; intro i _; ring

end GF
