import EpyVerif.Lemmas.GFDen
import EpyVerif.Lemmas.GFEval
open Polynomial
namespace GF

theorem poly_coeff : ∀ (e : G), LeafOK e → ∀ i, (poly e).coeff i = coeff e i := by
  intro e
  induction e with
  | fn f n =>
    intro h i
    simp only [poly, coeff, finset_sum_coeff, coeff_C_mul_X_pow]
    rw [Finset.sum_ite_eq]
    split
    · rfl
    · rename_i hi; simp at hi; exact (h i (by omega)).symm
  | sum a b iha ihb => intro h i; simp [poly, coeff, iha h.1, ihb h.2]
  | prod a b iha ihb =>
    intro h i
    rw [coeff_prod]
    simp only [poly, Polynomial.coeff_mul]
    apply Finset.sum_congr rfl
    intro p _; rw [iha h.1, ihb h.2]

/-- C16, evaluation view: the value computed by the code is the value of the polynomial whose
    coefficients are the ones the code reports -/
theorem eval_is_polynomial (e : G) (h : LeafOK e) (x : ℚ) :
    ∃ p : ℚ[X], (∀ i, p.coeff i = coeff e i) ∧ p.eval x = eval e x :=
  ⟨poly e, poly_coeff e h, eval_poly x e⟩

end GF
