import EpyVerif.Lemmas.BbtBalance
namespace Bbt
variable {α : Type}

theorem fix_eq_fixF (l : T α) (d : α) (r : T α) : fix l d r = fixF (size l + size r + 1) l d r := rfl

theorem fix_good (l : T α) (d : α) (r : T α) (gl : Good l) (gr : Good r)
    (h1 : rh l ≤ rh r + 2) (h2 : rh r ≤ rh l + 2) :
    Good (fix l d r) ∧ max (rh l) (rh r) ≤ rh (fix l d r) ∧ rh (fix l d r) ≤ max (rh l) (rh r) + 1
      ∧ ((rh l ≤ rh r + 1 ∧ rh r ≤ rh l + 1) → rh (fix l d r) = max (rh l) (rh r) + 1) := by
  rw [fix_eq_fixF]; exact fixF_good _ l d r gl gr h1 h2 (Nat.le_refl _)

/-- children of the root have different heights (what an insertion that grew a subtree leaves behind) -/
def Leaning : T α → Prop
  | .nil => False
  | .node l _ r _ _ _ => rh l ≠ rh r

/-- insertion case: the taller child leans, so one (possibly double) rotation restores the old height -/
theorem rotate_restores_left (fuel : Nat) (l : T α) (d : α) (r : T α) (gl : Good l) (gr : Good r)
    (hh : rh l = rh r + 2) (hl : Leaning l) :
    Good (rotate (fuel+1) l d r) ∧ rh (rotate (fuel+1) l d r) = rh l := by
  unfold rotate
  simp only [hp_eq gl, hp_eq gr]
  have hlr : rh l > rh r := by omega
  simp only [hlr, if_true]
  cases l with
  | nil => simp [rh] at hh
  | node yl yd yr yh yls yrs =>
    simp only [Good] at gl
    obtain ⟨gyl, gyr, _, _, _, b1, b2⟩ := gl
    simp only [hp_eq gyl, hp_eq gyr]
    simp only [rh] at hh ⊢
    simp only [Leaning] at hl
    by_cases hx : rh yl > rh yr
    · simp only [hx, if_true]
      have hub : unbal yr r = false := by
        rw [Bool.eq_false_iff]; intro hu; have := (unbal_iff gyr gr).1 hu; omega
      simp only [hub, Bool.false_eq_true, if_false]
      have gz : Good (mk yr d r) := good_mk _ gyr gr (by omega) (by omega)
      refine ⟨good_mk _ gyl gz (by simp only [rh_mk]; omega) (by simp only [rh_mk]; omega), ?_⟩
      simp only [rh_mk]; omega
    · simp only [hx, if_false]
      cases yr with
      | nil => simp [rh] at *; omega
      | node xl xd xr xh xls xrs =>
        simp only [Good] at gyr
        obtain ⟨gxl, gxr, _, _, _, c1, c2⟩ := gyr
        simp only [rh] at hx hh hl b1 b2 ⊢
        have hub1 : unbal xr r = false := by
          rw [Bool.eq_false_iff]; intro hu; have := (unbal_iff gxr gr).1 hu; omega
        have hub2 : unbal yl xl = false := by
          rw [Bool.eq_false_iff]; intro hu; have := (unbal_iff gyl gxl).1 hu; omega
        simp only [hub1, hub2, Bool.false_eq_true, if_false]
        have gz : Good (mk xr d r) := good_mk _ gxr gr (by omega) (by omega)
        have gy : Good (mk yl yd xl) := good_mk _ gyl gxl (by omega) (by omega)
        refine ⟨good_mk _ gy gz (by simp only [rh_mk]; omega) (by simp only [rh_mk]; omega), ?_⟩
        simp only [rh_mk]; omega

theorem rotate_restores_right (fuel : Nat) (l : T α) (d : α) (r : T α) (gl : Good l) (gr : Good r)
    (hh : rh r = rh l + 2) (hl : Leaning r) :
    Good (rotate (fuel+1) l d r) ∧ rh (rotate (fuel+1) l d r) = rh r := by
  unfold rotate
  simp only [hp_eq gl, hp_eq gr]
  have hlr : ¬ rh l > rh r := by omega
  simp only [hlr, if_false]
  cases r with
  | nil => simp [rh] at hh
  | node yl yd yr yh yls yrs =>
    simp only [Good] at gr
    obtain ⟨gyl, gyr, _, _, _, b1, b2⟩ := gr
    simp only [hp_eq gyl, hp_eq gyr]
    simp only [rh] at hh ⊢
    simp only [Leaning] at hl
    by_cases hx : rh yl > rh yr
    · simp only [hx, if_true]
      cases yl with
      | nil => simp [rh] at hx
      | node xl xd xr xh xls xrs =>
        simp only [Good] at gyl
        obtain ⟨gxl, gxr, _, _, _, c1, c2⟩ := gyl
        simp only [rh] at hx hh hl b1 b2 ⊢
        have hub1 : unbal l xl = false := by
          rw [Bool.eq_false_iff]; intro hu; have := (unbal_iff gl gxl).1 hu; omega
        have hub2 : unbal xr yr = false := by
          rw [Bool.eq_false_iff]; intro hu; have := (unbal_iff gxr gyr).1 hu; omega
        simp only [hub1, hub2, Bool.false_eq_true, if_false]
        have gz : Good (mk l d xl) := good_mk _ gl gxl (by omega) (by omega)
        have gy : Good (mk xr yd yr) := good_mk _ gxr gyr (by omega) (by omega)
        refine ⟨good_mk _ gz gy (by simp only [rh_mk]; omega) (by simp only [rh_mk]; omega), ?_⟩
        simp only [rh_mk]; omega
    · simp only [hx, if_false]
      have hub : unbal l yl = false := by
        rw [Bool.eq_false_iff]; intro hu; have := (unbal_iff gl gyl).1 hu; omega
      simp only [hub, Bool.false_eq_true, if_false]
      have gz : Good (mk l d yl) := good_mk _ gl gyl (by omega) (by omega)
      refine ⟨good_mk _ gz gyr (by simp only [rh_mk]; omega) (by simp only [rh_mk]; omega), ?_⟩
      simp only [rh_mk]; omega

end Bbt

