import EpyVerif.Model.GF
import Mathlib.RingTheory.PowerSeries.Derivative
import Mathlib.Data.Finset.NatAntidiagonal
import Mathlib.Tactic.LinearCombination
import Mathlib.Tactic.Ring
open PowerSeries
namespace GF

noncomputable def den (e : G) : PowerSeries ℚ := PowerSeries.mk (fun i => coeff e i)

theorem mem_pairs (i a b : Nat) : (a, b) ∈ pairs i ↔ a + b = i := by
  simp only [pairs, List.mem_append, List.mem_flatMap, List.mem_range, List.mem_map, List.mem_filter,
    Bool.and_eq_true, decide_eq_true_eq, beq_iff_eq, Prod.mk.injEq, bne_iff_ne, ne_eq, Prod.exists]
  constructor
  · rintro (⟨x, _, y, ⟨_, _, h⟩, rfl, rfl⟩ | ⟨x, y, ⟨⟨x', _, y', ⟨_, _, h⟩, rfl, rfl⟩, _⟩, rfl, rfl⟩)
    · exact h
    · omega
  · intro h
    by_cases hab : a ≤ b
    · left; exact ⟨a, by omega, b, ⟨by omega, hab, h⟩, rfl, rfl⟩
    · right; exact ⟨b, a, ⟨⟨b, by omega, a, ⟨by omega, by omega, by omega⟩, rfl, rfl⟩, by omega⟩, rfl, rfl⟩

end GF

namespace GF

theorem nodup_pairs (i : Nat) : (pairs i).Nodup := by
  unfold pairs
  simp only []
  have hf : ((List.range (i+1)).flatMap (fun a => ((List.range (i+1)).filter (fun b => a ≤ b && a + b == i)).map (fun b => (a, b)))).Nodup := by
    rw [List.nodup_flatMap]
    constructor
    · intro a _
      exact (List.Nodup.filter _ List.nodup_range).map (fun x y h => by simpa using h)
    · apply List.Nodup.pairwise_of_forall_ne List.nodup_range
      intro a _ b _ hab
      intro p hp1 hp2
      simp only [List.mem_map, List.mem_filter] at hp1 hp2
      obtain ⟨_, _, rfl⟩ := hp1
      obtain ⟨_, _, h⟩ := hp2
      simp at h; exact hab h.1.symm
  rw [List.nodup_append]
  refine ⟨hf, ?_, ?_⟩
  · exact (List.Nodup.filter _ hf).map (fun x y h => by
      obtain ⟨x1, x2⟩ := x; obtain ⟨y1, y2⟩ := y; simp at h; simp [h.1, h.2])
  · intro p hp q hq
    simp only [List.mem_flatMap, List.mem_range, List.mem_map, List.mem_filter, Bool.and_eq_true,
      decide_eq_true_eq, beq_iff_eq, bne_iff_ne, ne_eq] at hp hq
    obtain ⟨a, _, b, ⟨_, hab, _⟩, rfl⟩ := hp
    obtain ⟨⟨c, d⟩, ⟨⟨c', _, d', ⟨_, hcd, _⟩, h⟩, hne⟩, rfl⟩ := hq
    simp only [Prod.mk.injEq] at h
    obtain ⟨rfl, rfl⟩ := h
    simp only [ne_eq, Prod.mk.injEq, not_and]
    intro h1 h2; simp at hne; omega

theorem foldl_sum (l : List (Nat × Nat)) (f : Nat × Nat → ℚ) (z : ℚ) :
    l.foldl (fun c p => c + f p) z = z + (l.map f).sum := by
  induction l generalizing z with
  | nil => simp
  | cons x xs ih => simp only [List.foldl_cons, List.map_cons, List.sum_cons]; rw [ih]; ring

/-- the code's pair enumeration computes the Cauchy product coefficient -/
theorem coeff_prod (a b : G) (i : Nat) :
    coeff (.prod a b) i = ∑ p ∈ Finset.antidiagonal i, coeff a p.1 * coeff b p.2 := by
  simp only [coeff]
  rw [foldl_sum (pairs i) (fun p => coeff a p.1 * coeff b p.2) 0, zero_add]
  rw [← List.sum_toFinset _ (nodup_pairs i)]
  congr 1
  ext ⟨x, y⟩
  simp [mem_pairs]

theorem den_sum (a b : G) : den (.sum a b) = den a + den b := by
  ext i; simp [den, coeff]

theorem den_prod (a b : G) : den (.prod a b) = den a * den b := by
  ext i; simp only [den, PowerSeries.coeff_mk, PowerSeries.coeff_mul]; exact coeff_prod a b i

end GF

namespace GF

theorem coeff_scale (c : ℚ) : ∀ (e : G) (i : Nat), coeff (scale c e) i = c * coeff e i := by
  intro e
  induction e with
  | fn f n => intro i; simp [scale, coeff]
  | sum a b iha ihb => intro i; simp [scale, coeff, iha, ihb]; ring
  | prod a b iha ihb =>
    intro i
    simp only [scale]
    rw [coeff_prod, coeff_prod, Finset.mul_sum]
    apply Finset.sum_congr rfl
    intro p _; rw [iha]; ring

theorem den_scale (c : ℚ) (e : G) : den (scale c e) = c • den e := by
  ext i; simp [den, coeff_scale]

/-- coefficient of an iterated derivative, in the shape the code computes it -/
theorem coeff_iter_deriv (f : PowerSeries ℚ) : ∀ (k i : Nat),
    PowerSeries.coeff i ((d⁄dX ℚ)^[k] f) =
      (List.range k).foldl (fun m j => m * ((i + (j+1) : Nat) : ℚ)) (PowerSeries.coeff (i + k) f) := by
  intro k
  induction k with
  | zero => intro i; simp
  | succ k ih =>
    intro i
    rw [Function.iterate_succ_apply', PowerSeries.coeff_derivative, ih (i+1)]
    rw [List.range_succ, List.foldl_append]
    simp only [List.foldl_cons, List.foldl_nil]
    have e : i + 1 + k = i + (k + 1) := by omega
    rw [e]
    -- shift the product: ∏_{j<k} (i+1+j+1) * (i+1)  =  ∏_{j<k} (i+j+1) * (i+k+1)
    have key : ∀ (z : ℚ) (k : Nat),
        (List.range k).foldl (fun m j => m * (((i + 1) + (j+1) : Nat) : ℚ)) z * ((i : ℚ) + 1)
        = (List.range k).foldl (fun m j => m * ((i + (j+1) : Nat) : ℚ)) z * ((i + (k+1) : Nat) : ℚ) := by
      intro z k
      induction k generalizing z with
      | zero => simp
      | succ k ihk =>
        rw [List.range_succ, List.foldl_append, List.foldl_append]
        simp only [List.foldl_cons, List.foldl_nil]
        have := ihk z
        push_cast at this ⊢
        linear_combination ((i : ℚ) + 1 + (k : ℚ) + 1) * this
    exact key _ k

theorem den_fn_dx (f : Nat → ℚ) (n k : Nat) : den (.fn (dfn f k) n) = (d⁄dX ℚ)^[k] (den (.fn f n)) := by
  ext i
  rw [coeff_iter_deriv]
  simp [den, coeff, dfn]

theorem den_dx : ∀ (k : Nat) (e : G), den (dx k e) = (d⁄dX ℚ)^[k] (den e) := by
  intro k e
  induction k, e using dx.induct with
  | case1 k f n => rw [dx]; exact den_fn_dx f n k
  | case2 k a b iha ihb =>
    rw [dx, den_sum, iha, ihb, den_sum, iterate_map_add]
  | case3 a b => rw [dx]; rfl
  | case4 k a b ih1 ih2 ih3 =>
    rw [dx, ih3, den_sum, den_prod, den_prod, ih1, ih2, den_prod]
    have hR : (d⁄dX ℚ)^[k+1] (den a * den b) = (d⁄dX ℚ)^[k] ((d⁄dX ℚ) (den a * den b)) :=
      Function.iterate_succ_apply _ _ _
    rw [hR, Derivation.leibniz]
    congr 1
    simp only [Function.iterate_one, smul_eq_mul]
    ring

end GF

