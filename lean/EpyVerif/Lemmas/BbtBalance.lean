import EpyVerif.Model.Bbt
namespace Bbt
variable {α : Type}

def rh : T α → Nat
  | .nil => 0
  | .node l _ r _ _ _ => max (rh l) (rh r) + 1

def Good : T α → Prop
  | .nil => True
  | .node l _ r h ls rs => Good l ∧ Good r ∧ h + 1 = max (rh l) (rh r) + 1 ∧ ls = size l ∧ rs = size r
      ∧ rh l ≤ rh r + 1 ∧ rh r ≤ rh l + 1

theorem hp_eq {t : T α} (g : Good t) : hp t = rh t := by
  cases t with
  | nil => rfl
  | node l d r h ls rs => simp [Good] at g; simp [hp, rh]; omega

theorem len_eq {t : T α} (g : Good t) : len t = size t := by
  cases t with
  | nil => rfl
  | node l d r h ls rs => simp [Good] at g; simp [len, size]; omega

theorem good_mk {l r : T α} (d : α) (gl : Good l) (gr : Good r) (h1 : rh l ≤ rh r + 1) (h2 : rh r ≤ rh l + 1) :
    Good (mk l d r) := by
  simp [mk, Good, gl, gr, hp_eq gl, hp_eq gr, len_eq gl, len_eq gr, h1, h2]

@[simp] theorem rh_mk (l : T α) (d : α) (r : T α) : rh (mk l d r) = max (rh l) (rh r) + 1 := rfl

def fixF (fuel : Nat) (l : T α) (d : α) (r : T α) : T α :=
  if unbal l r then rotate fuel l d r else mk l d r

theorem unbal_iff {l r : T α} (gl : Good l) (gr : Good r) :
    unbal l r = true ↔ (rh l > rh r + 1 ∨ rh r > rh l + 1) := by
  simp [unbal, hp_eq gl, hp_eq gr]; split <;> omega

theorem fixF_good (fuel : Nat) : ∀ (l : T α) (d : α) (r : T α), Good l → Good r →
    rh l ≤ rh r + 2 → rh r ≤ rh l + 2 → size l + size r + 1 ≤ fuel →
    Good (fixF fuel l d r) ∧ max (rh l) (rh r) ≤ rh (fixF fuel l d r) ∧ rh (fixF fuel l d r) ≤ max (rh l) (rh r) + 1
      ∧ ((rh l ≤ rh r + 1 ∧ rh r ≤ rh l + 1) → rh (fixF fuel l d r) = max (rh l) (rh r) + 1) := by
  induction fuel with
  | zero => intro l d r _ _ _ _ hf; omega
  | succ n ih =>
    intro l d r gl gr h1 h2 hf
    unfold fixF
    by_cases hu : unbal l r = true
    · simp only [hu, if_true]
      have hu' := (unbal_iff gl gr).1 hu
      unfold rotate
      simp only [hp_eq gl, hp_eq gr]
      by_cases hlr : rh l > rh r
      · simp only [hlr, if_true]
        cases l with
        | nil => simp [rh] at hlr
        | node yl yd yr yh yls yrs =>
          simp only [Good] at gl
          obtain ⟨gyl, gyr, _, _, _, b1, b2⟩ := gl
          simp only [hp_eq gyl, hp_eq gyr]
          simp only [rh] at hlr hu' h1 h2
          simp only [size] at hf
          by_cases hx : rh yl > rh yr
          · simp only [hx, if_true]
            have := ih yr d r gyr gr (by omega) (by omega) (by omega)
            unfold fixF at this
            obtain ⟨g1, a1, a2, a3⟩ := this
            refine ⟨good_mk _ gyl g1 (by omega) (by omega), ?_, ?_, ?_⟩ <;> simp only [rh_mk, rh] <;> omega
          · simp only [hx, if_false]
            cases yr with
            | nil => simp [rh] at *; omega
            | node xl xd xr xh xls xrs =>
              simp only [Good] at gyr
              obtain ⟨gxl, gxr, _, _, _, c1, c2⟩ := gyr
              simp only [rh] at hx hlr hu' h1 h2 b1 b2
              simp only [size] at hf
              have hz := ih xr d r gxr gr (by omega) (by omega) (by omega)
              have hy := ih yl yd xl gyl gxl (by omega) (by omega) (by omega)
              unfold fixF at hz hy
              obtain ⟨g1, a1, a2, a3⟩ := hz
              obtain ⟨g2, e1, e2, e3⟩ := hy
              refine ⟨good_mk _ g2 g1 (by omega) (by omega), ?_, ?_, ?_⟩ <;> simp only [rh_mk, rh] <;> omega
      · simp only [hlr, if_false]
        cases r with
        | nil => simp [rh] at hu' hlr; omega
        | node yl yd yr yh yls yrs =>
          simp only [Good] at gr
          obtain ⟨gyl, gyr, _, _, _, b1, b2⟩ := gr
          simp only [hp_eq gyl, hp_eq gyr]
          simp only [rh] at hlr hu' h1 h2
          simp only [size] at hf
          by_cases hx : rh yl > rh yr
          · simp only [hx, if_true]
            cases yl with
            | nil => simp [rh] at hx
            | node xl xd xr xh xls xrs =>
              simp only [Good] at gyl
              obtain ⟨gxl, gxr, _, _, _, c1, c2⟩ := gyl
              simp only [rh] at hx hlr hu' h1 h2 b1 b2
              simp only [size] at hf
              have hz := ih l d xl gl gxl (by omega) (by omega) (by omega)
              have hy := ih xr yd yr gxr gyr (by omega) (by omega) (by omega)
              unfold fixF at hz hy
              obtain ⟨g1, a1, a2, a3⟩ := hz
              obtain ⟨g2, e1, e2, e3⟩ := hy
              refine ⟨good_mk _ g1 g2 (by omega) (by omega), ?_, ?_, ?_⟩ <;> simp only [rh_mk, rh] <;> omega
          · simp only [hx, if_false]
            have := ih l d yl gl gyl (by omega) (by omega) (by omega)
            unfold fixF at this
            obtain ⟨g1, a1, a2, a3⟩ := this
            refine ⟨good_mk _ g1 gyr (by omega) (by omega), ?_, ?_, ?_⟩ <;> simp only [rh_mk, rh] <;> omega
    · have hb : unbal l r = false := by simpa using hu
      simp only [hb, Bool.false_eq_true, if_false]
      have hu' : ¬ (rh l > rh r + 1 ∨ rh r > rh l + 1) := fun h => hu ((unbal_iff gl gr).2 h)
      refine ⟨good_mk _ gl gr (by omega) (by omega), ?_, ?_, ?_⟩
      · rw [rh_mk]; omega
      · rw [rh_mk]; omega
      · intro _; rw [rh_mk]

end Bbt

