import EpyVerif.Lemmas.CompDispatch
/-! Finite registration tables (as extracted from `/repo` by `harness/extract_tables.py` on every run) and a decidable
    check that implies the well-formedness hypothesis `WfCfg` of the C01 theorems. -/
set_option linter.unusedSectionVars false
namespace Comp

structure Table where
  kinds : List LKind
  effects : List ((Nat × Nat) × List Nat)      -- (instance, compartment) ↦ loci registered, in registration order

def Table.cfg (t : Table) : Cfg :=
  { kind := fun i => t.kinds.getD i .plain, effects := fun inst c => (t.effects.lookup (inst, c)).getD [] }

def watchedPairs : LKind → List (Nat × Nat)
  | .node i c => [(i, c)]
  | .edge i L R _ => (i, L) :: R.map (fun r => (i, r))
  | .plain => []

def Table.wf (t : Table) : Bool :=
  t.effects.all (fun e => decide e.2.Nodup && e.2.all (fun j => decide (j < t.kinds.length) && watchedK (t.kinds.getD j .plain) e.1.1 e.1.2)) &&
  (List.range t.kinds.length).all (fun i => (watchedPairs (t.kinds.getD i .plain)).all (fun p => ((t.effects.lookup p).getD []).contains i)) &&
  t.kinds.all (fun k => match k with | .edge _ L R _ => !R.contains L | _ => true)

/-- registration only (without L ∉ R): what holds of Opinion's table, whose PPT locus has L ∈ R (known finding K1) -/
def Table.wfReg (t : Table) : Bool :=
  t.effects.all (fun e => decide e.2.Nodup && e.2.all (fun j => decide (j < t.kinds.length) && watchedK (t.kinds.getD j .plain) e.1.1 e.1.2)) &&
  (List.range t.kinds.length).all (fun i => (watchedPairs (t.kinds.getD i .plain)).all (fun p => ((t.effects.lookup p).getD []).contains i))

theorem getD_lt {α : Type} (l : List α) (i : Nat) (d : α) (h : i < l.length) : l.getD i d = l[i] := by
  simp [List.getD, List.getElem?_eq_getElem h]
theorem getD_ge {α : Type} (l : List α) (i : Nat) (d : α) (h : l.length ≤ i) : l.getD i d = d := by
  simp [List.getD, List.getElem?_eq_none h]

theorem lookup_mem {α β : Type} [BEq α] [LawfulBEq α] (k : α) (v : β) : ∀ (l : List (α × β)), l.lookup k = some v → (k, v) ∈ l := by
  intro l
  induction l with
  | nil => intro h; simp at h
  | cons p ps ih =>
    intro h
    obtain ⟨a, b⟩ := p
    simp only [List.lookup_cons] at h
    split at h
    · rename_i he; simp only [Option.some.injEq] at h; rw [← h, beq_iff_eq.1 he]; exact List.mem_cons_self
    · exact List.mem_cons_of_mem _ (ih h)

theorem watchedK_iff (k : LKind) (inst c : Nat) : watchedK k inst c = true ↔ (inst, c) ∈ watchedPairs k := by
  cases k with
  | node i x => simp [watchedK, watchedPairs]; grind
  | plain => simp [watchedK, watchedPairs]
  | edge i L R pf =>
    simp only [watchedK, watchedPairs, watched, Bool.and_eq_true, beq_iff_eq, Bool.or_eq_true, List.contains_eq_mem,
      decide_eq_true_eq, List.mem_cons, Prod.mk.injEq, List.mem_map]
    constructor
    · rintro ⟨rfl, h | h⟩
      · exact Or.inl ⟨rfl, h⟩
      · exact Or.inr ⟨c, h, rfl, rfl⟩
    · rintro (⟨rfl, rfl⟩ | ⟨r, hr, rfl, rfl⟩)
      · exact ⟨rfl, Or.inl rfl⟩
      · exact ⟨rfl, Or.inr hr⟩

theorem Table.wf_sound (t : Table) (h : t.wf = true) : WfCfg t.cfg := by
  unfold Table.wf at h
  simp only [Bool.and_eq_true, List.all_eq_true, decide_eq_true_eq] at h
  obtain ⟨⟨h1, h2⟩, h3⟩ := h
  have hlook : ∀ inst c ls, t.effects.lookup (inst, c) = some ls → ((inst, c), ls) ∈ t.effects := fun _ _ _ hl => lookup_mem _ _ _ hl
  refine ⟨?_, ?_, ?_⟩
  · intro i inst c
    show i ∈ (t.effects.lookup (inst, c)).getD [] ↔ watchedK (t.kinds.getD i .plain) inst c = true
    constructor
    · intro hi
      cases hl : t.effects.lookup (inst, c) with
      | none => rw [hl] at hi; simp at hi
      | some ls =>
        rw [hl] at hi; simp only [Option.getD_some] at hi
        exact ((h1 _ (hlook inst c ls hl)).2 i hi).2
    · intro hw
      have hlt : i < t.kinds.length := by
        by_cases hlt : i < t.kinds.length
        · exact hlt
        · rw [getD_ge _ _ _ (by omega)] at hw; simp [watchedK] at hw
      have := h2 i (List.mem_range.2 hlt) (inst, c) ((watchedK_iff _ inst c).1 hw)
      simpa using this
  · intro inst c
    show ((t.effects.lookup (inst, c)).getD []).Nodup
    cases hl : t.effects.lookup (inst, c) with
    | none => simp
    | some ls => simp only [Option.getD_some]; exact (h1 _ (hlook inst c ls hl)).1
  · intro i inst L R pf hk
    have hk' : t.kinds.getD i .plain = .edge inst L R pf := hk
    have hlt : i < t.kinds.length := by
      by_cases hlt : i < t.kinds.length
      · exact hlt
      · rw [getD_ge _ _ _ (by omega)] at hk'; cases hk'
    rw [getD_lt _ _ _ hlt] at hk'
    have := h3 _ (List.getElem_mem hlt)
    rw [hk'] at this
    simpa using this

/-- all tracking loci of the table belong to instance `inst` -/
def Table.oneInst (t : Table) (inst : Nat) : Bool :=
  t.kinds.all (fun k => match k with | .node i _ => i == inst | .edge i _ _ _ => i == inst | .plain => true)

theorem Table.oneInst_sound (t : Table) (inst : Nat) (h : t.oneInst inst = true) :
    ∀ j, match t.cfg.kind j with | .node i _ => i = inst | .edge i _ _ _ => i = inst | .plain => True := by
  intro j
  show match t.kinds.getD j .plain with | .node i _ => i = inst | .edge i _ _ _ => i = inst | .plain => True
  by_cases hlt : j < t.kinds.length
  · rw [getD_lt _ _ _ hlt]
    unfold Table.oneInst at h
    have := (List.all_eq_true.1 h) _ (List.getElem_mem hlt)
    cases hk : t.kinds[j] with
    | node i c => rw [hk] at this; simpa using this
    | edge i L R pf => rw [hk] at this; simpa using this
    | plain => trivial
  · rw [getD_ge _ _ _ (by omega)]; trivial

end Comp
