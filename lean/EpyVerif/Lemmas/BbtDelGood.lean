import EpyVerif.Lemmas.BbtAddGood2
namespace Bbt
variable {α : Type}

def DelPost (t t' : T α) : Prop := Good t' ∧ rh t' ≤ rh t ∧ rh t ≤ rh t' + 1

theorem del_left_step (l l' r : T α) (d d' : α) (h ls rs : Nat)
    (gt : Good (.node l d r h ls rs)) (post : DelPost l l') :
    DelPost (.node l d r h ls rs) (fix l' d' r) := by
  simp only [Good] at gt
  obtain ⟨gl, gr, _, _, _, b1, b2⟩ := gt
  obtain ⟨gl', p1, p2⟩ := post
  obtain ⟨g, f1, f2, f3⟩ := fix_good l' d' r gl' gr (by omega) (by omega)
  refine ⟨g, ?_, ?_⟩
  · simp only [rh]; omega
  · simp only [rh]
    by_cases hb : rh l' ≤ rh r + 1 ∧ rh r ≤ rh l' + 1
    · rw [f3 hb]; omega
    · omega

theorem del_right_step (l r r' : T α) (d d' : α) (h ls rs : Nat)
    (gt : Good (.node l d r h ls rs)) (post : DelPost r r') :
    DelPost (.node l d r h ls rs) (fix l d' r') := by
  simp only [Good] at gt
  obtain ⟨gl, gr, _, _, _, b1, b2⟩ := gt
  obtain ⟨gr', p1, p2⟩ := post
  obtain ⟨g, f1, f2, f3⟩ := fix_good l d' r' gl gr' (by omega) (by omega)
  refine ⟨g, ?_, ?_⟩
  · simp only [rh]; omega
  · simp only [rh]
    by_cases hb : rh l ≤ rh r' + 1 ∧ rh r' ≤ rh l + 1
    · rw [f3 hb]; omega
    · omega

theorem removeMax_good : ∀ (t : T α) (dflt : α), Good t → t ≠ .nil → DelPost t (removeMax t dflt).1 := by
  intro t
  induction t with
  | nil => intro _ _ h; exact absurd rfl h
  | node l d r h ls rs ihl ihr =>
    intro dflt gt _
    have gt' := gt
    simp only [Good] at gt'
    obtain ⟨gl, gr, _, _, _, b1, b2⟩ := gt'
    cases r with
    | nil =>
      simp only [removeMax]
      refine ⟨gl, ?_, ?_⟩ <;> simp only [rh] <;> omega
    | node rl rd rr rh' rls rrs =>
      simp only [removeMax]
      exact del_right_step l _ _ d d h ls rs gt (ihr dflt gr (by simp))

theorem removeMin_good : ∀ (t : T α) (dflt : α), Good t → t ≠ .nil → DelPost t (removeMin t dflt).1 := by
  intro t
  induction t with
  | nil => intro _ _ h; exact absurd rfl h
  | node l d r h ls rs ihl ihr =>
    intro dflt gt _
    have gt' := gt
    simp only [Good] at gt'
    obtain ⟨gl, gr, _, _, _, b1, b2⟩ := gt'
    cases l with
    | nil =>
      simp only [removeMin]
      refine ⟨gr, ?_, ?_⟩ <;> simp only [rh] <;> omega
    | node ll ld lr lh' lls lrs =>
      simp only [removeMin]
      exact del_left_step _ _ r d d h ls rs gt (ihl dflt gl (by simp))

theorem delpost_refl (t : T α) (g : Good t) : DelPost t t := ⟨g, Nat.le_refl _, Nat.le_succ _⟩

theorem discardAux_good [Ord α] (e : α) : ∀ (t : T α), Good t → DelPost t (discardAux e t).1 := by
  intro t
  induction t with
  | nil => intro g; simp only [discardAux]; exact delpost_refl _ g
  | node l d r h ls rs ihl ihr =>
    intro gt
    have gt' := gt
    simp only [Good] at gt'
    obtain ⟨gl, gr, _, _, _, b1, b2⟩ := gt'
    unfold discardAux
    cases compare e d with
    | lt =>
      simp only []
      cases (discardAux e l).2 with
      | true => simp only [if_true]; exact del_left_step l _ r d d h ls rs gt (ihl gl)
      | false => simp only [Bool.false_eq_true, if_false]; exact delpost_refl _ gt
    | gt =>
      simp only []
      cases (discardAux e r).2 with
      | true => simp only [if_true]; exact del_right_step l r _ d d h ls rs gt (ihr gr)
      | false => simp only [Bool.false_eq_true, if_false]; exact delpost_refl _ gt
    | eq =>
      simp only []
      cases l with
      | nil =>
        cases r with
        | nil => simp only []; refine ⟨trivial, ?_, ?_⟩ <;> simp [rh]
        | node rl rd rr rh' rls rrs =>
          simp only []
          refine ⟨gr, ?_, ?_⟩ <;> simp only [rh] <;> omega
      | node ll ld lr lh' lls lrs =>
        cases r with
        | nil =>
          simp only []
          refine ⟨gl, ?_, ?_⟩ <;> simp only [rh] at * <;> omega
        | node rl rd rr rh' rls rrs =>
          simp only []
          split
          · exact del_left_step _ _ _ d _ h ls rs gt (removeMax_good _ d gl (by simp))
          · exact del_right_step _ _ _ d _ h ls rs gt (removeMin_good _ d gr (by simp))

end Bbt

