import EpyVerif.Model.Bbt
open Std
namespace Bbt
variable {α : Type}

def toList : T α → List α
  | .nil => []
  | .node l d r _ _ _ => toList l ++ d :: toList r

@[simp] theorem toList_nil : toList (.nil : T α) = [] := rfl
@[simp] theorem toList_node (l : T α) d r h ls rs : toList (.node l d r h ls rs) = toList l ++ d :: toList r := rfl
@[simp] theorem toList_mk (l : T α) (d : α) (r : T α) : toList (mk l d r) = toList l ++ d :: toList r := rfl

theorem rotate_toList (fuel : Nat) : ∀ (l : T α) (d : α) (r : T α),
    toList (rotate fuel l d r) = toList l ++ d :: toList r := by
  induction fuel with
  | zero => intro l d r; simp [rotate]
  | succ n ih =>
    intro l d r
    unfold rotate
    simp only []
    split
    · split
      · simp
      · split
        · simp only [toList_mk]; split <;> simp [ih]
        · split
          · simp
          · simp only [toList_mk]
            split <;> split <;> simp [ih]
    · split
      · simp
      · split
        · split
          · simp
          · simp only [toList_mk]
            split <;> split <;> simp [ih]
        · simp only [toList_mk]; split <;> simp [ih]

@[simp] theorem fix_toList (l : T α) (d : α) (r : T α) : toList (fix l d r) = toList l ++ d :: toList r := by
  unfold fix; split <;> simp [rotate_toList]

theorem size_eq_length (t : T α) : size t = (toList t).length := by
  induction t with
  | nil => rfl
  | node l d r h ls rs ihl ihr => simp [size, toList, ihl, ihr]; omega


section ord
variable [Ord α] [TransOrd α] [LawfulEqOrd α]

def lt (a b : α) : Prop := compare a b = .lt
def Sorted (l : List α) : Prop := l.Pairwise lt
def BST (t : T α) : Prop := Sorted (toList t)

/-- sorted insertion without duplicates -/
def ins (e : α) : List α → List α
  | [] => [e]
  | x :: xs => match compare e x with
    | .lt => e :: x :: xs
    | .eq => x :: xs
    | .gt => x :: ins e xs

theorem ins_append_lt (e d : α) (L R : List α) (h : compare e d = .lt) :
    ins e (L ++ d :: R) = ins e L ++ d :: R := by
  induction L with
  | nil => simp [ins, h]
  | cons x xs ih => simp only [List.cons_append, ins]; split <;> simp [ih]

theorem ins_append_gt (e d : α) (L R : List α) (h : compare e d = .gt) (hL : ∀ x ∈ L, lt x d) :
    ins e (L ++ d :: R) = L ++ d :: ins e R := by
  induction L with
  | nil => simp [ins, h]
  | cons x xs ih =>
    have hx : lt x d := hL x List.mem_cons_self
    have : compare e x = .gt := by
      have h1 : compare d e = .lt := OrientedCmp.lt_of_gt h
      have h2 : compare x e = .lt := TransCmp.lt_trans hx h1
      exact OrientedCmp.gt_iff_lt.2 h2
    simp only [List.cons_append, ins, this]
    rw [ih (fun y hy => hL y (List.mem_cons_of_mem _ hy))]

theorem ins_append_eq (d : α) (L R : List α) (hL : ∀ x ∈ L, lt x d) :
    ins d (L ++ d :: R) = L ++ d :: R := by
  induction L with
  | nil => simp [ins]
  | cons x xs ih =>
    have hx : lt x d := hL x List.mem_cons_self
    have : compare d x = .gt := OrientedCmp.gt_iff_lt.2 hx
    simp only [List.cons_append, ins, this]
    rw [ih (fun y hy => hL y (List.mem_cons_of_mem _ hy))]

theorem bst_split {l : T α} {d : α} {r : T α} {h ls rs} (hb : BST (.node l d r h ls rs)) :
    BST l ∧ BST r ∧ (∀ x ∈ toList l, lt x d) ∧ (∀ x ∈ toList r, lt d x) := by
  unfold BST Sorted at *
  simp only [toList_node] at hb
  rw [List.pairwise_append] at hb
  obtain ⟨h1, h2, h3⟩ := hb
  rw [List.pairwise_cons] at h2
  exact ⟨h1, h2.2, fun x hx => h3 x hx d List.mem_cons_self, h2.1⟩

theorem addAux_unchanged (e : α) : ∀ (t : T α), (addAux e t).2.1 = false → (addAux e t).1 = t := by
  intro t
  induction t with
  | nil => simp [addAux]
  | node l d r h ls rs ihl ihr =>
    unfold addAux
    cases compare e d with
    | eq => simp
    | lt =>
      simp only []
      cases ha : (addAux e l).2.1 with
      | false => simp
      | true => simp only [Bool.not_true, Bool.false_eq_true, if_false]; split <;> simp
    | gt =>
      simp only []
      cases ha : (addAux e r).2.1 with
      | false => simp
      | true => simp only [Bool.not_true, Bool.false_eq_true, if_false]; split <;> simp

/-- TreeNode.add has the list semantics of sorted insertion, and reports whether it added -/
theorem addAux_toList (e : α) : ∀ (t : T α), BST t →
    toList (addAux e t).1 = ins e (toList t) ∧ ((addAux e t).2.1 = true ↔ e ∉ toList t) := by
  intro t
  induction t with
  | nil => intro _; simp [addAux, ins]
  | node l d r h ls rs ihl ihr =>
    intro hb
    obtain ⟨bl, br, hl, hr⟩ := bst_split hb
    unfold addAux
    cases hc : compare e d with
    | eq =>
      have : e = d := compare_eq_iff_eq.1 hc
      subst this
      simp only [toList_node]
      refine ⟨(ins_append_eq e _ _ hl).symm, by simp⟩
    | lt =>
      obtain ⟨i1, i2⟩ := ihl bl
      have hned : e ≠ d := fun h => by subst h; simp [compare_self] at hc
      have hnr : e ∉ toList r := fun hm => by
        have := hr e hm; unfold lt at this
        have h2 := OrientedCmp.gt_iff_lt.2 this
        rw [hc] at h2; cases h2
      simp only []
      cases ha : (addAux e l).2.1 with
      | false =>
        have hmem : e ∈ toList l := Classical.not_not.1 (fun hn => by rw [i2.2 hn] at ha; cases ha)
        simp only [Bool.not_false, if_true, toList_node]
        constructor
        · rw [ins_append_lt e d _ _ hc, ← i1, addAux_unchanged e l ha]
        · simp [hmem]
      | true =>
        have hmem : e ∉ toList l := i2.1 ha
        simp only [Bool.not_true, Bool.false_eq_true, if_false, toList_node]
        constructor
        · rw [ins_append_lt e d _ _ hc, ← i1]
          split <;> simp [rotate_toList]
        · split <;> simp [hmem, hned, hnr]
    | gt =>
      obtain ⟨i1, i2⟩ := ihr br
      have hned : e ≠ d := fun h => by subst h; simp [compare_self] at hc
      have hnl : e ∉ toList l := fun hm => by
        have := hl e hm; unfold lt at this
        rw [hc] at this; cases this
      simp only []
      cases ha : (addAux e r).2.1 with
      | false =>
        have hmem : e ∈ toList r := Classical.not_not.1 (fun hn => by rw [i2.2 hn] at ha; cases ha)
        simp only [Bool.not_false, if_true, toList_node]
        constructor
        · rw [ins_append_gt e d _ _ hc hl, ← i1, addAux_unchanged e r ha]
        · simp [hmem]
      | true =>
        have hmem : e ∉ toList r := i2.1 ha
        simp only [Bool.not_true, Bool.false_eq_true, if_false, toList_node]
        constructor
        · rw [ins_append_gt e d _ _ hc hl, ← i1]
          split <;> simp [rotate_toList]
        · split <;> simp [hmem, hned, hnl]

theorem mem_ins (e x : α) (l : List α) : x ∈ ins e l ↔ x = e ∨ x ∈ l := by
  induction l with
  | nil => simp [ins]
  | cons y ys ih =>
    simp only [ins]
    split
    · simp
    · rename_i h; have : e = y := compare_eq_iff_eq.1 h; subst this; simp
    · simp [ih]; grind

theorem ins_sorted (e : α) (l : List α) (hs : Sorted l) : Sorted (ins e l) := by
  induction l with
  | nil => simp [ins, Sorted]
  | cons y ys ih =>
    unfold Sorted at *
    rw [List.pairwise_cons] at hs
    simp only [ins]
    split
    · rename_i h
      refine List.Pairwise.cons ?_ (List.Pairwise.cons hs.1 hs.2)
      intro z hz
      rcases List.mem_cons.1 hz with rfl | hz
      · exact h
      · exact TransCmp.lt_trans h (hs.1 z hz)
    · exact List.Pairwise.cons hs.1 hs.2
    · rename_i h
      refine List.Pairwise.cons ?_ (ih hs.2)
      intro z hz
      rcases (mem_ins e z ys).1 hz with rfl | hz
      · exact OrientedCmp.lt_of_gt h
      · exact hs.1 z hz

theorem add_bst (t : T α) (e : α) (hb : BST t) : BST (add t e) := by
  unfold BST add; rw [(addAux_toList e t hb).1]; exact ins_sorted e _ hb

end ord
end Bbt

