import EpyVerif.Model.GF
import Mathlib.Algebra.Polynomial.Eval.Defs
import Mathlib.Algebra.Polynomial.Eval.Coeff
import Mathlib.Algebra.Polynomial.Coeff
import Mathlib.Tactic.Ring
open Polynomial
namespace GF

/-- every coefficient-function leaf vanishes beyond its largest term (what `FunctionGF.evaluate` relies on) -/
def LeafOK : G → Prop
  | .fn f n => ∀ i, n < i → f i = 0
  | .sum a b => LeafOK a ∧ LeafOK b
  | .prod a b => LeafOK a ∧ LeafOK b

noncomputable def poly : G → ℚ[X]
  | .fn f n => ∑ i ∈ Finset.range (n + 1), C (f i) * X ^ i
  | .sum a b => poly a + poly b
  | .prod a b => poly a * poly b

theorem pow_eq (x : ℚ) (n : Nat) : pow x n = x ^ n := by
  induction n with
  | zero => simp [pow]
  | succ n ih => simp [pow, ih, pow_succ]

theorem foldl_range_sum (g : Nat → ℚ) (n : Nat) :
    (List.range n).foldl (fun v i => v + g i) 0 = ∑ i ∈ Finset.range n, g i := by
  induction n with
  | zero => simp
  | succ n ih => rw [List.range_succ, List.foldl_append, ih, Finset.sum_range_succ]; simp

theorem eval_poly (x : ℚ) : ∀ e : G, (poly e).eval x = eval e x := by
  intro e
  induction e with
  | fn f n =>
    simp only [poly, eval, eval_finset_sum, eval_mul, eval_C, eval_pow, eval_X]
    rw [foldl_range_sum (fun i => f i * pow x i)]
    apply Finset.sum_congr rfl; intro i _; rw [pow_eq]
  | sum a b iha ihb => simp [poly, eval, iha, ihb]
  | prod a b iha ihb => simp [poly, eval, iha, ihb]

end GF

