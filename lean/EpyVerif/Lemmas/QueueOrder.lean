import EpyVerif.Lemmas.DynRuns
/-! C04: posted events fire in strictly increasing `(time, id)` order, through whole runs of both loops. -/
set_option linter.unusedSectionVars false
namespace Dyn
open Queue Std

variable {K U E Λ : Type} [LT K] [LE K] [DecidableLT K] [DecidableLE K] [IsLinearOrder K] [LawfulOrderLT K] [Arith K]

/-- keys `(time, id)` of the posted events in a trace, in firing order -/
def keys (tr : List (Fired K E Λ)) : List (K × Nat) := (tr.filter (·.posted)).map (fun ev => (ev.own, ev.pid))

/-- the order of Python's `[t, id, …]` lists -/
def keyLt (a b : K × Nat) : Prop := a.1 < b.1 ∨ (¬ b.1 < a.1 ∧ a.2 < b.2)

/-- C04 run invariant: fired keys strictly increase, and every fired key is strictly below everything still queued
    (and below anything that can still be posted: not later than the clock, id already used) -/
structure H (s : St K U E) (tr : List (Fired K E Λ)) : Prop where
  inv0 : Inv0 s.q
  nodup : (s.q.heap.map (·.id)).Nodup
  sortedP : (keys tr).Pairwise keyLt
  above : ∀ k ∈ keys tr, Above k.1 k.2 s.q

theorem keys_append_posted (tr : List (Fired K E Λ)) (ev : Fired K E Λ) (h : ev.posted = true) :
    keys (tr ++ [ev]) = keys tr ++ [(ev.own, ev.pid)] := by simp [keys, List.filter_append, h]

theorem keys_append_stoch (tr : List (Fired K E Λ)) (ev : Fired K E Λ) (h : ev.posted = false) :
    keys (tr ++ [ev]) = keys tr := by simp [keys, List.filter_append, h]

theorem insert_ids (x : Entry K E) (l : List (Entry K E)) : ((Queue.insert x l).map (·.id)).Perm (x.id :: l.map (·.id)) := by
  induction l with
  | nil => simp [Queue.insert]
  | cons y ys ih =>
    simp only [Queue.insert]
    split
    · simp
    · simp only [List.map_cons]
      exact (List.Perm.cons _ ih).trans (List.Perm.swap _ _ _)

theorem post_nodup {s : S K E} (t : K) (e : E) (h : Nat) (h0 : Inv0 s) (hn : (s.heap.map (·.id)).Nodup) :
    ((post s t e h).1.heap.map (·.id)).Nodup := by
  unfold post
  split
  · exact hn
  · simp only
    rw [(insert_ids _ _).nodup_iff, List.nodup_cons]
    refine ⟨?_, hn⟩
    intro hm
    obtain ⟨y, hy, he⟩ := List.mem_map.1 hm
    have := h0.ids y hy
    simp at he; omega

theorem unpost_ids {s : S K E} (id : Nat) : (unpost s id).1.heap.map (·.id) = s.heap.map (·.id) := by
  unfold unpost
  split
  · rfl
  · simp only [List.map_map]
    apply List.map_congr_left
    intro x _; simp only [Function.comp]; split <;> rfl

theorem post_inv0 {s : S K E} (t : K) (e : E) (h : Nat) (h0 : Inv0 s) : Inv0 (post s t e h).1 := by
  unfold post
  split
  · exact h0
  · constructor
    · apply pairwise_insert _ _ h0.sorted
      intro y hy; have := h0.ids y hy; simp; omega
    · intro x hx
      rcases (mem_insert _ _ _).1 hx with rfl | hx
      · simp
      · have := h0.ids x hx; simp; omega

theorem unpost_inv0 {s : S K E} (id : Nat) (h0 : Inv0 s) : Inv0 (unpost s id).1 := by
  unfold unpost
  split
  · exact h0
  · constructor
    · simp only
      rw [List.pairwise_map]
      refine h0.sorted.imp ?_
      intro a b hab
      unfold before at *
      split <;> split <;> simpa using hab
    · intro x hx
      simp only [List.mem_map] at hx
      obtain ⟨y, hy, rfl⟩ := hx
      have := h0.ids y hy
      split <;> simpa using this

/-- handlers keep `Inv0` and distinct ids whatever the clock is -/
theorem exec_inv0 (p : Prog K U E) : ∀ (s : St K U E), Inv0 s.q → (s.q.heap.map (·.id)).Nodup →
    Inv0 (exec p s).q ∧ ((exec p s).q.heap.map (·.id)).Nodup := by
  induction p with
  | done => intro s h n; exact ⟨h, n⟩
  | post t e h k ih => intro s h0 n; exact ih _ _ (post_inv0 t e h h0) (post_nodup t e h h0 n)
  | unpost id k ih => intro s h0 n; exact ih _ _ (unpost_inv0 id h0) (by rw [unpost_ids]; exact n)
  | pending id k ih => intro s h0 n; exact ih _ _ h0 n
  | clock k ih => intro s h0 n; exact ih _ _ h0 n
  | get k ih => intro s h0 n; exact ih _ _ h0 n
  | put u k ih => intro s h0 n; exact ih _ h0 n

theorem exec_H (p : Prog K U E) (s : St K U E) (tr : List (Fired K E Λ)) (h : H s tr) : H (exec p s) tr := by
  obtain ⟨a, b⟩ := exec_inv0 p s h.inv0 h.nodup
  exact ⟨a, b, h.sortedP, fun k hk => exec_above p s (h.above k hk)⟩

theorem H_setU {s : St K U E} {tr : List (Fired K E Λ)} (h : H s tr) (u : U) : H { s with u := u } tr :=
  ⟨h.inv0, h.nodup, h.sortedP, h.above⟩

theorem H_setNow {s : St K U E} {tr : List (Fired K E Λ)} (h : H s tr) (t : K) (hle : s.q.now ≤ t) : H (setNow s t) tr :=
  ⟨⟨h.inv0.sorted, h.inv0.ids⟩, h.nodup, h.sortedP,
   fun k hk => ⟨(h.above k hk).heap, Std.le_trans (h.above k hk).clock hle, (h.above k hk).idlt⟩⟩

/-- C04 core: a posted firing has a key strictly above every earlier one; the invariant goes on -/
theorem firePosted_H (P : Proc K U E Λ) (bound : K) {s s' : St K U E} {tr : List (Fired K E Λ)} {ev : Fired K E Λ}
    (h : H s tr) (hf : firePosted P bound s = some (s', ev)) : H s' (tr ++ [ev]) := by
  unfold firePosted at hf
  cases hp : popBefore s.q bound with
  | none => rw [hp] at hf; simp at hf
  | some r =>
    obtain ⟨q1, x⟩ := r
    rw [hp] at hf
    simp only [Option.some.injEq, Prod.mk.injEq] at hf
    obtain ⟨rfl, rfl⟩ := hf
    obtain ⟨hxmem, hlive, hle, hnow, hnid, h01, hrest, _⟩ := popBefore_spec h.inv0 hp
    -- the popped entry's id does not occur in the rest
    have hsub : q1.heap.Sublist s.q.heap := by
      unfold popBefore at hp
      split at hp
      · simp at hp
      · rename_i y ys hd
        split at hp
        · simp only [Option.some.injEq, Prod.mk.injEq] at hp
          obtain ⟨rfl, rfl⟩ := hp
          obtain ⟨pre, hpre, _⟩ := dropDead_suffix s.q.heap
          rw [hd] at hpre
          simp only; rw [hpre]
          exact (List.sublist_cons_self _ _).trans (List.sublist_append_right _ _)
        · simp at hp
    have hnd1 : (q1.heap.map (·.id)).Nodup := h.nodup.sublist (hsub.map _)
    have h1 : H ({ s with q := q1 } : St K U E) (tr ++ [(⟨true, x.time, x.time, q1.now, x.time, x.hid, x.elem, none, true, x.id⟩ : Fired K E Λ)]) := by
      refine ⟨h01, hnd1, ?_, ?_⟩
      · rw [keys_append_posted _ _ rfl, List.pairwise_append]
        refine ⟨h.sortedP, List.pairwise_singleton _ _, ?_⟩
        intro k hk k' hk'
        simp at hk'; subst hk'
        exact (h.above k hk).heap x hxmem
      · intro k hk
        rw [keys_append_posted _ _ rfl] at hk
        rcases List.mem_append.1 hk with hk | hk
        · have ha := h.above k hk
          refine ⟨fun z hz => ha.heap z (hrest z hz).1, ?_, by rw [hnid]; exact ha.idlt⟩
          show k.1 ≤ q1.now
          rw [hnow]
          rcases ha.heap x hxmem with h' | ⟨h', _⟩
          · exact Std.le_of_lt h'
          · exact tle_of_not_lt h'
        · simp at hk; subst hk
          refine ⟨fun z hz => (hrest z hz).2, by show x.time ≤ q1.now; rw [hnow]; exact Std.le_refl _, ?_⟩
          show x.id < q1.nextId
          rw [hnid]; exact h.inv0.ids x hxmem
    exact H_setU (exec_H _ _ _ h1) _

theorem runPending_H (P : Proc K U E Λ) (bound : K) : ∀ (fuel : Nat) (s : St K U E) (tr : List (Fired K E Λ)),
    H s tr → H (runPending P bound fuel s tr).1 (runPending P bound fuel s tr).2.1 := by
  intro fuel
  induction fuel with
  | zero => intro s tr h; exact h
  | succ f ih =>
    intro s tr h
    unfold runPending
    cases hf : firePosted P bound s with
    | none => exact h
    | some r => obtain ⟨s', ev⟩ := r; exact ih s' _ (firePosted_H P bound h hf)

theorem fireStoch_H (P : Proc K U E Λ) (t : K) (l : Λ) (hh : Nat) (e : E) {s : St K U E} {tr : List (Fired K E Λ)}
    (h : H s tr) : H (fireStoch P t l hh e s).1 (tr ++ [(fireStoch P t l hh e s).2]) := by
  simp only [fireStoch]
  have := H_setU (exec_H (P.handler hh t e) s tr h) (P.tap ⟨false, t, t, s.q.now, t, hh, e, some l, P.mem s.u l e, 0⟩ (exec (P.handler hh t e) s))
  exact ⟨this.inv0, this.nodup, by rw [keys_append_stoch _ _ rfl]; exact this.sortedP,
         by rw [keys_append_stoch _ _ rfl]; exact this.above⟩

theorem synFire_H (P : Proc K U E Λ) (t : K) (acc : St K U E × List (Fired K E Λ)) (x : Λ × E × Nat)
    (h : H acc.1 acc.2) : H (synFire P t acc x).1 (synFire P t acc x).2 := by
  unfold synFire
  split
  · exact fireStoch_H P t x.1 x.2.2 x.2.1 h
  · exact h

theorem foldl_H (P : Proc K U E Λ) (t : K) (evs : List (Λ × E × Nat)) :
    ∀ (acc : St K U E × List (Fired K E Λ)), H acc.1 acc.2 →
      H (evs.foldl (synFire P t) acc).1 (evs.foldl (synFire P t) acc).2 := by
  induction evs with
  | nil => intro acc h; exact h
  | cons x xs ih => intro acc h; exact ih _ (synFire_H P t acc x h)

theorem synIter_H (P : Proc K U E Λ) (fuel : Nat) (L : Loop K U E Λ) (hnow : L.s.q.now ≤ L.t) (h : H L.s L.tr) :
    H (synIter P fuel L).1.s (synIter P fuel L).1.tr := by
  unfold synIter
  split
  · exact h
  · simp only []
    have h1 := runPending_H P L.t fuel (setNow L.s L.t) L.tr (H_setNow h L.t hnow)
    have hn := runPending_now_le P L.t fuel (setNow L.s L.t) L.tr (Std.le_refl _)
    split
    · exact h1
    · have h2 := H_setNow h1 L.t hn
      split
      · exact h2
      · rename_i evs u' _
        exact foldl_H P L.t evs _ (H_setU h2 u')

theorem runSyn_H (P : Proc K U E Λ) (inner : Nat) (hone : ∀ t : K, t ≤ Arith.add t Arith.one) :
    ∀ (fuel : Nat) (L : Loop K U E Λ), LoopInv L → H L.s L.tr →
      H (runSyn P inner fuel L).s (runSyn P inner fuel L).tr := by
  intro fuel
  induction fuel with
  | zero => intro L _ h; exact h
  | succ f ih =>
    intro L hl h
    unfold runSyn
    simp only []
    have h1 := synIter_H P inner L hl.now h
    have l1 := synIter_inv P inner L hone hl
    split
    · exact ih _ l1 h1
    · exact h1

theorem stoIter_H (P : Proc K U E Λ) (fuel : Nat) (L : Loop K U E Λ)
    (hdt : ∀ (t a r : K), t ≤ Arith.add t (Arith.gillespieDt a r)) (hnow : L.s.q.now ≤ L.t) (h : H L.s L.tr) :
    H (stoIter P fuel L).1.s (stoIter P fuel L).1.tr := by
  unfold stoIter
  split
  · exact h
  · simp only []
    split
    · split
      · exact h
      · exact runPending_H P _ fuel L.s L.tr h
    · split
      · exact h
      · rename_i r1 u1 _
        try simp only []
        split
        · exact h
        · rename_i tr u2 _
          have hnt : L.t ≤ Arith.add L.t (Arith.gillespieDt (total (rates P L.s.u)) r1) := hdt _ _ _
          generalize Arith.add L.t (Arith.gillespieDt (total (rates P L.s.u)) r1) = nt at hnt
          have h1 := runPending_H P nt fuel ({ L.s with u := u2 } : St K U E) L.tr (H_setU h u2)
          have hn := runPending_now_le P nt fuel ({ L.s with u := u2 } : St K U E) L.tr (Std.le_trans hnow hnt)
          split
          · exact h1
          · have h2 := H_setNow h1 nt hn
            split
            · split
              · exact h2
              · rename_i e u3 _
                exact fireStoch_H P nt tr.1 tr.2.2 e (H_setU h2 u3)
            · exact h2

theorem runSto_H (P : Proc K U E Λ) (inner : Nat) (hdt : ∀ (t a r : K), t ≤ Arith.add t (Arith.gillespieDt a r)) :
    ∀ (fuel : Nat) (L : Loop K U E Λ), L.stuck = false → StoInv L → H L.s L.tr →
      H (runSto P inner fuel L).s (runSto P inner fuel L).tr := by
  intro fuel
  induction fuel with
  | zero => intro L _ _ h; exact h
  | succ f ih =>
    intro L hns hl h
    unfold runSto
    simp only []
    have h1 := stoIter_H P inner L hdt hl.now h
    have l1 := stoIter_inv P inner L hdt hns hl
    split
    · rename_i hc; exact ih _ (stoIter_continue P inner L hns hc) l1 h1
    · exact h1

end Dyn
