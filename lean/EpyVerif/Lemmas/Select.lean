import EpyVerif.Model.Dyn
/-! C02: the inverse-CDF event choice of `StochasticDynamics.do` (`Dyn.select`), over exact rationals. -/
namespace Dyn

/-- exact arithmetic; the Gillespie time step is not used by the statements about `select` -/
instance ratArith : Arith Rat := ⟨0, 1, (· + ·), (· * ·), fun n => (n : Rat), fun a => a == 0, fun _ _ => 0⟩

variable {Λ : Type}

def rateSum (rs : List (Λ × Rat × Nat)) : Rat := (rs.map (·.2.1)).sum

theorem total_eq (rs : List (Λ × Rat × Nat)) : total rs = rateSum rs := by
  unfold total rateSum
  have : ∀ (l : List (Λ × Rat × Nat)) (a : Rat), l.foldl (fun a r => Arith.add a r.2.1) a = a + (l.map (·.2.1)).sum := by
    intro l; induction l with
    | nil => intro a; simp only [List.foldl_nil, List.map_nil, List.sum_nil]; grind
    | cons x xs ih => intro a; simp only [List.foldl_cons, List.map_cons, List.sum_cons]; rw [ih]; show a + x.2.1 + _ = _; grind
  rw [this]; show (0 : Rat) + _ = _; grind

/-- loop invariant of the selection scan: starting with accumulated `xs ≤ xc` and `xc < xs + Σ rs`, the scan returns
    the entry `rs[k]` whose cumulative interval `[xs + Σ_{j<k}, xs + Σ_{j≤k})` contains `xc` -/
theorem select_spec_aux (xc : Rat) : ∀ (rs : List (Λ × Rat × Nat)) (xs : Rat) (last : Λ × Rat × Nat),
    xs ≤ xc → xc < xs + rateSum rs →
    ∃ k, ∃ hk : k < rs.length, select xc xs rs last = rs[k] ∧
      xs + rateSum (rs.take k) ≤ xc ∧ xc < xs + rateSum (rs.take k) + rs[k].2.1 := by
  intro rs
  induction rs with
  | nil => intro xs last h1 h2; simp [rateSum] at h2; grind
  | cons r rs ih =>
    intro xs last h1 h2
    simp only [select]
    by_cases h : xc < Arith.add xs r.2.1
    · have h' : xc < xs + r.2.1 := h
      refine ⟨0, by simp, by simp [h], by simp only [rateSum, List.take_zero, List.map_nil, List.sum_nil]; grind, ?_⟩
      simp only [rateSum, List.take_zero, List.map_nil, List.sum_nil, List.getElem_cons_zero]; grind
    · simp only [h, if_false]
      have h' : ¬ xc < xs + r.2.1 := h
      have h1' : xs + r.2.1 ≤ xc := Rat.not_lt.1 h'
      have h2' : xc < (xs + r.2.1) + rateSum rs := by
        simp only [rateSum, List.map_cons, List.sum_cons] at h2 ⊢; grind
      obtain ⟨k, hk, e, a, b⟩ := ih (xs + r.2.1) r h1' h2'
      refine ⟨k + 1, by simp; omega, ?_, ?_, ?_⟩
      · show select xc (xs + r.2.1) rs r = _; rw [e]; simp
      · simp only [List.take_succ_cons, rateSum, List.map_cons, List.sum_cons] at a ⊢; grind
      · simp only [List.take_succ_cons, rateSum, List.map_cons, List.sum_cons, List.getElem_cons_succ] at b ⊢; grind

theorem rateSum_nonneg (rs : List (Λ × Rat × Nat)) (h : ∀ r ∈ rs, 0 ≤ r.2.1) : 0 ≤ rateSum rs := by
  induction rs with
  | nil => simp [rateSum]
  | cons r rs ih =>
    have h0 : 0 ≤ r.2.1 := h r (by simp)
    have h1 : 0 ≤ rateSum rs := ih (fun x hx => h x (by simp [hx]))
    simp only [rateSum, List.map_cons, List.sum_cons] at h1 ⊢; grind

/-- converse of `select_spec_aux` -/
theorem select_complete_aux (xc : Rat) : ∀ (rs : List (Λ × Rat × Nat)) (xs : Rat) (last : Λ × Rat × Nat) (k : Nat)
    (hk : k < rs.length), (∀ r ∈ rs, 0 ≤ r.2.1) →
    xs + rateSum (rs.take k) ≤ xc → xc < xs + rateSum (rs.take k) + rs[k].2.1 →
    select xc xs rs last = rs[k] := by
  intro rs
  induction rs with
  | nil => intro xs last k hk; simp at hk
  | cons r rs ih =>
    intro xs last k hk hn a b
    simp only [select]
    cases k with
    | zero =>
      simp only [rateSum, List.take_zero, List.map_nil, List.sum_nil, List.getElem_cons_zero] at a b
      have h : xc < Arith.add xs r.2.1 := by show xc < xs + r.2.1; grind
      simp [h]
    | succ k =>
      have hk' : k < rs.length := by simp at hk; omega
      have hn' : ∀ x ∈ rs, 0 ≤ x.2.1 := fun x hx => hn x (by simp [hx])
      have h0 : 0 ≤ rateSum (rs.take k) := rateSum_nonneg _ (fun x hx => hn' x (List.mem_of_mem_take hx))
      simp only [List.take_succ_cons, rateSum, List.map_cons, List.sum_cons, List.getElem_cons_succ] at a b h0
      have h : ¬ xc < Arith.add xs r.2.1 := by show ¬ xc < xs + r.2.1; grind
      simp only [h, if_false]
      show select xc (xs + r.2.1) rs r = _
      exact ih (xs + r.2.1) r k hk' hn' (by simp only [rateSum]; grind) (by simp only [rateSum]; grind)

end Dyn
