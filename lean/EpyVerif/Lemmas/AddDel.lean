import EpyVerif.Model.Sim
import EpyVerif.Lemmas.CompTopo
import EpyVerif.Lemmas.Net
import EpyVerif.Lemmas.TSet
import Mathlib.Data.List.Basic
import Mathlib.Data.List.Nodup
import Mathlib.Data.List.Perm.Subperm
/-! Lemmas for the addition-deletion process (`Sim.adAdd?`, `Sim.adDelW`). -/
set_option linter.unusedSectionVars false
open Comp Bbt
namespace Sim

variable {K : Type} [LT K] [LE K] [DecidableLT K] [DecidableLE K] [Dyn.Arith K]

/-! ### a fresh name -/

theorem firstFree_spec (ns : List Node) : ∀ (fuel : Nat) (i : Int),
    (firstFree ns i fuel ∉ ns) ∨ (∀ k : Nat, k ≤ fuel → (i + k) ∈ ns) := by
  intro fuel
  induction fuel with
  | zero =>
    intro i
    by_cases h : i ∈ ns
    · right; intro k hk; have : k = 0 := by omega
      subst this; simpa using h
    · left; simpa [firstFree] using h
  | succ f ih =>
    intro i
    unfold firstFree
    by_cases h : ns.contains i = true
    · simp only [h, if_true]
      rcases ih (i + 1) with h1 | h1
      · exact Or.inl h1
      · right
        intro k hk
        cases k with
        | zero => simpa using h
        | succ k => have := h1 k (by omega); rw [show i + ((k + 1 : Nat) : Int) = i + 1 + (k : Int) by omega]; exact this
    · rw [if_neg h]; left; simpa using h

/-- `newNodeName()` returns a name that is not in the network (pigeonhole: order + 1 candidates) -/
theorem newName_fresh (g : Net) : newName g ∉ g.nodes := by
  unfold newName
  rcases firstFree_spec g.nodes g.nodes.length (g.nodes.length + 1) with h | h
  · exact h
  · exfalso
    let cand : List Int := List.map (fun k : Nat => ((g.nodes.length : Int) + 1 + (k : Int))) (List.range (g.nodes.length + 1))
    have hsub : cand ⊆ g.nodes := by
      intro x hx
      simp only [cand, List.mem_map, List.mem_range] at hx
      obtain ⟨k, hk, rfl⟩ := hx
      exact h k (by omega)
    have hnd : cand.Nodup := by
      refine (List.nodup_range).map ?_
      intro a b hab; simp only at hab; omega
    have := (List.subperm_of_subset hnd hsub).length_le
    simp [cand] at this
    omega

/-! ### drawing -/

theorem drawT_spec : ∀ (t : T Elem) (u u' : U K) (e : Elem), drawT t u = some (e, u') → u'.w = u.w ∧ e ∈ toList t := by
  intro t
  induction t with
  | nil => intro u u' e h; simp [drawT] at h
  | node l d r hh ls rs ihl ihr =>
    intro u u' e h
    unfold drawT at h
    split at h
    · simp only [Option.some.injEq, Prod.mk.injEq] at h; rw [← h.2, ← h.1]; exact ⟨rfl, by simp [toList]⟩
    · split at h
      · simp at h
      · rename_i i u1 hp
        have h1 : u1.w = u.w := by
          unfold popI at hp; split at hp
          · split at hp
            · simp only [Option.some.injEq, Prod.mk.injEq] at hp; rw [← hp.2]
            · simp at hp
          · simp at hp
        split at h
        · obtain ⟨a, b⟩ := ihl u1 u' e h; exact ⟨a.trans h1, by simp [toList, b]⟩
        · split at h
          · simp only [Option.some.injEq, Prod.mk.injEq] at h; rw [← h.2, ← h.1]; exact ⟨h1, by simp [toList]⟩
          · obtain ⟨a, b⟩ := ihr u1 u' e h; exact ⟨a.trans h1, by simp [toList, b]⟩

theorem pickOne_spec (s : LSet) (i : Node) (es : List Node) : ∀ (fuel : Nat) (u u' : U K) (j : Node),
    pickOne s i es fuel u = some (j, u') → u'.w = u.w ∧ j ∉ es ∧ j ≠ i ∧ ∃ e, e ∈ s.toList ∧ e.1 = j := by
  intro fuel
  induction fuel with
  | zero => intro u u' j h; simp [pickOne] at h
  | succ f ih =>
    intro u u' j h
    unfold pickOne at h
    split at h
    · simp at h
    · rename_i e u1 hd
      obtain ⟨hw, hm⟩ := drawT_spec s.t u u1 e hd
      split at h
      · rename_i hc
        simp only [Option.some.injEq, Prod.mk.injEq] at h
        rw [← h.1, ← h.2]
        simp only [Bool.and_eq_true, Bool.not_eq_true', bne_iff_ne, ne_eq] at hc
        exact ⟨hw, by simpa using hc.1, hc.2, e, hm, rfl⟩
      · obtain ⟨a, b⟩ := ih u1 u' j h; exact ⟨a.trans hw, b⟩

theorem pickMany_spec (s : LSet) (i : Node) : ∀ (c : Nat) (es : List Node) (u u' : U K) (es' : List Node),
    pickMany s i c es u = some (es', u') →
    u'.w = u.w ∧ ∃ new, es' = es ++ new ∧ new.length = c ∧ (es.Nodup → es'.Nodup) ∧
      ∀ j ∈ new, j ≠ i ∧ ∃ e, e ∈ s.toList ∧ e.1 = j := by
  intro c
  induction c with
  | zero =>
    intro es u u' es' h
    simp only [pickMany, Option.some.injEq, Prod.mk.injEq] at h
    exact ⟨by rw [← h.2], [], by simp [h.1], rfl, fun hn => by rw [← h.1]; exact hn, by simp⟩
  | succ c ih =>
    intro es u u' es' h
    unfold pickMany at h
    split at h
    · simp at h
    · rename_i j u1 hp
      obtain ⟨hw, hj1, hj2, hj3⟩ := pickOne_spec s i es _ u u1 j hp
      obtain ⟨hw', new, he, hl, hnd, hall⟩ := ih (es ++ [j]) u1 u' es' h
      refine ⟨hw'.trans hw, j :: new, by simp [he], by simp [hl], ?_, ?_⟩
      · intro hes; apply hnd
        rw [List.nodup_append]; exact ⟨hes, by simp, by intro a ha b hb; simp at hb; subst hb; intro hab; exact hj1 (hab ▸ ha)⟩
      · intro x hx
        rcases List.mem_cons.1 hx with rfl | hx
        · exact ⟨hj2, hj3⟩
        · exact hall x hx

/-! ### a plain locus is not touched by the disease model's bookkeeping -/

theorem plain_not_effect (cfg : Comp.Cfg) (wf : WfCfg cfg) (loc : Nat) (hk : cfg.kind loc = .plain) (inst : Nat) (o : Option Nat) :
    loc ∉ effectsOf cfg inst o := by
  cases o with
  | none => simp [effectsOf]
  | some x => simp only [effectsOf]; rw [wf.reg loc inst x, hk]; simp [watchedK]

theorem setCompartment_frame (cfg : Comp.Cfg) (wf : WfCfg cfg) (loc : Nat) (hk : cfg.kind loc = .plain) (w : W) (inst : Nat)
    (n : Node) (c : Nat) :
    (setCompartment cfg w inst n c).net = w.net ∧ (setCompartment cfg w inst n c).loci loc = w.loci loc := by
  unfold setCompartment
  obtain ⟨e1, _, e3⟩ := enterW_spec cfg wf (setComp w inst n (some c)) inst n
  exact ⟨e1, by rw [e3 loc, if_neg (plain_not_effect cfg wf loc hk _ _)]; rfl⟩

theorem changeCompartment_frame (cfg : Comp.Cfg) (wf : WfCfg cfg) (loc : Nat) (hk : cfg.kind loc = .plain) (w : W) (inst : Nat)
    (n : Node) (c : Nat) :
    (changeCompartment cfg w inst n c).net = w.net ∧ (changeCompartment cfg w inst n c).loci loc = w.loci loc :=
  ⟨(changeCompartment_net cfg wf w inst n c).1, changeCompartment_other cfg wf w inst n c loc (by intro x; rw [hk]; rfl)⟩

theorem addEdge_frame (cfg : Comp.Cfg) (wf : WfCfg cfg) (loc : Nat) (hk : cfg.kind loc = .plain) (w : W) (inst : Nat) (n m : Node) :
    (Comp.addEdge cfg w inst n m).net = w.net.addEdge n m ∧
    ∀ x, ((Comp.addEdge cfg w inst n m).loci loc).mem x = true ↔ (w.loci loc).mem x = true := by
  unfold Comp.addEdge
  obtain ⟨a1, _, a3⟩ := edgeHandlers_spec cfg { w with net := w.net.addEdge n m } inst n m true
  refine ⟨a1, fun x => ?_⟩
  rw [a3 loc x]
  have h1 := plain_not_effect cfg wf loc hk inst (w.comp inst n)
  have h2 := plain_not_effect cfg wf loc hk inst (w.comp inst m)
  simp [h1, h2]

theorem removeNode_frame (cfg : Comp.Cfg) (wf : WfCfg cfg) (loc : Nat) (hk : cfg.kind loc = .plain) (w : W) (inst : Nat) (n : Node) :
    (Comp.removeNode cfg w inst n).net = w.net.removeNode n ∧
    ∀ x, ((Comp.removeNode cfg w inst n).loci loc).mem x = true ↔ (w.loci loc).mem x = true := by
  unfold Comp.removeNode
  obtain ⟨a1, a2, a3⟩ := fold_incident cfg inst n (w.net.adj n) w
  obtain ⟨b1, _, b3⟩ := fold_nodeRemove cfg n
    (effectsOf cfg inst (((w.net.adj n).foldl (fun w m => edgeHandlers cfg w inst n m false) w).comp inst n))
    ((w.net.adj n).foldl (fun w m => edgeHandlers cfg w inst n m false) w)
  refine ⟨by simp only []; rw [b1, a1], fun x => ?_⟩
  simp only []
  rw [b3 loc x, a3 loc x]
  have h0 := plain_not_effect cfg wf loc hk inst
  constructor
  · rintro ⟨⟨h, _⟩, _⟩; exact h
  · intro h
    refine ⟨⟨h, ?_⟩, ?_⟩
    · rintro ⟨m, _, (h' | h'), _⟩ <;> exact h0 _ h'
    · rintro ⟨h', _⟩; exact h0 _ h'

end Sim
