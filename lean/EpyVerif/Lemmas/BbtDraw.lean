import EpyVerif.Lemmas.BbtSetSem
import Mathlib.Tactic.FieldSimp
import Mathlib.Tactic.Ring
import Mathlib.Tactic.Linarith
import Mathlib.Data.Rat.Defs
import Mathlib.Algebra.Order.Field.Rat
namespace Bbt
variable {α : Type}

/-- caches for sizes are right everywhere -/
def SizesOK : T α → Prop
  | .nil => True
  | .node l _ r _ ls rs => SizesOK l ∧ SizesOK r ∧ ls = size l ∧ rs = size r

/-- exact probability that `TreeNode.draw` returns `e` (i uniform on [0, len)) -/
def pr [DecidableEq α] : T α → α → ℚ
  | .nil, _ => 0
  | .node l d r _ ls rs, e =>
    let n : ℚ := (ls + 1 + rs : Nat)
    if ls + 1 + rs = 1 then (if e = d then 1 else 0)
    else (ls / n) * pr l e + (if e = d then 1 / n else 0) + (rs / n) * pr r e

theorem pr_not_mem [DecidableEq α] (t : T α) (e : α) (h : e ∉ toList t) : pr t e = 0 := by
  induction t with
  | nil => rfl
  | node l d r hh ls rs ihl ihr =>
    simp only [toList, List.mem_append, List.mem_cons, not_or] at h
    simp only [pr]
    split <;> simp [h.2.1, ihl h.1, ihr h.2.2]

theorem pr_uniform [DecidableEq α] (t : T α) (e : α) (hs : SizesOK t) (nd : (toList t).Nodup)
    (h : e ∈ toList t) : pr t e = 1 / (size t : ℚ) := by
  induction t with
  | nil => simp [toList] at h
  | node l d r hh ls rs ihl ihr =>
    obtain ⟨sl, sr, rfl, rfl⟩ := hs
    simp only [toList] at nd h
    rw [List.nodup_append] at nd
    obtain ⟨ndl, ndr, disj⟩ := nd
    rw [List.nodup_cons] at ndr
    simp only [pr, size]
    have hn : ((size l + 1 + size r : Nat) : ℚ) ≠ 0 := by positivity
    rcases List.mem_append.1 h with hl | hr
    · -- e in left
      have hne : e ≠ d := fun hh => (disj e hl d (List.mem_cons_self) ) hh
      have hnr : e ∉ toList r := fun hh => (disj e hl e (List.mem_cons_of_mem _ hh)) rfl
      have hpos : size l ≠ 0 := by rw [size_eq_length]; intro h0; simp [List.length_eq_zero_iff.1 h0] at hl
      have hq : (size l : ℚ) ≠ 0 := by exact_mod_cast hpos
      rw [ihl sl ndl hl, pr_not_mem r e hnr]
      split
      · omega
      · simp [hne]; field_simp
    · rcases List.mem_cons.1 hr with rfl | hr
      · have hnl : e ∉ toList l := fun hh => (disj e hh e List.mem_cons_self) rfl
        rw [pr_not_mem l e hnl, pr_not_mem r e ndr.1]
        split
        · rename_i h1; simp; have : size l = 0 ∧ size r = 0 := by omega
          simp [this.1, this.2]
        · simp
      · have hne : e ≠ d := fun hh => ndr.1 (hh ▸ hr)
        have hnl : e ∉ toList l := fun hh => (disj e hh e (List.mem_cons_of_mem _ hr)) rfl
        have hpos : size r ≠ 0 := by rw [size_eq_length]; intro h0; simp [List.length_eq_zero_iff.1 h0] at hr
        have hq : (size r : ℚ) ≠ 0 := by exact_mod_cast hpos
        rw [ihr sr ndr.2 hr, pr_not_mem l e hnl]
        split
        · omega
        · simp [hne]; field_simp

end Bbt
