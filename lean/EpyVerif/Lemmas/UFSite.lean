import EpyVerif.Lemmas.UFRun
/-! Site percolation reduced to bond percolation: with unoccupied sites viewed as singleton components (`alpha`), occupying
    a site is making it a singleton and then occupying the bonds to its occupied neighbours. -/
set_option linter.unusedSectionVars false
namespace UF

/-- unoccupied sites (marker `un`) seen as singleton components -/
def alpha (un : Int) (c : Arr) : Arr := fun x => if c x = un then -1 else c x

/-- occupied sites are below `N`, the marker is `N + 1`, and the parent of an occupied site is occupied -/
structure SiteOK (N : Nat) (un : Int) (c : Arr) : Prop where
  un_eq : un = N + 1
  bound : ∀ x, c x ≠ un → x < N
  closed : ∀ x, c x ≠ un → 0 ≤ c x → c (c x).toNat ≠ un

theorem alpha_upd (un : Int) (c : Arr) (n : Nat) (v : Int) (hv : v ≠ un) : alpha un (upd c n v) = upd (alpha un c) n v := by
  funext x; unfold alpha upd; by_cases h : x = n <;> simp [h, hv]

theorem alpha_neg (un : Int) (c : Arr) (x : Nat) (h : c x < 0) (hun : 0 < un) : alpha un c x = c x := by
  unfold alpha; have : c x ≠ un := by omega
  simp [this]

/-- number of unoccupied sites -/
def unocc (N : Nat) (un : Int) (c : Arr) : Nat := (List.range N).countP (fun x => decide (c x = un))

theorem unocc_congr (N : Nat) (un : Int) (c c' : Arr) (h : ∀ x, c' x = un ↔ c x = un) : unocc N un c' = unocc N un c := by
  unfold unocc; apply List.countP_congr; intro x _; simp [h x]

/-- the roots of the singleton view are the occupied roots and the unoccupied sites -/
theorem nroots_alpha (N : Nat) (un : Int) (c : Arr) (hun : 0 < un) : nroots N (alpha un c) = nroots N c + unocc N un c := by
  unfold nroots unocc
  rw [← countP_or_disj _ (fun x => decide (c x < 0)) (fun x => decide (c x = un)) (by intro x ⟨a, b⟩; simp at a b; omega)]
  apply List.countP_congr
  intro x _
  unfold alpha
  by_cases h : c x = un
  · simp [h]
  · simp [h]

/-- the counters of the site variant against those of the singleton view, while the neighbours of the new site `nr` are visited:
    `acc.2.1` is the size of `nr`'s component so far, `acc.2.2` the number of components among occupied sites -/
structure Rel (N : Nat) (un : Int) (nr : Nat) (acc : Arr × Nat × Nat) (g n g0 : Nat) : Prop where
  ncomp : n = acc.2.2 + unocc N un acc.1
  gcc : g = max g0 acc.2.1
  csize : acc.2.1 = (- acc.1 nr).toNat

/-- following parents from an occupied site never meets an unoccupied one, so the find (with its path compression) is the same
    in both views -/
theorem rootOf_alpha (N : Nat) (un : Int) : ∀ (f : Nat) (c : Arr) (m : Nat), SiteOK N un c → c m ≠ un →
    (rootOf f (alpha un c) m).2 = (rootOf f c m).2 ∧ alpha un (rootOf f c m).1 = (rootOf f (alpha un c) m).1 ∧
    SiteOK N un (rootOf f c m).1 ∧ (∀ x, (rootOf f c m).1 x = un ↔ c x = un) ∧ c (rootOf f c m).2 ≠ un := by
  intro f
  induction f with
  | zero => intro c m ok hm; exact ⟨rfl, rfl, ok, fun _ => Iff.rfl, hm⟩
  | succ f ih =>
    intro c m ok hm
    have ham : alpha un c m = c m := by unfold alpha; simp [hm]
    unfold rootOf
    rw [ham]
    by_cases hneg : c m < 0
    · exact ⟨by simp [hneg], by simp [hneg], by simpa [hneg] using ok, by simp [hneg], by simpa [hneg] using hm⟩
    · simp only [hneg, if_false]
      have h0 : 0 ≤ c m := by omega
      have hpar := ok.closed m hm h0
      obtain ⟨e1, e2, ok1, e4, e5⟩ := ih c (c m).toNat ok hpar
      have hr_lt : (rootOf f c (c m).toNat).2 < N := ok.bound _ e5
      have hr_ne : ((rootOf f c (c m).toNat).2 : Int) ≠ un := by rw [ok.un_eq]; omega
      refine ⟨e1, ?_, ?_, ?_, e5⟩
      · rw [e1, ← e2]; exact alpha_upd un _ m _ hr_ne
      · refine ⟨ok.un_eq, ?_, ?_⟩
        · intro x hx
          by_cases hxm : x = m
          · subst hxm; exact ok.bound x hm
          · simp only [upd, hxm, if_false] at hx; exact ok.bound x (fun h => hx ((e4 x).2 h))
        · intro x hx hx0
          by_cases hxm : x = m
          · subst hxm
            simp only [upd, if_true, Int.toNat_natCast]
            by_cases hrm : (rootOf f c (c x).toNat).2 = x
            · simp only [hrm, if_true]; exact fun h => hr_ne (by rw [hrm]; exact h)
            · simp only [hrm, if_false]; exact fun h => e5 ((e4 _).1 h)
          · simp only [upd, hxm, if_false] at hx hx0 ⊢
            have hcx : c x ≠ un := fun h => hx ((e4 x).2 h)
            have := ok1.closed x hx hx0
            by_cases hpm : ((rootOf f c (c m).toNat).1 x).toNat = m
            · simp [hpm]; exact hr_ne
            · simp only [hpm, if_false]; exact this
      · intro x
        by_cases hxm : x = m
        · subst hxm; simp only [upd, if_true]; exact ⟨fun h => absurd h hr_ne, fun h => absurd h hm⟩
        · simp only [upd, hxm, if_false]; exact e4 x

theorem alpha_join (un : Int) (c : Arr) (r1 r2 : Nat) (h1 : c r1 < 0) (h2 : c r2 < 0) (hun : 0 < un) (hr1 : (r1 : Int) ≠ un)
    (hne : r1 ≠ r2) : alpha un (join c r1 r2) = join (alpha un c) r1 r2 := by
  have a1 : alpha un c r1 = c r1 := by
    unfold alpha; have : c r1 ≠ un := by omega
    simp [this]
  have a2 : alpha un c r2 = c r2 := by
    unfold alpha; have : c r2 ≠ un := by omega
    simp [this]
  have e1 : upd c r2 (r1 : Int) r1 = c r1 := by simp [upd, hne]
  have e1' : upd (alpha un c) r2 (r1 : Int) r1 = c r1 := by simp [upd, hne, a1]
  unfold join
  simp only []
  rw [e1, e1', a2, alpha_upd _ _ _ _ (by omega), alpha_upd _ _ _ _ hr1]

theorem siteOK_join (N : Nat) (un : Int) (c : Arr) (r1 r2 : Nat) (ok : SiteOK N un c) (h1 : c r1 < 0) (h2 : c r2 < 0)
    (hr1 : r1 < N) (hne : r1 ≠ r2) : SiteOK N un (join c r1 r2) ∧ (∀ x, join c r1 r2 x = un ↔ c x = un) ∧ join c r1 r2 r1 < 0 := by
  have hun : un = N + 1 := ok.un_eq
  have hne' : r2 ≠ r1 := fun h => hne h.symm
  have v1 : join c r1 r2 r1 = c r1 + c r2 := by simp [join, upd, hne]
  have v2 : join c r1 r2 r2 = (r1 : Int) := by simp [join, upd, hne']
  have v3 : ∀ x, x ≠ r1 → x ≠ r2 → join c r1 r2 x = c x := by intro x a b; simp [join, upd, a, b]
  have key : ∀ x, join c r1 r2 x = un ↔ c x = un := by
    intro x
    by_cases hx1 : x = r1
    · subst hx1; rw [v1]; constructor <;> intro h <;> omega
    · by_cases hx2 : x = r2
      · subst hx2; rw [v2]; constructor <;> intro h <;> omega
      · rw [v3 x hx1 hx2]
  refine ⟨⟨hun, fun x hx => ok.bound x (fun h => hx ((key x).2 h)), ?_⟩, key, by rw [v1]; omega⟩
  intro x hx hx0
  have hcx : c x ≠ un := fun h => hx ((key x).2 h)
  rw [Ne, key]
  by_cases hx1 : x = r1
  · subst hx1; rw [v1] at hx0; omega
  · by_cases hx2 : x = r2
    · subst hx2; rw [v2]; simp only [Int.toNat_natCast]; omega
    · rw [v3 x hx1 hx2] at hx0 ⊢; exact ok.closed x hcx hx0

/-- the array part of `occupyBond` does not depend on the counters -/
theorem occupyBond_arr (F : Nat) (c : Arr) (g n g' n' a b : Nat) : (occupyBond F c g n a b).1 = (occupyBond F c g' n' a b).1 := by
  unfold occupyBond; simp only []; split <;> rfl

/-- one neighbour of the newly occupied site `nr` (a root), in both views -/
def siteStep (F : Nat) (un : Int) (nr : Nat) (acc : Arr × Nat × Nat) (m : Nat) : Arr × Nat × Nat :=
  if acc.1 m ≠ un then
    let p := rootOf F acc.1 m
    if p.2 ≠ nr then
      let c' := join p.1 nr p.2
      (c', (- c' nr).toNat, acc.2.2 - 1)
    else (p.1, acc.2.1, acc.2.2)
  else acc

theorem rootOf_keeps_root (nr : Nat) : ∀ (f : Nat) (c : Arr) (k : Nat), c nr < 0 → (rootOf f c k).1 nr < 0 := by
  intro f; induction f with
  | zero => intro c k h; exact h
  | succ f ih =>
    intro c k h; unfold rootOf
    split
    · exact h
    · rename_i hk; simp only [upd]
      by_cases hnk : nr = k
      · subst hnk; exact absurd h hk
      · simp only [hnk, if_false]; exact ih c _ h

/-- **one neighbour**: in the singleton view, joining the new site `nr` to an occupied neighbour `m` is occupying the bond
    `(nr, m)`; an unoccupied neighbour changes nothing -/
theorem siteStep_inv (N : Nat) (un : Int) (nr : Nat) (acc : Arr × Nat × Nat) (m : Nat) (E : List (Nat × Nat)) (ρ d : Nat → Nat) (g n g0 : Nat)
    (ok : SiteOK N un acc.1) (hroot : acc.1 nr < 0) (hnr : nr < N) (hm : m < N) (inv : Inv N E (alpha un acc.1) ρ d g n)
    (rel : Rel N un nr acc g n g0) :
    SiteOK N un (siteStep (N + 1) un nr acc m).1 ∧ (siteStep (N + 1) un nr acc m).1 nr < 0 ∧
    (∀ x, (siteStep (N + 1) un nr acc m).1 x = un ↔ acc.1 x = un) ∧
    ∃ ρ' d' g' n', Inv N (if acc.1 m ≠ un then (nr, m) :: E else E) (alpha un (siteStep (N + 1) un nr acc m).1) ρ' d' g' n' ∧
      Rel N un nr (siteStep (N + 1) un nr acc m) g' n' g0 := by
  have hun : 0 < un := by rw [ok.un_eq]; omega
  have hnr' : (nr : Int) ≠ un := by rw [ok.un_eq]; omega
  by_cases hmo : acc.1 m ≠ un
  · obtain ⟨e1, e2, ok1, e4, e5⟩ := rootOf_alpha N un (N + 1) acc.1 m ok hmo
    have hroot_a : alpha un acc.1 nr < 0 := by unfold alpha; split <;> omega
    have hp1 : rootOf (N + 1) (alpha un acc.1) nr = (alpha un acc.1, nr) := by unfold rootOf; simp [hroot_a]
    have hkeep : (rootOf (N + 1) acc.1 m).1 nr < 0 := rootOf_keeps_root nr _ _ _ hroot
    obtain ⟨s1, rep1, keepA, _, _⟩ := rootOf_spec (N + 1) (alpha un acc.1) d m inv.depth inv.rep (by have := inv.dbound m; omega)
    have hr2 : (rootOf (N + 1) acc.1 m).1 (rootOf (N + 1) acc.1 m).2 < 0 := by
      have h1 := rep1.root m
      rw [← s1, ← e2, e1] at h1
      unfold alpha at h1
      have hne : (rootOf (N + 1) acc.1 m).1 (rootOf (N + 1) acc.1 m).2 ≠ un := fun h => e5 ((e4 _).1 h)
      simpa [hne] using h1
    -- the step itself, unfolded
    have hst : siteStep (N + 1) un nr acc m =
        (if (rootOf (N + 1) acc.1 m).2 ≠ nr then
          (join (rootOf (N + 1) acc.1 m).1 nr (rootOf (N + 1) acc.1 m).2,
           (- join (rootOf (N + 1) acc.1 m).1 nr (rootOf (N + 1) acc.1 m).2 nr).toNat, acc.2.2 - 1)
         else ((rootOf (N + 1) acc.1 m).1, acc.2.1, acc.2.2)) := by
      unfold siteStep; rw [if_pos hmo]
    have hob : (occupyBond (N + 1) (alpha un acc.1) g n nr m).1 =
        (if (rootOf (N + 1) acc.1 m).2 ≠ nr then join (rootOf (N + 1) (alpha un acc.1) m).1 nr (rootOf (N + 1) acc.1 m).2
         else (rootOf (N + 1) (alpha un acc.1) m).1) := by
      unfold occupyBond; simp only [hp1, e1]; split <;> rfl
    have hobv : (occupyBond (N + 1) (alpha un acc.1) g n nr m).2 =
        (if (rootOf (N + 1) acc.1 m).2 ≠ nr then
          (max g (- (join (rootOf (N + 1) (alpha un acc.1) m).1 nr (rootOf (N + 1) acc.1 m).2) nr).toNat, n - 1)
         else (g, n)) := by
      unfold occupyBond; simp only [hp1, e1]; split <;> rfl
    -- the find leaves the new site's own entry alone
    have hc2nr : (rootOf (N + 1) acc.1 m).1 nr = acc.1 nr := by
      have h1 := congrFun e2 nr
      rw [alpha_neg un _ nr hkeep hun, keepA nr hroot_a, alpha_neg un _ nr hroot hun] at h1
      exact h1
    -- the number of components among occupied sites is positive: `nr` is one of their roots
    have hns : 1 ≤ acc.2.2 := by
      have h1 := inv.ncomp_eq
      rw [nroots_alpha N un acc.1 hun, rel.ncomp] at h1
      have h2 : 0 < nroots N acc.1 := by
        unfold nroots; rw [List.countP_pos_iff]
        exact ⟨nr, List.mem_range.2 hnr, by simpa using hroot⟩
      omega
    obtain ⟨ρ', d', hinv⟩ := occupyBond_inv inv nr m hnr hm
    rw [if_pos hmo, hst]
    by_cases hne : (rootOf (N + 1) acc.1 m).2 ≠ nr
    · rw [if_pos hne] at hob ⊢
      have hne' : nr ≠ (rootOf (N + 1) acc.1 m).2 := fun h => hne h.symm
      obtain ⟨okj, keyj, rootj⟩ := siteOK_join N un _ nr _ ok1 hkeep hr2 hnr hne'
      refine ⟨okj, rootj, fun x => (keyj x).trans (e4 x), ρ', d', (occupyBond (N + 1) (alpha un acc.1) g n nr m).2.1,
        (occupyBond (N + 1) (alpha un acc.1) g n nr m).2.2, ?_, ?_⟩
      · show Inv N ((nr, m) :: E) (alpha un (join (rootOf (N + 1) acc.1 m).1 nr (rootOf (N + 1) acc.1 m).2)) ρ' d' _ _
        rw [alpha_join un _ nr _ hkeep hr2 hun hnr' hne', e2, ← hob]; exact hinv
      · rw [hobv, if_pos hne]
        have hjv : join (rootOf (N + 1) (alpha un acc.1) m).1 nr (rootOf (N + 1) acc.1 m).2 nr
            = join (rootOf (N + 1) acc.1 m).1 nr (rootOf (N + 1) acc.1 m).2 nr := by
          rw [← e2, ← alpha_join un _ nr _ hkeep hr2 hun hnr' hne', alpha_neg un _ nr rootj hun]
        have hjn : join (rootOf (N + 1) acc.1 m).1 nr (rootOf (N + 1) acc.1 m).2 nr
            = acc.1 nr + (rootOf (N + 1) acc.1 m).1 (rootOf (N + 1) acc.1 m).2 := by
          simp [join, upd, hne', hc2nr]
        refine ⟨?_, ?_, rfl⟩
        · show n - 1 = (acc.2.2 - 1) + unocc N un (join (rootOf (N + 1) acc.1 m).1 nr (rootOf (N + 1) acc.1 m).2)
          rw [unocc_congr N un acc.1 _ (fun x => (keyj x).trans (e4 x))]
          have := rel.ncomp; omega
        · show max g _ = max g0 (- join (rootOf (N + 1) acc.1 m).1 nr (rootOf (N + 1) acc.1 m).2 nr).toNat
          rw [hjv, hjn]
          have h1 := rel.gcc; have h2 := rel.csize
          rw [h1, h2]; omega
    · rw [if_neg hne] at hob ⊢
      refine ⟨ok1, hkeep, e4, ρ', d', (occupyBond (N + 1) (alpha un acc.1) g n nr m).2.1,
        (occupyBond (N + 1) (alpha un acc.1) g n nr m).2.2, ?_, ?_⟩
      · show Inv N ((nr, m) :: E) (alpha un (rootOf (N + 1) acc.1 m).1) ρ' d' _ _
        rw [e2, ← hob]; exact hinv
      · rw [hobv, if_neg hne]
        refine ⟨?_, rel.gcc, ?_⟩
        · show n = acc.2.2 + unocc N un (rootOf (N + 1) acc.1 m).1
          rw [unocc_congr N un acc.1 _ e4]; exact rel.ncomp
        · show acc.2.1 = (- (rootOf (N + 1) acc.1 m).1 nr).toNat
          rw [hc2nr]; exact rel.csize
  · have hst : siteStep (N + 1) un nr acc m = acc := by unfold siteStep; rw [if_neg hmo]
    rw [hst, if_neg hmo]
    exact ⟨ok, hroot, fun _ => Iff.rfl, ρ, d, g, n, inv, rel⟩

/-- all the neighbours of the new site -/
theorem siteFold_inv (N : Nat) (un : Int) (nr : Nat) (hnr : nr < N) : ∀ (nbrs : List Nat) (acc : Arr × Nat × Nat) (E : List (Nat × Nat))
    (ρ d : Nat → Nat) (g n g0 : Nat), SiteOK N un acc.1 → acc.1 nr < 0 → (∀ m ∈ nbrs, m < N) → Inv N E (alpha un acc.1) ρ d g n →
    Rel N un nr acc g n g0 →
    SiteOK N un (nbrs.foldl (siteStep (N + 1) un nr) acc).1 ∧ (nbrs.foldl (siteStep (N + 1) un nr) acc).1 nr < 0 ∧
    (∀ x, (nbrs.foldl (siteStep (N + 1) un nr) acc).1 x = un ↔ acc.1 x = un) ∧
    ∃ ρ' d' g' n', Inv N (((nbrs.filter (fun m => decide (acc.1 m ≠ un))).map (fun m => (nr, m))).reverse ++ E)
      (alpha un (nbrs.foldl (siteStep (N + 1) un nr) acc).1) ρ' d' g' n' ∧
      Rel N un nr (nbrs.foldl (siteStep (N + 1) un nr) acc) g' n' g0 := by
  intro nbrs
  induction nbrs with
  | nil => intro acc E ρ d g n g0 ok hroot _ inv rel; exact ⟨ok, hroot, fun _ => Iff.rfl, ρ, d, g, n, by simpa using inv, rel⟩
  | cons m ms ih =>
    intro acc E ρ d g n g0 ok hroot hb inv rel
    obtain ⟨ok1, root1, un1, ρ1, d1, g1, n1, inv1, rel1⟩ := siteStep_inv N un nr acc m E ρ d g n g0 ok hroot hnr (hb m List.mem_cons_self) inv rel
    obtain ⟨ok2, root2, un2, ρ2, d2, g2, n2, inv2, rel2⟩ := ih (siteStep (N + 1) un nr acc m) _ ρ1 d1 g1 n1 g0 ok1 root1
      (fun x hx => hb x (List.mem_cons_of_mem _ hx)) inv1 rel1
    simp only [List.foldl_cons]
    refine ⟨ok2, root2, fun x => (un2 x).trans (un1 x), ρ2, d2, g2, n2, ?_, rel2⟩
    have hf : (ms.filter (fun x => decide ((siteStep (N + 1) un nr acc m).1 x ≠ un))) = ms.filter (fun x => decide (acc.1 x ≠ un)) := by
      apply List.filter_congr; intro x _; simp only [ne_eq, decide_not, un1 x]
    rw [hf] at inv2
    by_cases hmo : acc.1 m ≠ un
    · simp only [List.filter_cons, hmo, decide_true, if_true, List.map_cons, List.reverse_cons, List.append_assoc, List.singleton_append]
      simpa [hmo] using inv2
    · have : decide (acc.1 m ≠ un) = false := by simpa using hmo
      simp only [List.filter_cons, this, Bool.false_eq_true, if_false]
      simpa [hmo] using inv2

/-- between two site occupations: the site variant's counters (`gcc`, `ncomp`: among occupied sites only; both 0 before the
    first occupation) against those of the singleton view (`g`, `n`) -/
structure SRel (N : Nat) (un : Int) (c : Arr) (gcc ncomp g n : Nat) : Prop where
  cnt : n = ncomp + unocc N un c
  big : g = max 1 gcc
  pos : (∀ x, c x = un) ∨ 1 ≤ gcc

/-- **occupying one site** (an unoccupied site `nr`): afterwards the singleton view satisfies the bond invariant for the working
    network extended by the bonds from `nr` to its already occupied neighbours; only `nr` changed its occupation status; and the
    site variant's own counters stay in step with those of the singleton view -/
theorem occupySite_inv (N : Nat) (un : Int) (c : Arr) (gcc ncomp nr : Nat) (nbrs : List Nat) (E : List (Nat × Nat)) (ρ d : Nat → Nat) (g n : Nat)
    (ok : SiteOK N un c) (hnr : nr < N) (hun : c nr = un) (hb : ∀ m ∈ nbrs, m < N) (inv : Inv N E (alpha un c) ρ d g n)
    (srel : SRel N un c gcc ncomp g n) :
    SiteOK N un (occupySite (N + 1) un c gcc ncomp nr nbrs).1 ∧
    (∀ x, (occupySite (N + 1) un c gcc ncomp nr nbrs).1 x = un ↔ (c x = un ∧ x ≠ nr)) ∧
    ∃ ρ' d' g' n', Inv N (((nbrs.filter (fun m => decide (m = nr ∨ c m ≠ un))).map (fun m => (nr, m))).reverse ++ E)
      (alpha un (occupySite (N + 1) un c gcc ncomp nr nbrs).1) ρ' d' g' n' ∧
      SRel N un (occupySite (N + 1) un c gcc ncomp nr nbrs).1 (occupySite (N + 1) un c gcc ncomp nr nbrs).2.1
        (occupySite (N + 1) un c gcc ncomp nr nbrs).2.2 g' n' := by
  have hunpos : un = N + 1 := ok.un_eq
  -- the new singleton
  have ok0 : SiteOK N un (upd c nr (-1)) := by
    refine ⟨ok.un_eq, ?_, ?_⟩
    · intro x hx
      by_cases hx' : x = nr
      · rw [hx']; exact hnr
      · simp only [upd, hx', if_false] at hx; exact ok.bound x hx
    · intro x hx hx0
      by_cases hx' : x = nr
      · subst hx'; simp [upd] at hx0
      · simp only [upd, hx', if_false] at hx hx0 ⊢
        by_cases hp : (c x).toNat = nr
        · simp only [hp, if_true]; omega
        · simp only [hp, if_false]; exact ok.closed x hx hx0
  have ha0 : alpha un (upd c nr (-1)) = alpha un c := by
    funext x; unfold alpha upd
    by_cases hx' : x = nr
    · subst hx'; simp [hun]
    · simp [hx']
  have hroot0 : upd c nr (-1) nr < 0 := by simp [upd]
  -- one unoccupied site fewer
  have hu0 : unocc N un (upd c nr (-1)) + 1 = unocc N un c := by
    unfold unocc
    apply countP_flip_one _ (fun x => decide (c x = un)) (fun x => decide (upd c nr (-1) x = un)) nr
      (List.mem_range.2 hnr) List.nodup_range
    · simp [hun]
    · simp [upd]; omega
    · intro x hx; simp [upd, hx]
  have rel0 : Rel N un nr (upd c nr (-1), 1, ncomp + 1) g n g := by
    refine ⟨?_, ?_, ?_⟩
    · show n = (ncomp + 1) + unocc N un (upd c nr (-1))
      have := srel.cnt; omega
    · show g = max g 1
      have := srel.big; omega
    · show 1 = (- upd c nr (-1) nr).toNat
      simp [upd]
  obtain ⟨ok1, root1, un1, ρ1, d1, g1, n1, inv1, rel1⟩ := siteFold_inv N un nr hnr nbrs (upd c nr (-1), 1, ncomp + 1) E ρ d g n g ok0 hroot0 hb
    (by rw [ha0]; exact inv) rel0
  have harr : (occupySite (N + 1) un c gcc ncomp nr nbrs).1 = (nbrs.foldl (siteStep (N + 1) un nr) (upd c nr (-1), 1, ncomp + 1)).1 := rfl
  have hg : (occupySite (N + 1) un c gcc ncomp nr nbrs).2.1 = max gcc (nbrs.foldl (siteStep (N + 1) un nr) (upd c nr (-1), 1, ncomp + 1)).2.1 := rfl
  have hn : (occupySite (N + 1) un c gcc ncomp nr nbrs).2.2 = (nbrs.foldl (siteStep (N + 1) un nr) (upd c nr (-1), 1, ncomp + 1)).2.2 := rfl
  rw [harr, hg, hn]
  refine ⟨ok1, ?_, ρ1, d1, g1, n1, ?_, ?_⟩
  · intro x; rw [un1 x]; simp only [upd]
    by_cases hx' : x = nr
    · subst hx'; simp; omega
    · simp [hx']
  · have hf : nbrs.filter (fun m => decide ((upd c nr (-1), 1, ncomp + 1).1 m ≠ un)) = nbrs.filter (fun m => decide (m = nr ∨ c m ≠ un)) := by
      apply List.filter_congr; intro x _
      simp only [upd]
      by_cases hx' : x = nr
      · subst hx'; simp; omega
      · simp [hx']
    rw [hf] at inv1; exact inv1
  · have h1 := rel1.gcc; have h2 := rel1.csize; have h3 := srel.big
    refine ⟨rel1.ncomp, by omega, Or.inr (by omega)⟩

end UF
