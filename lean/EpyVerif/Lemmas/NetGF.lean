import EpyVerif.Model.NetGF
import Mathlib.Algebra.BigOperators.Group.List.Basic
import Mathlib.Tactic.Ring
import Mathlib.Tactic.FieldSimp
import Mathlib.Algebra.Order.Field.Rat
/-! C17, network clause: the degree-distribution GF of a network has coefficients hist/N, value 1 at 1 and
    first derivative 2M/N at 1. Degrees as networkx reports them (a self-loop counts twice). -/
namespace NetGF

theorem sum_ind (d : Nat) : ∀ n, d < n → ((List.range n).map (fun i => if d = i then 1 else 0)).sum = 1 := by
  intro n
  induction n with
  | zero => intro h; omega
  | succ n ihn =>
    intro hlt
    rw [List.range_succ, List.map_append, List.sum_append]
    by_cases e : d = n
    · subst e
      have z : ((List.range d).map (fun i => if d = i then 1 else 0)).sum = 0 := by
        apply List.sum_eq_zero
        intro x hx
        simp only [List.mem_map, List.mem_range] at hx
        obtain ⟨i, hi, rfl⟩ := hx
        have : ¬ d = i := by omega
        simp [this]
      simp [z]
    · have : d < n := by omega
      rw [ihn this]; simp [e]

theorem sum_wind (d : Nat) : ∀ n, d < n → ((List.range n).map (fun i => if d = i then i else 0)).sum = d := by
  intro n
  induction n with
  | zero => intro h; omega
  | succ n ihn =>
    intro hlt
    rw [List.range_succ, List.map_append, List.sum_append]
    by_cases e : d = n
    · subst e
      have z : ((List.range d).map (fun i => if d = i then i else 0)).sum = 0 := by
        apply List.sum_eq_zero
        intro x hx
        simp only [List.mem_map, List.mem_range] at hx
        obtain ⟨i, hi, rfl⟩ := hx
        have : ¬ d = i := by omega
        simp [this]
      simp [z]
    · have : d < n := by omega
      rw [ihn this]; simp [e]

theorem sum_count_range (ds : List Nat) (maxk : Nat) (h : ∀ d ∈ ds, d ≤ maxk) :
    ((List.range (maxk+1)).map (fun i => ds.count i)).sum = ds.length := by
  induction ds with
  | nil => simp
  | cons d ds ih =>
    have hd : d ≤ maxk := h d List.mem_cons_self
    have := ih (fun x hx => h x (List.mem_cons_of_mem _ hx))
    simp only [List.count_cons, List.length_cons, beq_iff_eq]
    rw [List.sum_map_add, this, sum_ind d (maxk+1) (by omega)]

theorem sum_weighted_count_range (ds : List Nat) (maxk : Nat) (h : ∀ d ∈ ds, d ≤ maxk) :
    ((List.range (maxk+1)).map (fun i => i * ds.count i)).sum = ds.sum := by
  induction ds with
  | nil => simp
  | cons d ds ih =>
    have hd : d ≤ maxk := h d List.mem_cons_self
    have := ih (fun x hx => h x (List.mem_cons_of_mem _ hx))
    simp only [List.count_cons, List.sum_cons, Nat.mul_add, beq_iff_eq]
    rw [List.sum_map_add, this, Nat.add_comm]
    congr 1
    have e : (fun i => i * if d = i then 1 else 0) = (fun i => if d = i then i else 0) := by
      funext i; split <;> simp
    rw [e, sum_wind d (maxk+1) (by omega)]

theorem sum_map_div (l : List Nat) (f : Nat → ℚ) (c : ℚ) : (l.map (fun i => f i / c)).sum = (l.map f).sum / c := by
  induction l with
  | nil => simp
  | cons x xs ih => simp only [List.map_cons, List.sum_cons, ih]; ring

theorem cast_sum (l : List Nat) (f : Nat → Nat) : (((l.map f).sum : Nat) : ℚ) = (l.map (fun i => ((f i : Nat) : ℚ))).sum := by
  induction l with
  | nil => simp
  | cons x xs ih => simp only [List.map_cons, List.sum_cons]; push_cast; rw [ih]

/-- G(1) = 1 -/
theorem eval_one (ds : List Nat) (maxk : Nat) (hne : ds ≠ []) (h : ∀ d ∈ ds, d ≤ maxk) :
    (coeffs ds maxk).sum = 1 := by
  unfold coeffs
  have hN : (ds.length : ℚ) ≠ 0 := by
    have : ds.length ≠ 0 := fun h => hne (List.length_eq_zero_iff.1 h)
    exact_mod_cast this
  rw [sum_map_div (List.range (maxk+1)) (fun i => ((ds.count i : Nat) : ℚ)) _]
  rw [← cast_sum, sum_count_range ds maxk h]
  field_simp

/-- G'(1) = (Σ degrees) / N -/
theorem dx_one (ds : List Nat) (maxk : Nat) (h : ∀ d ∈ ds, d ≤ maxk) :
    ((List.range (maxk+1)).map (fun (i : Nat) => ((i : Nat) : ℚ) * (((ds.count i : Nat) : ℚ) / ((ds.length : Nat) : ℚ)))).sum
      = ((ds.sum : Nat) : ℚ) / ((ds.length : Nat) : ℚ) := by
  have e : (fun (i : Nat) => ((i : Nat) : ℚ) * (((ds.count i : Nat) : ℚ) / ((ds.length : Nat) : ℚ)))
      = (fun (i : Nat) => (((i * ds.count i : Nat)) : ℚ) / ((ds.length : Nat) : ℚ)) := by
    funext i; push_cast; ring
  rw [e, sum_map_div (List.range (maxk+1)) (fun i => ((i * ds.count i : Nat) : ℚ)) _]
  rw [← cast_sum, sum_weighted_count_range ds maxk h]

theorem sum_ind_list (x : Nat) : ∀ (ns : List Nat), ns.Nodup → x ∈ ns → (ns.map (fun v => if x = v then 1 else 0)).sum = 1 := by
  intro ns
  induction ns with
  | nil => intro _ hx; simp at hx
  | cons n ns ih2 =>
    intro hnd hx
    rw [List.nodup_cons] at hnd
    simp only [List.map_cons, List.sum_cons]
    rcases List.mem_cons.1 hx with rfl | hx'
    · have z : (ns.map (fun v => if x = v then 1 else 0)).sum = 0 := by
        apply List.sum_eq_zero
        intro y hy
        simp only [List.mem_map] at hy
        obtain ⟨v, hv, rfl⟩ := hy
        have : ¬ x = v := fun e => hnd.1 (e ▸ hv)
        simp [this]
      simp [z]
    · have : ¬ x = n := fun e => hnd.1 (e ▸ hx')
      simp [this, ih2 hnd.2 hx']

/-- summing degrees over the nodes counts every edge end once -/
theorem count_sum_nodes (ns l : List Nat) (hnd : ns.Nodup) (hl : ∀ x ∈ l, x ∈ ns) :
    (ns.map (fun v => l.count v)).sum = l.length := by
  induction l with
  | nil => simp
  | cons x xs ih =>
    have := ih (fun y hy => hl y (List.mem_cons_of_mem _ hy))
    simp only [List.count_cons, List.length_cons, beq_iff_eq]
    rw [List.sum_map_add, this]
    congr 1
    exact sum_ind_list x ns hnd (hl x List.mem_cons_self)

theorem handshake (ns : List Nat) (es : List (Nat × Nat)) (hnd : ns.Nodup)
    (h1 : ∀ e ∈ es, e.1 ∈ ns) (h2 : ∀ e ∈ es, e.2 ∈ ns) :
    (ns.map (deg es)).sum = 2 * es.length := by
  unfold deg
  rw [List.sum_map_add]
  rw [count_sum_nodes ns (es.map (·.1)) hnd (by intro x hx; obtain ⟨e, he, rfl⟩ := List.mem_map.1 hx; exact h1 e he)]
  rw [count_sum_nodes ns (es.map (·.2)) hnd (by intro x hx; obtain ⟨e, he, rfl⟩ := List.mem_map.1 hx; exact h2 e he)]
  simp; omega

end NetGF

