import EpyVerif.Lemmas.UFBond
/-! C13: initial state, whole occupation sequences, and the sampling schedule. -/
set_option linter.unusedSectionVars false
namespace UF

theorem cls_id (N r : Nat) (hr : r < N) : cls N id r = 1 := by
  unfold cls
  have : ∀ (l : List Nat), l.Nodup → r ∈ l → l.countP (fun x => decide (id x = r)) = 1 := by
    intro l
    induction l with
    | nil => intro _ h; simp at h
    | cons y ys ih =>
      intro hnd hm
      rw [List.nodup_cons] at hnd
      simp only [List.countP_cons, id]
      by_cases hy : y = r
      · subst hy
        have : ys.countP (fun x => decide (x = y)) = 0 := by
          rw [List.countP_eq_zero]; intro x hx; simp; exact fun e => hnd.1 (e ▸ hx)
        simp [this]
      · have hr' : r ∈ ys := by
          rcases List.mem_cons.1 hm with h | h
          · exact absurd h.symm hy
          · exact h
        have := ih hnd.2 hr'
        simp only [id] at this
        simp [hy, this]
  exact this _ List.nodup_range (List.mem_range.2 hr)

/-- `BondPercolation.setUp`: every node its own component -/
theorem init_inv (N : Nat) (hN : 0 < N) : Inv N [] (fun _ => -1) id (fun _ => 0) 1 N := by
  have neg : ∀ n : Nat, ¬ (0 : Int) ≤ (fun _ : Nat => (-1 : Int)) n := by intro n; show ¬ (0 : Int) ≤ -1; omega
  refine ⟨⟨fun _ => by show (-1 : Int) < 0; omega, fun _ _ => rfl, fun n h => absurd h (neg n)⟩,
    ⟨fun n h => absurd h (neg n), fun _ _ => rfl⟩,
    fun n h => h, ?_, ?_, ?_, fun _ => by show 0 + N ≤ N; omega, ?_, ?_⟩
  · intro a b _ _
    constructor
    · intro h; simp only [id] at h; subst h; exact .refl a
    · intro h
      have : ∀ {x y}, Conn ([] : List (Nat × Nat)) x y → x = y := by
        intro x y h
        induction h with
        | refl a => rfl
        | edge h => simp at h
        | symm _ ih => exact ih.symm
        | trans _ _ ih1 ih2 => exact ih1.trans ih2
      exact this h
  · intro r hr _; rw [cls_id N r hr]; rfl
  · unfold nroots; simp
  · intro r hr _; rw [cls_id N r hr]; exact Nat.le_refl _
  · exact ⟨0, hN, by show (-1 : Int) < 0; omega, cls_id N 0 hN⟩

/-- the state of a bond percolation run: array, gcc, ncomponents -/
abbrev BState := Arr × Nat × Nat

def occupyAll (N : Nat) (s : BState) (es : List (Nat × Nat)) : BState :=
  es.foldl (fun s e => occupyBond (N + 1) s.1 s.2.1 s.2.2 e.1 e.2) s

/-- **after any sequence of occupations** the array represents exactly the connected components of the working network
    (the edges occupied so far), with the stored sizes, `gcc` and `ncomponents` -/
theorem occupyAll_inv (N : Nat) : ∀ (es : List (Nat × Nat)) (E : List (Nat × Nat)) (s : BState) (ρ d : Nat → Nat),
    Inv N E s.1 ρ d s.2.1 s.2.2 → (∀ e ∈ es, e.1 < N ∧ e.2 < N) →
    ∃ ρ' d', Inv N (es.reverse ++ E) (occupyAll N s es).1 ρ' d' (occupyAll N s es).2.1 (occupyAll N s es).2.2 := by
  intro es
  induction es with
  | nil => intro E s ρ d h _; exact ⟨ρ, d, by simpa [occupyAll] using h⟩
  | cons e es ih =>
    intro E s ρ d h hb
    obtain ⟨ρ1, d1, h1⟩ := occupyBond_inv h e.1 e.2 (hb e List.mem_cons_self).1 (hb e List.mem_cons_self).2
    have := ih ((e.1, e.2) :: E) (occupyBond (N + 1) s.1 s.2.1 s.2.2 e.1 e.2) ρ1 d1 h1
      (fun x hx => hb x (List.mem_cons_of_mem _ hx))
    simpa [occupyAll, List.reverse_cons, List.append_assoc] using this

/-- what the invariant means for the reported quantities -/
theorem reported (N : Nat) (E : List (Nat × Nat)) (c : Arr) (ρ d : Nat → Nat) (gcc ncomp : Nat) (h : Inv N E c ρ d gcc ncomp) :
    -- same representative ⇔ connected in the working network
    (∀ a b, a < N → b < N → (ρ a = ρ b ↔ Conn E a b)) ∧
    -- the size stored at a node's root is the size of its component
    (∀ n, n < N → (- c (ρ n)).toNat = (List.range N).countP (fun b => decide (ρ b = ρ n))) ∧
    -- gcc is the size of a largest component
    (∀ n, n < N → (List.range N).countP (fun b => decide (ρ b = ρ n)) ≤ gcc) ∧
    (∃ n, n < N ∧ (List.range N).countP (fun b => decide (ρ b = ρ n)) = gcc) ∧
    -- ncomponents is the number of components (= roots)
    ncomp = nroots N c := by
  refine ⟨h.conn, ?_, ?_, ?_, h.ncomp_eq⟩
  · intro n hn
    have := h.size (ρ n) (h.closed n hn) (h.rep.root n)
    unfold cls at this; rw [this]; simp
  · intro n hn; exact h.gcc_ge (ρ n) (h.closed n hn) (h.rep.root n)
  · obtain ⟨r, hr, hneg, hg⟩ := h.gcc_at
    exact ⟨r, hr, by rw [h.rep.self r hneg]; exact hg⟩

/-! ### the sampling schedule -/

theorem takeDue_spec (due : Nat → Nat → Bool) (npts k : Nat) : ∀ (f j : Nat), j ≤ npts → npts ≤ j + f →
    ∃ n, takeDue due npts k f j = (List.range n).map (fun i => (j + i, k)) ∧ j + n ≤ npts ∧
      (∀ i, i < n → due k (j + i) = true) ∧ (j + n < npts → due k (j + n) = false) := by
  intro f
  induction f with
  | zero => intro j hj h; exact ⟨0, by simp [takeDue], by omega, by intro i hi; omega, by intro h'; omega⟩
  | succ f ih =>
    intro j hj h
    unfold takeDue
    by_cases hc : j < npts ∧ due k j = true
    · simp only [hc, and_self, if_true]
      obtain ⟨n, e, hb, hd, hs⟩ := ih (j + 1) (by omega) (by omega)
      refine ⟨n + 1, ?_, by omega, ?_, ?_⟩
      · rw [e, List.range_succ_eq_map]
        simp only [List.map_cons, List.map_map, Nat.add_zero, List.cons.injEq, true_and]
        apply List.map_congr_left; intro i _; simp only [Function.comp]; congr 1; omega
      · intro i hi
        cases i with
        | zero => exact hc.2
        | succ i => have := hd i (by omega); rw [show j + (i + 1) = j + 1 + i by omega]; exact this
      · intro h'; have := hs (by omega); rw [show j + (n + 1) = j + 1 + n by omega]; exact this
    · simp only [hc, if_false]
      refine ⟨0, by simp, by omega, by intro i hi; omega, ?_⟩
      intro h'
      simp only [Nat.add_zero] at h' ⊢
      cases hd : due k j with
      | false => rfl
      | true => exact absurd ⟨h', hd⟩ hc

/-- what is true of the samples collected after the first `m` occupations -/
structure Sched (due : Nat → Nat → Bool) (npts : Nat) (zf : Bool) (m : Nat) (acc : List (Nat × Nat)) : Prop where
  order : acc.map (·.1) = List.range acc.length                      -- points are taken in order, each exactly once
  bound : acc.length ≤ npts
  isdue : ∀ x ∈ acc, (x.2 = 0 ∧ x.1 = 0 ∧ zf = true) ∨ (1 ≤ x.2 ∧ x.2 ≤ m ∧ due x.2 x.1 = true)
  mono : (acc.map (·.2)).Pairwise (· ≤ ·)                            -- the series is in occupation order
  first : ∀ x ∈ acc, ∀ k', 1 ≤ k' → k' < x.2 → due k' x.1 = false   -- taken at the *first* k that makes the point due
  pending : ∀ k', 1 ≤ k' → k' ≤ m → acc.length < npts → due k' acc.length = false  -- nothing that was due is missing

theorem sched_step (due : Nat → Nat → Bool) (npts : Nat) (zf : Bool) (m : Nat) (acc : List (Nat × Nat))
    (anti : ∀ k j j', j' ≤ j → due k j = true → due k j' = true) (h : Sched due npts zf m acc) :
    Sched due npts zf (m + 1) (acc ++ takeDue due npts (m + 1) npts acc.length) := by
  obtain ⟨n, e, hb, hd, hs⟩ := takeDue_spec due npts (m + 1) npts acc.length h.bound (by omega)
  rw [e]
  refine ⟨?_, ?_, ?_, ?_, ?_, ?_⟩
  · simp only [List.map_append, List.map_map, List.length_append, List.length_map, List.length_range, h.order]
    rw [List.range_add]; congr 1
  · simp only [List.length_append, List.length_map, List.length_range]; omega
  · intro x hx
    rcases List.mem_append.1 hx with hx | hx
    · rcases h.isdue x hx with a | ⟨a, b, c⟩
      · exact Or.inl a
      · exact Or.inr ⟨a, by omega, c⟩
    · simp only [List.mem_map, List.mem_range] at hx
      obtain ⟨i, hi, rfl⟩ := hx
      exact Or.inr ⟨by omega, Nat.le_refl _, hd i hi⟩
  · rw [List.map_append, List.pairwise_append]
    refine ⟨h.mono, ?_, ?_⟩
    · simp only [List.map_map]; rw [List.pairwise_map]; exact List.pairwise_of_forall (by intros; exact Nat.le_refl _)
    · intro a ha b hb'
      simp only [List.mem_map, List.mem_range] at ha hb'
      obtain ⟨x, hx, rfl⟩ := ha
      obtain ⟨y, ⟨i, _, rfl⟩, rfl⟩ := hb'
      rcases h.isdue x hx with ⟨a, _, _⟩ | ⟨_, b, _⟩ <;> simp only [] <;> omega
  · intro x hx k' h1 h2
    rcases List.mem_append.1 hx with hx | hx
    · exact h.first x hx k' h1 h2
    · simp only [List.mem_map, List.mem_range] at hx
      obtain ⟨i, hi, rfl⟩ := hx
      simp only [] at h2 ⊢
      -- at step k' ≤ m the point acc.length was not due, and it is no later than acc.length + i
      have hp := h.pending k' h1 (by omega) (by omega)
      cases hdd : due k' (acc.length + i) with
      | false => rfl
      | true => rw [anti k' (acc.length + i) acc.length (by omega) hdd] at hp; cases hp
  · intro k' h1 h2 hlt
    simp only [List.length_append, List.length_map, List.length_range] at hlt ⊢
    by_cases hk : k' = m + 1
    · subst hk; exact hs hlt
    · have hp : due k' acc.length = false := h.pending k' h1 (by omega) (by omega)
      cases hdd : due k' (acc.length + n) with
      | false => rfl
      | true => rw [anti k' (acc.length + n) acc.length (by omega) hdd] at hp; cases hp

/-- **the result holds exactly one sample for each requested point that becomes due, labelled by that point, taken after the
    first k occupations that make it due, in non-decreasing occupation order; when the last point is due at the end
    (p ≤ 1) every point is sampled** — for any predicate `due k j` (“k/M ≥ p_j”) that is antitone in `j` (points sorted) -/
theorem schedule_spec (due : Nat → Nat → Bool) (npts M : Nat) (zf : Bool)
    (anti : ∀ k j j', j' ≤ j → due k j = true → due k j' = true) :
    Sched due npts zf M (schedule due npts M zf) ∧
    ((∀ j, j < npts → due M j = true) → 1 ≤ M → (schedule due npts M zf).length = npts) := by
  have base : Sched due npts zf 0 (if zf = true ∧ 0 < npts then [(0, 0)] else []) := by
    by_cases hz : zf = true ∧ 0 < npts
    · simp only [hz, and_self, if_true]
      refine ⟨by simp, by simp; omega, ?_, by simp, ?_, by intro k' h1 h2; omega⟩
      · intro x hx; rw [List.mem_singleton.1 hx]; exact Or.inl ⟨rfl, rfl, by first | rfl | exact hz.1⟩
      · intro x hx k' h1 h2; rw [List.mem_singleton.1 hx] at h2; simp at h2
    · simp only [hz, if_false]
      exact ⟨by simp, by simp, by simp, by simp, by simp, by intro k' h1 h2; omega⟩
  have run : ∀ (m : Nat) , Sched due npts zf m
      ((List.range m).foldl (fun acc i => acc ++ takeDue due npts (i + 1) npts acc.length) (if zf = true ∧ 0 < npts then [(0, 0)] else [])) := by
    intro m
    induction m with
    | zero => simpa using base
    | succ m ih =>
      rw [List.range_succ, List.foldl_append]
      simp only [List.foldl_cons, List.foldl_nil]
      exact sched_step due npts zf m _ anti ih
  have h : Sched due npts zf M (schedule due npts M zf) := by unfold schedule; exact run M
  refine ⟨h, ?_⟩
  intro hall hM
  by_cases hl : (schedule due npts M zf).length < npts
  · have := h.pending M hM (Nat.le_refl _) hl
    rw [hall _ hl] at this; cases this
  · have := h.bound; omega

end UF
