import EpyVerif.Lemmas.BbtSetSem
open Std
namespace Bbt
variable {α : Type}

theorem removeMax_toList : ∀ (t : T α) (dflt : α), t ≠ .nil →
    toList (removeMax t dflt).1 ++ [(removeMax t dflt).2] = toList t := by
  intro t
  induction t with
  | nil => intro _ h; exact absurd rfl h
  | node l d r h ls rs ihl ihr =>
    intro dflt _
    cases r with
    | nil => simp [removeMax]
    | node rl rd rr rh rls rrs =>
      simp only [removeMax, fix_toList, toList_node]
      have := ihr dflt (by simp)
      simp only [toList_node] at this
      rw [List.append_assoc, List.cons_append, this]

theorem removeMin_toList : ∀ (t : T α) (dflt : α), t ≠ .nil →
    (removeMin t dflt).2 :: toList (removeMin t dflt).1 = toList t := by
  intro t
  induction t with
  | nil => intro _ h; exact absurd rfl h
  | node l d r h ls rs ihl ihr =>
    intro dflt _
    cases l with
    | nil => simp [removeMin]
    | node ll ld lr lh lls lrs =>
      simp only [removeMin, fix_toList, toList_node]
      have := ihl dflt (by simp)
      simp only [toList_node] at this
      rw [← List.cons_append, this]

section ord
variable [Ord α] [TransOrd α] [LawfulEqOrd α]

/-- list deletion used as the spec of discard -/
def del (e : α) (l : List α) : List α := l.filter (fun x => compare x e != .eq)

theorem del_append (e : α) (L R : List α) : del e (L ++ R) = del e L ++ del e R := by simp [del]

theorem del_of_forall_ne (e : α) (l : List α) (h : ∀ x ∈ l, x ≠ e) : del e l = l := by
  unfold del
  rw [List.filter_eq_self]
  intro x hx
  have := h x hx
  simp only [bne_iff_ne, ne_eq]
  intro hc; exact this (compare_eq_iff_eq.1 hc)

theorem del_cons_self (e : α) (l : List α) : del e (e :: l) = del e l := by
  simp [del, compare_self]

theorem del_cons_ne (e x : α) (l : List α) (h : x ≠ e) : del e (x :: l) = x :: del e l := by
  have : compare x e ≠ .eq := fun hc => h (compare_eq_iff_eq.1 hc)
  simp [del, this]

theorem lt_ne {a b : α} (h : lt a b) : a ≠ b := by
  rintro rfl; unfold lt at h; rw [compare_self] at h; cases h

theorem discardAux_unchanged (e : α) : ∀ (t : T α), (discardAux e t).2 = false → (discardAux e t).1 = t := by
  intro t
  induction t with
  | nil => simp [discardAux]
  | node l d r h ls rs ihl ihr =>
    unfold discardAux
    cases compare e d with
    | lt => simp only []; cases (discardAux e l).2 <;> simp
    | gt => simp only []; cases (discardAux e r).2 <;> simp
    | eq =>
      simp only []
      cases l <;> cases r <;> simp
      all_goals (split <;> simp)

theorem discardAux_toList (e : α) : ∀ (t : T α), BST t →
    toList (discardAux e t).1 = del e (toList t) ∧ ((discardAux e t).2 = true ↔ e ∈ toList t) := by
  intro t
  induction t with
  | nil => intro _; simp [discardAux, del]
  | node l d r h ls rs ihl ihr =>
    intro hb
    obtain ⟨bl, br, hl, hr⟩ := bst_split hb
    have hlne : ∀ x ∈ toList l, x ≠ d := fun x hx => lt_ne (hl x hx)
    have hrne : ∀ x ∈ toList r, x ≠ d := fun x hx => (lt_ne (hr x hx)).symm
    unfold discardAux
    cases hc : compare e d with
    | lt =>
      obtain ⟨i1, i2⟩ := ihl bl
      have hned : d ≠ e := fun h => by subst h; simp [compare_self] at hc
      have hnr : ∀ x ∈ toList r, x ≠ e := fun x hx h => by
        subst h
        have h1 := hr x hx; unfold lt at h1
        have := TransCmp.lt_trans hc h1
        rw [compare_self] at this; cases this
      simp only [toList_node, del_append, del_cons_ne e d _ hned, del_of_forall_ne e _ hnr]
      cases hp : (discardAux e l).2 with
      | true =>
        simp only [if_true, fix_toList]
        refine ⟨by rw [i1], ?_⟩
        simp [i2.1 hp]
      | false =>
        have hnm : e ∉ toList l := fun hm => by rw [i2.2 hm] at hp; cases hp
        simp only [Bool.false_eq_true, if_false, toList_node]
        refine ⟨by rw [del_of_forall_ne e _ (fun x hx h => hnm (h ▸ hx))], ?_⟩
        constructor
        · intro h; cases h
        · intro h
          rcases List.mem_append.1 h with h | h
          · exact absurd h hnm
          · rcases List.mem_cons.1 h with h | h
            · exact absurd h.symm hned
            · exact absurd rfl (hnr e h)
    | gt =>
      obtain ⟨i1, i2⟩ := ihr br
      have hned : d ≠ e := fun h => by subst h; simp [compare_self] at hc
      have hnl : ∀ x ∈ toList l, x ≠ e := fun x hx h => by
        subst h
        have h1 := hl x hx; unfold lt at h1
        rw [hc] at h1; cases h1
      simp only [toList_node, del_append, del_cons_ne e d _ hned, del_of_forall_ne e _ hnl]
      cases hp : (discardAux e r).2 with
      | true =>
        simp only [if_true, fix_toList]
        refine ⟨by rw [i1], ?_⟩
        simp [i2.1 hp]
      | false =>
        have hnm : e ∉ toList r := fun hm => by rw [i2.2 hm] at hp; cases hp
        simp only [Bool.false_eq_true, if_false, toList_node]
        refine ⟨by rw [del_of_forall_ne e _ (fun x hx h => hnm (h ▸ hx))], ?_⟩
        constructor
        · intro h; cases h
        · intro h
          rcases List.mem_append.1 h with h | h
          · exact absurd rfl (hnl e h)
          · rcases List.mem_cons.1 h with h | h
            · exact absurd h.symm hned
            · exact absurd h hnm
    | eq =>
      have : e = d := compare_eq_iff_eq.1 hc
      subst this
      have base : del e (toList l ++ e :: toList r) = toList l ++ toList r := by
        rw [del_append, del_cons_self, del_of_forall_ne e _ hlne, del_of_forall_ne e _ hrne]
      simp only [toList_node, base]
      cases l with
      | nil =>
        cases r with
        | nil => simp
        | node rl rd rr rh rls rrs => simp
      | node ll ld lr lh lls lrs =>
        cases r with
        | nil => simp
        | node rl rd rr rh rls rrs =>
          simp only []
          split
          · have := removeMax_toList (.node ll ld lr lh lls lrs) e (by simp)
            simp only [fix_toList]
            refine ⟨?_, by simp⟩
            rw [← this]; simp
          · have := removeMin_toList (.node rl rd rr rh rls rrs) e (by simp)
            simp only [fix_toList]
            refine ⟨?_, by simp⟩
            rw [← this]

end ord
end Bbt

