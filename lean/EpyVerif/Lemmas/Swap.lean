import EpyVerif.Model.Swap
set_option linter.unusedSectionVars false
namespace Shuffle

theorem countP_flip_two (f g : Node → Bool) (p q : Node) (l : List Node) (hnd : l.Nodup)
    (hp : p ∈ l) (hq : q ∈ l) (hpq : p ≠ q)
    (hfp : f p = true) (hgp : g p = false) (hfq : f q = false) (hgq : g q = true)
    (hrest : ∀ x, x ≠ p → x ≠ q → g x = f x) : l.countP g = l.countP f := by
  induction l with
  | nil => simp at hp
  | cons y ys ih =>
    rw [List.nodup_cons] at hnd
    simp only [List.countP_cons]
    by_cases hyp : y = p
    · subst hyp
      have hq' : q ∈ ys := by
        rcases List.mem_cons.1 hq with h | h
        · exact absurd h.symm hpq
        · exact h
      -- in ys: g and f agree except at q where g true, f false
      have : ys.countP g = ys.countP f + 1 := by
        clear ih hp hq
        induction ys with
        | nil => simp at hq'
        | cons z zs ih2 =>
          simp only [List.countP_cons]
          have hz : z ≠ y := fun h => hnd.1 (h ▸ List.mem_cons_self)
          have hnd2 := hnd.2; rw [List.nodup_cons] at hnd2
          by_cases hzq : z = q
          · subst hzq
            have : zs.countP g = zs.countP f := by
              apply List.countP_congr
              intro w hw
              have hwq : w ≠ z := fun h => hnd2.1 (h ▸ hw)
              have hwp : w ≠ y := fun h => hnd.1 (h ▸ List.mem_cons_of_mem _ hw)
              rw [hrest w hwp hwq]
            simp [hgq, hfq, this]
          · have hq'' : q ∈ zs := by
              rcases List.mem_cons.1 hq' with h | h
              · exact absurd h.symm hzq
              · exact h
            have := ih2 ⟨fun h => hnd.1 (List.mem_cons_of_mem _ h), hnd2.2⟩ hq''
            rw [hrest z hz hzq, this]; omega
      simp [hfp, hgp, this]
    · by_cases hyq : y = q
      · subst hyq
        have hp' : p ∈ ys := by
          rcases List.mem_cons.1 hp with h | h
          · exact absurd h hpq
          · exact h
        have : ys.countP f = ys.countP g + 1 := by
          clear ih hp hq
          induction ys with
          | nil => simp at hp'
          | cons z zs ih2 =>
            simp only [List.countP_cons]
            have hz : z ≠ y := fun h => hnd.1 (h ▸ List.mem_cons_self)
            have hnd2 := hnd.2; rw [List.nodup_cons] at hnd2
            by_cases hzp : z = p
            · subst hzp
              have : zs.countP g = zs.countP f := by
                apply List.countP_congr
                intro w hw
                have hwp : w ≠ z := fun h => hnd2.1 (h ▸ hw)
                have hwq : w ≠ y := fun h => hnd.1 (h ▸ List.mem_cons_of_mem _ hw)
                rw [hrest w hwp hwq]
              simp [hgp, hfp, this]
            · have hp'' : p ∈ zs := by
                rcases List.mem_cons.1 hp' with h | h
                · exact absurd h.symm hzp
                · exact h
              have := ih2 ⟨fun h => hnd.1 (List.mem_cons_of_mem _ h), hnd2.2⟩ hp''
              rw [hrest z hzp hz, this]; omega
        simp [hfq, hgq, this]
      · have hp' : p ∈ ys := by
          rcases List.mem_cons.1 hp with h | h
          · exact absurd h.symm hyp
          · exact h
        have hq' : q ∈ ys := by
          rcases List.mem_cons.1 hq with h | h
          · exact absurd h.symm hyq
          · exact h
        rw [ih hnd.2 hp' hq', hrest y hyp hyq]

structure SwapOK (g : G) (a b c d : Node) : Prop where
  nodup : g.ns.Nodup
  sym : ∀ x y, g.adj x y = g.adj y x
  ma : a ∈ g.ns
  mb : b ∈ g.ns
  mc : c ∈ g.ns
  md : d ∈ g.ns
  ab : g.adj a b = true
  cd : g.adj c d = true
  nad : g.adj a d = false
  ncb : g.adj c b = false
  ne_ab : a ≠ b
  ne_ca : c ≠ a
  ne_cb : c ≠ b
  ne_da : d ≠ a
  ne_db : d ≠ b
  ne_dc : d ≠ c

theorem swap_degree (g : G) (a b c d : Node) (ok : SwapOK g a b c d) (v : Node) :
    deg (swap g a b c d) v = deg g v := by
  obtain ⟨nd, sym, ma, mb, mc, md, ab, cd, nad, ncb, n1, n2, n3, n4, n5, n6⟩ := ok
  unfold deg
  simp only [swap]
  by_cases hva : v = a
  · subst hva
    apply countP_flip_two _ _ b d _ nd mb md (Ne.symm n5) ab (by simp [isPair]) nad
    · simp [isPair]; grind
    · intro x hx1 hx2; simp [isPair]; grind
  · by_cases hvb : v = b
    · subst hvb
      apply countP_flip_two _ _ a c _ nd ma mc (Ne.symm n2) (by rw [sym]; exact ab) (by simp [isPair]) (by rw [sym]; exact ncb)
      · simp [isPair]; grind
      · intro x hx1 hx2; simp [isPair]; grind
    · by_cases hvc : v = c
      · subst hvc
        apply countP_flip_two _ _ d b _ nd md mb n5 cd (by simp [isPair]) ncb
        · simp [isPair]; grind
        · intro x hx1 hx2; simp [isPair]; grind
      · by_cases hvd : v = d
        · subst hvd
          apply countP_flip_two _ _ c a _ nd mc ma n2 (by rw [sym]; exact cd) (by simp [isPair]) (by rw [sym]; exact nad)
          · simp [isPair]; grind
          · intro x hx1 hx2; simp [isPair]; grind
        · apply List.countP_congr
          intro x _
          simp [isPair]; grind

end Shuffle
