import EpyVerif.Model.GFFast
import EpyVerif.Lemmas.GFDen
namespace GF

theorem tab_length (n : Nat) : ∀ e : G, (tab n e).length = n := by
  intro e; induction e with
  | fn f m => simp [tab]
  | sum a b iha ihb => simp [tab, iha, ihb]
  | prod a b _ _ => simp [tab]

theorem foldl_range_sum' (g : Nat → ℚ) (n : Nat) :
    (List.range n).foldl (fun v i => v + g i) 0 = ∑ i ∈ Finset.range n, g i := by
  induction n with
  | zero => simp
  | succ n ih => rw [List.range_succ, List.foldl_append, ih, Finset.sum_range_succ]; simp

/-- the table the driver prints from is the model's coefficient function -/
theorem tab_eq (n : Nat) : ∀ e : G, tab n e = (List.range n).map (coeff e) := by
  intro e; induction e with
  | fn f m => simp [tab, coeff]
  | sum a b iha ihb =>
    simp only [tab, iha, ihb]
    apply List.ext_getElem
    · simp
    · intro i h1 h2; simp [coeff]
  | prod a b iha ihb =>
    simp only [tab, iha, ihb]
    apply List.map_congr_left
    intro i hi
    rw [List.mem_range] at hi
    rw [coeff_prod, Finset.Nat.sum_antidiagonal_eq_sum_range_succ_mk, foldl_range_sum']
    apply Finset.sum_congr rfl
    intro j hj
    rw [Finset.mem_range] at hj
    have h1 : ((List.range n).map (coeff a)).getD j 0 = coeff a j := by
      rw [List.getD_eq_getElem _ _ (by simp; omega)]; simp
    have h2 : ((List.range n).map (coeff b)).getD (i - j) 0 = coeff b (i - j) := by
      rw [List.getD_eq_getElem _ _ (by simp; omega)]; simp
    rw [h1, h2]

theorem evalF_fold (f : Nat → ℚ) (x : ℚ) (n : Nat) :
    (List.range n).foldl (fun (s : ℚ × ℚ) i => (s.1 + f i * s.2, s.2 * x)) (0, 1)
      = ((List.range n).foldl (fun v i => v + f i * pow x i) 0, pow x n) := by
  induction n with
  | zero => simp [pow]
  | succ n ih => rw [List.range_succ, List.foldl_append, List.foldl_append, ih]; simp [pow]

/-- the evaluation the driver prints is the model's `eval` -/
theorem evalF_eq (x : ℚ) : ∀ e : G, evalF e x = eval e x := by
  intro e; induction e with
  | fn f m => simp only [evalF, eval, evalF_fold]
  | sum a b iha ihb => simp [evalF, eval, iha, ihb]
  | prod a b iha ihb => simp [evalF, eval, iha, ihb]

end GF
