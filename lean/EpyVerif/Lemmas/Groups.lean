import Mathlib.Data.Finset.Card
import Mathlib.Data.Finset.Image
/-! Counting argument behind "synchrony is absorbing": when a new labelling of a finite set identifies everything the old one
    identified, the number of distinct labels does not grow and no group shrinks. -/
namespace Groups

variable {N K : Type} [DecidableEq N] [DecidableEq K]

theorem coarsen (s : Finset N) (φ φ' : N → K) (h : ∀ a ∈ s, ∀ b ∈ s, φ a = φ b → φ' a = φ' b) :
    (s.image φ').card ≤ (s.image φ).card ∧
    ∀ a ∈ s, (s.filter (fun b => φ b = φ a)).card ≤ (s.filter (fun b => φ' b = φ' a)).card := by
  classical
  constructor
  · let g : K → K := fun k => if hk : ∃ a ∈ s, φ a = k then φ' hk.choose else k
    have hsub : s.image φ' ⊆ (s.image φ).image g := by
      intro v hv
      obtain ⟨a, ha, rfl⟩ := Finset.mem_image.1 hv
      refine Finset.mem_image.2 ⟨φ a, Finset.mem_image_of_mem _ ha, ?_⟩
      have hk : ∃ b ∈ s, φ b = φ a := ⟨a, ha, rfl⟩
      simp only [g, dif_pos hk]
      exact h _ hk.choose_spec.1 _ ha hk.choose_spec.2
    exact Nat.le_trans (Finset.card_le_card hsub) Finset.card_image_le
  · intro a ha
    apply Finset.card_le_card
    intro b hb
    rw [Finset.mem_filter] at hb ⊢
    exact ⟨hb.1, h b hb.1 a ha hb.2⟩

/-- the special case of one cascade: every label is sent through the same function -/
theorem through (s : Finset N) (φ : N → K) (F : K → K) :
    (s.image (fun n => F (φ n))).card ≤ (s.image φ).card ∧
    ∀ a ∈ s, (s.filter (fun b => φ b = φ a)).card ≤ (s.filter (fun b => F (φ b) = F (φ a))).card :=
  coarsen s φ (fun n => F (φ n)) (fun _ _ _ _ e => congrArg F e)

/-- consequently the largest group does not shrink -/
theorem largest (s : Finset N) (φ φ' : N → K) (h : ∀ a ∈ s, ∀ b ∈ s, φ a = φ b → φ' a = φ' b) (m : Nat)
    (hm : ∃ a ∈ s, m ≤ (s.filter (fun b => φ b = φ a)).card) : ∃ a ∈ s, m ≤ (s.filter (fun b => φ' b = φ' a)).card := by
  obtain ⟨a, ha, hle⟩ := hm
  exact ⟨a, ha, Nat.le_trans hle ((coarsen s φ φ' h).2 a ha)⟩

end Groups
