import EpyVerif.Lemmas.Comp
/-! C01: dispatch of `changeCompartment` through `_effects` over any number of node and edge loci of any number of
    model instances, under the decidable well-formedness `WfCfg` of the registration tables. -/
set_option linter.unusedSectionVars false
namespace Comp
open Bbt

/-- new contents of locus `i` after its enter / leave handler for node `n`: a function of the network, the compartments
    and the old contents of that locus only -/
def handlerSet (cfg : Cfg) (w : W) (i : Nat) (n : Node) (enter : Bool) : LSet :=
  match cfg.kind i with
  | .edge inst L R pf => sweepSet (.edge inst L R pf) n w enter (w.loci i) (w.net.adj n)
  | _ => if enter then (w.loci i).add (eN n) else (w.loci i).discard (eN n)

theorem sweepSet_congr (k : LKind) (n : Node) (w w' : W) (h : w'.comp = w.comp) (add : Bool) (s : LSet) (ms : List Node) :
    sweepSet k n w' add s ms = sweepSet k n w add s ms := by
  unfold sweepSet; congr 1; funext s m; rw [orient_congr k w w' h]

theorem handlerSet_congr (cfg : Cfg) (w w' : W) (i : Nat) (n : Node) (enter : Bool)
    (h1 : w'.net = w.net) (h2 : w'.comp = w.comp) (h3 : w'.loci i = w.loci i) :
    handlerSet cfg w' i n enter = handlerSet cfg w i n enter := by
  unfold handlerSet
  cases cfg.kind i with
  | edge inst L R pf => simp only [h1, h3]; exact sweepSet_congr _ n w w' h2 enter _ _
  | node a b => simp only [h3]
  | plain => simp only [h3]

theorem nodeHandler_spec (cfg : Cfg) (w : W) (i : Nat) (n : Node) (enter : Bool) :
    (nodeHandler cfg w i n enter).net = w.net ∧ (nodeHandler cfg w i n enter).comp = w.comp ∧
    (∀ j, j ≠ i → (nodeHandler cfg w i n enter).loci j = w.loci j) ∧
    (nodeHandler cfg w i n enter).loci i = handlerSet cfg w i n enter := by
  unfold nodeHandler handlerSet
  cases hk : cfg.kind i with
  | node a b => exact ⟨rfl, rfl, fun j hj => updLocus_other _ _ _ _ hj, by simp⟩
  | plain => exact ⟨rfl, rfl, fun j hj => updLocus_other _ _ _ _ hj, by simp⟩
  | edge inst L R pf =>
    simp only []
    have := sweep_world (.edge inst L R pf) i n enter (w.net.adj n) w
    cases enter <;> simpa using this

/-- folding the handlers of a duplicate-free list of loci -/
theorem fold_handler (cfg : Cfg) (n : Node) (enter : Bool) : ∀ (is : List Nat) (w : W), is.Nodup →
    let w' := is.foldl (fun w i => nodeHandler cfg w i n enter) w
    w'.net = w.net ∧ w'.comp = w.comp ∧
    (∀ j, w'.loci j = if j ∈ is then handlerSet cfg w j n enter else w.loci j) := by
  intro is
  induction is with
  | nil => intro w _; exact ⟨rfl, rfl, fun _ => by simp⟩
  | cons i is ih =>
    intro w hnd
    rw [List.nodup_cons] at hnd
    simp only [List.foldl_cons]
    obtain ⟨h1, h2, h3⟩ := ih (nodeHandler cfg w i n enter) hnd.2
    obtain ⟨n1, n2, n3, n4⟩ := nodeHandler_spec cfg w i n enter
    refine ⟨h1.trans n1, h2.trans n2, ?_⟩
    intro j
    rw [h3 j]
    by_cases hji : j = i
    · subst hji
      simp only [hnd.1, if_false, List.mem_cons, true_or, if_true]
      exact n4
    · by_cases hjs : j ∈ is
      · simp only [hjs, if_true, List.mem_cons, or_true]
        exact handlerSet_congr cfg w _ j n enter n1 n2 (n3 j hji)
      · simp only [hjs, if_false, List.mem_cons, hji, false_or]
        exact n3 j hji

def watchedK : LKind → Nat → Nat → Bool
  | .node i c, inst, x => i == inst && x == c
  | .edge i L R _, inst, x => i == inst && watched L R x
  | .plain, _, _ => false

/-- the decidable hypothesis on the registration tables (checked on the tables extracted from every shipped model):
    a locus is registered under exactly the compartments it watches, once, and edge loci have L ∉ R -/
structure WfCfg (cfg : Cfg) : Prop where
  reg : ∀ i inst c, i ∈ cfg.effects inst c ↔ watchedK (cfg.kind i) inst c = true
  nodup : ∀ inst c, (cfg.effects inst c).Nodup
  lr : ∀ i inst L R pf, cfg.kind i = .edge inst L R pf → L ∉ R

def NSpec (inst c : Nat) (w : W) (s : LSet) : Prop := ∀ e, s.mem e = true ↔ ∃ n, e = eN n ∧ w.comp inst n = some c

/-- C01's invariant: every tracking locus equals the set it is declared to track -/
def InvAll (cfg : Cfg) (w : W) : Prop :=
  ∀ i, match cfg.kind i with
    | .node inst c => NSpec inst c w (w.loci i)
    | .edge inst L R _ => ESpec inst L R w (w.loci i)
    | .plain => True

theorem effectsOf_nodup (cfg : Cfg) (wf : WfCfg cfg) (inst : Nat) (o : Option Nat) : (effectsOf cfg inst o).Nodup := by
  unfold effectsOf; cases o with
  | none => simp
  | some c => exact wf.nodup inst c

theorem leaveW_spec (cfg : Cfg) (wf : WfCfg cfg) (w : W) (inst : Nat) (n : Node) :
    (leaveW cfg w inst n).net = w.net ∧ (leaveW cfg w inst n).comp = w.comp ∧
    (∀ j, (leaveW cfg w inst n).loci j =
      if j ∈ effectsOf cfg inst (w.comp inst n) then handlerSet cfg w j n false else w.loci j) :=
  fold_handler cfg n false _ w (effectsOf_nodup cfg wf inst _)

theorem enterW_spec (cfg : Cfg) (wf : WfCfg cfg) (w : W) (inst : Nat) (n : Node) :
    (enterW cfg w inst n).net = w.net ∧ (enterW cfg w inst n).comp = w.comp ∧
    (∀ j, (enterW cfg w inst n).loci j =
      if j ∈ effectsOf cfg inst (w.comp inst n) then handlerSet cfg w j n true else w.loci j) :=
  fold_handler cfg n true _ w (effectsOf_nodup cfg wf inst _)

theorem changeCompartment_net (cfg : Cfg) (wf : WfCfg cfg) (w : W) (inst : Nat) (n : Node) (c : Nat) :
    (changeCompartment cfg w inst n c).net = w.net ∧
    (changeCompartment cfg w inst n c).comp = (setComp w inst n (some c)).comp := by
  unfold changeCompartment
  obtain ⟨l1, l2, _⟩ := leaveW_spec cfg wf w inst n
  obtain ⟨e1, e2, _⟩ := enterW_spec cfg wf (setComp (leaveW cfg w inst n) inst n (some c)) inst n
  refine ⟨e1.trans l1, ?_⟩
  rw [e2]; simp only [setComp, l2]

/-- contents of edge locus `i` of the instance that changes: those of the single-locus `changeSet` -/
theorem changeCompartment_eset (cfg : Cfg) (wf : WfCfg cfg) (w : W) (inst : Nat) (n : Node) (c : Nat) (i : Nat)
    (L : Nat) (R : List Nat) (pf : Bool) (hk : cfg.kind i = .edge inst L R pf) :
    (changeCompartment cfg w inst n c).loci i = changeSet inst L R pf w (w.loci i) n c := by
  have regi : ∀ x, i ∈ cfg.effects inst x ↔ watched L R x = true := by
    intro x; rw [wf.reg i inst x, hk]; simp [watchedK]
  unfold changeCompartment changeSet
  obtain ⟨l1, l2, l3⟩ := leaveW_spec cfg wf w inst n
  generalize hw1 : leaveW cfg w inst n = w1 at l1 l2 l3
  obtain ⟨e1, e2, e3⟩ := enterW_spec cfg wf (setComp w1 inst n (some c)) inst n
  rw [e3 i]
  have hc2 : (setComp w1 inst n (some c)).comp inst n = some c := setComp_comp_self _ _ _ _
  simp only [hc2, effectsOf]
  have hl : w1.loci i = (match w.comp inst n with
      | some oc => if watched L R oc then sweepSet (.edge inst L R pf) n w false (w.loci i) (w.net.adj n) else w.loci i
      | none => w.loci i) := by
    rw [l3 i]
    cases hoc : w.comp inst n with
    | none => simp [effectsOf]
    | some oc =>
      simp only [effectsOf]
      by_cases hm : i ∈ cfg.effects inst oc
      · simp only [hm, if_true, (regi oc).1 hm, handlerSet, hk]
      · have : watched L R oc = false := by
          cases hw : watched L R oc
          · rfl
          · exact absurd ((regi oc).2 hw) hm
        simp [hm, this]
  by_cases hm : i ∈ cfg.effects inst c
  · simp only [hm, if_true, (regi c).1 hm, handlerSet, hk]
    have hnet : (setComp w1 inst n (some c)).net = w.net := l1
    have hloc : (setComp w1 inst n (some c)).loci i = w1.loci i := rfl
    rw [hnet, hloc, hl]
    apply sweepSet_congr
    simp only [setComp, l2]
  · have : watched L R c = false := by
      cases hw : watched L R c
      · rfl
      · exact absurd ((regi c).2 hw) hm
    simp only [hm, if_false, this, Bool.false_eq_true]
    exact hl

/-- a locus that does not watch the changing instance's compartments (another instance's, or a plain one) is untouched -/
theorem changeCompartment_other (cfg : Cfg) (wf : WfCfg cfg) (w : W) (inst : Nat) (n : Node) (c : Nat) (i : Nat)
    (h : ∀ x, watchedK (cfg.kind i) inst x = false) : (changeCompartment cfg w inst n c).loci i = w.loci i := by
  have notin : ∀ o, i ∉ effectsOf cfg inst o := by
    intro o; cases o with
    | none => simp [effectsOf]
    | some x => simp only [effectsOf]; rw [wf.reg i inst x, h x]; simp
  unfold changeCompartment
  obtain ⟨_, _, l3⟩ := leaveW_spec cfg wf w inst n
  obtain ⟨_, _, e3⟩ := enterW_spec cfg wf (setComp (leaveW cfg w inst n) inst n (some c)) inst n
  rw [e3 i, if_neg (notin _)]
  show (leaveW cfg w inst n).loci i = _
  rw [l3 i, if_neg (notin _)]

theorem changeCompartment_nset (cfg : Cfg) (wf : WfCfg cfg) (w : W) (inst : Nat) (n : Node) (c : Nat) (i : Nat) (k : Nat)
    (hk : cfg.kind i = .node inst k) (inv : NSpec inst k w (w.loci i)) :
    NSpec inst k (setComp w inst n (some c)) ((changeCompartment cfg w inst n c).loci i) := by
  have regi : ∀ x, i ∈ cfg.effects inst x ↔ x = k := by
    intro x; rw [wf.reg i inst x, hk]; simp [watchedK]
  unfold changeCompartment
  obtain ⟨l1, l2, l3⟩ := leaveW_spec cfg wf w inst n
  generalize hw1 : leaveW cfg w inst n = w1 at l1 l2 l3
  obtain ⟨e1, e2, e3⟩ := enterW_spec cfg wf (setComp w1 inst n (some c)) inst n
  have hc2 : (setComp w1 inst n (some c)).comp inst n = some c := setComp_comp_self _ _ _ _
  -- after leave: members are the nodes in k other than n
  have hl : ∀ e, (w1.loci i).mem e = true ↔ ∃ m, e = eN m ∧ w.comp inst m = some k ∧ m ≠ n := by
    intro e
    rw [l3 i]
    cases hoc : w.comp inst n with
    | none =>
      simp only [effectsOf, List.not_mem_nil, if_false]
      rw [inv e]
      constructor
      · rintro ⟨m, rfl, hm⟩; exact ⟨m, rfl, hm, fun h => by subst h; rw [hoc] at hm; cases hm⟩
      · rintro ⟨m, rfl, hm, _⟩; exact ⟨m, rfl, hm⟩
    | some oc =>
      simp only [effectsOf]
      by_cases hm : i ∈ cfg.effects inst oc
      · have hock : oc = k := (regi oc).1 hm
        simp only [hm, if_true, handlerSet, hk, Bool.false_eq_true, if_false]
        rw [mem_discard', inv e]
        constructor
        · rintro ⟨hne, m, rfl, hm'⟩
          exact ⟨m, rfl, hm', fun h => hne (by rw [h])⟩
        · rintro ⟨m, rfl, hm', hne⟩
          refine ⟨fun h => hne ?_, m, rfl, hm'⟩
          simp only [eN, Prod.mk.injEq] at h; exact h.1
      · have hock : oc ≠ k := fun h => hm ((regi oc).2 h)
        simp only [hm, if_false]
        rw [inv e]
        constructor
        · rintro ⟨m, rfl, hm'⟩; exact ⟨m, rfl, hm', fun h => by subst h; rw [hoc] at hm'; cases hm'; exact hock rfl⟩
        · rintro ⟨m, rfl, hm', _⟩; exact ⟨m, rfl, hm'⟩
  intro e
  rw [e3 i]
  simp only [hc2, effectsOf]
  by_cases hm : i ∈ cfg.effects inst c
  · have hck : c = k := (regi c).1 hm
    simp only [hm, if_true, handlerSet, hk]
    show (TSet.add (w1.loci i) (eN n)).mem e = true ↔ _
    rw [mem_add', hl e]
    constructor
    · rintro (rfl | ⟨m, rfl, hm', hne⟩)
      · exact ⟨n, rfl, by rw [setComp_comp_self, hck]⟩
      · exact ⟨m, rfl, by rw [setComp_comp_other _ _ _ _ _ hne]; exact hm'⟩
    · rintro ⟨m, rfl, hm'⟩
      by_cases hmn : m = n
      · left; rw [hmn]
      · right; exact ⟨m, rfl, by rw [setComp_comp_other _ _ _ _ _ hmn] at hm'; exact hm', hmn⟩
  · have hck : c ≠ k := fun h => hm ((regi c).2 h)
    simp only [hm, if_false]
    show (w1.loci i).mem e = true ↔ _
    rw [hl e]
    constructor
    · rintro ⟨m, rfl, hm', hne⟩; exact ⟨m, rfl, by rw [setComp_comp_other _ _ _ _ _ hne]; exact hm'⟩
    · rintro ⟨m, rfl, hm'⟩
      by_cases hmn : m = n
      · subst hmn; rw [setComp_comp_self] at hm'; cases hm'; exact absurd rfl hck
      · exact ⟨m, rfl, by rw [setComp_comp_other _ _ _ _ _ hmn] at hm'; exact hm', hmn⟩

/-- **C01 for `changeCompartment`** (hence for every event of every shipped model): with any number of tracking loci
    of any number of instances, all loci equal their specifications afterwards -/
theorem changeCompartment_inv (cfg : Cfg) (wf : WfCfg cfg) (w : W) (inst : Nat) (n : Node) (c : Nat)
    (sym : Sym w.net) (inv : InvAll cfg w) : InvAll cfg (changeCompartment cfg w inst n c) := by
  intro i
  have hi := inv i
  obtain ⟨hnet, hcomp⟩ := changeCompartment_net cfg wf w inst n c
  cases hk : cfg.kind i with
  | plain => trivial
  | node inst' k =>
    rw [hk] at hi
    simp only []
    by_cases hinst : inst' = inst
    · subst hinst
      have := changeCompartment_nset cfg wf w inst' n c i k hk hi
      intro e; rw [this e]; simp only [hcomp]
    · have hun : ∀ x, watchedK (cfg.kind i) inst x = false := by intro x; simp [hk, watchedK, hinst]
      rw [changeCompartment_other cfg wf w inst n c i hun]
      intro e; rw [hi e]
      have : ∀ m, (changeCompartment cfg w inst n c).comp inst' m = w.comp inst' m := by
        intro m; rw [hcomp]; simp [setComp, hinst]
      simp only [this]
  | edge inst' L R pf =>
    rw [hk] at hi
    simp only []
    by_cases hinst : inst' = inst
    · subst hinst
      rw [changeCompartment_eset cfg wf w inst' n c i L R pf hk]
      have := change_spec inst' L R pf w (w.loci i) n c (wf.lr i inst' L R pf hk) sym hi
      intro a b; rw [this a b]; simp only [hnet, qual, hcomp]; rfl
    · have hun : ∀ x, watchedK (cfg.kind i) inst x = false := by intro x; simp [hk, watchedK, hinst]
      rw [changeCompartment_other cfg wf w inst n c i hun]
      intro a b; rw [hi a b]
      have : ∀ m, (changeCompartment cfg w inst n c).comp inst' m = w.comp inst' m := by
        intro m; rw [hcomp]; simp [setComp, hinst]
      simp only [hnet, qual, this]

end Comp
