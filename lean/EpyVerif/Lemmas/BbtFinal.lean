import EpyVerif.Lemmas.BbtDiscard
import EpyVerif.Lemmas.BbtDelGood
open Std
namespace Bbt
variable {α : Type}

/-! ### logarithmic height -/

def fibT : Nat → Nat        -- minimal size of a balanced tree of height h: m 0 = 0, m 1 = 1, m (h+2) = m (h+1) + m h + 1
  | 0 => 0
  | 1 => 1
  | h+2 => fibT (h+1) + fibT h + 1

theorem fibT_mono : ∀ h, fibT h ≤ fibT (h+1) := by
  intro h
  induction h using Nat.strongRecOn with
  | _ h ih =>
    match h with
    | 0 => simp [fibT]
    | 1 => simp [fibT]
    | h+2 => simp only [fibT]; omega

theorem size_ge_fibT : ∀ (t : T α), Good t → fibT (rh t) ≤ size t := by
  intro t
  induction t with
  | nil => intro _; simp [rh, fibT, size]
  | node l d r h ls rs ihl ihr =>
    intro g
    simp only [Good] at g
    obtain ⟨gl, gr, _, _, _, b1, b2⟩ := g
    have il := ihl gl; have ir := ihr gr
    simp only [rh, size]
    by_cases hc : rh l ≤ rh r
    · rw [Nat.max_eq_right hc]
      -- rh l is rh r or rh r - 1
      cases hr : rh r with
      | zero => simp [fibT]; omega
      | succ k =>
        rw [hr] at ir b1 b2 hc
        by_cases e : rh l = k + 1
        · rw [e] at il; simp only [fibT]; have := fibT_mono k; omega
        · have e' : rh l = k := by omega
          rw [e'] at il; simp only [fibT]; omega
    · have hc' : rh r ≤ rh l := by omega
      rw [Nat.max_eq_left hc']
      cases hl : rh l with
      | zero => omega
      | succ k =>
        rw [hl] at il b1 b2 hc
        by_cases e : rh r = k + 1
        · omega
        · have e' : rh r = k := by omega
          rw [e'] at ir; simp only [fibT]; omega

/-- 2^(h/2) ≤ fibT h + 1, hence height ≤ 2·log₂(n+1) -/
theorem pow_le_fibT : ∀ h, 2 ^ (h / 2) ≤ fibT h + 1 := by
  intro h
  induction h using Nat.strongRecOn with
  | _ h ih =>
    match h with
    | 0 => simp [fibT]
    | 1 => simp [fibT]
    | h+2 =>
      have i1 := ih h (by omega)
      have i2 := ih (h+1) (by omega)
      have : (h + 2) / 2 = h / 2 + 1 := by omega
      rw [this, Nat.pow_succ]
      simp only [fibT]
      have := fibT_mono h
      omega

theorem height_log (t : T α) (g : Good t) : 2 ^ (rh t / 2) ≤ size t + 1 := by
  have := size_ge_fibT t g; have := pow_le_fibT (rh t); omega

/-! ### the DrawSet wrapper and every reachable state -/

inductive Op (α : Type) | add (e : α) | discard (e : α) | remove (e : α)

section ord
variable [Ord α] [TransOrd α] [LawfulEqOrd α]

/-- DrawSet state is the (possibly nil) root; remove reports KeyError as `false` and leaves the set alone -/
def step (t : T α) : Op α → T α × Bool
  | .add e => (add t e, true)
  | .discard e => (discard t e, true)
  | .remove e => let r := discardAux e t; (r.1, r.2)

def run (ops : List (Op α)) : T α := ops.foldl (fun t o => (step t o).1) .nil

def specStep (l : List α) : Op α → List α
  | .add e => ins e l
  | .discard e => del e l
  | .remove e => del e l

def WF (t : T α) : Prop := BST t ∧ Good t

theorem del_sorted (e : α) (l : List α) (h : Sorted l) : Sorted (del e l) := by
  unfold Sorted del at *; exact h.sublist List.filter_sublist

theorem step_wf (t : T α) (o : Op α) (h : WF t) :
    WF (step t o).1 ∧ toList (step t o).1 = specStep (toList t) o := by
  obtain ⟨hb, hg⟩ := h
  cases o with
  | add e =>
    simp only [step, specStep, add]
    have h1 := addAux_toList e t hb
    exact ⟨⟨by unfold BST; rw [h1.1]; exact ins_sorted e _ hb, (addAux_good e t hg).1⟩, h1.1⟩
  | discard e =>
    simp only [step, specStep, discard]
    have h1 := discardAux_toList e t hb
    exact ⟨⟨by unfold BST; rw [h1.1]; exact del_sorted e _ hb, (discardAux_good e t hg).1⟩, h1.1⟩
  | remove e =>
    simp only [step, specStep]
    have h1 := discardAux_toList e t hb
    exact ⟨⟨by unfold BST; rw [h1.1]; exact del_sorted e _ hb, (discardAux_good e t hg).1⟩, h1.1⟩

/-- every reachable DrawSet is a balanced BST with correct caches and denotes the spec list -/
theorem reachable (ops : List (Op α)) :
    WF (run ops) ∧ toList (run ops) = ops.foldl specStep [] := by
  unfold run
  suffices h : ∀ (t : T α) (l : List α), WF t → toList t = l →
      WF (ops.foldl (fun t o => (step t o).1) t) ∧
      toList (ops.foldl (fun t o => (step t o).1) t) = ops.foldl specStep l by
    exact h .nil [] ⟨by simp [BST, Sorted], trivial⟩ rfl
  induction ops with
  | nil => intro t l h e; exact ⟨h, e⟩
  | cons o os ih =>
    intro t l h e
    simp only [List.foldl_cons]
    have := step_wf t o h
    exact ih _ _ this.1 (by rw [this.2, e])

/-- KeyError of `remove` is exactly absence -/
theorem remove_flag (t : T α) (e : α) (h : WF t) : (step t (.remove e)).2 = true ↔ e ∈ toList t :=
  (discardAux_toList e t h.1).2

end ord
end Bbt
