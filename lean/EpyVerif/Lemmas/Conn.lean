namespace UF

inductive Conn (E : List (Nat × Nat)) : Nat → Nat → Prop
  | refl (a) : Conn E a a
  | edge {a b} : (a, b) ∈ E → Conn E a b
  | symm {a b} : Conn E a b → Conn E b a
  | trans {a b c} : Conn E a b → Conn E b c → Conn E a c

theorem Conn.mono {E : List (Nat × Nat)} (e : Nat × Nat) {a b} (h : Conn E a b) : Conn (e :: E) a b := by
  induction h with
  | refl a => exact .refl a
  | edge h => exact .edge (List.mem_cons_of_mem _ h)
  | symm _ ih => exact .symm ih
  | trans _ _ ih1 ih2 => exact .trans ih1 ih2

/-- adding one edge merges exactly the two classes of its endpoints -/
theorem conn_cons (E : List (Nat × Nat)) (n m a b : Nat) :
    Conn ((n, m) :: E) a b ↔
      (Conn E a b ∨ (Conn E a n ∧ Conn E m b) ∨ (Conn E a m ∧ Conn E n b)) := by
  constructor
  · intro h
    induction h with
    | refl a => exact Or.inl (.refl a)
    | edge h =>
      rcases List.mem_cons.1 h with h | h
      · cases h; exact Or.inr (Or.inl ⟨.refl _, .refl _⟩)
      · exact Or.inl (.edge h)
    | symm _ ih =>
      rcases ih with h | ⟨h1, h2⟩ | ⟨h1, h2⟩
      · exact Or.inl h.symm
      · exact Or.inr (Or.inr ⟨h2.symm, h1.symm⟩)
      · exact Or.inr (Or.inl ⟨h2.symm, h1.symm⟩)
    | trans _ _ ih1 ih2 =>
      rcases ih1 with h | ⟨h1, h2⟩ | ⟨h1, h2⟩ <;> rcases ih2 with k | ⟨k1, k2⟩ | ⟨k1, k2⟩
      · exact Or.inl (h.trans k)
      · exact Or.inr (Or.inl ⟨h.trans k1, k2⟩)
      · exact Or.inr (Or.inr ⟨h.trans k1, k2⟩)
      · exact Or.inr (Or.inl ⟨h1, h2.trans k⟩)
      · exact Or.inr (Or.inl ⟨h1, k2⟩)
      · exact Or.inl (h1.trans k2)
      · exact Or.inr (Or.inr ⟨h1, h2.trans k⟩)
      · exact Or.inl (h1.trans k2)
      · exact Or.inr (Or.inr ⟨h1, k2⟩)
  · rintro (h | ⟨h1, h2⟩ | ⟨h1, h2⟩)
    · exact h.mono _
    · exact (h1.mono _).trans ((Conn.edge List.mem_cons_self).trans (h2.mono _))
    · exact (h1.mono _).trans ((Conn.symm (Conn.edge List.mem_cons_self)).trans (h2.mono _))

end UF

