import EpyVerif.Lemmas.Dyn
/-! Whole-run invariants of `runSto` / `runSyn`. -/
set_option linter.unusedSectionVars false
namespace Dyn
open Queue Std

variable {K U E Λ : Type} [LT K] [LE K] [DecidableLT K] [DecidableLE K] [IsLinearOrder K] [LawfulOrderLT K] [Arith K]

theorem dropDead_head_mem (l : List (Entry K E)) (x : Entry K E) (h : (dropDead l).head? = some x) :
    x ∈ l ∧ x.live = true := by
  cases hd : dropDead l with
  | nil => rw [hd] at h; simp at h
  | cons y ys =>
    rw [hd] at h; simp at h; subst h
    exact ⟨dropDead_sub _ _ (by rw [hd]; exact List.mem_cons_self), dropDead_head_live _ _ _ hd⟩

theorem nextTime_mem (q : S K E) (et : K) (h : nextTime q = some et) : ∃ x ∈ q.heap, x.live = true ∧ x.time = et := by
  unfold nextTime at h
  cases hh : (dropDead q.heap).head? with
  | none => rw [hh] at h; simp at h
  | some x =>
    rw [hh] at h; simp at h
    obtain ⟨h1, h2⟩ := dropDead_head_mem _ _ hh
    exact ⟨x, h1, h2, h⟩

/-- loop invariant of the stochastic loop; `late` (everything still queued is due no earlier than the loop's
    time) is what gives C04's "every posted event due before the end time has fired" -/
structure StoInv (L : Loop K U E Λ) : Prop where
  ex : ∃ b, G b L.s L.tr ∧ b ≤ L.t
  now : L.s.q.now ≤ L.t
  late : L.stuck = false → ∀ x ∈ L.s.q.heap, x.live = true → L.t ≤ x.time

theorem stoIter_inv (P : Proc K U E Λ) (fuel : Nat) (L : Loop K U E Λ)
    (hdt : ∀ (t a r : K), t ≤ Arith.add t (Arith.gillespieDt a r)) (hns : L.stuck = false) (h : StoInv L) :
    StoInv (stoIter P fuel L).1 := by
  obtain ⟨⟨b, g, hbt⟩, hnow, hlate⟩ := h
  have hlate := hlate hns
  unfold stoIter
  split
  · exact ⟨⟨b, g, hbt⟩, hnow, fun _ => hlate⟩
  · simp only []
    split
    · -- no stochastic event possible: run the next posted event, if any
      split
      · exact ⟨⟨b, g, hbt⟩, hnow, fun _ => hlate⟩
      · rename_i et het
        obtain ⟨x, hx, hxl, hxt⟩ := nextTime_mem _ _ het
        have hbe : b ≤ et := hxt ▸ g.lb x hx hxl
        have hte : L.t ≤ et := hxt ▸ hlate x hx hxl
        obtain ⟨b', g2, _, hb2, hdone⟩ := runPending_G P et fuel b L.s L.tr g hbe
        refine ⟨⟨b', g2, hb2⟩, runPending_now_le P et fuel L.s L.tr (Std.le_trans hnow hte), ?_⟩
        intro hst
        have hc : (runPending P et fuel L.s L.tr).2.2 = true := by
          simp only [Bool.not_eq_eq_eq_not, Bool.not_false] at hst; exact hst
        intro y hy hyl; exact Std.le_of_lt (hdone hc y hy hyl)
    · split
      · exact ⟨⟨b, g, hbt⟩, hnow, by intro h; cases h⟩
      · rename_i r1 u1 _
        try simp only []
        split
        · exact ⟨⟨b, g, hbt⟩, hnow, by intro h; cases h⟩
        · rename_i tr u2 _
          have hnt : L.t ≤ Arith.add L.t (Arith.gillespieDt (total (rates P L.s.u)) r1) := hdt _ _ _
          generalize Arith.add L.t (Arith.gillespieDt (total (rates P L.s.u)) r1) = nt at hnt
          have g0 : G b ({ L.s with u := u2 } : St K U E) L.tr := G_setU g u2
          obtain ⟨b', g2, _, hb2, hdone⟩ := runPending_G P nt fuel b _ L.tr g0 (Std.le_trans hbt hnt)
          have hnow2 := runPending_now_le P nt fuel ({ L.s with u := u2 } : St K U E) L.tr (Std.le_trans hnow hnt)
          cases hc : (runPending P nt fuel ({ L.s with u := u2 } : St K U E) L.tr).2.2 with
          | false =>
            simp only [Bool.not_false, if_true]
            exact ⟨⟨b', g2, hb2⟩, hnow2, by intro h; cases h⟩
          | true =>
            simp only [Bool.not_true, Bool.false_eq_true, if_false]
            have hl := hdone hc
            have g3 : G b' (setNow (runPending P nt fuel ({ L.s with u := u2 } : St K U E) L.tr).1 nt)
                (runPending P nt fuel ({ L.s with u := u2 } : St K U E) L.tr).2.1 :=
              ⟨inv0_setNow nt g2.inv0, g2.lb, hb2, g2.ok, g2.mono, g2.below⟩
            have hl3 : ∀ x ∈ (setNow (runPending P nt fuel ({ L.s with u := u2 } : St K U E) L.tr).1 nt).q.heap,
                x.live = true → nt ≤ x.time := fun x hx hxl => Std.le_of_lt (hl x hx hxl)
            split
            · split
              · exact ⟨⟨b', g3, hb2⟩, Std.le_refl _, by intro h; cases h⟩
              · rename_i e u3 _
                have gf := fireStoch_G P nt tr.1 tr.2.2 e (G_setU g3 u3) rfl hl3
                refine ⟨⟨nt, gf, Std.le_refl _⟩, ?_, fun _ => gf.lb⟩
                show (exec _ _).q.now ≤ nt
                rw [exec_now]; exact Std.le_refl _
            · exact ⟨⟨b', g3, hb2⟩, Std.le_refl _, fun _ => hl3⟩

/-- the flag "go round again" is only raised from a state that is not stuck -/
theorem stoIter_continue (P : Proc K U E Λ) (fuel : Nat) (L : Loop K U E Λ) (hns : L.stuck = false)
    (hc : (stoIter P fuel L).2 = true) : (stoIter P fuel L).1.stuck = false := by
  unfold stoIter at hc ⊢
  split
  · rename_i h; simp [h] at hc
  · rename_i h
    simp only [h, Bool.false_eq_true, if_false] at hc ⊢
    split
    · rename_i hz
      simp only [hz, if_true] at hc
      split
      · rename_i hn; simp [hn] at hc
      · rename_i et hn
        simp only [hn] at hc
        simp only [hc, Bool.not_true]
    · rename_i hz
      simp only [hz, Bool.false_eq_true, if_false] at hc
      split
      · rename_i hr; simp [hr] at hc
      · rename_i r1 u1 hr
        simp only [hr] at hc
        try simp only [] at hc ⊢
        split
        · rename_i hp; simp [hp] at hc
        · rename_i tr u2 hp
          simp only [hp] at hc
          split
          · rename_i hf; simp [hf] at hc
          · rename_i hf
            simp only [hf, Bool.false_eq_true, if_false] at hc
            split
            · rename_i hs
              simp only [hs, if_true] at hc
              split
              · rename_i hd; simp [hd] at hc
              · exact hns
            · exact hns

theorem runSto_inv (P : Proc K U E Λ) (inner : Nat) (hdt : ∀ (t a r : K), t ≤ Arith.add t (Arith.gillespieDt a r)) :
    ∀ (fuel : Nat) (L : Loop K U E Λ), L.stuck = false → StoInv L → StoInv (runSto P inner fuel L) := by
  intro fuel
  induction fuel with
  | zero => intro L _ h; exact h
  | succ f ih =>
    intro L hns h
    unfold runSto
    simp only []
    have h1 := stoIter_inv P inner L hdt hns h
    split
    · rename_i hc; exact ih _ (stoIter_continue P inner L hns hc) h1
    · exact h1

theorem synIter_stuck (P : Proc K U E Λ) (fuel : Nat) (L : Loop K U E Λ) (hns : L.stuck = false)
    (hc : (synIter P fuel L).2 = true) : (synIter P fuel L).1.stuck = false := by
  unfold synIter at hc ⊢
  split
  · rename_i h; simp [h] at hc
  · rename_i h
    simp only [h, Bool.false_eq_true, if_false] at hc ⊢
    split
    · rename_i hf; simp [hf] at hc
    · rename_i hf
      simp only [hf, Bool.false_eq_true, if_false] at hc
      split
      · rename_i ht; simp [ht] at hc
      · exact hns

theorem runSyn_inv (P : Proc K U E Λ) (inner : Nat) (hone : ∀ t : K, t ≤ Arith.add t Arith.one) :
    ∀ (fuel : Nat) (L : Loop K U E Λ), LoopInv L → LoopInv (runSyn P inner fuel L) := by
  intro fuel
  induction fuel with
  | zero => intro L h; exact h
  | succ f ih =>
    intro L h
    unfold runSyn
    simp only []
    have h1 := synIter_inv P inner L hone h
    split
    · exact ih _ h1
    · exact h1

end Dyn
