import Mathlib.Logic.Equiv.Fintype
import Mathlib.GroupTheory.Perm.Basic
import Mathlib.Data.Fintype.Perm
import Mathlib.Data.Finset.Image
import Mathlib.Data.Fintype.EquivFin
/-! C14: under a uniform shuffle every subset of the prefix size is equally likely to be the kept prefix. -/
open Finset
namespace Uniform

variable {α : Type} [Fintype α] [DecidableEq α]

/-- some permutation carries S onto S' when they have the same size -/
theorem exists_perm_image (S S' : Finset α) (h : S.card = S'.card) : ∃ σ : Equiv.Perm α, S.image σ = S' := by
  classical
  let e : {x // x ∈ S} ≃ {x // x ∈ S'} := Finset.equivOfCardEq h
  refine ⟨e.extendSubtype, ?_⟩
  ext y
  simp only [mem_image]
  constructor
  · rintro ⟨x, hx, rfl⟩
    exact e.extendSubtype_mem x hx
  · intro hy
    refine ⟨(e.symm ⟨y, hy⟩).1, (e.symm ⟨y, hy⟩).2, ?_⟩
    rw [e.extendSubtype_apply_of_mem _ (e.symm ⟨y, hy⟩).2]
    simp

/-- `P` is the set of prefix positions; the kept set of a shuffle π is `P.image π`.
    The number of shuffles whose kept set is S depends only on |S|. -/
theorem subset_uniform (P S S' : Finset α) (h : S.card = S'.card) :
    (univ.filter (fun π : Equiv.Perm α => P.image π = S)).card
      = (univ.filter (fun π : Equiv.Perm α => P.image π = S')).card := by
  obtain ⟨σ, hσ⟩ := exists_perm_image S S' h
  apply Finset.card_bij (fun π _ => σ * π)
  · intro π hπ
    simp only [mem_filter, mem_univ, true_and] at hπ ⊢
    rw [← hσ, ← hπ, image_image]; rfl
  · intro π₁ _ π₂ _ heq
    exact mul_left_cancel heq
  · intro ρ hρ
    simp only [mem_filter, mem_univ, true_and] at hρ
    refine ⟨σ⁻¹ * ρ, ?_, by simp⟩
    simp only [mem_filter, mem_univ, true_and]
    have : P.image (⇑(σ⁻¹ * ρ)) = (P.image ⇑ρ).image ⇑(σ⁻¹) := by rw [image_image]; rfl
    rw [this, hρ, ← hσ, image_image]
    ext x; simp
end Uniform
