import EpyVerif.Lemmas.Comp
/-! The model of `networkx.Graph` used by `Model/Comp.lean`: adjacency facts of the four graph operations. -/
set_option linter.unusedSectionVars false
namespace Comp

/-- what a `networkx.Graph` guarantees and the operations keep: symmetric, duplicate-free adjacency between nodes of the graph -/
structure NetOK (g : Net) : Prop where
  sym : Sym g
  nodup : ∀ x, (g.adj x).Nodup
  closed : ∀ x y, y ∈ g.adj x → x ∈ g.nodes

theorem NetOK.fresh {g : Net} (h : NetOK g) {n : Node} (hn : n ∉ g.nodes) : g.adj n = [] ∧ ∀ x, n ∉ g.adj x := by
  constructor
  · cases hl : g.adj n with
    | nil => rfl
    | cons y ys => exact absurd (h.closed n y (by rw [hl]; exact List.mem_cons_self)) hn
  · intro x hx; exact hn (h.closed n x ((h.sym x n).1 hx))

theorem addEdge_adj (g : Net) (h : NetOK g) (n m x y : Node) :
    y ∈ (g.addEdge n m).adj x ↔ (y ∈ g.adj x ∨ (x = n ∧ y = m) ∨ (x = m ∧ y = n)) := by
  unfold Net.addEdge Net.hasEdge
  by_cases he : (g.adj n).contains m = true
  · simp only [he, if_true]
    have hm : m ∈ g.adj n := by simpa using he
    have hm' : n ∈ g.adj m := (h.sym _ _).1 hm
    constructor
    · intro h'; exact Or.inl h'
    · rintro (h' | ⟨h1, h2⟩ | ⟨h1, h2⟩)
      · exact h'
      · rw [h1, h2]; exact hm
      · rw [h1, h2]; exact hm'
  · simp only [he, Bool.false_eq_true, if_false]
    by_cases hxn : x = n <;> by_cases hxm : x = m <;> simp [hxn, hxm] <;> grind

theorem removeEdge_adj (g : Net) (h : NetOK g) (n m x y : Node) :
    y ∈ (g.removeEdge n m).adj x ↔ (y ∈ g.adj x ∧ ¬ (x = n ∧ y = m) ∧ ¬ (x = m ∧ y = n)) := by
  unfold Net.removeEdge
  have hx := h.nodup x
  by_cases hxn : x = n <;> by_cases hxm : x = m <;> simp [hxn, hxm, List.Nodup.mem_erase_iff, hx] <;> grind [List.Nodup.mem_erase_iff]

theorem removeNode_adj (g : Net) (h : NetOK g) (n x y : Node) :
    y ∈ (g.removeNode n).adj x ↔ (y ∈ g.adj x ∧ x ≠ n ∧ y ≠ n) := by
  unfold Net.removeNode
  have hx := h.nodup x
  by_cases hxn : x = n <;> simp [hxn, List.Nodup.mem_erase_iff, hx] <;> grind [List.Nodup.mem_erase_iff]

theorem addNode_adj (g : Net) (h : NetOK g) (n x y : Node) (hn : n ∉ g.nodes) :
    y ∈ (g.addNode n).adj x ↔ y ∈ g.adj x := by
  unfold Net.addNode Net.hasNode
  have : g.nodes.contains n = false := by simpa using hn
  simp only [this, Bool.false_eq_true, if_false]
  by_cases hxn : x = n
  · subst hxn; simp [(h.fresh hn).1]
  · simp [hxn]

theorem addEdge_nodes (g : Net) (n m : Node) : (g.addEdge n m).nodes = g.nodes := by
  unfold Net.addEdge; split <;> rfl

theorem addEdge_ok (g : Net) (h : NetOK g) (n m : Node) (hn : n ∈ g.nodes) (hm : m ∈ g.nodes) : NetOK (g.addEdge n m) := by
  refine ⟨?_, ?_, ?_⟩
  · intro a b; rw [addEdge_adj g h, addEdge_adj g h, h.sym a b]; grind
  · intro x
    unfold Net.addEdge Net.hasEdge
    by_cases he : (g.adj n).contains m = true
    · simp only [he, if_true]; exact h.nodup x
    · simp only [he, Bool.false_eq_true, if_false]
      have hnm : m ∉ g.adj n := by simpa using he
      have hmn : n ∉ g.adj m := fun hc => hnm ((h.sym _ _).2 hc)
      by_cases hxn : x = n
      · subst hxn; simp only [if_true]
        exact List.nodup_append.2 ⟨h.nodup x, (by simp), by intro a ha b hb; simp at hb; subst hb; exact fun e => hnm (e ▸ ha)⟩
      · simp only [hxn, if_false]
        by_cases hxm : x = m
        · subst hxm; simp only [if_true]
          exact List.nodup_append.2 ⟨h.nodup x, (by simp), by intro a ha b hb; simp at hb; subst hb; exact fun e => hmn (e ▸ ha)⟩
        · simp only [hxm, if_false]; exact h.nodup x
  · intro x y hy
    rw [addEdge_nodes]
    rcases (addEdge_adj g h n m x y).1 hy with h1 | ⟨rfl, _⟩ | ⟨rfl, _⟩
    · exact h.closed x y h1
    · exact hn
    · exact hm

theorem removeEdge_ok (g : Net) (h : NetOK g) (n m : Node) : NetOK (g.removeEdge n m) := by
  refine ⟨?_, ?_, ?_⟩
  · intro a b; rw [removeEdge_adj g h, removeEdge_adj g h, h.sym a b]; grind
  · intro x
    unfold Net.removeEdge; simp only []
    split
    · exact (h.nodup _).sublist (List.erase_sublist)
    · split
      · exact (h.nodup _).sublist (List.erase_sublist)
      · exact h.nodup x
  · intro x y hy
    exact h.closed x y ((removeEdge_adj g h n m x y).1 hy).1

theorem removeNode_ok (g : Net) (h : NetOK g) (hnd : g.nodes.Nodup) (n : Node) : NetOK (g.removeNode n) := by
  refine ⟨?_, ?_, ?_⟩
  · intro a b; rw [removeNode_adj g h, removeNode_adj g h, h.sym a b]; grind
  · intro x
    unfold Net.removeNode; simp only []
    split
    · exact List.nodup_nil
    · exact (h.nodup _).sublist (List.erase_sublist)
  · intro x y hy
    have := (removeNode_adj g h n x y).1 hy
    show x ∈ g.nodes.erase n
    rw [List.Nodup.mem_erase_iff hnd]
    exact ⟨this.2.1, h.closed x y this.1⟩

theorem addNode_ok (g : Net) (h : NetOK g) (n : Node) (hn : n ∉ g.nodes) : NetOK (g.addNode n) := by
  refine ⟨?_, ?_, ?_⟩
  · intro a b; rw [addNode_adj g h n a b hn, addNode_adj g h n b a hn]; exact h.sym a b
  · intro x
    unfold Net.addNode Net.hasNode
    have : g.nodes.contains n = false := by simpa using hn
    simp only [this, Bool.false_eq_true, if_false]
    split
    · exact List.nodup_nil
    · exact h.nodup x
  · intro x y hy
    rw [addNode_adj g h n x y hn] at hy
    unfold Net.addNode Net.hasNode
    have : g.nodes.contains n = false := by simpa using hn
    simp only [this, Bool.false_eq_true, if_false, List.mem_append]
    exact Or.inl (h.closed x y hy)

end Comp
