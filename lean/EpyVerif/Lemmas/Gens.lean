import EpyVerif.Model.Gens
import EpyVerif.Lemmas.UFRun
/-! Lemmas for the generator models: the degree-sequence sampler, and components via the verified union–find. -/
set_option linter.unusedSectionVars false
namespace Gens
open UF

variable {K : Type} [LT K] [LE K] [DecidableLT K] [DecidableLE K]

/-! ### PLC degree sequence -/

theorem popI_spec (lo hi : Nat) (rs rs' : List (R K)) (x : Nat) (h : popI lo hi rs = some (x, rs')) : lo ≤ x ∧ x < hi ∧ rs'.length < rs.length := by
  unfold popI at h
  split at h
  · split at h
    · rename_i hc; simp only [Option.some.injEq, Prod.mk.injEq] at h; obtain ⟨rfl, rfl⟩ := h; exact ⟨hc.2.2.1, hc.2.2.2, by simp⟩
    · simp at h
  · simp at h

theorem drawDeg_spec (p : Nat → K) (maxdeg : Nat) : ∀ (fuel : Nat) (rs rs' : List (R K)) (k : Nat),
    drawDeg p maxdeg fuel rs = some (k, rs') → 1 ≤ k ∧ k < maxdeg := by
  intro fuel
  induction fuel with
  | zero => intro rs rs' k h; simp [drawDeg] at h
  | succ f ih =>
    intro rs rs' k h
    unfold drawDeg at h
    split at h
    · simp at h
    · rename_i k1 rs1 hp
      split at h
      · simp at h
      · split at h
        · simp only [Option.some.injEq, Prod.mk.injEq] at h; obtain ⟨rfl, _⟩ := h
          exact ⟨(popI_spec 1 maxdeg rs rs1 k1 hp).1, (popI_spec 1 maxdeg rs rs1 k1 hp).2.1⟩
        · exact ih _ _ _ h

theorem drawSeq_spec (p : Nat → K) (maxdeg : Nat) : ∀ (n : Nat) (ns : List Nat) (rs rs' : List (R K)) (out : List Nat),
    drawSeq p maxdeg n ns rs = some (out, rs') → (∀ k ∈ ns, 1 ≤ k ∧ k < maxdeg) →
    out.length = ns.length + n ∧ ∀ k ∈ out, 1 ≤ k ∧ k < maxdeg := by
  intro n
  induction n with
  | zero => intro ns rs rs' out h hall; simp only [drawSeq, Option.some.injEq, Prod.mk.injEq] at h; rw [← h.1]; exact ⟨rfl, hall⟩
  | succ n ih =>
    intro ns rs rs' out h hall
    unfold drawSeq at h
    split at h
    · simp at h
    · rename_i k rs1 hd
      obtain ⟨a, b⟩ := ih (ns ++ [k]) rs1 rs' out h (by
        intro x hx; rcases List.mem_append.1 hx with hx | hx
        · exact hall x hx
        · simp at hx; subst hx; exact drawDeg_spec p maxdeg _ _ _ _ hd)
      exact ⟨by rw [a]; simp; omega, b⟩

theorem repair_spec (p : Nat → K) (maxdeg : Nat) : ∀ (fuel : Nat) (ns : List Nat) (rs rs' : List (R K)) (out : List Nat),
    repair p maxdeg fuel ns rs = some (out, rs') → (∀ k ∈ ns, 1 ≤ k ∧ k < maxdeg) →
    out.length = ns.length ∧ (∀ k ∈ out, 1 ≤ k ∧ k < maxdeg) ∧ out.sum % 2 = 0 := by
  intro fuel
  induction fuel with
  | zero => intro ns rs rs' out h; simp [repair] at h
  | succ f ih =>
    intro ns rs rs' out h hall
    unfold repair at h
    split at h
    · rename_i he; simp only [Option.some.injEq, Prod.mk.injEq] at h; rw [← h.1]; exact ⟨rfl, hall, he⟩
    · split at h
      · simp at h
      · rename_i i rs1 hi
        split at h
        · simp at h
        · rename_i k rs2 hd
          have hilt := (popI_spec 0 ns.length rs rs1 i hi).2.1
          obtain ⟨a, b, c⟩ := ih (ns.eraseIdx i ++ [k]) rs2 rs' out h (by
            intro x hx; rcases List.mem_append.1 hx with hx | hx
            · exact hall x (List.mem_of_mem_eraseIdx hx)
            · simp at hx; subst hx; exact drawDeg_spec p maxdeg _ _ _ _ hd)
          refine ⟨?_, b, c⟩
          rw [a]; simp [List.length_eraseIdx, hilt]; omega

/-- **PLC degree sequence**: when the sampler returns, there are exactly `N` degrees, each between 1 and `maxdeg - 1`,
    and their sum is even (so the configuration model can pair the stubs) -/
theorem plc_sequence (p : Nat → K) (maxdeg N : Nat) (rs rs' : List (R K)) (ns : List Nat)
    (h : plcDegrees p maxdeg N rs = some (ns, rs')) :
    ns.length = N ∧ (∀ k ∈ ns, 1 ≤ k ∧ k < maxdeg) ∧ ns.sum % 2 = 0 := by
  unfold plcDegrees at h
  split at h
  · simp at h
  · rename_i ns0 rs0 hs
    obtain ⟨a, b⟩ := drawSeq_spec p maxdeg N [] rs rs0 ns0 hs (by simp)
    obtain ⟨c, d, e⟩ := repair_spec p maxdeg _ ns0 rs0 rs' ns h b
    exact ⟨by rw [c, a]; simp, d, e⟩

/-! ### components through the verified union–find -/

/-- entries beyond the node range are untouched roots -/
def Out (n : Nat) (c : Arr) : Prop := ∀ m, n ≤ m → c m = -1

theorem view_tabulate (n : Nat) (c : Arr) (hout : Out n c) : view (tabulate n c) = c := by
  funext m
  unfold view tabulate
  by_cases h : m < n
  · simp [List.getD_eq_getElem?_getD, h]
  · have : n ≤ m := by omega
    rw [hout m this]; simp [List.getD_eq_getElem?_getD, this]

theorem view_replicate (n : Nat) : view (List.replicate n (-1)) = fun _ => -1 := by
  funext m; unfold view
  by_cases h : m < n <;> simp [List.getD_eq_getElem?_getD, h]

theorem occupyBond_out {N : Nat} {E : List (Nat × Nat)} {c : Arr} {ρ d : Nat → Nat} {gcc ncomp : Nat}
    (inv : Inv N E c ρ d gcc ncomp) (hout : Out N c) (n m : Nat) (hn : n < N) (hm : m < N) :
    Out N (occupyBond (N + 1) c gcc ncomp n m).1 := by
  obtain ⟨e1, rep1, keep1, _, d1, depth1, dle1⟩ := rootOf_spec (N + 1) c d n inv.depth inv.rep (by have := inv.dbound n; omega)
  obtain ⟨e2, _, keep2, _, _, _, _⟩ := rootOf_spec (N + 1) (rootOf (N + 1) c n).1 d1 m depth1 rep1
    (by have := inv.dbound m; have := dle1 m; omega)
  have h1 : ∀ x, N ≤ x → (rootOf (N + 1) c n).1 x = -1 := fun x hx => by rw [keep1 x (by rw [hout x hx]; omega)]; exact hout x hx
  have h2 : ∀ x, N ≤ x → (rootOf (N + 1) (rootOf (N + 1) c n).1 m).1 x = -1 := fun x hx => by
    rw [keep2 x (by rw [h1 x hx]; omega)]; exact h1 x hx
  have r1 : (rootOf (N + 1) c n).2 < N := by rw [e1]; exact inv.closed n hn
  have r2 : (rootOf (N + 1) (rootOf (N + 1) c n).1 m).2 < N := by rw [e2]; exact inv.closed m hm
  intro x hx
  unfold occupyBond
  simp only []
  split
  · simp only [join, upd]
    have a1 : x ≠ (rootOf (N + 1) c n).2 := by omega
    have a2 : x ≠ (rootOf (N + 1) (rootOf (N + 1) c n).1 m).2 := by omega
    simp only [a1, a2, if_false]; exact h2 x hx
  · exact h2 x hx

theorem comp_fold (N : Nat) : ∀ (es E : List (Nat × Nat)) (s : List Int × Nat × Nat) (ρ d : Nat → Nat),
    Inv N E (view s.1) ρ d s.2.1 s.2.2 → Out N (view s.1) → (∀ e ∈ es, e.1 < N ∧ e.2 < N) →
    ∃ ρ' d', Inv N (es.reverse ++ E) (view (es.foldl (compStep N) s).1) ρ' d' (es.foldl (compStep N) s).2.1 (es.foldl (compStep N) s).2.2 ∧
      Out N (view (es.foldl (compStep N) s).1) := by
  intro es
  induction es with
  | nil => intro E s ρ d h ho _; exact ⟨ρ, d, by simpa using h, ho⟩
  | cons e es ih =>
    intro E s ρ d h ho hb
    obtain ⟨hb1, hb2⟩ := hb e List.mem_cons_self
    obtain ⟨ρ1, d1, h1⟩ := occupyBond_inv h e.1 e.2 hb1 hb2
    have o1 := occupyBond_out h ho e.1 e.2 hb1 hb2
    have hv : view (compStep N s e).1 = (occupyBond (N + 1) (view s.1) s.2.1 s.2.2 e.1 e.2).1 := by
      show view (tabulate N _) = _; exact view_tabulate N _ o1
    obtain ⟨ρ2, d2, h2, o2⟩ := ih ((e.1, e.2) :: E) (compStep N s e) ρ1 d1 (by rw [hv]; exact h1) (by rw [hv]; exact o1)
      (fun x hx => hb x (List.mem_cons_of_mem _ hx))
    exact ⟨ρ2, d2, by simpa [List.reverse_cons, List.append_assoc] using h2, o2⟩

theorem Conn.of_subset {E E' : List (Nat × Nat)} (hs : ∀ e ∈ E, e ∈ E') {a b : Nat} (h : Conn E a b) : Conn E' a b := by
  induction h with
  | refl a => exact .refl a
  | edge h => exact .edge (hs _ h)
  | symm _ ih => exact .symm ih
  | trans _ _ i1 i2 => exact .trans i1 i2

/-- **the root table decides connectivity**: two nodes have the same entry exactly when a path joins them -/
theorem roots_conn (n : Nat) (edges : List (Nat × Nat)) (hb : ∀ e ∈ edges, e.1 < n ∧ e.2 < n) (a b : Nat) (ha : a < n) (hb' : b < n) :
    (rootsOf n edges).getD a a = (rootsOf n edges).getD b b ↔ Conn edges a b := by
  have hn : 0 < n := by omega
  obtain ⟨ρ, d, inv, _⟩ := comp_fold n edges [] (List.replicate n (-1), 1, n) id (fun _ => 0)
    (by rw [view_replicate]; exact init_inv n hn) (by rw [view_replicate]; intro m _; rfl) hb
  have hr : ∀ v, v < n → (rootsOf n edges).getD v v = ρ v := by
    intro v hv
    unfold rootsOf root
    simp only [List.getD_eq_getElem?_getD, List.getElem?_map, List.getElem?_range hv, Option.map_some, Option.getD_some]
    exact (rootOf_spec (n + 1) _ d v inv.depth inv.rep (by have := inv.dbound v; omega)).1
  rw [hr a ha, hr b hb', inv.conn a b ha hb']
  simp only [List.append_nil]
  exact ⟨Conn.of_subset (fun e he => List.mem_reverse.1 he), Conn.of_subset (fun e he => List.mem_reverse.2 he)⟩

theorem lcc_range (n : Nat) (edges : List (Nat × Nat)) : ∀ v ∈ lccNodes n edges, v < n := by
  intro v hv; unfold lccNodes at hv; simp only [List.mem_filter, List.mem_range] at hv; exact hv.1

theorem lcc_nodup (n : Nat) (edges : List (Nat × Nat)) : (lccNodes n edges).Nodup := by
  unfold lccNodes; exact (List.nodup_range).sublist List.filter_sublist

theorem foldl_best_lt (n : Nat) (hn : 0 < n) (f : Nat → Nat → Nat) (hf : ∀ b v, f b v = b ∨ f b v = v) :
    ∀ (l : List Nat) (b : Nat), b < n → (∀ v ∈ l, v < n) → l.foldl f b < n := by
  intro l
  induction l with
  | nil => intro b hb _; exact hb
  | cons v vs ih =>
    intro b hb hall
    simp only [List.foldl_cons]
    apply ih _ _ (fun x hx => hall x (List.mem_cons_of_mem _ hx))
    rcases hf b v with h | h <;> rw [h]
    · exact hb
    · exact hall v List.mem_cons_self

/-- **the largest component is connected and closed**: any two of its nodes are joined by a path, and a path never leaves it -/
theorem lcc_connected (n : Nat) (edges : List (Nat × Nat)) (hb : ∀ e ∈ edges, e.1 < n ∧ e.2 < n) (hn : 0 < n) :
    (lccNodes n edges ≠ []) ∧ (∀ a ∈ lccNodes n edges, ∀ b ∈ lccNodes n edges, Conn edges a b) ∧
    (∀ a ∈ lccNodes n edges, ∀ b, b < n → Conn edges a b → b ∈ lccNodes n edges) := by
  -- name the representative of the chosen component
  obtain ⟨best, hbest, hdef⟩ : ∃ best, best < n ∧ lccNodes n edges =
      (List.range n).filter (fun w => (rootsOf n edges).getD w w == (rootsOf n edges).getD best best) := by
    refine ⟨_, ?_, rfl⟩
    apply foldl_best_lt n hn _ (fun b v => ?_) _ 0 hn (fun v hv => List.mem_range.1 hv)
    split <;> simp
  have mem_iff : ∀ w, w ∈ lccNodes n edges ↔ (w < n ∧ (rootsOf n edges).getD w w = (rootsOf n edges).getD best best) := by
    intro w; rw [hdef]; simp [List.mem_filter]
  refine ⟨?_, ?_, ?_⟩
  · intro he
    have : best ∈ lccNodes n edges := (mem_iff best).2 ⟨hbest, rfl⟩
    rw [he] at this; simp at this
  · intro a ha b hb2
    obtain ⟨a1, a2⟩ := (mem_iff a).1 ha
    obtain ⟨b1, b2⟩ := (mem_iff b).1 hb2
    exact (roots_conn n edges hb a b a1 b1).1 (a2.trans b2.symm)
  · intro a ha b hbn hc
    obtain ⟨a1, a2⟩ := (mem_iff a).1 ha
    exact (mem_iff b).2 ⟨hbn, ((roots_conn n edges hb a b a1 hbn).2 hc).symm.trans a2⟩

end Gens
