import EpyVerif.Model.UF
set_option linter.unusedSectionVars false
namespace UF

structure Rep (c : Arr) (ρ : Nat → Nat) : Prop where
  root : ∀ n, c (ρ n) < 0
  self : ∀ n, c n < 0 → ρ n = n
  step : ∀ n, 0 ≤ c n → ρ (c n).toNat = ρ n

def Depth (c : Arr) (d : Nat → Nat) : Prop :=
  (∀ n, 0 ≤ c n → d (c n).toNat < d n) ∧ (∀ n, c n < 0 → d n = 0)

theorem rootOf_spec {ρ : Nat → Nat} :
    ∀ f (c : Arr) (d : Nat → Nat) n, Depth c d → Rep c ρ → d n < f →
      (rootOf f c n).2 = ρ n
      ∧ Rep (rootOf f c n).1 ρ
      ∧ (∀ m, c m < 0 → (rootOf f c n).1 m = c m)
      ∧ (∀ m, (rootOf f c n).1 m < 0 ↔ c m < 0)
      ∧ ∃ d', Depth (rootOf f c n).1 d' ∧ ∀ m, d' m ≤ d m := by
  intro f
  induction f with
  | zero => intro c d n _ _ h; omega
  | succ f ih =>
    intro c d n hd hρ h
    unfold rootOf
    by_cases hn : c n < 0
    · simp only [hn, if_true]
      refine ⟨(hρ.self n hn).symm, hρ, ?_, ?_, d, hd, fun _ => Nat.le_refl _⟩
      · intro m _; trivial
      · intro m; trivial
    · simp only [hn, if_false]
      have hn0 : 0 ≤ c n := by omega
      have hpar := hd.1 n hn0
      obtain ⟨e1, hρ1, keep, roots, d1, hd1, dle⟩ := ih c d (c n).toNat hd hρ (by omega)
      rw [hρ.step n hn0] at e1
      -- abbreviations
      generalize hc1 : (rootOf f c (c n).toNat).1 = c1 at *
      generalize hr : (rootOf f c (c n).toNat).2 = r at *
      subst e1   -- r = ρ n
      have hrroot : c1 (ρ n) < 0 := hρ1.root n
      have hn1 : 0 ≤ c1 n := by
        have : ¬ c1 n < 0 := fun h => hn ((roots n).1 h)
        omega
      have hne : n ≠ ρ n := fun h => by rw [← h] at hrroot; omega
      have hd1n : 1 ≤ d1 n := by have := hd1.1 n hn1; omega
      have hdn : 1 ≤ d n := by omega
      refine ⟨rfl, ?_, ?_, ?_, ?_⟩
      · constructor
        · intro m
          have hm : ρ m ≠ n := fun h => by have := hρ1.root m; rw [h] at this; omega
          simp only [upd, hm, if_false]; exact hρ1.root m
        · intro m hm
          by_cases h1 : m = n
          · subst h1; simp only [upd, if_true] at hm; omega
          · simp only [upd, h1, if_false] at hm; exact hρ1.self m hm
        · intro m hm
          by_cases h1 : m = n
          · subst h1
            simp only [upd, if_true, Int.toNat_natCast]
            exact hρ1.self _ hrroot
          · simp only [upd, h1, if_false] at hm ⊢
            exact hρ1.step m hm
      · intro m hm
        have h1 : m ≠ n := fun h => by subst h; omega
        simp only [upd, h1, if_false]; exact keep m hm
      · intro m
        by_cases h1 : m = n
        · subst h1; simp only [upd, if_true]; constructor <;> intro h <;> omega
        · simp only [upd, h1, if_false]; exact roots m
      · refine ⟨fun m => if m = n then 1 else d1 m, ⟨?_, ?_⟩, ?_⟩
        · intro m hm
          by_cases h1 : m = n
          · subst h1
            simp only [upd, if_true, Int.toNat_natCast] at hm ⊢
            have : ρ m ≠ m := fun h => hne h.symm
            simp only [this, if_false]
            rw [hd1.2 _ hrroot]; omega
          · simp only [upd, h1, if_false] at hm ⊢
            have hr1 := hd1.1 m hm
            by_cases h2 : (c1 m).toNat = n
            · simp only [h2, if_true]; rw [h2] at hr1; omega
            · simp only [h2, if_false]; exact hr1
        · intro m hm
          by_cases h1 : m = n
          · subst h1; simp only [upd, if_true] at hm; omega
          · simp only [upd, h1, if_false] at hm ⊢; exact hd1.2 m hm
        · intro m
          by_cases h1 : m = n
          · subst h1; simp only [if_true]; exact hdn
          · simp only [h1, if_false]; exact dle m

end UF


