import EpyVerif.Lemmas.CompDispatch
import EpyVerif.Lemmas.Net
/-! C01: the topology operations `addEdge`, `removeEdge`, `addNode`, `removeNode` (the repaired one) and `setCompartment`. -/
set_option linter.unusedSectionVars false
namespace Comp
open Bbt

/-- the element the add / remove handler of locus `j` adds or discards for the edge `(n, m)` -/
def pairOf (cfg : Cfg) (w : W) (j : Nat) (n m : Node) : Option Elem :=
  match cfg.kind j with
  | .node _ _ => none
  | .plain => some (n, m)
  | k@(.edge ..) => (orient k w n m).map (fun p => (p.1, p.2))

theorem pairOf_congr (cfg : Cfg) (w w' : W) (h : w'.comp = w.comp) (j : Nat) (n m : Node) :
    pairOf cfg w' j n m = pairOf cfg w j n m := by
  unfold pairOf; cases cfg.kind j <;> simp [orient_congr _ w w' h]

theorem edgeHandler_spec (cfg : Cfg) (w : W) (i : Nat) (n m : Node) (add : Bool) :
    (edgeHandler cfg w i n m add).net = w.net ∧ (edgeHandler cfg w i n m add).comp = w.comp ∧
    (∀ j, j ≠ i → (edgeHandler cfg w i n m add).loci j = w.loci j) ∧
    (∀ x, ((edgeHandler cfg w i n m add).loci i).mem x = true ↔
      if add then ((w.loci i).mem x = true ∨ pairOf cfg w i n m = some x)
      else ((w.loci i).mem x = true ∧ pairOf cfg w i n m ≠ some x)) := by
  unfold edgeHandler pairOf
  cases hk : cfg.kind i with
  | node a b => refine ⟨rfl, rfl, fun _ _ => rfl, fun x => ?_⟩; cases add <;> simp
  | plain =>
    refine ⟨rfl, rfl, fun j hj => updLocus_other _ _ _ _ hj, fun x => ?_⟩
    cases add
    · simp only [Bool.false_eq_true, if_false, updLocus_same, mem_discard', Option.some.injEq, ne_eq]
      exact ⟨fun ⟨a, b⟩ => ⟨b, fun h => a h.symm⟩, fun ⟨a, b⟩ => ⟨fun h => b h.symm, a⟩⟩
    · simp only [if_true, updLocus_same, mem_add', Option.some.injEq]
      constructor
      · rintro (h | h); exact Or.inr h.symm; exact Or.inl h
      · rintro (h | h); exact Or.inr h; exact Or.inl h.symm
  | edge inst L R pf =>
    simp only []
    cases add
    · simp only [Bool.false_eq_true, if_false]
      unfold stepDis
      cases ho : orient (.edge inst L R pf) w n m with
      | none => exact ⟨rfl, rfl, fun _ _ => rfl, fun x => by simp⟩
      | some p =>
        obtain ⟨a, b⟩ := p
        refine ⟨rfl, rfl, fun j hj => updLocus_other _ _ _ _ hj, fun x => ?_⟩
        simp only [updLocus_same, mem_discard', Option.map_some, Option.some.injEq, ne_eq]
        exact ⟨fun ⟨h1, h2⟩ => ⟨h2, fun h => h1 h.symm⟩, fun ⟨h1, h2⟩ => ⟨fun h => h2 h.symm, h1⟩⟩
    · simp only [if_true]
      unfold stepAdd
      cases ho : orient (.edge inst L R pf) w n m with
      | none => exact ⟨rfl, rfl, fun _ _ => rfl, fun x => by simp⟩
      | some p =>
        obtain ⟨a, b⟩ := p
        refine ⟨rfl, rfl, fun j hj => updLocus_other _ _ _ _ hj, fun x => ?_⟩
        simp only [updLocus_same, mem_add', Option.map_some, Option.some.injEq]
        constructor
        · rintro (h | h); exact Or.inr h.symm; exact Or.inl h
        · rintro (h | h); exact Or.inr h; exact Or.inl h.symm

/-- folding the add / remove handlers of any list of loci (repetitions allowed: the operations are idempotent) -/
theorem fold_edgeHandler (cfg : Cfg) (n m : Node) (add : Bool) : ∀ (is : List Nat) (w : W),
    let w' := is.foldl (fun w i => edgeHandler cfg w i n m add) w
    w'.net = w.net ∧ w'.comp = w.comp ∧
    (∀ j x, (w'.loci j).mem x = true ↔
      if add then ((w.loci j).mem x = true ∨ (j ∈ is ∧ pairOf cfg w j n m = some x))
      else ((w.loci j).mem x = true ∧ ¬ (j ∈ is ∧ pairOf cfg w j n m = some x))) := by
  intro is
  induction is with
  | nil => intro w; refine ⟨rfl, rfl, fun j x => ?_⟩; cases add <;> simp
  | cons i is ih =>
    intro w
    simp only [List.foldl_cons]
    obtain ⟨h1, h2, h3⟩ := ih (edgeHandler cfg w i n m add)
    obtain ⟨e1, e2, e3, e4⟩ := edgeHandler_spec cfg w i n m add
    refine ⟨h1.trans e1, h2.trans e2, fun j x => ?_⟩
    rw [h3 j x, pairOf_congr cfg w _ e2]
    by_cases hji : j = i
    · subst hji
      rw [e4 x]
      cases add
      · simp only [Bool.false_eq_true, if_false, List.mem_cons, true_or, true_and, ne_eq]
        constructor
        · rintro ⟨⟨a, b⟩, c⟩; exact ⟨a, b⟩
        · rintro ⟨a, b⟩; exact ⟨⟨a, b⟩, fun h => b h.2⟩
      · simp only [if_true, List.mem_cons, true_or, true_and]
        constructor
        · rintro ((a | a) | ⟨_, a⟩); exact Or.inl a; exact Or.inr a; exact Or.inr a
        · rintro (a | a); exact Or.inl (Or.inl a); exact Or.inl (Or.inr a)
    · rw [e3 j hji]
      cases add <;> simp [hji]

theorem edgeHandlers_spec (cfg : Cfg) (w : W) (inst : Nat) (n m : Node) (add : Bool) :
    (edgeHandlers cfg w inst n m add).net = w.net ∧ (edgeHandlers cfg w inst n m add).comp = w.comp ∧
    (∀ j x, ((edgeHandlers cfg w inst n m add).loci j).mem x = true ↔
      let reg := j ∈ effectsOf cfg inst (w.comp inst n) ∨ j ∈ effectsOf cfg inst (w.comp inst m)
      if add then ((w.loci j).mem x = true ∨ (reg ∧ pairOf cfg w j n m = some x))
      else ((w.loci j).mem x = true ∧ ¬ (reg ∧ pairOf cfg w j n m = some x))) := by
  unfold edgeHandlers
  simp only []
  obtain ⟨a1, a2, a3⟩ := fold_edgeHandler cfg n m add (effectsOf cfg inst (w.comp inst n)) w
  obtain ⟨b1, b2, b3⟩ := fold_edgeHandler cfg n m add (effectsOf cfg inst (w.comp inst m))
    ((effectsOf cfg inst (w.comp inst n)).foldl (fun w i => edgeHandler cfg w i n m add) w)
  refine ⟨b1.trans a1, b2.trans a2, fun j x => ?_⟩
  rw [b3 j x, a3 j x, pairOf_congr cfg w _ a2]
  cases add
  · simp only [Bool.false_eq_true, if_false]; grind
  · simp only [if_true]; grind

/-! ### the effect on the specification -/

/-- for a well-formed configuration: the pair handled for a registered edge locus is exactly the qualifying orientation,
    and an edge locus that is registered under neither endpoint's compartment has no qualifying orientation -/
theorem pairOf_edge (cfg : Cfg) (wf : WfCfg cfg) (w : W) (j inst L : Nat) (R : List Nat) (pf : Bool)
    (hk : cfg.kind j = .edge inst L R pf) (n m : Node) (x : Elem) :
    pairOf cfg w j n m = some x ↔ ((x = (n, m) ∧ qual inst L R w n m = true) ∨ (x = (m, n) ∧ qual inst L R w m n = true)) := by
  unfold pairOf; rw [hk]; simp only []
  have := orient_iff inst L R pf w (wf.lr j inst L R pf hk) n m x.1 x.2
  constructor
  · intro h
    cases ho : orient (.edge inst L R pf) w n m with
    | none => rw [ho] at h; simp at h
    | some p =>
      rw [ho] at h; simp only [Option.map_some, Option.some.injEq] at h
      have hp : p = (x.1, x.2) := by rw [← h]
      rw [hp] at ho
      rcases this.1 ho with ⟨h1, h2, h3⟩ | ⟨h1, h2, h3⟩
      · left; exact ⟨Prod.ext h1 h2, h3⟩
      · right; exact ⟨Prod.ext h1 h2, h3⟩
  · rintro (⟨rfl, h⟩ | ⟨rfl, h⟩)
    · rw [(orient_iff inst L R pf w (wf.lr j inst L R pf hk) n m n m).2 (Or.inl ⟨rfl, rfl, h⟩)]; rfl
    · rw [(orient_iff inst L R pf w (wf.lr j inst L R pf hk) n m m n).2 (Or.inr ⟨rfl, rfl, h⟩)]; rfl

theorem qual_registered (cfg : Cfg) (wf : WfCfg cfg) (w : W) (j inst L : Nat) (R : List Nat) (pf : Bool)
    (hk : cfg.kind j = .edge inst L R pf) (a b : Node) (h : qual inst L R w a b = true) :
    j ∈ effectsOf cfg inst (w.comp inst a) ∧ j ∈ effectsOf cfg inst (w.comp inst b) := by
  rw [qual_iff] at h
  obtain ⟨h1, c, h2, h3⟩ := h
  rw [h1, h2]
  simp only [effectsOf]
  rw [wf.reg j inst L, wf.reg j inst c, hk]
  simp [watchedK, watched, h3]

/-- all tracking loci belong to the instance performing the topology operation (a single compartmented model,
    or AddDelete-by-inheritance; a sibling instance in a sequence is *not* told — finding K2) -/
def OneInst (cfg : Cfg) (inst : Nat) : Prop :=
  ∀ j, match cfg.kind j with | .node i _ => i = inst | .edge i _ _ _ => i = inst | .plain => True

/-- **addEdge** keeps every locus equal to its specification -/
theorem addEdge_inv (cfg : Cfg) (wf : WfCfg cfg) (w : W) (inst : Nat) (n m : Node) (one : OneInst cfg inst)
    (ok : NetOK w.net) (inv : InvAll cfg w) : InvAll cfg (addEdge cfg w inst n m) := by
  intro i
  have hi := inv i
  have h1i := one i
  unfold addEdge
  obtain ⟨e1, e2, e3⟩ := edgeHandlers_spec cfg { w with net := w.net.addEdge n m } inst n m true
  cases hk : cfg.kind i with
  | plain => trivial
  | node inst' k =>
    rw [hk] at hi; simp only []
    intro e
    rw [e3 i e]; simp only [if_true]
    have : pairOf cfg { w with net := w.net.addEdge n m } i n m = none := by unfold pairOf; rw [hk]
    simp only [this, reduceCtorEq, and_false, or_false]
    rw [hi e]; simp only [e2]
  | edge inst' L R pf =>
    rw [hk] at hi h1i; simp only [] at h1i; subst h1i
    simp only []
    intro a b
    rw [e3 i (a, b)]; simp only [if_true]
    have hq : ∀ x y, qual inst' L R (edgeHandlers cfg { w with net := w.net.addEdge n m } inst' n m true) x y = qual inst' L R w x y := by
      intro x y; simp only [qual, e2]
    rw [hq, e1, pairOf_edge cfg wf _ i inst' L R pf hk]
    have hq2 : ∀ x y, qual inst' L R ({ w with net := w.net.addEdge n m } : W) x y = qual inst' L R w x y := fun _ _ => rfl
    simp only [hq2]
    show ((w.loci i).mem (a, b) = true ∨ _) ↔ (b ∈ (w.net.addEdge n m).adj a ∧ _)
    rw [hi a b, addEdge_adj w.net ok]
    have r1 := qual_registered cfg wf w i inst' L R pf hk n m
    have r2 := qual_registered cfg wf w i inst' L R pf hk m n
    show _ ∨ ((i ∈ effectsOf cfg inst' (w.comp inst' n) ∨ i ∈ effectsOf cfg inst' (w.comp inst' m)) ∧ _) ↔ _
    constructor
    · rintro (⟨h1, h2⟩ | ⟨_, ⟨h1, h2⟩ | ⟨h1, h2⟩⟩)
      · exact ⟨Or.inl h1, h2⟩
      · simp only [Prod.mk.injEq] at h1; rw [h1.1, h1.2]; exact ⟨Or.inr (Or.inl ⟨rfl, rfl⟩), h2⟩
      · simp only [Prod.mk.injEq] at h1; rw [h1.1, h1.2]; exact ⟨Or.inr (Or.inr ⟨rfl, rfl⟩), h2⟩
    · rintro ⟨h1 | ⟨h1, h2⟩ | ⟨h1, h2⟩, h3⟩
      · exact Or.inl ⟨h1, h3⟩
      · subst h1; subst h2; exact Or.inr ⟨Or.inl (r1 h3).1, Or.inl ⟨rfl, h3⟩⟩
      · subst h1; subst h2; exact Or.inr ⟨Or.inl (r2 h3).2, Or.inr ⟨rfl, h3⟩⟩

/-- **removeEdge** keeps every locus equal to its specification -/
theorem removeEdge_inv (cfg : Cfg) (wf : WfCfg cfg) (w : W) (inst : Nat) (n m : Node) (one : OneInst cfg inst)
    (ok : NetOK w.net) (inv : InvAll cfg w) : InvAll cfg (removeEdge cfg w inst n m) := by
  intro i
  have hi := inv i
  have h1i := one i
  unfold removeEdge
  obtain ⟨e1, e2, e3⟩ := edgeHandlers_spec cfg w inst n m false
  simp only []
  cases hk : cfg.kind i with
  | plain => trivial
  | node inst' k =>
    rw [hk] at hi; simp only []
    intro e
    show ((edgeHandlers cfg w inst n m false).loci i).mem e = true ↔ _
    rw [e3 i e]; simp only [Bool.false_eq_true, if_false]
    have : pairOf cfg w i n m = none := by unfold pairOf; rw [hk]
    simp only [this, reduceCtorEq, and_false, not_false_eq_true, and_true]
    rw [hi e]; simp only [e2]
  | edge inst' L R pf =>
    rw [hk] at hi h1i; simp only [] at h1i; subst h1i
    simp only []
    intro a b
    show ((edgeHandlers cfg w inst' n m false).loci i).mem (a, b) = true ↔
      (b ∈ ((edgeHandlers cfg w inst' n m false).net.removeEdge n m).adj a ∧
       qual inst' L R ({ edgeHandlers cfg w inst' n m false with net := (edgeHandlers cfg w inst' n m false).net.removeEdge n m } : W) a b = true)
    have hq : ∀ x y, qual inst' L R ({ edgeHandlers cfg w inst' n m false with net := (edgeHandlers cfg w inst' n m false).net.removeEdge n m } : W) x y = qual inst' L R w x y := by
      intro x y; simp only [qual, e2]
    rw [e3 i (a, b), hq, e1, removeEdge_adj w.net ok, pairOf_edge cfg wf w i inst' L R pf hk]
    simp only [Bool.false_eq_true, if_false]
    rw [hi a b]
    have r1 := qual_registered cfg wf w i inst' L R pf hk n m
    have r2 := qual_registered cfg wf w i inst' L R pf hk m n
    constructor
    · rintro ⟨⟨h1, h2⟩, h3⟩
      refine ⟨⟨h1, ?_, ?_⟩, h2⟩
      · rintro ⟨rfl, rfl⟩; exact h3 ⟨Or.inl (r1 h2).1, Or.inl ⟨rfl, h2⟩⟩
      · rintro ⟨rfl, rfl⟩; exact h3 ⟨Or.inl (r2 h2).2, Or.inr ⟨rfl, h2⟩⟩
    · rintro ⟨⟨h1, h2, h3⟩, h4⟩
      refine ⟨⟨h1, h4⟩, ?_⟩
      rintro ⟨_, ⟨h5, _⟩ | ⟨h5, _⟩⟩
      · simp only [Prod.mk.injEq] at h5; exact h2 h5
      · simp only [Prod.mk.injEq] at h5; exact h3 h5


/-- the first phase of the repaired `removeNode`: the remove handlers of every incident edge -/
theorem fold_incident (cfg : Cfg) (inst : Nat) (n : Node) : ∀ (ms : List Node) (w : W),
    let w' := ms.foldl (fun w m => edgeHandlers cfg w inst n m false) w
    w'.net = w.net ∧ w'.comp = w.comp ∧
    (∀ j x, (w'.loci j).mem x = true ↔ ((w.loci j).mem x = true ∧
      ¬ ∃ m ∈ ms, (j ∈ effectsOf cfg inst (w.comp inst n) ∨ j ∈ effectsOf cfg inst (w.comp inst m)) ∧ pairOf cfg w j n m = some x)) := by
  intro ms
  induction ms with
  | nil => intro w; exact ⟨rfl, rfl, fun j x => by simp⟩
  | cons m ms ih =>
    intro w
    simp only [List.foldl_cons]
    obtain ⟨h1, h2, h3⟩ := ih (edgeHandlers cfg w inst n m false)
    obtain ⟨e1, e2, e3⟩ := edgeHandlers_spec cfg w inst n m false
    refine ⟨h1.trans e1, h2.trans e2, fun j x => ?_⟩
    rw [h3 j x, e3 j x]
    simp only [Bool.false_eq_true, if_false, e2, List.mem_cons, exists_eq_or_imp, not_or]
    have : ∀ m', pairOf cfg (edgeHandlers cfg w inst n m false) j n m' = pairOf cfg w j n m' :=
      fun m' => pairOf_congr cfg w _ e2 j n m'
    simp only [this]
    exact ⟨fun ⟨⟨a, b⟩, c⟩ => ⟨a, b, c⟩, fun ⟨a, b, c⟩ => ⟨⟨a, b⟩, c⟩⟩

theorem fold_nodeRemove (cfg : Cfg) (n : Node) : ∀ (is : List Nat) (w : W),
    let w' := is.foldl (fun w i => nodeRemoveHandler cfg w i n) w
    w'.net = w.net ∧ w'.comp = w.comp ∧
    (∀ j x, (w'.loci j).mem x = true ↔ ((w.loci j).mem x = true ∧
      ¬ (j ∈ is ∧ (∀ a b c d, cfg.kind j ≠ .edge a b c d) ∧ x = eN n))) := by
  intro is
  induction is with
  | nil => intro w; exact ⟨rfl, rfl, fun j x => by simp⟩
  | cons i is ih =>
    intro w
    simp only [List.foldl_cons]
    obtain ⟨h1, h2, h3⟩ := ih (nodeRemoveHandler cfg w i n)
    have hs : (nodeRemoveHandler cfg w i n).net = w.net ∧ (nodeRemoveHandler cfg w i n).comp = w.comp ∧
        (∀ j x, ((nodeRemoveHandler cfg w i n).loci j).mem x = true ↔ ((w.loci j).mem x = true ∧
          ¬ (j = i ∧ (∀ a b c d, cfg.kind j ≠ .edge a b c d) ∧ x = eN n))) := by
      unfold nodeRemoveHandler
      cases hk : cfg.kind i with
      | edge a b c d =>
        refine ⟨rfl, rfl, fun j x => ?_⟩
        simp only [true_and, iff_self_and]
        intro _; rintro ⟨rfl, h, _⟩; exact h a b c d hk
      | node a b =>
        refine ⟨rfl, rfl, fun j x => ?_⟩
        by_cases hji : j = i
        · subst hji; simp only [updLocus_same, mem_discard', true_and, hk]
          constructor
          · rintro ⟨h1, h2⟩; exact ⟨h2, fun ⟨_, h3⟩ => h1 h3⟩
          · rintro ⟨h1, h2⟩; exact ⟨fun h3 => h2 ⟨by intros; simp, h3⟩, h1⟩
        · rw [updLocus_other _ _ _ _ hji]; simp [hji]
      | plain =>
        refine ⟨rfl, rfl, fun j x => ?_⟩
        by_cases hji : j = i
        · subst hji; simp only [updLocus_same, mem_discard', true_and, hk]
          constructor
          · rintro ⟨h1, h2⟩; exact ⟨h2, fun ⟨_, h3⟩ => h1 h3⟩
          · rintro ⟨h1, h2⟩; exact ⟨fun h3 => h2 ⟨by intros; simp, h3⟩, h1⟩
        · rw [updLocus_other _ _ _ _ hji]; simp [hji]
    obtain ⟨n1, n2, n3⟩ := hs
    refine ⟨h1.trans n1, h2.trans n2, fun j x => ?_⟩
    rw [h3 j x, n3 j x]
    simp only [List.mem_cons]
    grind

/-- **removeNode** (repaired): every locus equals its specification in the network without the node -/
theorem removeNode_inv (cfg : Cfg) (wf : WfCfg cfg) (w : W) (inst : Nat) (n : Node) (one : OneInst cfg inst)
    (ok : NetOK w.net) (inv : InvAll cfg w) : InvAll cfg (removeNode cfg w inst n) := by
  intro i
  have hi := inv i
  have h1i := one i
  unfold removeNode
  simp only []
  obtain ⟨a1, a2, a3⟩ := fold_incident cfg inst n (w.net.adj n) w
  generalize hw1 : (w.net.adj n).foldl (fun w m => edgeHandlers cfg w inst n m false) w = w1 at a1 a2 a3
  obtain ⟨b1, b2, b3⟩ := fold_nodeRemove cfg n (effectsOf cfg inst (w1.comp inst n)) w1
  generalize hw2 : (effectsOf cfg inst (w1.comp inst n)).foldl (fun w i => nodeRemoveHandler cfg w i n) w1 = w2 at b1 b2 b3
  have hcomp : ∀ j x, (if x = n then none else w2.comp j x) = (if x = n then none else w.comp j x) := by
    intro j x; rw [b2, a2]
  cases hk : cfg.kind i with
  | plain => trivial
  | node inst' k =>
    rw [hk] at hi h1i; simp only [] at h1i; subst h1i
    simp only []
    intro e
    show (w2.loci i).mem e = true ↔ ∃ x, e = eN x ∧ (if x = n then none else w2.comp inst' x) = some k
    rw [b3 i e, a3 i e]
    have hp : ∀ m, pairOf cfg w i n m = none := by intro m; unfold pairOf; rw [hk]
    simp only [hp, reduceCtorEq, and_false, exists_false, not_false_eq_true, and_true, hcomp]
    rw [hi e, a2]
    have hne : ∀ a b c d, cfg.kind i ≠ .edge a b c d := by intro a b c d h; rw [hk] at h; cases h
    constructor
    · rintro ⟨⟨x, rfl, hx⟩, h2⟩
      refine ⟨x, rfl, ?_⟩
      by_cases hxn : x = n
      · subst hxn
        exfalso; apply h2
        refine ⟨?_, hne, rfl⟩
        rw [hx]; simp only [effectsOf]; rw [wf.reg i inst' k, hk]; simp [watchedK]
      · simp [hxn, hx]
    · rintro ⟨x, rfl, hx⟩
      by_cases hxn : x = n
      · simp [hxn] at hx
      · simp only [hxn, if_false] at hx
        refine ⟨⟨x, rfl, hx⟩, ?_⟩
        rintro ⟨_, _, h3⟩
        simp only [eN, Prod.mk.injEq, and_true] at h3; exact hxn h3
  | edge inst' L R pf =>
    rw [hk] at hi h1i; simp only [] at h1i; subst h1i
    simp only []
    intro a b
    show (w2.loci i).mem (a, b) = true ↔ (b ∈ (w2.net.removeNode n).adj a ∧
      qual inst' L R ({ w2 with net := w2.net.removeNode n, comp := fun j x => if x = n then none else w2.comp j x } : W) a b = true)
    rw [b3 i (a, b), a3 i (a, b), b1, a1, removeNode_adj w.net ok]
    have hnot : ¬ (i ∈ effectsOf cfg inst' (w1.comp inst' n) ∧ (∀ a b c d, cfg.kind i ≠ .edge a b c d) ∧ (a, b) = eN n) := by
      rintro ⟨_, h, _⟩; exact h _ _ _ _ hk
    simp only [hnot, not_false_eq_true, and_true]
    have hq : ∀ g : Net, qual inst' L R ({ net := g, comp := fun j x => if x = n then none else w2.comp j x, loci := w2.loci } : W) a b = true
        ↔ (a ≠ n ∧ b ≠ n ∧ qual inst' L R w a b = true) := by
      intro g
      simp only [qual, hcomp]
      by_cases han : a = n
      · simp [han]
      · by_cases hbn : b = n
        · simp [han, hbn, inR]
        · simp [han, hbn]
    rw [hq, hi a b]
    simp only [pairOf_edge cfg wf w i inst' L R pf hk]
    have r1 := fun m => qual_registered cfg wf w i inst' L R pf hk n m
    have r2 := fun m => qual_registered cfg wf w i inst' L R pf hk m n
    constructor
    · rintro ⟨⟨h1, h2⟩, h3⟩
      have han : a ≠ n := by
        rintro rfl
        exact h3 ⟨b, h1, Or.inl (r1 b h2).1, Or.inl ⟨rfl, h2⟩⟩
      have hbn : b ≠ n := by
        rintro rfl
        exact h3 ⟨a, (ok.sym _ _).1 h1, Or.inl (r2 a h2).2, Or.inr ⟨rfl, h2⟩⟩
      exact ⟨⟨h1, han, hbn⟩, han, hbn, h2⟩
    · rintro ⟨⟨h1, han, hbn⟩, _, _, h2⟩
      refine ⟨⟨h1, h2⟩, ?_⟩
      rintro ⟨m, _, _, ⟨h5, _⟩ | ⟨h5, _⟩⟩
      · simp only [Prod.mk.injEq] at h5; exact han h5.1
      · simp only [Prod.mk.injEq] at h5; exact hbn h5.2

/-- `setCompartment` on a node that has no compartment yet is `changeCompartment` -/
theorem setCompartment_eq (cfg : Cfg) (w : W) (inst : Nat) (n : Node) (c : Nat) (h : w.comp inst n = none) :
    setCompartment cfg w inst n c = changeCompartment cfg w inst n c := by
  unfold setCompartment changeCompartment leaveW effectsOf; simp [h]

/-- **addNode** of a fresh node (with or without a compartment) keeps every locus equal to its specification -/
theorem addNode_inv (cfg : Cfg) (wf : WfCfg cfg) (w : W) (inst : Nat) (n : Node) (c : Option Nat)
    (ok : NetOK w.net) (fresh : n ∉ w.net.nodes) (hnc : w.comp inst n = none) (inv : InvAll cfg w) :
    InvAll cfg (addNode cfg w inst n c) := by
  have inv1 : InvAll cfg { w with net := w.net.addNode n } := by
    intro i
    have hi := inv i
    cases hk : cfg.kind i with
    | plain => trivial
    | node a b => rw [hk] at hi; exact hi
    | edge a L R pf =>
      rw [hk] at hi; simp only []
      intro x y
      rw [hi x y]
      show _ ↔ (y ∈ (w.net.addNode n).adj x ∧ _)
      rw [addNode_adj w.net ok n x y fresh]; rfl
  have sym1 : Sym (w.net.addNode n) := by
    intro a b; rw [addNode_adj w.net ok n a b fresh, addNode_adj w.net ok n b a fresh]; exact ok.sym a b
  unfold addNode
  cases c with
  | none => exact inv1
  | some c =>
    simp only []
    rw [setCompartment_eq cfg { w with net := w.net.addNode n } inst n c hnc]
    exact changeCompartment_inv cfg wf _ inst n c sym1 inv1

end Comp
