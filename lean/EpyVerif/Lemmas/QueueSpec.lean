import EpyVerif.Lemmas.QueueOrder
/-! C04: the queue (sorted list + lazy deletion + finder) refines a finite map `id ↦ time` of pending events. -/
set_option linter.unusedSectionVars false
namespace Queue
open Std Dyn

variable {K E : Type} [LT K] [LE K] [DecidableLT K] [DecidableLE K] [IsLinearOrder K] [LawfulOrderLT K] [Arith K]

theorem inj_of_nodup_map {α β : Type} (f : α → β) : ∀ (l : List α), (l.map f).Nodup → ∀ {x y}, x ∈ l → y ∈ l → f x = f y → x = y := by
  intro l
  induction l with
  | nil => intro _ x y hx; simp at hx
  | cons a as ih =>
    intro hn x y hx hy he
    simp only [List.map_cons, List.nodup_cons] at hn
    rcases List.mem_cons.1 hx with hxa | hx' <;> rcases List.mem_cons.1 hy with hya | hy'
    · rw [hxa, hya]
    · subst hxa; exact (hn.1 (List.mem_map.2 ⟨y, hy', he.symm⟩)).elim
    · subst hya; exact (hn.1 (List.mem_map.2 ⟨x, hx', he⟩)).elim
    · exact ih hn.2 hx' hy' he

/-- the abstract state: event `id` is pending for time `t` -/
def Pending (q : S K E) (id : Nat) (t : K) : Prop := ∃ x ∈ q.heap, x.live = true ∧ x.id = id ∧ x.time = t

structure FQ (q : S K E) : Prop where
  sorted : q.heap.Pairwise before
  ids : ∀ x ∈ q.heap, x.id < q.nextId
  nodup : (q.heap.map (·.id)).Nodup
  fnodup : (q.finder.map (·.1)).Nodup
  finder : ∀ id t, (id, t) ∈ q.finder ↔ Pending q id t

theorem lookup_iff (f : List (Nat × K)) (hn : (f.map (·.1)).Nodup) (id : Nat) (t : K) :
    lookup f id = some t ↔ (id, t) ∈ f := by
  induction f with
  | nil => simp [lookup]
  | cons p ps ih =>
    simp only [List.map_cons, List.nodup_cons] at hn
    unfold lookup
    simp only [List.find?_cons]
    by_cases hp : p.1 = id
    · simp only [hp, beq_self_eq_true, Option.map_some, Option.some.injEq, List.mem_cons]
      constructor
      · intro h; left; rw [← h, ← hp]
      · rintro (h | h)
        · rw [← h]
        · exfalso; apply hn.1; rw [hp]; exact List.mem_map.2 ⟨(id, t), h, rfl⟩
    · have : (p.1 == id) = false := by simpa using hp
      simp only [this, List.mem_cons]
      have ih' := ih hn.2
      unfold lookup at ih'
      rw [ih']
      constructor
      · intro h; exact Or.inr h
      · rintro (h | h)
        · exfalso; apply hp; rw [← h]
        · exact h

theorem pendingTime_iff {q : S K E} (h : FQ q) (id : Nat) (t : K) : pendingTime q id = some t ↔ Pending q id t := by
  unfold pendingTime; rw [lookup_iff _ h.fnodup, h.finder]

theorem pendingTime_none {q : S K E} (h : FQ q) (id : Nat) : pendingTime q id = none ↔ ∀ t, ¬ Pending q id t := by
  constructor
  · intro hn t hp; rw [(pendingTime_iff h id t).2 hp] at hn; cases hn
  · intro hn
    cases hc : pendingTime q id with
    | none => rfl
    | some t => exact absurd ((pendingTime_iff h id t).1 hc) (hn t)

/-- an id determines its entry -/
theorem pending_unique {q : S K E} (h : FQ q) {id : Nat} {t t' : K} (h1 : Pending q id t) (h2 : Pending q id t') : t = t' := by
  obtain ⟨x, hx, _, hxi, hxt⟩ := h1
  obtain ⟨y, hy, _, hyi, hyt⟩ := h2
  have : x = y := by
    have := inj_of_nodup_map _ _ h.nodup hx hy (hxi.trans hyi.symm)
    exact this
  rw [← hxt, ← hyt, this]

/-- posting into the past is rejected and changes nothing (`ValueError`) -/
theorem post_past (q : S K E) (t : K) (e : E) (h : Nat) (hp : t < q.now) : post q t e h = (q, none) := by
  unfold post; simp [hp]

/-- a successful post returns a fresh id, which is then pending for exactly `t`; nothing else changes -/
theorem post_spec (q : S K E) (t : K) (e : E) (h : Nat) (hq : FQ q) (hp : ¬ t < q.now) :
    (post q t e h).2 = some q.nextId ∧ FQ (post q t e h).1 ∧
    (∀ id t', Pending (post q t e h).1 id t' ↔ ((id = q.nextId ∧ t' = t) ∨ Pending q id t')) := by
  have hfresh : ∀ t', ¬ Pending q q.nextId t' := by
    rintro t' ⟨x, hx, _, hi, _⟩; have := hq.ids x hx; omega
  have hpend : ∀ id t', Pending (post q t e h).1 id t' ↔ ((id = q.nextId ∧ t' = t) ∨ Pending q id t') := by
    intro id t'
    unfold post; simp only [hp, if_false]
    unfold Pending
    constructor
    · rintro ⟨x, hx, hl, hi, ht⟩
      rcases (mem_insert _ _ _).1 hx with rfl | hx
      · left; exact ⟨hi.symm, ht.symm⟩
      · right; exact ⟨x, hx, hl, hi, ht⟩
    · rintro (⟨rfl, rfl⟩ | ⟨x, hx, hl, hi, ht⟩)
      · exact ⟨_, (mem_insert _ _ _).2 (Or.inl rfl), rfl, rfl, rfl⟩
      · exact ⟨x, (mem_insert _ _ _).2 (Or.inr hx), hl, hi, ht⟩
  refine ⟨by unfold post; simp [hp], ?_, hpend⟩
  have h0 : Inv0 q := ⟨hq.sorted, hq.ids⟩
  have i0 := post_inv0 t e h h0
  refine ⟨i0.sorted, i0.ids, post_nodup t e h h0 hq.nodup, ?_, ?_⟩
  · unfold post; simp only [hp, if_false, List.map_cons, List.nodup_cons]
    refine ⟨?_, hq.fnodup⟩
    intro hm
    obtain ⟨p, hpm, hpe⟩ := List.mem_map.1 hm
    have := (hq.finder p.1 p.2).1 hpm
    rw [hpe] at this; exact hfresh _ this
  · intro id t'
    rw [hpend]
    unfold post; simp only [hp, if_false, List.mem_cons, Prod.mk.injEq]
    rw [hq.finder]

/-- un-posting something that is not pending changes nothing (`KeyError` / `None`) -/
theorem unpost_missing (q : S K E) (id : Nat) (h : pendingTime q id = none) : unpost q id = (q, none) := by
  unfold unpost; unfold pendingTime at h; simp [h]

/-- un-posting a pending event returns the time it was due; afterwards it is not pending, everything else is -/
theorem unpost_spec (q : S K E) (id : Nat) (t : K) (hq : FQ q) (hp : pendingTime q id = some t) :
    (unpost q id).2 = some t ∧ FQ (unpost q id).1 ∧
    (∀ id' t', Pending (unpost q id).1 id' t' ↔ (id' ≠ id ∧ Pending q id' t')) := by
  have hl : lookup q.finder id = some t := hp
  have hpend : ∀ id' t', Pending (unpost q id).1 id' t' ↔ (id' ≠ id ∧ Pending q id' t') := by
    intro id' t'
    unfold unpost; simp only [hl]
    unfold Pending
    constructor
    · rintro ⟨x, hx, hlv, hi, ht⟩
      simp only [List.mem_map] at hx
      obtain ⟨y, hy, rfl⟩ := hx
      by_cases hyi : y.id = id
      · simp [hyi] at hlv
      · simp only [hyi, if_false] at hlv hi ht
        exact ⟨by rw [← hi]; exact hyi, y, hy, hlv, hi, ht⟩
    · rintro ⟨hne, x, hx, hlv, hi, ht⟩
      refine ⟨x, ?_, hlv, hi, ht⟩
      simp only [List.mem_map]
      exact ⟨x, hx, by simp [hi, hne]⟩
  refine ⟨by unfold unpost; simp [hl], ?_, hpend⟩
  have h0 : Inv0 q := ⟨hq.sorted, hq.ids⟩
  have i0 := unpost_inv0 id h0
  refine ⟨i0.sorted, i0.ids, by rw [unpost_ids]; exact hq.nodup, ?_, ?_⟩
  · unfold unpost; simp only [hl]
    exact hq.fnodup.sublist ((List.filter_sublist).map _)
  · intro id' t'
    rw [hpend]
    unfold unpost; simp only [hl, List.mem_filter, bne_iff_ne, ne_eq]
    rw [hq.finder]
    exact ⟨fun ⟨a, b⟩ => ⟨b, a⟩, fun ⟨a, b⟩ => ⟨b, a⟩⟩

/-- firing: the popped event was pending for exactly its time, is the least pending event in `(time, id)` order, is due,
    and afterwards is not pending any more while everything else is -/
theorem pop_spec (q q1 : S K E) (bound : K) (x : Entry K E) (hq : FQ q) (hp : popBefore q bound = some (q1, x)) :
    Pending q x.id x.time ∧ x.time ≤ bound ∧ FQ q1 ∧ q1.now = x.time ∧
    (∀ id t, Pending q id t → id = x.id ∨ keyLt (x.time, x.id) (t, id)) ∧
    (∀ id t, Pending q1 id t ↔ (id ≠ x.id ∧ Pending q id t)) := by
  have h0 : Inv0 q := ⟨hq.sorted, hq.ids⟩
  obtain ⟨hxmem, hlive, hle, hnow, hnid, h01, hrest, hall⟩ := popBefore_spec h0 hp
  have hxp : Pending q x.id x.time := ⟨x, hxmem, hlive, rfl, rfl⟩
  have hheap : ∀ z, z ∈ q1.heap → z.id ≠ x.id := by
    intro z hz he
    have hb := (hrest z hz).2
    have := inj_of_nodup_map _ _ hq.nodup (hrest z hz).1 hxmem he
    subst this
    rcases hb with h | ⟨_, h⟩
    · exact Std.lt_irrefl h
    · omega
  have hsub : q1.heap.Sublist q.heap ∧ q1.finder = q.finder.filter (·.1 != x.id) := by
    unfold popBefore at hp
    split at hp
    · simp at hp
    · rename_i y ys hd
      split at hp
      · simp only [Option.some.injEq, Prod.mk.injEq] at hp
        obtain ⟨rfl, rfl⟩ := hp
        obtain ⟨pre, hpre, _⟩ := dropDead_suffix q.heap
        rw [hd] at hpre
        refine ⟨?_, rfl⟩
        simp only; rw [hpre]
        exact (List.sublist_cons_self _ _).trans (List.sublist_append_right _ _)
      · simp at hp
  have hpend : ∀ id t, Pending q1 id t ↔ (id ≠ x.id ∧ Pending q id t) := by
    intro id t
    constructor
    · rintro ⟨z, hz, hl, hi, ht⟩
      exact ⟨by rw [← hi]; exact hheap z hz, z, (hrest z hz).1, hl, hi, ht⟩
    · rintro ⟨hne, z, hz, hl, hi, ht⟩
      rcases hall z hz hl with rfl | hz1
      · exact absurd hi.symm hne
      · exact ⟨z, hz1, hl, hi, ht⟩
  refine ⟨hxp, hle, ⟨h01.sorted, h01.ids, hq.nodup.sublist (hsub.1.map _), ?_, ?_⟩, hnow, ?_, hpend⟩
  · rw [hsub.2]; exact hq.fnodup.sublist ((List.filter_sublist).map _)
  · intro id t
    rw [hpend, hsub.2]
    simp only [List.mem_filter, bne_iff_ne, ne_eq]
    rw [hq.finder]
    exact ⟨fun ⟨a, b⟩ => ⟨b, a⟩, fun ⟨a, b⟩ => ⟨b, a⟩⟩
  · rintro id t ⟨z, hz, hl, hi, ht⟩
    rcases hall z hz hl with rfl | hz1
    · left; exact hi.symm
    · right
      have := (hrest z hz1).2
      rw [← hi, ← ht]; exact this

/-- nothing is fired only when nothing pending is due -/
theorem pop_none (q : S K E) (bound : K) (hq : FQ q) (hp : popBefore q bound = none) :
    ∀ id t, Pending q id t → bound < t := by
  rintro id t ⟨x, hx, hl, _, ht⟩
  have := none_due (U := Unit) (Λ := Unit)
    (⟨fun _ _ _ => .done, fun _ s => s.u, fun _ _ => false, fun _ => [], fun _ => [], fun _ _ => 0, fun _ _ => [],
      fun _ _ _ => false, fun _ _ => none, fun _ => none⟩ : Proc K Unit E Unit) bound ⟨q, ()⟩ ⟨hq.sorted, hq.ids⟩
    (by unfold firePosted; simp [hp]) x hx hl
  rw [← ht]; exact this

end Queue
