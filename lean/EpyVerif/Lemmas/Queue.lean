import EpyVerif.Model.Queue
/-! Invariants of the posted-event queue, for every linearly ordered time type. -/
set_option linter.unusedSectionVars false
namespace Queue
open Std

variable {K E : Type} [LT K] [LE K] [DecidableLT K] [DecidableLE K] [IsLinearOrder K] [LawfulOrderLT K]

theorem tle_of_not_lt {a b : K} (h : ¬ a < b) : b ≤ a := Std.not_lt.1 h
theorem tlt_of_not_le {a b : K} (h : ¬ a ≤ b) : b < a := Std.not_le.1 h
theorem tnot_lt_of_le {a b : K} (h : a ≤ b) : ¬ b < a := Std.not_lt.2 h

theorem mem_insert (x y : Entry K E) (l : List (Entry K E)) : y ∈ insert x l ↔ y = x ∨ y ∈ l := by
  induction l with
  | nil => simp [insert]
  | cons z zs ih =>
    simp only [insert]
    split
    · simp
    · simp [ih]; grind

theorem before_trans {a b c : Entry K E} (h1 : before a b) (h2 : before b c) : before a c := by
  unfold before at *
  rcases h1 with h1 | ⟨h1, h1'⟩ <;> rcases h2 with h2 | ⟨h2, h2'⟩
  · exact Or.inl (Std.lt_trans h1 h2)
  · exact Or.inl (Std.lt_of_lt_of_le h1 (tle_of_not_lt h2))
  · exact Or.inl (Std.lt_of_le_of_lt (tle_of_not_lt h1) h2)
  · exact Or.inr ⟨tnot_lt_of_le (Std.le_trans (tle_of_not_lt h1) (tle_of_not_lt h2)), Nat.lt_trans h1' h2'⟩

theorem before_total {a b : Entry K E} (h : a.id ≠ b.id) : before a b ∨ before b a := by
  unfold before
  by_cases h1 : a.time < b.time
  · exact Or.inl (Or.inl h1)
  · by_cases h2 : b.time < a.time
    · exact Or.inr (Or.inl h2)
    · rcases Nat.lt_or_gt_of_ne h with h3 | h3
      · exact Or.inl (Or.inr ⟨h2, h3⟩)
      · exact Or.inr (Or.inr ⟨h1, h3⟩)

/-- `before` gives `≤` on times -/
theorem before_le {a b : Entry K E} (h : before a b) : a.time ≤ b.time := by
  rcases h with h | ⟨h, _⟩
  · exact Std.le_of_lt h
  · exact tle_of_not_lt h

theorem pairwise_insert (x : Entry K E) (l : List (Entry K E)) (hs : l.Pairwise before)
    (hid : ∀ y ∈ l, x.id ≠ y.id) : (insert x l).Pairwise before := by
  induction l with
  | nil => simp [insert]
  | cons z zs ih =>
    simp only [insert]
    rw [List.pairwise_cons] at hs
    split
    · rename_i hb
      refine List.Pairwise.cons ?_ (List.Pairwise.cons hs.1 hs.2)
      intro y hy
      rcases List.mem_cons.1 hy with rfl | hy
      · exact hb
      · exact before_trans hb (hs.1 y hy)
    · rename_i hb
      have hzx : before z x := by
        rcases before_total (hid z (List.mem_cons_self)) with h | h
        · exact absurd h hb
        · exact h
      refine List.Pairwise.cons ?_ (ih hs.2 (fun y hy => hid y (List.mem_cons_of_mem _ hy)))
      intro y hy
      rcases (mem_insert x y zs).1 hy with rfl | hy
      · exact hzx
      · exact hs.1 y hy

/-- the key `(t0, i0)` of the last fired event is strictly below everything still queued, and below
    anything that can still be posted -/
structure Above (t0 : K) (i0 : Nat) (s : S K E) : Prop where
  heap : ∀ x ∈ s.heap, t0 < x.time ∨ (¬ x.time < t0 ∧ i0 < x.id)
  clock : t0 ≤ s.now
  idlt : i0 < s.nextId

structure Inv (s : S K E) : Prop where
  sorted : s.heap.Pairwise before
  ids : ∀ x ∈ s.heap, x.id < s.nextId
  future : ∀ x ∈ s.heap, x.live = true → s.now ≤ x.time

theorem post_inv {s : S K E} (t : K) (e : E) (h : Nat) (hi : Inv s) : Inv (post s t e h).1 := by
  unfold post
  split
  · exact hi
  · rename_i hlt
    constructor
    · apply pairwise_insert _ _ hi.sorted
      intro y hy; have := hi.ids y hy; simp; omega
    · intro x hx
      rcases (mem_insert _ _ _).1 hx with rfl | hx
      · simp
      · have := hi.ids x hx; simp; omega
    · intro x hx hl
      rcases (mem_insert _ _ _).1 hx with rfl | hx
      · simp; exact tle_of_not_lt hlt
      · exact hi.future x hx hl

theorem post_above {s : S K E} {t0 : K} {i0 : Nat} (t : K) (e : E) (h : Nat) (ha : Above t0 i0 s) :
    Above t0 i0 (post s t e h).1 := by
  unfold post
  split
  · exact ha
  · rename_i hlt
    have hge : s.now ≤ t := tle_of_not_lt hlt
    constructor
    · intro x hx
      rcases (mem_insert _ _ _).1 hx with rfl | hx
      · simp only
        exact Or.inr ⟨tnot_lt_of_le (Std.le_trans ha.clock hge), ha.idlt⟩
      · exact ha.heap x hx
    · exact ha.clock
    · simp; have := ha.idlt; omega

theorem unpost_inv {s : S K E} (id : Nat) (hi : Inv s) : Inv (unpost s id).1 := by
  unfold unpost
  split
  · exact hi
  · constructor
    · simp only
      rw [List.pairwise_map]
      refine hi.sorted.imp ?_
      intro a b hab
      unfold before at *
      split <;> split <;> simpa using hab
    · intro x hx
      simp only [List.mem_map] at hx
      obtain ⟨y, hy, rfl⟩ := hx
      have := hi.ids y hy
      split <;> simpa using this
    · intro x hx hl
      simp only [List.mem_map] at hx
      obtain ⟨y, hy, rfl⟩ := hx
      split at hl
      · simp at hl
      · rename_i hne; simp only [hne, if_false]; exact hi.future y hy hl

theorem unpost_above {s : S K E} {t0 : K} {i0 : Nat} (id : Nat) (ha : Above t0 i0 s) : Above t0 i0 (unpost s id).1 := by
  unfold unpost
  split
  · exact ha
  · constructor
    · intro x hx
      simp only [List.mem_map] at hx
      obtain ⟨y, hy, rfl⟩ := hx
      have := ha.heap y hy
      split <;> simpa using this
    · exact ha.clock
    · exact ha.idlt

variable {U : Type}

theorem exec_inv (p : Prog K U E) : ∀ (s : St K U E), Inv s.q → Inv (exec p s).q := by
  induction p with
  | done => intro s h; exact h
  | post t e h k ih => intro s hi; exact ih _ _ (post_inv t e h hi)
  | unpost id k ih => intro s hi; exact ih _ _ (unpost_inv id hi)
  | pending id k ih => intro s hi; exact ih _ _ hi
  | clock k ih => intro s hi; exact ih _ _ hi
  | get k ih => intro s hi; exact ih _ _ hi
  | put u k ih => intro s hi; exact ih _ hi

theorem exec_above (p : Prog K U E) {t0 : K} {i0 : Nat} : ∀ (s : St K U E), Above t0 i0 s.q → Above t0 i0 (exec p s).q := by
  induction p with
  | done => intro s h; exact h
  | post t e h k ih => intro s hi; exact ih _ _ (post_above t e h hi)
  | unpost id k ih => intro s hi; exact ih _ _ (unpost_above id hi)
  | pending id k ih => intro s hi; exact ih _ _ hi
  | clock k ih => intro s hi; exact ih _ _ hi
  | get k ih => intro s hi; exact ih _ _ hi
  | put u k ih => intro s hi; exact ih _ hi

/-- handlers never move the clock -/
theorem exec_now (p : Prog K U E) : ∀ (s : St K U E), (exec p s).q.now = s.q.now := by
  induction p with
  | done => intro s; rfl
  | post t e h k ih => intro s; simp only [exec]; rw [ih]; unfold post; split <;> rfl
  | unpost id k ih => intro s; simp only [exec]; rw [ih]; unfold unpost; split <;> rfl
  | pending id k ih => intro s; simp only [exec]; rw [ih]
  | clock k ih => intro s; simp only [exec]; rw [ih]
  | get k ih => intro s; simp only [exec]; rw [ih]
  | put u k ih => intro s; simp only [exec]; rw [ih]

theorem dropDead_sub (l : List (Entry K E)) : ∀ x ∈ dropDead l, x ∈ l := by
  induction l with
  | nil => simp [dropDead]
  | cons y ys ih =>
    intro x hx
    simp only [dropDead] at hx
    split at hx
    · exact hx
    · exact List.mem_cons_of_mem _ (ih x hx)

theorem dropDead_suffix (l : List (Entry K E)) : ∃ pre, l = pre ++ dropDead l ∧ ∀ z ∈ pre, z.live = false := by
  induction l with
  | nil => exact ⟨[], rfl, by simp⟩
  | cons y ys ih =>
    simp only [dropDead]
    split
    · exact ⟨[], rfl, by simp⟩
    · rename_i hl
      obtain ⟨pre, h, hd⟩ := ih
      refine ⟨y :: pre, by simp [← h], ?_⟩
      intro z hz
      rcases List.mem_cons.1 hz with rfl | hz
      · simpa using hl
      · exact hd z hz

theorem dropDead_head_live (l : List (Entry K E)) (x : Entry K E) (xs : List (Entry K E))
    (h : dropDead l = x :: xs) : x.live = true := by
  induction l with
  | nil => simp [dropDead] at h
  | cons y ys ih =>
    simp only [dropDead] at h
    split at h
    · rename_i hl; simp at h; rw [← h.1]; exact hl
    · exact ih h

theorem dropDead_nil (l : List (Entry K E)) (h : dropDead l = []) : ∀ y ∈ l, y.live = false := by
  induction l with
  | nil => intro y hy; simp at hy
  | cons z zs ih =>
    intro y hy
    simp only [dropDead] at h
    split at h
    · simp at h
    · rename_i hz
      rcases List.mem_cons.1 hy with rfl | hy
      · simpa using hz
      · exact ih h y hy

end Queue
