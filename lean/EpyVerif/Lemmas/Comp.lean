import EpyVerif.Model.Comp
/-! C01 lemmas about `Model/Comp.lean`: the sweeps of the enter / leave handlers, the orientation chosen by `matches`,
    and `changeCompartment` on a single edge locus (L ∉ R). -/
set_option linter.unusedSectionVars false
namespace Comp
open Bbt

theorem mem_add' (s : LSet) (e x : Elem) : (s.add e).mem x = true ↔ (x = e ∨ s.mem x = true) := TSet.mem_add s e x
theorem mem_discard' (s : LSet) (e x : Elem) : (s.discard e).mem x = true ↔ (x ≠ e ∧ s.mem x = true) := TSet.mem_discard s e x

/-! ### what a handler touches -/

@[simp] theorem updLocus_net (w : W) (i : Nat) (f : LSet → LSet) : (updLocus w i f).net = w.net := rfl
@[simp] theorem updLocus_comp (w : W) (i : Nat) (f : LSet → LSet) : (updLocus w i f).comp = w.comp := rfl
@[simp] theorem updLocus_same (w : W) (i : Nat) (f : LSet → LSet) : (updLocus w i f).loci i = f (w.loci i) := by simp [updLocus]
theorem updLocus_other (w : W) (i j : Nat) (f : LSet → LSet) (h : j ≠ i) : (updLocus w i f).loci j = w.loci j := by simp [updLocus, h]

theorem orient_congr (k : LKind) (w w' : W) (h : w'.comp = w.comp) (n m : Node) : orient k w' n m = orient k w n m := by
  unfold orient qual; cases k <;> simp [h]

/-- a sweep of `stepAdd` / `stepDis` only changes locus `i`, by adds / discards decided in the starting world -/
def sweepSet (k : LKind) (n : Node) (w0 : W) (add : Bool) (s : LSet) (ms : List Node) : LSet :=
  ms.foldl (fun s m => match orient k w0 n m with
    | some (a, b) => if add then s.add (a, b) else s.discard (a, b)
    | none => s) s

theorem sweep_world (k : LKind) (i : Nat) (n : Node) (add : Bool) : ∀ (ms : List Node) (w : W),
    let w' := ms.foldl (if add then stepAdd k i n else stepDis k i n) w
    w'.net = w.net ∧ w'.comp = w.comp ∧ (∀ j, j ≠ i → w'.loci j = w.loci j) ∧
    w'.loci i = sweepSet k n w add (w.loci i) ms := by
  intro ms
  induction ms with
  | nil => intro w; exact ⟨rfl, rfl, fun _ _ => rfl, rfl⟩
  | cons m ms ih =>
    intro w
    simp only [List.foldl_cons]
    have key : ∀ w1 : W, w1.net = w.net → w1.comp = w.comp → (∀ j, j ≠ i → w1.loci j = w.loci j) →
        (w1.loci i = match orient k w n m with
          | some (a, b) => if add then (w.loci i).add (a, b) else (w.loci i).discard (a, b)
          | none => w.loci i) →
        (let w' := ms.foldl (if add then stepAdd k i n else stepDis k i n) w1
         w'.net = w.net ∧ w'.comp = w.comp ∧ (∀ j, j ≠ i → w'.loci j = w.loci j) ∧
         w'.loci i = sweepSet k n w add (w.loci i) (m :: ms)) := by
      intro w1 h1 h2 h3 h4
      obtain ⟨a1, a2, a3, a4⟩ := ih w1
      refine ⟨a1.trans h1, a2.trans h2, fun j hj => (a3 j hj).trans (h3 j hj), ?_⟩
      rw [a4, h4]
      simp only [sweepSet, List.foldl_cons]
      congr 1
      funext s m'; rw [orient_congr k w w1 h2]
    cases add with
    | true =>
      simp only [if_true]
      apply key
      · unfold stepAdd; split <;> simp
      · unfold stepAdd; split <;> simp
      · intro j hj; unfold stepAdd; split <;> simp [updLocus_other _ _ _ _ hj]
      · unfold stepAdd; split <;> simp_all
    | false =>
      simp only [Bool.false_eq_true, if_false]
      apply key
      · unfold stepDis; split <;> simp
      · unfold stepDis; split <;> simp
      · intro j hj; unfold stepDis; split <;> simp [updLocus_other _ _ _ _ hj]
      · unfold stepDis; split <;> simp_all

theorem sweep_add_mem (k : LKind) (n : Node) (w0 : W) (ms : List Node) (s : LSet) (x y : Node) :
    (sweepSet k n w0 true s ms).mem (x, y) = true ↔ (s.mem (x, y) = true ∨ ∃ m ∈ ms, orient k w0 n m = some (x, y)) := by
  induction ms generalizing s with
  | nil => simp [sweepSet]
  | cons m ms ih =>
    simp only [sweepSet, List.foldl_cons] at ih ⊢
    rw [ih]
    simp only [List.mem_cons, exists_eq_or_imp, if_true]
    cases h : orient k w0 n m with
    | none => simp
    | some p =>
      obtain ⟨a, b⟩ := p
      simp only [mem_add', Option.some.injEq, Prod.mk.injEq]
      constructor
      · rintro ((⟨rfl, rfl⟩ | h1) | h2)
        · exact Or.inr (Or.inl ⟨rfl, rfl⟩)
        · exact Or.inl h1
        · exact Or.inr (Or.inr h2)
      · rintro (h1 | ⟨rfl, rfl⟩ | h2)
        · exact Or.inl (Or.inr h1)
        · exact Or.inl (Or.inl ⟨rfl, rfl⟩)
        · exact Or.inr h2

theorem sweep_dis_mem (k : LKind) (n : Node) (w0 : W) (ms : List Node) (s : LSet) (x y : Node) :
    (sweepSet k n w0 false s ms).mem (x, y) = true ↔ (s.mem (x, y) = true ∧ ¬ ∃ m ∈ ms, orient k w0 n m = some (x, y)) := by
  induction ms generalizing s with
  | nil => simp [sweepSet]
  | cons m ms ih =>
    simp only [sweepSet, List.foldl_cons] at ih ⊢
    rw [ih]
    simp only [List.mem_cons, exists_eq_or_imp, Bool.false_eq_true, if_false]
    cases h : orient k w0 n m with
    | none => simp
    | some p =>
      obtain ⟨a, b⟩ := p
      simp only [mem_discard', Option.some.injEq, Prod.mk.injEq, ne_eq, not_or, not_and]
      grind

/-! ### orientation -/

theorem qual_iff (inst L : Nat) (R : List Nat) (w : W) (n m : Node) :
    qual inst L R w n m = true ↔ w.comp inst n = some L ∧ ∃ c, w.comp inst m = some c ∧ c ∈ R := by
  simp only [qual, Bool.and_eq_true, beq_iff_eq, inR]
  cases w.comp inst m <;> simp

/-- with L ∉ R no pair qualifies both ways, and `orient` is just "the qualifying orientation" -/
theorem orient_iff (inst L : Nat) (R : List Nat) (pf : Bool) (w : W) (hLR : L ∉ R) (n m x y : Node) :
    orient (.edge inst L R pf) w n m = some (x, y) ↔
      ((x = n ∧ y = m ∧ qual inst L R w n m = true) ∨ (x = m ∧ y = n ∧ qual inst L R w m n = true)) := by
  have excl : ¬ (qual inst L R w n m = true ∧ qual inst L R w m n = true) := by
    rw [qual_iff, qual_iff]
    rintro ⟨⟨h1, -⟩, ⟨-, c, h3, h4⟩⟩
    rw [h1] at h3; cases h3; exact hLR h4
  unfold orient
  by_cases h1 : qual inst L R w n m = true <;> by_cases h2 : qual inst L R w m n = true
  · exact absurd ⟨h1, h2⟩ excl
  · cases pf <;> simp [h1, h2] <;> grind
  · cases pf <;> simp [h1, h2] <;> grind
  · cases pf <;> simp [h1, h2]

/-! ### one edge locus under `changeCompartment` -/

/-- the edge locus tracks exactly the edges of the network from a node in `L` to a node in `R`, left endpoint first -/
def ESpec (inst L : Nat) (R : List Nat) (w : W) (s : LSet) : Prop :=
  ∀ a b, s.mem (a, b) = true ↔ (b ∈ w.net.adj a ∧ qual inst L R w a b = true)

def Sym (g : Net) : Prop := ∀ a b, b ∈ g.adj a ↔ a ∈ g.adj b

def watched (L : Nat) (R : List Nat) (x : Nat) : Bool := x == L || R.contains x

/-- contents of an edge locus after `changeCompartment(n, c)`, as a function of its old contents -/
def changeSet (inst L : Nat) (R : List Nat) (pf : Bool) (w : W) (s : LSet) (n : Node) (c : Nat) : LSet :=
  let k := LKind.edge inst L R pf
  let s1 := match w.comp inst n with
    | some oc => if watched L R oc then sweepSet k n w false s (w.net.adj n) else s
    | none => s
  let w' := setComp w inst n (some c)
  if watched L R c then sweepSet k n w' true s1 (w.net.adj n) else s1

theorem setComp_comp_self (w : W) (inst : Nat) (n : Node) (c : Option Nat) : (setComp w inst n c).comp inst n = c := by
  simp [setComp]

theorem setComp_comp_other (w : W) (inst : Nat) (n x : Node) (c : Option Nat) (h : x ≠ n) :
    (setComp w inst n c).comp inst x = w.comp inst x := by simp [setComp, h]

theorem change_spec (inst L : Nat) (R : List Nat) (pf : Bool) (w : W) (s : LSet) (n : Node) (c : Nat)
    (hLR : L ∉ R) (sym : Sym w.net) (inv : ESpec inst L R w s) :
    ESpec inst L R (setComp w inst n (some c)) (changeSet inst L R pf w s n c) := by
  let k := LKind.edge inst L R pf
  let w' := setComp w inst n (some c)
  have qfar : ∀ x y, x ≠ n → y ≠ n → qual inst L R w' x y = qual inst L R w x y := by
    intro x y hx hy; simp [qual, w', setComp_comp_other, hx, hy]
  have unw : ∀ (g' : W) oc, g'.comp inst n = some oc → watched L R oc = false →
      ∀ x, qual inst L R g' n x = false ∧ qual inst L R g' x n = false := by
    intro g' oc h hw x
    simp only [watched, Bool.or_eq_false_iff, beq_eq_false_iff_ne, List.contains_eq_mem, decide_eq_false_iff_not] at hw
    constructor
    · rw [Bool.eq_false_iff]; intro hq; rw [qual_iff, h] at hq; exact hw.1 (by cases hq.1; rfl)
    · rw [Bool.eq_false_iff]; intro hq; rw [qual_iff, h] at hq; obtain ⟨-, c', h1, h2⟩ := hq; cases h1; exact hw.2 h2
  have none_old : w.comp inst n = none → ∀ x, qual inst L R w n x = false ∧ qual inst L R w x n = false := by
    intro h x
    constructor <;> (rw [Bool.eq_false_iff]; intro hq; rw [qual_iff, h] at hq; simp at hq)
  have newcomp : w'.comp inst n = some c := setComp_comp_self w inst n (some c)
  -- step 1: after the leave handlers the locus holds exactly the qualifying pairs not touching n
  let s1 : LSet := match w.comp inst n with
    | some oc => if watched L R oc then sweepSet k n w false s (w.net.adj n) else s
    | none => s
  have hs1 : ∀ a b, s1.mem (a, b) = true ↔ (b ∈ w.net.adj a ∧ qual inst L R w a b = true ∧ a ≠ n ∧ b ≠ n) := by
    intro a b
    have base := inv a b
    show (match w.comp inst n with
      | some oc => if watched L R oc then sweepSet k n w false s (w.net.adj n) else s
      | none => s).mem (a, b) = true ↔ _
    cases hc : w.comp inst n with
    | none =>
      simp only [base]
      have := none_old hc
      constructor
      · rintro ⟨h1, h2⟩
        refine ⟨h1, h2, ?_, ?_⟩
        · rintro rfl; rw [(this b).1] at h2; cases h2
        · rintro rfl; rw [(this a).2] at h2; cases h2
      · rintro ⟨h1, h2, -, -⟩; exact ⟨h1, h2⟩
    | some oc =>
      simp only []
      by_cases hw : watched L R oc = true
      · simp only [hw, if_true]
        rw [sweep_dis_mem, base]
        constructor
        · rintro ⟨⟨h1, h2⟩, h3⟩
          refine ⟨h1, h2, ?_, ?_⟩
          · rintro rfl
            exact h3 ⟨b, h1, (orient_iff inst L R pf w hLR _ _ _ _).2 (Or.inl ⟨rfl, rfl, h2⟩)⟩
          · rintro rfl
            exact h3 ⟨a, (sym a b).1 h1, (orient_iff inst L R pf w hLR _ _ _ _).2 (Or.inr ⟨rfl, rfl, h2⟩)⟩
        · rintro ⟨h1, h2, h3, h4⟩
          refine ⟨⟨h1, h2⟩, ?_⟩
          rintro ⟨m, -, hm⟩
          rcases (orient_iff inst L R pf w hLR _ _ _ _).1 hm with ⟨rfl, -, -⟩ | ⟨-, rfl, -⟩
          · exact h3 rfl
          · exact h4 rfl
      · have hw' : watched L R oc = false := by simpa using hw
        simp only [hw', Bool.false_eq_true, if_false, base]
        have := unw w oc hc hw'
        constructor
        · rintro ⟨h1, h2⟩
          refine ⟨h1, h2, ?_, ?_⟩
          · rintro rfl; rw [(this b).1] at h2; cases h2
          · rintro rfl; rw [(this a).2] at h2; cases h2
        · rintro ⟨h1, h2, -, -⟩; exact ⟨h1, h2⟩
  -- step 2
  intro a b
  show (if watched L R c then sweepSet k n w' true s1 (w.net.adj n) else s1).mem (a, b) = true ↔
    (b ∈ w'.net.adj a ∧ qual inst L R w' a b = true)
  have adj_eq : w'.net = w.net := rfl
  by_cases hw : watched L R c = true
  · simp only [hw, if_true]
    rw [sweep_add_mem, hs1, adj_eq]
    constructor
    · rintro (⟨h1, h2, h3, h4⟩ | ⟨m, hm, ho⟩)
      · exact ⟨h1, by rw [qfar a b h3 h4]; exact h2⟩
      · rcases (orient_iff inst L R pf w' hLR _ _ _ _).1 ho with ⟨rfl, rfl, hq⟩ | ⟨rfl, rfl, hq⟩
        · exact ⟨hm, hq⟩
        · exact ⟨(sym _ _).1 hm, hq⟩
    · rintro ⟨h1, h2⟩
      by_cases ha : a = n
      · subst ha
        exact Or.inr ⟨b, h1, (orient_iff inst L R pf w' hLR _ _ _ _).2 (Or.inl ⟨rfl, rfl, h2⟩)⟩
      · by_cases hb : b = n
        · subst hb
          exact Or.inr ⟨a, (sym _ _).1 h1, (orient_iff inst L R pf w' hLR _ _ _ _).2 (Or.inr ⟨rfl, rfl, h2⟩)⟩
        · exact Or.inl ⟨h1, by rw [← qfar a b ha hb]; exact h2, ha, hb⟩
  · have hw' : watched L R c = false := by simpa using hw
    simp only [hw', Bool.false_eq_true, if_false]
    rw [hs1, adj_eq]
    have := unw w' c newcomp hw'
    constructor
    · rintro ⟨h1, h2, h3, h4⟩
      exact ⟨h1, by rw [qfar a b h3 h4]; exact h2⟩
    · rintro ⟨h1, h2⟩
      have ha : a ≠ n := by rintro rfl; rw [(this b).1] at h2; cases h2
      have hb : b ≠ n := by rintro rfl; rw [(this a).2] at h2; cases h2
      exact ⟨h1, by rw [← qfar a b ha hb]; exact h2, ha, hb⟩

end Comp
