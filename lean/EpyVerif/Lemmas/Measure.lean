import Mathlib.MeasureTheory.Measure.Lebesgue.Basic
import Mathlib.Analysis.SpecialFunctions.Log.Basic
import Mathlib.Analysis.SpecialFunctions.Exp
/-! Bridge between the deterministic characterisations (threshold tests, inverse-CDF intervals, the log time step) and probability: Lebesgue measure of the sets of uniform random numbers that lead to each outcome. -/
open MeasureTheory Set Real
namespace Bridge

/-- a Bernoulli trial `rng.random() <= p` on an ideal uniform r ∈ [0,1) succeeds with probability p -/
theorem trial_law (p : ℝ) (h0 : 0 ≤ p) (h1 : p < 1) :
    volume {r : ℝ | r ∈ Ico 0 1 ∧ r ≤ p} = ENNReal.ofReal p := by
  have : {r : ℝ | r ∈ Ico 0 1 ∧ r ≤ p} = Icc 0 p := by
    ext r; simp only [mem_setOf_eq, mem_Ico, mem_Icc]; constructor
    · rintro ⟨⟨a, _⟩, c⟩; exact ⟨a, c⟩
    · rintro ⟨a, c⟩; exact ⟨⟨a, lt_of_le_of_lt c h1⟩, c⟩
  rw [this, Real.volume_Icc]; simp

theorem trial_law_one (p : ℝ) (h1 : 1 ≤ p) :
    volume {r : ℝ | r ∈ Ico 0 1 ∧ r ≤ p} = 1 := by
  have : {r : ℝ | r ∈ Ico 0 1 ∧ r ≤ p} = Ico 0 1 := by
    ext r; simp only [mem_setOf_eq, mem_Ico]; constructor
    · rintro ⟨h, _⟩; exact h
    · rintro ⟨a, b⟩; exact ⟨⟨a, b⟩, le_trans (le_of_lt b) h1⟩
  rw [this, Real.volume_Ico]; simp

/-- inverse-CDF choice: r₂ uniform on [0,1) lands in the interval of an event with probability rate / a -/
theorem select_law (a cum rate : ℝ) (ha : 0 < a) (hc : 0 ≤ cum) (hr : 0 ≤ rate) (hs : cum + rate ≤ a) :
    volume {r : ℝ | r ∈ Ico 0 1 ∧ cum ≤ r * a ∧ r * a < cum + rate} = ENNReal.ofReal (rate / a) := by
  have : {r : ℝ | r ∈ Ico 0 1 ∧ cum ≤ r * a ∧ r * a < cum + rate} = Ico (cum / a) ((cum + rate) / a) := by
    ext r; simp only [mem_setOf_eq, mem_Ico]
    constructor
    · rintro ⟨_, h1, h2⟩
      exact ⟨by rw [div_le_iff₀ ha]; exact h1, by rw [lt_div_iff₀ ha]; exact h2⟩
    · rintro ⟨h1, h2⟩
      rw [div_le_iff₀ ha] at h1; rw [lt_div_iff₀ ha] at h2
      refine ⟨⟨?_, ?_⟩, h1, h2⟩
      · by_contra hneg; push_neg at hneg
        have : r * a < 0 := mul_neg_of_neg_of_pos hneg ha
        linarith
      · by_contra hneg; push_neg at hneg
        have : a ≤ r * a := by nlinarith
        linarith
  rw [this, Real.volume_Ico]
  congr 1; field_simp; ring

/-- the Gillespie time step `ln(1/r₁)/a` of an ideal uniform r₁ ∈ (0,1) is exponential with rate a -/
theorem dt_law (a s : ℝ) (ha : 0 < a) (hs : 0 ≤ s) :
    volume {r : ℝ | r ∈ Ioo 0 1 ∧ s < Real.log (1 / r) / a} = ENNReal.ofReal (Real.exp (-(a * s))) := by
  have hle : Real.exp (-(a * s)) ≤ 1 := by
    rw [Real.exp_le_one_iff]; nlinarith
  have : {r : ℝ | r ∈ Ioo 0 1 ∧ s < Real.log (1 / r) / a} = Ioo 0 (Real.exp (-(a * s))) := by
    ext r; simp only [mem_setOf_eq, mem_Ioo]
    constructor
    · rintro ⟨⟨h0, _⟩, h⟩
      refine ⟨h0, ?_⟩
      rw [lt_div_iff₀ ha, one_div, Real.log_inv] at h
      have : Real.log r < -(a * s) := by linarith
      calc r = Real.exp (Real.log r) := (Real.exp_log h0).symm
        _ < Real.exp (-(a * s)) := Real.exp_lt_exp.2 this
    · rintro ⟨h0, h⟩
      refine ⟨⟨h0, lt_of_lt_of_le h hle⟩, ?_⟩
      rw [lt_div_iff₀ ha, one_div, Real.log_inv]
      have : Real.log r < -(a * s) := by
        have := Real.log_lt_log h0 h
        rwa [Real.log_exp] at this
      linarith
  rw [this, Real.volume_Ioo]; simp

end Bridge
