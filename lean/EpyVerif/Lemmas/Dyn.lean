import EpyVerif.Model.Dyn
import EpyVerif.Lemmas.Queue
/-! Run invariants of the two simulation loops, for arbitrary processes and handler programs. -/
set_option linter.unusedSectionVars false
namespace Dyn
open Queue Std

variable {K U E Λ : Type} [LT K] [LE K] [DecidableLT K] [DecidableLE K] [IsLinearOrder K] [LawfulOrderLT K] [Arith K]

/-- C03's statement about one fired event: handler time = clock = tap time = the event's own time -/
def EvOK (ev : Fired K E Λ) : Prop := ev.htime = ev.own ∧ ev.clock = ev.own ∧ ev.tap = ev.own

/-- sorted + ids: the part of the queue invariant that survives arbitrary clock moves -/
structure Inv0 (q : S K E) : Prop where
  sorted : q.heap.Pairwise before
  ids : ∀ x ∈ q.heap, x.id < q.nextId

/-- the run invariant: `b` is (a lower bound no smaller than) the own time of the last fired event -/
structure G (b : K) (s : St K U E) (tr : List (Fired K E Λ)) : Prop where
  inv0 : Inv0 s.q
  lb : ∀ x ∈ s.q.heap, x.live = true → b ≤ x.time
  bnow : b ≤ s.q.now
  ok : ∀ ev ∈ tr, EvOK ev
  mono : (tr.map (·.own)).Pairwise (· ≤ ·)
  below : ∀ ev ∈ tr, ev.own ≤ b

/-- a handler run from a state whose live entries are all ≥ now keeps Inv0 and the lower bound `now` -/
theorem exec_G (p : Prog K U E) (s : St K U E) (h0 : Inv0 s.q)
    (lb : ∀ x ∈ s.q.heap, x.live = true → s.q.now ≤ x.time) :
    Inv0 (exec p s).q ∧ (∀ x ∈ (exec p s).q.heap, x.live = true → s.q.now ≤ x.time) ∧ (exec p s).q.now = s.q.now := by
  have hi : Inv s.q := ⟨h0.sorted, h0.ids, lb⟩
  have hi' := exec_inv p s hi
  have hn := exec_now p s
  refine ⟨⟨hi'.sorted, hi'.ids⟩, ?_, hn⟩
  intro x hx hl; have := hi'.future x hx hl; rw [hn] at this; exact this

theorem pairwise_append_one (l : List K) (x : K) (h : l.Pairwise (· ≤ ·)) (hx : ∀ y ∈ l, y ≤ x) :
    (l ++ [x]).Pairwise (· ≤ ·) := by
  rw [List.pairwise_append]
  exact ⟨h, List.pairwise_singleton _ _, fun a ha b hb => by simp at hb; subst hb; exact hx a ha⟩

/-- what `popBefore` returns: the first live entry, which is due; the rest stays sorted and is not earlier -/
theorem popBefore_spec {s : S K E} {bound : K} {q1 : S K E} {x : Entry K E} (h0 : Inv0 s)
    (hp : popBefore s bound = some (q1, x)) :
    x ∈ s.heap ∧ x.live = true ∧ x.time ≤ bound ∧ q1.now = x.time ∧ q1.nextId = s.nextId ∧ Inv0 q1 ∧
    (∀ z ∈ q1.heap, z ∈ s.heap ∧ before x z) ∧
    (∀ z ∈ s.heap, z.live = true → z = x ∨ z ∈ q1.heap) := by
  unfold popBefore at hp
  split at hp
  · simp at hp
  · rename_i y ys hd
    split at hp
    · rename_i hle
      simp only [Option.some.injEq, Prod.mk.injEq] at hp
      obtain ⟨rfl, rfl⟩ := hp
      have hymem : y ∈ s.heap := dropDead_sub _ y (by rw [hd]; exact List.mem_cons_self)
      obtain ⟨pre, hpre, hdead⟩ := dropDead_suffix s.heap
      rw [hd] at hpre
      have hsorted := h0.sorted
      rw [hpre] at hsorted
      have hs2 := (List.pairwise_append.1 hsorted).2.1
      rw [List.pairwise_cons] at hs2
      have hysub : ∀ z ∈ ys, z ∈ s.heap := fun z hz => by rw [hpre]; simp [hz]
      refine ⟨hymem, dropDead_head_live _ _ _ hd, hle, rfl, rfl, ⟨hs2.2, fun z hz => h0.ids z (hysub z hz)⟩,
        fun z hz => ⟨hysub z hz, hs2.1 z hz⟩, ?_⟩
      intro z hz hl
      rw [hpre] at hz
      rcases List.mem_append.1 hz with h | h
      · have := hdead z h; rw [hl] at this; cases this
      · rcases List.mem_cons.1 h with h | h
        · exact Or.inl h
        · exact Or.inr h
    · simp at hp

/-- firing one posted event: its own time is ≥ everything before, all clocks agree, the invariant continues -/
theorem firePosted_G (P : Proc K U E Λ) (bound : K) {b : K} {s s' : St K U E} {tr : List (Fired K E Λ)} {ev : Fired K E Λ}
    (g : G b s tr) (hf : firePosted P bound s = some (s', ev)) :
    G ev.own s' (tr ++ [ev]) ∧ b ≤ ev.own ∧ ev.own ≤ bound ∧ ev.posted = true ∧ ev.member = true := by
  unfold firePosted at hf
  cases hp : popBefore s.q bound with
  | none => rw [hp] at hf; simp at hf
  | some r =>
    obtain ⟨q1, x⟩ := r
    rw [hp] at hf
    simp only [Option.some.injEq, Prod.mk.injEq] at hf
    obtain ⟨rfl, rfl⟩ := hf
    obtain ⟨hxmem, hlive, hle, hnow, _, h01, hrest, _⟩ := popBefore_spec g.inv0 hp
    have hby : b ≤ x.time := g.lb x hxmem hlive
    let s1 : St K U E := { s with q := q1 }
    have lb1 : ∀ z ∈ s1.q.heap, z.live = true → s1.q.now ≤ z.time := by
      intro z hz _
      show q1.now ≤ z.time
      rw [hnow]; exact before_le (hrest z hz).2
    obtain ⟨e0, elb, enow⟩ := exec_G (P.handler x.hid x.time x.elem) s1 h01 lb1
    refine ⟨⟨e0, ?_, ?_, ?_, ?_, ?_⟩, hby, hle, rfl, rfl⟩
    · intro z hz hl; have := elb z hz hl; rw [show s1.q.now = x.time from hnow] at this; exact this
    · show x.time ≤ (exec _ s1).q.now; rw [enow]; rw [show s1.q.now = x.time from hnow]; exact Std.le_refl _
    · intro ev hev
      rcases List.mem_append.1 hev with h | h
      · exact g.ok ev h
      · simp at h; subst h; exact ⟨rfl, hnow, rfl⟩
    · rw [List.map_append]
      apply pairwise_append_one _ _ g.mono
      intro z hz
      obtain ⟨ev, hev, rfl⟩ := List.mem_map.1 hz
      exact Std.le_trans (g.below ev hev) hby
    · intro ev hev
      rcases List.mem_append.1 hev with h | h
      · exact Std.le_trans (g.below ev h) hby
      · simp at h; subst h; exact Std.le_refl _

/-- when no posted event is due, every live entry is strictly later than the bound -/
theorem none_due (P : Proc K U E Λ) (bound : K) (s : St K U E) (h0 : Inv0 s.q) (hn : firePosted P bound s = none) :
    ∀ x ∈ s.q.heap, x.live = true → bound < x.time := by
  unfold firePosted at hn
  cases hp : popBefore s.q bound with
  | some r => rw [hp] at hn; simp at hn
  | none =>
    unfold popBefore at hp
    obtain ⟨pre, hpre, hdead⟩ := dropDead_suffix s.q.heap
    intro x hx hl
    split at hp
    · rename_i hd
      have := dropDead_nil _ hd x hx
      rw [hl] at this; cases this
    · rename_i y ys hd
      split at hp
      · simp at hp
      · rename_i hgt
        have hyt : bound < y.time := tlt_of_not_le hgt
        rw [hd] at hpre
        have hsorted := h0.sorted
        rw [hpre] at hsorted hx
        rcases List.mem_append.1 hx with h | h
        · have := hdead x h; rw [hl] at this; cases this
        · rcases List.mem_cons.1 h with rfl | h
          · exact hyt
          · have hs2 := (List.pairwise_append.1 hsorted).2.1
            rw [List.pairwise_cons] at hs2
            exact Std.lt_of_lt_of_le hyt (before_le (hs2.1 x h))

/-- `runPendingEvents`: every firing is OK and in order; if it completed, nothing due remains -/
theorem runPending_G (P : Proc K U E Λ) (bound : K) : ∀ (fuel : Nat) (b : K) (s : St K U E) (tr : List (Fired K E Λ)),
    G b s tr → b ≤ bound →
    ∃ b', G b' (runPending P bound fuel s tr).1 (runPending P bound fuel s tr).2.1 ∧ b ≤ b' ∧ b' ≤ bound ∧
      ((runPending P bound fuel s tr).2.2 = true →
        ∀ x ∈ (runPending P bound fuel s tr).1.q.heap, x.live = true → bound < x.time) := by
  intro fuel
  induction fuel with
  | zero => intro b s tr g hb; exact ⟨b, g, Std.le_refl _, hb, by intro h; cases h⟩
  | succ f ih =>
    intro b s tr g hb
    unfold runPending
    cases hf : firePosted P bound s with
    | none =>
      refine ⟨b, g, Std.le_refl _, hb, ?_⟩
      intro _; exact none_due P bound s g.inv0 hf
    | some r =>
      obtain ⟨s', ev⟩ := r
      obtain ⟨g', h1, h2, _⟩ := firePosted_G P bound g hf
      obtain ⟨b', g'', h3, h4, h5⟩ := ih ev.own s' (tr ++ [ev]) g' h2
      exact ⟨b', g'', Std.le_trans h1 h3, h4, h5⟩

/-- the trace only grows -/
theorem runPending_prefix (P : Proc K U E Λ) (bound : K) : ∀ (fuel : Nat) (s : St K U E) (tr : List (Fired K E Λ)),
    ∃ ext, (runPending P bound fuel s tr).2.1 = tr ++ ext ∧ ∀ ev ∈ ext, ev.posted = true ∧ ev.member = true := by
  intro fuel
  induction fuel with
  | zero => intro s tr; exact ⟨[], by simp [runPending], by simp⟩
  | succ f ih =>
    intro s tr
    unfold runPending
    cases hf : firePosted P bound s with
    | none => exact ⟨[], by simp, by simp⟩
    | some r =>
      obtain ⟨s', ev⟩ := r
      obtain ⟨ext, h1, h2⟩ := ih s' (tr ++ [ev])
      refine ⟨ev :: ext, by simp only [h1]; simp, ?_⟩
      intro e he
      rcases List.mem_cons.1 he with rfl | he
      · unfold firePosted at hf
        split at hf
        · simp at hf
        · simp only [Option.some.injEq, Prod.mk.injEq] at hf; rw [← hf.2]; exact ⟨rfl, rfl⟩
      · exact h2 e he

/-- a stochastic (per-element or fixed-rate) firing at the current clock `t`, when nothing earlier is pending -/
theorem fireStoch_G (P : Proc K U E Λ) (t : K) (l : Λ) (h : Nat) (e : E) {b : K} {s : St K U E} {tr : List (Fired K E Λ)}
    (g : G b s tr) (hnow : s.q.now = t) (hlb : ∀ x ∈ s.q.heap, x.live = true → t ≤ x.time) :
    G t (fireStoch P t l h e s).1 (tr ++ [(fireStoch P t l h e s).2]) := by
  have hbt : b ≤ t := by rw [← hnow]; exact g.bnow
  obtain ⟨e0, elb, enow⟩ := exec_G (P.handler h t e) s g.inv0 (by rw [hnow]; exact hlb)
  simp only [fireStoch]
  refine ⟨e0, ?_, ?_, ?_, ?_, ?_⟩
  · intro x hx hl; have := elb x hx hl; rw [hnow] at this; exact this
  · show t ≤ (exec _ s).q.now; rw [enow, hnow]; exact Std.le_refl _
  · intro ev hev
    rcases List.mem_append.1 hev with h' | h'
    · exact g.ok ev h'
    · simp at h'; subst h'; exact ⟨rfl, hnow, rfl⟩
  · rw [List.map_append]
    apply pairwise_append_one _ _ g.mono
    intro z hz
    obtain ⟨ev, hev, rfl⟩ := List.mem_map.1 hz
    exact Std.le_trans (g.below ev hev) hbt
  · intro ev hev
    rcases List.mem_append.1 hev with h' | h'
    · exact Std.le_trans (g.below ev h') hbt
    · simp at h'; subst h'; exact Std.le_refl _

theorem inv0_setNow {s : St K U E} (t : K) (h : Inv0 s.q) : Inv0 (setNow s t).q := ⟨h.sorted, h.ids⟩

/-- changing only the user world keeps `G` -/
theorem G_setU {b : K} {s : St K U E} {tr : List (Fired K E Λ)} (g : G b s tr) (u : U) : G b { s with u := u } tr :=
  ⟨g.inv0, g.lb, g.bnow, g.ok, g.mono, g.below⟩

/-- invariant carried through the tranche: clock = t, nothing live before t -/
structure AtStep (t : K) (s : St K U E) (tr : List (Fired K E Λ)) : Prop where
  g : G t s tr
  now : s.q.now = t

theorem synFire_AtStep (P : Proc K U E Λ) (t : K) (acc : St K U E × List (Fired K E Λ)) (x : Λ × E × Nat)
    (h : AtStep t acc.1 acc.2) : AtStep t (synFire P t acc x).1 (synFire P t acc x).2 := by
  unfold synFire
  split
  · have g' := fireStoch_G P t x.1 x.2.2 x.2.1 h.g h.now (fun y hy hl => h.g.lb y hy hl)
    refine ⟨g', ?_⟩
    simp only [fireStoch]; show (exec _ acc.1).q.now = t; rw [exec_now]; exact h.now
  · exact h

theorem foldl_AtStep (P : Proc K U E Λ) (t : K) (evs : List (Λ × E × Nat)) :
    ∀ (acc : St K U E × List (Fired K E Λ)), AtStep t acc.1 acc.2 →
      AtStep t (evs.foldl (synFire P t) acc).1 (evs.foldl (synFire P t) acc).2 := by
  induction evs with
  | nil => intro acc h; exact h
  | cons x xs ih => intro acc h; exact ih _ (synFire_AtStep P t acc x h)

/-- every event the tranche adds to the trace was a member of its locus when its handler was called (C05) -/
def StochMember (tr : List (Fired K E Λ)) : Prop := ∀ ev ∈ tr, ev.member = true

theorem synFire_member (P : Proc K U E Λ) (t : K) (acc : St K U E × List (Fired K E Λ)) (x : Λ × E × Nat)
    (h : StochMember acc.2) : StochMember (synFire P t acc x).2 := by
  unfold synFire
  split
  · rename_i hm
    intro ev hev
    rcases List.mem_append.1 hev with h' | h'
    · exact h ev h'
    · simp at h'; subst h'; simpa [fireStoch] using hm
  · exact h

theorem foldl_member (P : Proc K U E Λ) (t : K) (evs : List (Λ × E × Nat)) :
    ∀ (acc : St K U E × List (Fired K E Λ)), StochMember acc.2 → StochMember (evs.foldl (synFire P t) acc).2 := by
  induction evs with
  | nil => intro acc h; exact h
  | cons x xs ih => intro acc h; exact ih _ (synFire_member P t acc x h)

theorem firePosted_now_le (P : Proc K U E Λ) (bound : K) {s s' : St K U E} {ev : Fired K E Λ}
    (hf : firePosted P bound s = some (s', ev)) : s'.q.now ≤ bound := by
  unfold firePosted at hf
  cases hp : popBefore s.q bound with
  | none => rw [hp] at hf; simp at hf
  | some r =>
    obtain ⟨q1, x⟩ := r
    rw [hp] at hf
    simp only [Option.some.injEq, Prod.mk.injEq] at hf
    obtain ⟨rfl, -⟩ := hf
    show (exec _ _).q.now ≤ bound
    rw [exec_now]
    unfold popBefore at hp
    split at hp
    · simp at hp
    · split at hp
      · rename_i hle
        simp only [Option.some.injEq, Prod.mk.injEq] at hp
        obtain ⟨rfl, rfl⟩ := hp
        exact hle
      · simp at hp

theorem runPending_now_le (P : Proc K U E Λ) (bound : K) : ∀ (fuel : Nat) (s : St K U E) (tr : List (Fired K E Λ)),
    s.q.now ≤ bound → (runPending P bound fuel s tr).1.q.now ≤ bound := by
  intro fuel
  induction fuel with
  | zero => intro s tr h; exact h
  | succ f ih =>
    intro s tr h
    unfold runPending
    cases hf : firePosted P bound s with
    | none => exact h
    | some r =>
      obtain ⟨s', ev⟩ := r
      exact ih s' _ (firePosted_now_le P bound hf)

/-! ### whole runs -/

/-- loop invariant of both loops: the run invariant with a bound not above the loop's time variable -/
structure LoopInv (L : Loop K U E Λ) : Prop where
  ex : ∃ b, G b L.s L.tr ∧ b ≤ L.t
  now : L.s.q.now ≤ L.t

theorem synIter_inv (P : Proc K U E Λ) (fuel : Nat) (L : Loop K U E Λ)
    (hone : ∀ t : K, t ≤ Arith.add t Arith.one) (h : LoopInv L) : LoopInv (synIter P fuel L).1 := by
  obtain ⟨⟨b, g, hbt⟩, hnow⟩ := h
  unfold synIter
  split
  · exact ⟨⟨b, g, hbt⟩, hnow⟩
  · have g1 : G b (setNow L.s L.t) L.tr := ⟨inv0_setNow L.t g.inv0, g.lb, hbt, g.ok, g.mono, g.below⟩
    obtain ⟨b', g2, hb1, hb2, hdone⟩ := runPending_G P L.t fuel b (setNow L.s L.t) L.tr g1 hbt
    simp only []
    cases hc : (runPending P L.t fuel (setNow L.s L.t) L.tr).2.2 with
    | false =>
      simp only [Bool.not_false, if_true]
      refine ⟨⟨b', g2, hb2⟩, ?_⟩
      -- the clock is the time of the last fired event, or t
      exact Std.le_trans (Std.le_refl _) (by
        have := g2.bnow
        -- now ≤ t : every firing sets now to an own time ≤ bound; initial now = t
        exact runPending_now_le P L.t fuel (setNow L.s L.t) L.tr (Std.le_refl _))
    | true =>
      simp only [Bool.not_true, Bool.false_eq_true, if_false]
      have hlate := hdone hc
      have g3 : G L.t (setNow (runPending P L.t fuel (setNow L.s L.t) L.tr).1 L.t)
          (runPending P L.t fuel (setNow L.s L.t) L.tr).2.1 :=
        ⟨inv0_setNow L.t g2.inv0, fun x hx hl => Std.le_of_lt (hlate x hx hl), Std.le_refl _, g2.ok, g2.mono,
          fun ev hev => Std.le_trans (g2.below ev hev) hb2⟩
      split
      · exact ⟨⟨L.t, g3, Std.le_refl _⟩, Std.le_refl _⟩
      · rename_i evs u' _
        have at0 : AtStep L.t ({ setNow (runPending P L.t fuel (setNow L.s L.t) L.tr).1 L.t with u := u' },
            (runPending P L.t fuel (setNow L.s L.t) L.tr).2.1).1
            ({ setNow (runPending P L.t fuel (setNow L.s L.t) L.tr).1 L.t with u := u' },
            (runPending P L.t fuel (setNow L.s L.t) L.tr).2.1).2 := ⟨G_setU g3 u', rfl⟩
        have fin := foldl_AtStep P L.t evs _ at0
        refine ⟨⟨L.t, fin.g, hone L.t⟩, ?_⟩
        show (List.foldl (synFire P L.t) _ evs).1.q.now ≤ _
        rw [fin.now]; exact hone L.t

end Dyn
