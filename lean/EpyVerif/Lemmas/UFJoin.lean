import EpyVerif.Lemmas.UFRoot
namespace UF

theorem join_spec {c : Arr} {ρ : Nat → Nat} {d : Nat → Nat} (hρ : Rep c ρ) (hd : Depth c d)
    (r1 r2 : Nat) (h1 : c r1 < 0) (h2 : c r2 < 0) (hne : r1 ≠ r2) :
    Rep (join c r1 r2) (fun n => if ρ n = r2 then r1 else ρ n)
    ∧ Depth (join c r1 r2) (fun n => if ρ n = r2 then d n + 1 else d n)
    ∧ (join c r1 r2) r1 = c r1 + c r2
    ∧ (∀ m, m ≠ r1 → m ≠ r2 → (join c r1 r2) m = c m)
    ∧ (join c r1 r2) r2 = r1 := by
  have e1 : ρ r1 = r1 := hρ.self r1 h1
  have e2 : ρ r2 = r2 := hρ.self r2 h2
  have hj1 : (join c r1 r2) r1 = c r1 + c r2 := by simp [join, upd, hne]
  have hj2 : (join c r1 r2) r2 = r1 := by simp [join, upd, hne.symm]
  have hjo : ∀ m, m ≠ r1 → m ≠ r2 → (join c r1 r2) m = c m := by
    intro m a b; simp [join, upd, a, b]
  refine ⟨?_, ?_, hj1, hjo, hj2⟩
  · constructor
    · intro n
      by_cases h : ρ n = r2
      · simp only [h, if_true]; rw [hj1]; omega
      · simp only [h, if_false]
        by_cases h' : ρ n = r1
        · rw [h', hj1]; omega
        · rw [hjo _ h' h]; exact hρ.root n
    · intro n hn
      by_cases a : n = r1
      · subst a; simp [e1, hne]
      · by_cases b : n = r2
        · subst b; rw [hj2] at hn; omega
        · rw [hjo n a b] at hn
          have := hρ.self n hn
          simp only [this, b, if_false]
    · intro n hn
      by_cases a : n = r1
      · subst a; rw [hj1] at hn; omega
      · by_cases b : n = r2
        · subst b
          simp only [hj2, Int.toNat_natCast, e1, hne, if_false, e2, if_true]
        · rw [hjo n a b] at hn ⊢
          have := hρ.step n hn
          simp only [this]
  · constructor
    · intro n hn
      by_cases a : n = r1
      · subst a; rw [hj1] at hn; omega
      · by_cases b : n = r2
        · subst b
          simp only [hj2, Int.toNat_natCast, e1, hne, if_false, e2, if_true]
          rw [hd.2 r1 h1]; omega
        · rw [hjo n a b] at hn ⊢
          have s := hρ.step n hn
          have r := hd.1 n hn
          simp only [s]
          split <;> omega
    · intro n hn
      by_cases a : n = r1
      · subst a; simp only [e1, hne, if_false]; exact hd.2 n h1
      · by_cases b : n = r2
        · subst b; rw [hj2] at hn; omega
        · rw [hjo n a b] at hn
          have := hρ.self n hn
          simp only [this, b, if_false]; exact hd.2 n hn

end UF

