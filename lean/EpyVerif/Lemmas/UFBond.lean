import EpyVerif.Lemmas.UFJoin
import EpyVerif.Lemmas.Conn
namespace UF

def cls (N : Nat) (ρ : Nat → Nat) (r : Nat) : Nat := (List.range N).countP (fun x => ρ x = r)
def nroots (N : Nat) (c : Arr) : Nat := (List.range N).countP (fun x => c x < 0)

structure Inv (N : Nat) (E : List (Nat × Nat)) (c : Arr) (ρ d : Nat → Nat) (gcc ncomp : Nat) : Prop where
  rep : Rep c ρ
  depth : Depth c d
  closed : ∀ n, n < N → ρ n < N
  conn : ∀ a b, a < N → b < N → (ρ a = ρ b ↔ Conn E a b)
  size : ∀ r, r < N → c r < 0 → c r = -(cls N ρ r : Int)
  ncomp_eq : ncomp = nroots N c
  dbound : ∀ n, d n + ncomp ≤ N
  gcc_ge : ∀ r, r < N → c r < 0 → cls N ρ r ≤ gcc
  gcc_at : ∃ r, r < N ∧ c r < 0 ∧ cls N ρ r = gcc

theorem countP_or_disj (l : List Nat) (p q : Nat → Bool) (h : ∀ x, ¬ (p x = true ∧ q x = true)) :
    l.countP (fun x => p x || q x) = l.countP p + l.countP q := by
  induction l with
  | nil => rfl
  | cons y ys ih =>
    simp only [List.countP_cons, ih]
    have := h y
    cases hp : p y <;> cases hq : q y <;> simp_all <;> omega

theorem countP_flip_one (l : List Nat) (p q : Nat → Bool) (r : Nat) (hr : r ∈ l) (hnd : l.Nodup)
    (hp : p r = true) (hq : q r = false) (hrest : ∀ x, x ≠ r → q x = p x) :
    l.countP q + 1 = l.countP p := by
  induction l with
  | nil => simp at hr
  | cons y ys ih =>
    rw [List.nodup_cons] at hnd
    simp only [List.countP_cons]
    by_cases hy : y = r
    · subst hy
      have : ys.countP q = ys.countP p := by
        apply List.countP_congr
        intro x hx
        have : x ≠ y := fun h => hnd.1 (h ▸ hx)
        simp [hrest x this]
      simp [hp, hq, this]
    · have hr' : r ∈ ys := by
        rcases List.mem_cons.1 hr with h | h
        · exact absurd h.symm hy
        · exact h
      have := ih hr' hnd.2
      rw [hrest y hy]; omega

theorem cls_pos {N : Nat} {ρ : Nat → Nat} {r : Nat} (hr : r < N) (h : ρ r = r) : 0 < cls N ρ r := by
  unfold cls
  rw [List.countP_pos_iff]
  exact ⟨r, List.mem_range.2 hr, by simp [h]⟩

theorem occupyBond_inv {N : Nat} {E : List (Nat × Nat)} {c : Arr} {ρ d : Nat → Nat} {gcc ncomp : Nat}
    (inv : Inv N E c ρ d gcc ncomp) (n m : Nat) (hn : n < N) (hm : m < N) :
    ∃ ρ' d', Inv N ((n, m) :: E) (occupyBond (N+1) c gcc ncomp n m).1 ρ' d'
      (occupyBond (N+1) c gcc ncomp n m).2.1 (occupyBond (N+1) c gcc ncomp n m).2.2 := by
  obtain ⟨rep, depth, closed, conn, size, ncomp_eq, dbound, gcc_ge, gcc_at⟩ := inv
  -- first find
  obtain ⟨e1, rep1, keep1, roots1, d1, depth1, dle1⟩ :=
    rootOf_spec (N+1) c d n depth rep (by have := dbound n; omega)
  generalize hc1 : (rootOf (N+1) c n).1 = c1 at *
  -- second find
  obtain ⟨e2, rep2, keep2, roots2, d2, depth2, dle2⟩ :=
    rootOf_spec (N+1) c1 d1 m depth1 rep1 (by have := dbound m; have := dle1 m; omega)
  generalize hc2 : (rootOf (N+1) c1 m).1 = c2 at *
  have rootsiff : ∀ x, c2 x < 0 ↔ c x < 0 := fun x => (roots2 x).trans (roots1 x)
  have keep : ∀ x, c x < 0 → c2 x = c x := fun x hx => by
    rw [keep2 x ((roots1 x).2 hx), keep1 x hx]
  have dle : ∀ x, d2 x ≤ d x := fun x => Nat.le_trans (dle2 x) (dle1 x)
  have nroots_eq : nroots N c2 = nroots N c := by
    unfold nroots; apply List.countP_congr; intro x _; simp [rootsiff x]
  unfold occupyBond
  simp only [hc1, hc2, e1, e2]
  by_cases hsame : ρ m = ρ n
  · -- same component: nothing but compression happens
    simp only [hsame, ne_eq, not_true_eq_false, if_false]
    refine ⟨ρ, d2, ⟨rep2, depth2, closed, ?_, ?_, ?_, ?_, ?_, ?_⟩⟩
    · intro a b ha hb
      rw [conn a b ha hb, conn_cons]
      have hnm : Conn E n m := (conn n m hn hm).1 hsame.symm
      constructor
      · exact Or.inl
      · rintro (h | ⟨h1, h2⟩ | ⟨h1, h2⟩)
        · exact h
        · exact h1.trans (hnm.trans h2)
        · exact h1.trans (hnm.symm.trans h2)
    · intro r hr hneg
      rw [keep r ((rootsiff r).1 hneg)]; exact size r hr ((rootsiff r).1 hneg)
    · rw [nroots_eq]; exact ncomp_eq
    · intro x; have := dbound x; have := dle x; omega
    · intro r hr hneg; exact gcc_ge r hr ((rootsiff r).1 hneg)
    · obtain ⟨r, hr, hneg, hg⟩ := gcc_at
      exact ⟨r, hr, (rootsiff r).2 hneg, hg⟩
  · -- different components: join
    simp only [ne_eq, hsame, not_false_eq_true, if_true]
    have hr1 : c2 (ρ n) < 0 := rep2.root n
    have hr2 : c2 (ρ m) < 0 := rep2.root m
    have hne : ρ n ≠ ρ m := fun h => hsame h.symm
    obtain ⟨repj, depthj, j1, jo, j2⟩ := join_spec rep2 depth2 (ρ n) (ρ m) hr1 hr2 hne
    have r1N : ρ n < N := closed n hn
    have r2N : ρ m < N := closed m hm
    have s1 : c2 (ρ n) = -(cls N ρ (ρ n) : Int) := by
      rw [keep _ ((rootsiff _).1 hr1)]; exact size _ r1N ((rootsiff _).1 hr1)
    have s2 : c2 (ρ m) = -(cls N ρ (ρ m) : Int) := by
      rw [keep _ ((rootsiff _).1 hr2)]; exact size _ r2N ((rootsiff _).1 hr2)
    -- class sizes after the merge
    have clsj1 : cls N (fun x => if ρ x = ρ m then ρ n else ρ x) (ρ n) = cls N ρ (ρ n) + cls N ρ (ρ m) := by
      unfold cls
      rw [← countP_or_disj _ (fun x => decide (ρ x = ρ n)) (fun x => decide (ρ x = ρ m))
        (by intro x ⟨a, b⟩; simp at a b; exact hne (a.symm.trans b))]
      apply List.countP_congr
      intro x _
      by_cases h : ρ x = ρ m
      · simp [h]
      · simp [h]
    have clsjo : ∀ r, r ≠ ρ n → r ≠ ρ m → cls N (fun x => if ρ x = ρ m then ρ n else ρ x) r = cls N ρ r := by
      intro r a b
      unfold cls
      apply List.countP_congr
      intro x _
      by_cases h : ρ x = ρ m
      · simp only [h, if_true]
        have h1 : ¬ ρ n = r := fun e => a e.symm
        have h2 : ¬ ρ m = r := fun e => b e.symm
        simp [h1, h2]
      · simp [h]
    have csize : (-(join c2 (ρ n) (ρ m)) (ρ n)).toNat = cls N ρ (ρ n) + cls N ρ (ρ m) := by
      rw [j1, s1, s2]; omega
    have nrootsj : nroots N (join c2 (ρ n) (ρ m)) + 1 = nroots N c2 := by
      unfold nroots
      apply countP_flip_one _ (fun x => decide (c2 x < 0)) (fun x => decide (join c2 (ρ n) (ρ m) x < 0)) (ρ m)
        (List.mem_range.2 r2N) List.nodup_range
      · simp [hr2]
      · simp [j2]
      · intro x hx
        by_cases hx1 : x = ρ n
        · subst hx1; simp only [j1]
          have : c2 (ρ n) + c2 (ρ m) < 0 := by omega
          simp [this, hr1]
        · rw [jo x hx1 hx]
    have ncomp_pos : 1 ≤ ncomp := by
      rw [ncomp_eq, ← nroots_eq]; omega
    rw [csize]
    refine ⟨_, _, ⟨repj, depthj, ?_, ?_, ?_, ?_, ?_, ?_, ?_⟩⟩
    · intro x hx; split
      · exact r1N
      · exact closed x hx
    · intro a b ha hb
      rw [conn_cons, ← conn a b ha hb, ← conn a n ha hn, ← conn m b hm hb, ← conn a m ha hm, ← conn n b hn hb]
      by_cases h1 : ρ a = ρ m <;> by_cases h2 : ρ b = ρ m <;> simp only [h1, h2, if_true, if_false] <;> grind
    · intro r hr hneg
      by_cases a : r = ρ n
      · subst a; rw [j1, s1, s2, clsj1]; omega
      · by_cases b : r = ρ m
        · subst b; rw [j2] at hneg; omega
        · rw [jo r a b] at hneg ⊢
          rw [clsjo r a b, keep r ((rootsiff r).1 hneg)]
          exact size r hr ((rootsiff r).1 hneg)
    · rw [ncomp_eq, ← nroots_eq]; omega
    · intro x
      have := dbound x; have := dle x
      split <;> omega
    · intro r hr hneg
      by_cases a : r = ρ n
      · subst a; rw [clsj1]; omega
      · by_cases b : r = ρ m
        · subst b; rw [j2] at hneg; omega
        · rw [jo r a b] at hneg
          rw [clsjo r a b]
          have := gcc_ge r hr ((rootsiff r).1 hneg); omega
    · obtain ⟨r, hr, hneg, hg⟩ := gcc_at
      by_cases hbig : gcc ≤ cls N ρ (ρ n) + cls N ρ (ρ m)
      · refine ⟨ρ n, r1N, by rw [j1]; omega, ?_⟩
        rw [clsj1]; omega
      · have a : r ≠ ρ n := fun h => by subst h; omega
        have b : r ≠ ρ m := fun h => by subst h; omega
        refine ⟨r, hr, by rw [jo r a b]; exact (rootsiff r).2 hneg, ?_⟩
        rw [clsjo r a b]; omega

end UF

