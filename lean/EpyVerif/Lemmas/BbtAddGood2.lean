import EpyVerif.Lemmas.BbtAddGood
namespace Bbt
variable {α : Type}

theorem rh_leaf (d : α) : rh (mk (.nil : T α) d .nil) = 1 := by simp [rh_mk, rh]

theorem good_leaf (d : α) : Good (mk (.nil : T α) d .nil) := by
  simp [mk, Good, hp, len, size, rh]

/-- what `TreeNode.add` guarantees about balance, caches and height -/
def AddPost (t t' : T α) (chk : Bool) : Prop :=
  Good t' ∧ (chk = false → rh t' = rh t) ∧
  (chk = true → (rh t' = rh t ∨ (rh t' = rh t + 1 ∧ (Leaning t' ∨ rh t' = 1))))

theorem add_left_step (l l' r : T α) (d : α) (h ls rs : Nat) (chk : Bool)
    (gt : Good (.node l d r h ls rs)) (post : AddPost l l' chk) :
    AddPost (.node l d r h ls rs)
      (if chk && unbal l' r then rotate (size l' + size r + 1) l' d r else mk l' d r)
      (if chk && unbal l' r then false else chk) := by
  simp only [Good] at gt
  obtain ⟨gl, gr, _, _, _, b1, b2⟩ := gt
  obtain ⟨gl', p1, p2⟩ := post
  by_cases hcu : (chk && unbal l' r) = true
  · simp only [hcu, if_true]
    rw [Bool.and_eq_true] at hcu
    have hu := (unbal_iff gl' gr).1 hcu.2
    rcases p2 hcu.1 with h1 | ⟨h1, h2⟩
    · omega
    · have hh : rh l' = rh r + 2 := by omega
      have hlean : Leaning l' := by rcases h2 with h2 | h2; exact h2; omega
      have := rotate_restores_left (size l' + size r) l' d r gl' gr hh hlean
      refine ⟨this.1, ?_, by intro h; cases h⟩
      intro _; rw [this.2]; simp only [rh]; omega
  · have hcu' : (chk && unbal l' r) = false := by simpa using hcu
    simp only [hcu', Bool.false_eq_true, if_false]
    cases hchk : chk with
    | false =>
      have e1 := p1 hchk
      refine ⟨good_mk _ gl' gr (by omega) (by omega), ?_, by intro h; cases h⟩
      intro _; simp only [rh_mk, rh]; omega
    | true =>
      rw [hchk, Bool.true_and] at hcu'
      have hnu : ¬ (rh l' > rh r + 1 ∨ rh r > rh l' + 1) := fun h => by
        have := (unbal_iff gl' gr).2 h; rw [hcu'] at this; cases this
      refine ⟨good_mk _ gl' gr (by omega) (by omega), (by intro h; cases h), ?_⟩
      intro _
      simp only [rh_mk, rh]
      rcases p2 hchk with h1 | ⟨h1, _⟩
      · left; omega
      · by_cases hr : rh r ≥ rh l + 1
        · left; omega
        · right; refine ⟨by omega, Or.inl ?_⟩
          simp only [mk, Leaning]; omega

theorem add_right_step (l r r' : T α) (d : α) (h ls rs : Nat) (chk : Bool)
    (gt : Good (.node l d r h ls rs)) (post : AddPost r r' chk) :
    AddPost (.node l d r h ls rs)
      (if chk && unbal l r' then rotate (size l + size r' + 1) l d r' else mk l d r')
      (if chk && unbal l r' then false else chk) := by
  simp only [Good] at gt
  obtain ⟨gl, gr, _, _, _, b1, b2⟩ := gt
  obtain ⟨gr', p1, p2⟩ := post
  by_cases hcu : (chk && unbal l r') = true
  · simp only [hcu, if_true]
    rw [Bool.and_eq_true] at hcu
    have hu := (unbal_iff gl gr').1 hcu.2
    rcases p2 hcu.1 with h1 | ⟨h1, h2⟩
    · omega
    · have hh : rh r' = rh l + 2 := by omega
      have hlean : Leaning r' := by rcases h2 with h2 | h2; exact h2; omega
      have := rotate_restores_right (size l + size r') l d r' gl gr' hh hlean
      refine ⟨this.1, ?_, by intro h; cases h⟩
      intro _; rw [this.2]; simp only [rh]; omega
  · have hcu' : (chk && unbal l r') = false := by simpa using hcu
    simp only [hcu', Bool.false_eq_true, if_false]
    cases hchk : chk with
    | false =>
      have e1 := p1 hchk
      refine ⟨good_mk _ gl gr' (by omega) (by omega), ?_, by intro h; cases h⟩
      intro _; simp only [rh_mk, rh]; omega
    | true =>
      rw [hchk, Bool.true_and] at hcu'
      have hnu : ¬ (rh l > rh r' + 1 ∨ rh r' > rh l + 1) := fun h => by
        have := (unbal_iff gl gr').2 h; rw [hcu'] at this; cases this
      refine ⟨good_mk _ gl gr' (by omega) (by omega), (by intro h; cases h), ?_⟩
      intro _
      simp only [rh_mk, rh]
      rcases p2 hchk with h1 | ⟨h1, _⟩
      · left; omega
      · by_cases hr : rh l ≥ rh r + 1
        · left; omega
        · right; refine ⟨by omega, Or.inl ?_⟩
          simp only [mk, Leaning]; omega

theorem addAux_good [Ord α] (e : α) : ∀ (t : T α), Good t →
    AddPost t (addAux e t).1 (addAux e t).2.2 := by
  intro t
  induction t with
  | nil =>
    intro _
    simp only [addAux]
    refine ⟨good_leaf e, (by intro h; cases h), ?_⟩
    intro _; right; exact ⟨by simp [rh_leaf, rh], Or.inr (rh_leaf e)⟩
  | node l d r h ls rs ihl ihr =>
    intro gt
    have gt' := gt
    simp only [Good] at gt'
    obtain ⟨gl, gr, -⟩ := gt'
    unfold addAux
    cases compare e d with
    | eq => exact ⟨gt, fun _ => rfl, by intro h; cases h⟩
    | lt =>
      simp only []
      cases ha : (addAux e l).2.1 with
      | false => exact ⟨gt, fun _ => rfl, by intro h; cases h⟩
      | true =>
        simp only [Bool.not_true, Bool.false_eq_true, if_false]
        have := add_left_step l (addAux e l).1 r d h ls rs (addAux e l).2.2 gt (ihl gl)
        split <;> simp_all
    | gt =>
      simp only []
      cases ha : (addAux e r).2.1 with
      | false => exact ⟨gt, fun _ => rfl, by intro h; cases h⟩
      | true =>
        simp only [Bool.not_true, Bool.false_eq_true, if_false]
        have := add_right_step l r (addAux e r).1 d h ls rs (addAux e r).2.2 gt (ihr gr)
        split <;> simp_all

end Bbt

