import EpyVerif.Model.Sim
import EpyVerif.Model.GFFast
import EpyVerif.Props.C03
import EpyVerif.Props.C05
import EpyVerif.Props.C09
import EpyVerif.Props.C16
