import EpyVerif.Props.C09
