import EpyVerif.Model.Gens
import EpyVerif.Model.Exp
/-! Line-protocol driver for the generator models at `K = Float`. -/
open Gens

def fbits (x : Float) : String := toString x.toBits
def parseF (s : String) : Float := Float.ofBits s.toNat!.toUInt64

def parseEdges (ws : List String) : List (Nat × Nat) :=
  ws.filterMap fun w => match w.splitOn "-" with | [a, b] => some (a.toNat!, b.toNat!) | _ => none

def canon (es : List (Nat × Nat)) : String :=
  let l := (es.map fun e => if e.1 ≤ e.2 then e else (e.2, e.1)).toArray.qsort (fun a b => a.1 < b.1 || (a.1 == b.1 && a.2 < b.2))
  " ".intercalate (l.toList.eraseDups.map fun e => s!"{e.1}-{e.2}")

/-- split a token list at "|" -/
def sections (ws : List String) : List (List String) :=
  ws.foldr (fun w acc => if w == "|" then [] :: acc else match acc with | a :: rest => (w :: a) :: rest | [] => [[w]]) [[]]

def main : IO Unit := do
  let stdin ← IO.getStdin
  let mut rng : Array (R Float) := #[]
  let mut ptab : Array Float := #[]
  let mut line ← stdin.getLine
  while !line.isEmpty do
    let ws := (line.trimAscii.toString.splitOn " ").filter (· ≠ "")
    match ws with
    | ["RESET"] => rng := #[]; ptab := #[]
    | ["RF", x] => rng := rng.push (.f (parseF x))
    | ["RI", lo, hi, x] => rng := rng.push (.i lo.toNat! hi.toNat! x.toNat!)
    | "PTAB" :: rest => ptab := (rest.map parseF).toArray
    | ["PLC", n, maxdeg] =>
      let tab := ptab
      let p := fun (k : Nat) => tab[k - 1]?.getD 0.0
      match plcDegrees p maxdeg.toNat! n.toNat! rng.toList with
      | some (ns, rest) => IO.println s!"deg={ns} leftover={rest.length}"
      | none => IO.println "NONE"
    | "CP" :: nc :: np :: phi :: rest =>
      match sections rest with
      | [_, ce, pe, ord] =>
        match corePeriphery nc.toNat! np.toNat! (parseEdges ce) (parseEdges pe) (parseF phi) rng.toList (ord.map String.toNat!) with
        | some r => IO.println s!"n={r.n} origin={r.origin} edges=[{canon r.edges}]"
        | none => IO.println "NONE"
      | _ => IO.println "bad-op"
    | "MOD" :: nc :: nsat :: rest =>
      match sections rest with
      | _ :: ce :: co :: sats =>
        -- sections alternate: edges, observed order
        let rec pairUp : List (List String) → List (List (Nat × Nat) × List Nat)
          | e :: o :: rest => (parseEdges e, o.map String.toNat!) :: pairUp rest
          | _ => []
        match modular nc.toNat! nsat.toNat! (parseEdges ce) (co.map String.toNat!) (pairUp sats) rng.toList with
        | some r =>
          let ns := r.nodes.toArray.qsort (fun a b => a.1 < b.1)
          IO.println s!"nodes=[{" ".intercalate (ns.toList.map fun x => s!"{x.1}:{x.2.1}:{if x.2.2 then 1 else 0}")}] edges=[{canon r.edges}]"
        | none => IO.println "NONE"
      | _ => IO.println "bad-op"
    | ["ERPHI", n, phi, kmean] =>
      -- ERNetwork: phi if given, else kmean / N, else AttributeError
      if phi != "-" then IO.println (fbits (parseF phi))
      else if kmean != "-" then IO.println (fbits ((parseF kmean + 0.0) / Float.ofNat n.toNat!))
      else IO.println "AttributeError"
    | ["GEN", lim, k] =>
      let g : Exp.Gen Nat := { remaining := if lim == "-" then none else some lim.toNat!, made := 0, make := id }
      let got := Exp.Gen.take k.toNat! g
      IO.println s!"made={got.1.length} remaining={match got.2.remaining with | some x => toString x | none => "None"}"
    | _ => pure ()
    line ← stdin.getLine
