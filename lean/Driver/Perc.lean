import EpyVerif.Model.UF
import EpyVerif.Model.Perc
import EpyVerif.Model.Swap
/-! Line-protocol driver for the percolation models (C13; C14/C18 commands below), at Float. -/
open UF

def fbits (x : Float) : String := toString x.toBits
def parseF (s : String) : Float := Float.ofBits s.toNat!.toUInt64

def showArr (c : Arr) (n : Nat) : String := toString ((List.range n).map c)

def canonEdges (es : List (Nat × Nat)) : String :=
  let a := (es.map (fun (a, b) => if a ≤ b then (a, b) else (b, a))).toArray.qsort (fun x y => x.1 < y.1 || (x.1 == y.1 && x.2 < y.2))
  toString a.toList

structure PSt where
  c : Arr
  gcc : Nat
  ncomp : Nat
  edges : List (Nat × Nat) := []
  occN : List Nat := []

instance : Inhabited PSt := ⟨{ c := fun _ => 0, gcc := 0, ncomp := 0 }⟩

def sampleLine (n : Nat) (p : Float) (s : PSt) : String :=
  s!"SAMPLE {fbits p} gcc={s.gcc} ncomp={s.ncomp} c={showArr s.c n} edges={canonEdges s.edges}"

def main : IO Unit := do
  let stdin ← IO.getStdin
  let mut n := 0
  let mut sp : Array Float := #[]
  let mut adjL : List (Nat × List Nat) := []
  let mut line ← stdin.getLine
  while !line.isEmpty do
    let ws := (line.trimAscii.toString.splitOn " ").filter (· ≠ "")
    match ws with
    | ["N", k] => n := k.toNat!; adjL := []
    | "SP" :: rest => sp := (rest.map parseF).toArray
    | "ADJ" :: u :: rest => adjL := adjL ++ [(u.toNat!, rest.map String.toNat!)]
    | "BOND" :: rest =>
      let es := rest.map (fun s => match s.splitOn "-" with | [a, b] => (a.toNat!, b.toNat!) | _ => (0, 0))
      let M := es.length
      let due := fun (k j : Nat) => decide (sp[j]! ≤ Float.ofNat k / Float.ofNat M)
      let sched := schedule due sp.size M (sp.size > 0 && sp[0]! == 0.0)
      -- states after 0, 1, …, M occupations
      let states := es.foldl (fun (acc : Array PSt) e =>
        let s := acc.back!
        let r := occupyBond (n + 1) s.c s.gcc s.ncomp e.1 e.2
        acc.push { c := r.1, gcc := r.2.1, ncomp := r.2.2, edges := s.edges ++ [e] }) #[{ c := fun _ => -1, gcc := 1, ncomp := n }]
      for (j, k) in sched do IO.println (sampleLine n sp[j]! states[k]!)
      IO.println "END"
    | "SITE" :: rest =>
      let ns := rest.map String.toNat!
      let M := ns.length
      let adjL' := adjL
      let adj := fun v => (adjL'.lookup v).getD []
      let unocc : Int := n + 1
      let due := fun (k j : Nat) => decide (sp[j]! ≤ Float.ofNat k / Float.ofNat M)
      let sched := schedule due sp.size M (sp.size > 0 && sp[0]! == 0.0)
      let states := ns.foldl (fun (acc : Array PSt) v =>
        let s := acc.back!
        let occN := s.occN ++ [v]
        let newEdges := ((adj v).filter (fun m => occN.contains m)).map (fun m => (v, m))
        let r := occupySite (n + 1) unocc s.c s.gcc s.ncomp v (adj v)
        acc.push { c := r.1, gcc := r.2.1, ncomp := r.2.2, edges := s.edges ++ newEdges, occN := occN }) #[{ c := fun _ => unocc, gcc := 0, ncomp := 0 }]
      for (j, k) in sched do IO.println (sampleLine n sp[j]! states[k]!)
      IO.println "END"
    | "PERC" :: t :: rest =>
      -- Percolate.percolate: occ = int(len(es) * T)
      let es := rest.map (fun s => match s.splitOn "-" with | [a, b] => (a.toNat!, b.toNat!) | _ => (0, 0))
      let T := parseF t
      let occ := (Float.ofNat es.length * T).floor.toUInt64.toNat
      let r := Perc.split es occ
      IO.println s!"OCC {occ} KEPT {canonEdges r.1} UNOCC {canonEdges r.2}"
    | "SHUF" :: nn :: f :: rest =>
      -- ShuffleK: replay the accepted swaps, re-checking the guards; EDGES before '|' then swaps a,b,c,d
      let parts := (" ".intercalate rest).splitOn "|"
      let es := ((parts[0]!.splitOn " ").filter (· ≠ "")).map (fun s => match s.splitOn "-" with | [a, b] => (a.toInt!, b.toInt!) | _ => (0, 0))
      let sw := (((parts[1]?.getD "").splitOn " ").filter (· ≠ "")).map (fun s => match s.splitOn "," with | [a, b, c, d] => (a.toInt!, b.toInt!, c.toInt!, d.toInt!) | _ => (0, 0, 0, 0))
      let nodes : List Int := (List.range nn.toNat!).map (fun (i : Nat) => Int.ofNat i)
      let g0 : Shuffle.G := { ns := nodes, adj := fun x y => es.any (fun e => (e.1 == x && e.2 == y) || (e.1 == y && e.2 == x)) }
      let mut g := g0
      let mut bad := false
      for (a, b, c, d) in sw do
        if !Shuffle.guardOK g a b c d then bad := true
        g := Shuffle.swap g a b c d
      let degs := nodes.map (Shuffle.deg g)
      let edges := (nodes.flatMap (fun x => (nodes.filter (fun y => x ≤ y && g.adj x y)).map (fun y => (x, y))))
      let imax := (Float.ofNat es.length * parseF f).floor.toUInt64.toNat
      IO.println s!"FINAL guards={if bad then "FAIL" else "ok"} deg={degs} edges={edges} nswaps={sw.length} imax={imax}"
    | _ => pure ()
    line ← stdin.getLine
