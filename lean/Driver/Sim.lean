import EpyVerif.Model.Sim
import EpyVerif.Model.Stats
import EpyVerif.Model.Seq
import EpyVerif.Model.Exp
/-! Line-protocol driver for the simulation model at `K = Float` (bit-exact with CPython on this image). -/
open Queue Dyn Comp Sim Bbt

instance : Arith Float where
  zero := 0.0
  one := 1.0
  add := (· + ·)
  mul := (· * ·)
  ofNat := Float.ofNat
  isZero := fun a => a == 0.0
  gillespieDt := fun a r1 => (1.0 / a) * Float.log (1.0 / r1)

def fbits (x : Float) : String := toString x.toBits
def parseF (s : String) : Float := Float.ofBits s.toNat!.toUInt64
def nats (s : String) : List Nat := if s == "-" then [] else (s.splitOn ",").map String.toNat!

inductive SetupStep
  | initc (inst : Nat) (dist : List (Nat × Float))
  | postc (inst c : Nat) (t : Float) (h : Nat)
  | infv
  | post (t : Float) (e : Elem) (h : Nat)
  | allnodes (loc : Nat)
  | force (inst : Nat) (n : Node) (c : Nat)

structure Rec where
  nodes : List Node := []
  adj : List (Node × List Node) := []
  kinds : Array LKind := #[]
  effects : List ((Nat × Nat) × List Nat) := []
  hnames : Array String := #[]
  hkinds : Array String := #[]
  hacts : Array (List (Act Float)) := #[]
  perEl : List (Nat × Float × Nat) := []
  fixed : List (Nat × Float × Nat) := []
  varInf : Option (Nat × Nat) := none
  varAt : Nat := 0
  eq : List (Float × Option (List Nat)) := []
  setup : Array SetupStep := #[]
  rng : Array (Rnd Float) := #[]
  ninst : Nat := 1
  lnode : Array Bool := #[]     -- does locus i hold nodes (printing)
  named : Array Bool := #[]     -- is instance i a named instance (then markHit records hittingProcess)
  wantStats : Bool := false

def optNat (s : String) : Option Nat := if s == "-" then none else some s.toNat!

def parseAct (ws : List String) : Option (Act Float) :=
  match ws with
  | ["CCL", i, c] => some (.ccLeft i.toNat! c.toNat!)
  | ["OCC", i] => some (.occ i.toNat!)
  | ["HIT", i] => some (.hit i.toNat!)
  | ["POSTL", dt, h] => some (.postL (parseF dt) h.toNat!)
  | ["POSTE", dt, h] => some (.postE (parseF dt) h.toNat!)
  | ["POSTABS", t, h] => some (.postAbs (parseF t) h.toNat!)
  | ["UNPOST", id, f] => some (.unpost id.toNat! (f == "1"))
  | ["PENDING", id] => some (.pending id.toNat!)
  | ["CLOCK"] => some .clock
  | ["CC", i, n, c] => some (.cc i.toNat! n.toInt! c.toNat!)
  | ["SETC", i, n, c] => some (.setc i.toNat! n.toInt! c.toNat!)
  | ["ADDNODE", i, n, c] => some (.addNode i.toNat! n.toInt! (optNat c))
  | ["RMNODE", i, n] => some (.rmNode i.toNat! n.toInt!)
  | ["ADDEDGE", i, n, m] => some (.addEdge i.toNat! n.toInt! m.toInt!)
  | ["RMEDGE", i, n, m] => some (.rmEdge i.toNat! n.toInt! m.toInt!)
  | ["OBSERVE"] => some .observe
  | ["VACC"] => some .vaccinate
  | ["PLEAVE", loc] => some (.plainLeave loc.toNat!)
  | ["SIVR", i, c, off, eff, ln, lv] => some (.sivrInfect i.toNat! c.toNat! (parseF off) (parseF eff) ln.toNat! lv.toNat!)
  | ["ADADD", loc, c, "alone"] => some (.adAdd loc.toNat! c.toNat! .alone)
  | ["ADADD", loc, c, "inherit", i, sc, rc] => some (.adAdd loc.toNat! c.toNat! (.inherit i.toNat! sc.toNat! rc.toNat!))
  | ["ADADD", loc, c, "seq", i, sc, rc] => some (.adAdd loc.toNat! c.toNat! (.seq i.toNat! sc.toNat! rc.toNat!))
  | ["ADDEL", loc, "alone"] => some (.adDel loc.toNat! .alone)
  | ["ADDEL", loc, "inherit", i, sc, rc] => some (.adDel loc.toNat! (.inherit i.toNat! sc.toNat! rc.toNat!))
  | ["ADDEL", loc, "seq", i, sc, rc] => some (.adDel loc.toNat! (.seq i.toNat! sc.toNat! rc.toNat!))
  | ["TRIAL", p, i, c, o] => some (.trial (parseF p) i.toNat! c.toNat! (o == "1"))
  | _ => none

def showElem (kind : String) (e : Elem) : String :=
  if kind == "N" then toString e.1 else if kind == "X" then "None" else s!"({e.1}, {e.2})"

def stateLine (r : Rec) (s : St Float (U Float) Elem) : String :=
  let u := s.u
  let comps := (List.range r.ninst).map fun i =>
    " ".intercalate (u.w.net.nodes.map fun n => match u.w.comp i n with | some c => toString c | none => "-")
  let loci := (List.range r.kinds.size).map fun i =>
    let isN := r.lnode[i]!
    "{" ++ ", ".intercalate ((u.w.loci i).toList.map fun e => if isN then toString e.1 else s!"({e.1}, {e.2})") ++ "}"
  let pend := (s.q.finder.map (fun p => (p.2, p.1))).toArray.qsort (fun a b => a.1 < b.1 || (a.1 == b.1 && a.2 < b.2))
  let pendS := pend.toList.map fun p => s!"{p.2}:{fbits p.1}"
  let occ := (u.occ.map fun o => (o.1, o.2.1, o.2.2)).toArray.qsort (fun a b => a.1 < b.1 || (a.1 == b.1 && (a.2.1 < b.2.1 || (a.2.1 == b.2.1 && a.2.2 < b.2.2))))
  let occS := occ.toList.map fun o => s!"{o.1}:{o.2.1}-{o.2.2}"
  let tocc := (u.tocc.map fun o => (o.1, o.2.1, o.2.2)).toArray.qsort (fun a b => a.1 < b.1 || (a.1 == b.1 && a.2.1 < b.2.1))
  let toccS := tocc.toList.map fun o => s!"{o.1}-{o.2.1}@{fbits o.2.2}"
  let hit := u.hit.toArray.qsort (fun a b => a.1 < b.1)
  let hitS := hit.toList.map fun h => s!"{h.1}@{fbits h.2.1}" ++ (match h.2.2 with | some i => if r.named[i]?.getD false then s!"/{i}" else "" | none => "")
  let nodes := " ".intercalate (u.w.net.nodes.map toString)
  let edges := " ".intercalate (u.w.net.nodes.map fun n => s!"{n}:" ++ ",".intercalate ((u.w.net.adj n).map toString))
  let vac := u.vacc.toArray.qsort (fun a b => a.1 < b.1)
  let vacS := if vac.isEmpty then "" else " vacc=[" ++ " ".intercalate (vac.toList.map fun v => s!"{v.1}@{fbits v.2}") ++ "]"
  s!"nodes=[{nodes}] adj=[{edges}] comp=[{" | ".intercalate comps}] loci=[{" ".intercalate loci}] pend=[{" ".intercalate pendS}] occ=[{" ".intercalate occS}] tocc=[{" ".intercalate toccS}] hit=[{" ".intercalate hitS}]{vacS}"

def mkCfg (r : Rec) : Sim.Cfg Float :=
  let kinds := r.kinds; let eff := r.effects; let hacts := r.hacts
  { comp := { kind := fun i => kinds[i]?.getD .plain, effects := fun inst c => (eff.lookup (inst, c)).getD [] },
    perEl := r.perEl, fixed := r.fixed, varInf := r.varInf, varAt := r.varAt,
    handlers := fun h => hacts[h]?.getD [], eq := r.eq, fmt := fbits }

def tapFn (r : Rec) (ev : Fired Float Elem Loc) (s : St Float (U Float) Elem) : U Float :=
  let u := s.u
  let kind := r.hkinds[ev.hid]?.getD "N"
  let line := s!"EV own={fbits ev.own} h={fbits ev.htime} clock={fbits ev.clock} tap={fbits ev.tap} {if ev.posted then "P" else "S"} {r.hnames[ev.hid]?.getD "?"} {showElem kind ev.elem} log=[{" ".intercalate u.log.toList}] | {stateLine r s}"
  { u with out := u.out.push line, log := #[] }

def edgesOf (g : Net) : List (Node × Node) :=
  -- networkx `g.edges()`: for each node in order, each neighbour not yet seen as a source
  (g.nodes.foldl (fun (acc : List (Node × Node) × List Node) n =>
    (acc.1 ++ ((g.adj n).filter (fun m => !acc.2.contains m)).map (fun m => (n, m)), acc.2 ++ [n])) ([], [])).1

def doSetup (cfg : Sim.Cfg Float) (steps : List SetupStep) (s : St Float (U Float) Elem) : St Float (U Float) Elem :=
  steps.foldl (fun s st =>
    if s.u.err.isSome then s else
    match st with
    | .initc inst dist =>
      s.u.w.net.nodes.foldl (fun s n =>
        match popF s.u with
        | none => { s with u := { s.u with err := some "rng: random() expected in initialCompartments" } }
        | some (r, u) =>
          let rec pick (a : Float) : List (Nat × Float) → Option Nat
            | [] => none
            | (c, p) :: rest => if r <= a + p then some c else pick (a + p) rest
          match pick 0.0 dist with
          | some c => { s with u := { u with w := changeCompartment cfg.comp u.w inst n c } }
          | none => { s with u := u }) s
    | .postc inst c t h =>
      s.u.w.net.nodes.foldl (fun s n =>
        if s.u.w.comp inst n == some c then { s with q := (post s.q t (eN n) h).1 } else s) s
    | .infv =>
      (edgesOf s.u.w.net).foldl (fun s e =>
        match popF s.u with
        | none => { s with u := { s.u with err := some "rng: random() expected in initialInfectivities" } }
        | some (r, u) => let p := unord e.1 e.2; { s with u := { u with infv := (p.1, p.2, r) :: u.infv } }) s
    | .force inst n c => { s with u := { s.u with w := changeCompartment cfg.comp s.u.w inst n c } }
    | .allnodes loc =>
      { s with u := { s.u with w := s.u.w.net.nodes.foldl (fun w n => updLocus w loc (·.add (eN n))) s.u.w } }
    | .post t e h => { s with q := (post s.q t e h).1 }) s

def initState (r : Rec) : St Float (U Float) Elem :=
  let adjL := r.adj
  { q := { heap := [], finder := [], nextId := 0, now := 0.0 },
    u := { w := { net := { nodes := r.nodes, adj := fun n => (adjL.lookup n).getD [] }, comp := fun _ _ => none,
                  loci := fun _ => TSet.empty },
           rng := r.rng.toList, nloci := r.kinds.size } }

def main : IO Unit := do
  let stdin ← IO.getStdin
  let mut r : Rec := {}
  let mut st : Option (St Float (U Float) Elem) := none    -- OPS mode state
  let mut line ← stdin.getLine
  while !line.isEmpty do
    let ws := (line.trimAscii.toString.splitOn " ").filter (· ≠ "")
    match ws with
    | ["RESET"] => r := {}; st := none
    | "NODES" :: rest => r := { r with nodes := rest.map String.toInt! }
    | "ADJ" :: u :: rest => r := { r with adj := r.adj ++ [(u.toInt!, rest.map String.toInt!)] }
    | "NINST" :: k :: flags => r := { r with ninst := k.toNat!, named := (flags.map (· == "1")).toArray }
    | ["LOCUS", "node", i, c] => r := { r with kinds := r.kinds.push (.node i.toNat! c.toNat!), lnode := r.lnode.push true }
    | ["LOCUS", "edge", i, l, rs, pf] => r := { r with kinds := r.kinds.push (.edge i.toNat! l.toNat! (nats rs) (pf == "1")), lnode := r.lnode.push false }
    | ["LOCUS", "plain", k] => r := { r with kinds := r.kinds.push .plain, lnode := r.lnode.push (k == "N") }
    | ["EFFECT", i, c, ls] => r := { r with effects := r.effects ++ [((i.toNat!, c.toNat!), nats ls)] }
    | "HANDLER" :: name :: kind :: rest =>
      let acts := (" ".intercalate rest).splitOn ";" |>.filterMap (fun a => parseAct ((a.splitOn " ").filter (· ≠ "")))
      r := { r with hnames := r.hnames.push name, hkinds := r.hkinds.push kind, hacts := r.hacts.push acts }
    | ["PEREL", l, p, h] => r := { r with perEl := r.perEl ++ [(l.toNat!, parseF p, h.toNat!)] }
    | ["FIXED", l, p, h] => r := { r with fixed := r.fixed ++ [(l.toNat!, parseF p, h.toNat!)] }
    | ["VARINF", l, h, pos] => r := { r with varInf := some (l.toNat!, h.toNat!), varAt := pos.toNat! }
    | ["EQ", m, ls] => r := { r with eq := r.eq ++ [(parseF m, if ls == "none" then none else some (nats ls))] }
    | "S_INITC" :: i :: rest =>
      let dist := rest.map (fun s => match s.splitOn ":" with | [c, p] => (c.toNat!, parseF p) | _ => (0, 0.0))
      r := { r with setup := r.setup.push (.initc i.toNat! dist) }
    | ["S_POSTC", i, c, t, h] => r := { r with setup := r.setup.push (.postc i.toNat! c.toNat! (parseF t) h.toNat!) }
    | ["S_FORCE", i, n, c] => r := { r with setup := r.setup.push (.force i.toNat! n.toInt! c.toNat!) }
    | ["S_ALLNODES", loc] => r := { r with setup := r.setup.push (.allnodes loc.toNat!) }
    | "RP" :: rest => r := { r with rng := r.rng.push (.perm (rest.map String.toInt!)) }
    | ["S_INFV"] => r := { r with setup := r.setup.push .infv }
    | ["S_POST", t, a, b, h] => r := { r with setup := r.setup.push (.post (parseF t) (a.toInt!, b.toInt!) h.toNat!) }
    | "SEQ" :: toks =>
      -- a nesting of stub processes: "(" / ")" / leaf "id:maxT:eq:k=v,k=v"; the whole line is one (top) sequence
      let mut stack : List (List Seq.PTree) := [[]]
      let mut info : List (Nat × Nat × Bool × List (String × Int)) := []
      for tk in toks do
        if tk == "(" then stack := [] :: stack
        else if tk == ")" then
          match stack with
          | top :: below :: more => stack := (below ++ [Seq.PTree.seq top]) :: more
          | _ => pure ()
        else
          match tk.splitOn ":" with
          | [i, mt, e, kvs] =>
            let kv := (kvs.splitOn ",").filterMap (fun x => match x.splitOn "=" with | [k, v] => some (k, v.toInt!) | _ => none)
            info := (i.toNat!, mt.toNat!, e == "1", kv) :: info
            match stack with
            | top :: more => stack := (top ++ [Seq.PTree.leaf i.toNat!]) :: more
            | _ => pure ()
          | _ => pure ()
      let tree := Seq.PTree.seq (stack.head!)
      let find := fun (i : Nat) => info.find? (fun x => x.1 == i)
      let mt := fun i => match find i with | some x => x.2.1 | none => 0
      let eqf := fun i => match find i with | some x => x.2.2.1 | none => false
      let rs := fun i => match find i with | some x => x.2.2.2 | none => []
      let res := Seq.results rs tree []
      let keys := (res.map (·.1)).eraseDups.toArray.qsort (· < ·)
      IO.println s!"leaves={Seq.leaves tree} maxT={Seq.maxTime mt tree} eq={Seq.atEq eqf tree} res={keys.toList.map (fun k => (k, (res.lookup k).getD 0))}"
    | ["GEN", lim, k] =>
      -- a generator with limit `lim` ("-" = none) asked `k` times
      let g : Exp.Gen Nat := { remaining := if lim == "-" then none else some lim.toNat!, made := 0, make := id }
      let got := Exp.Gen.take k.toNat! g
      IO.println s!"made={got.1.length} remaining={match got.2.remaining with | some x => toString x | none => "None"}"
    | "DECO" :: inst :: key :: dflt :: rest =>
      -- Process.getParameters on a parameter dict: decorated key, plain key, default, KeyError
      let d := rest.filterMap (fun s => match s.splitOn "=" with | [k, v] => some (k, v.toInt!) | _ => none)
      let found := Seq.lookupDeco d (if inst == "-" then none else some inst) key (if dflt == "-" then none else some dflt.toInt!)
      IO.println (match found with | some v => toString v | none => "KeyError")
    | ["STATS"] => r := { r with wantStats := true }
    | ["RF", x] => r := { r with rng := r.rng.push (.f (parseF x)) }
    | ["RI", hi, x] => r := { r with rng := r.rng.push (.i hi.toNat! x.toNat!) }
    | ["RUN", dyn] =>
      let cfg := mkCfg r
      let P := mkProc cfg (tapFn r)
      let s0 := doSetup cfg r.setup.toList (initState r)
      IO.println s!"START {stateLine r s0}"
      match s0.u.err with
      | some e => IO.println s!"ERR {e}"
      | none =>
        let L0 : Loop Float (U Float) Elem Loc := { s := s0, tr := [], t := if dyn == "sto" then 0.0 else 1.0 }
        let L := if dyn == "sto" then runSto P 2000 4000 L0 else runSyn P 2000 4000 L0
        for l in L.s.u.out do IO.println l
        let mon := if L.s.u.mon.times.isEmpty then "" else
          " mon=" ++ ",".intercalate (L.s.u.mon.times.map fbits) ++ "/" ++ ";".intercalate (L.s.u.mon.vals.map fun row => ",".intercalate (row.map toString))
        let mon := if r.wantStats then
            let st := Stats.stats L.s.u.w.net
            mon ++ s!" stats=N:{st.N},M:{st.M},kmean:{fbits (Float.ofNat st.ktotal / Float.ofNat st.N)},kmax:{st.kmax},ncomp:{st.ncomp},lcc:{st.lcc},slcc:{st.slcc}"
          else mon
        match L.s.u.err with
        | some e => IO.println s!"ERR {e}"
        | none =>
          if L.stuck then IO.println s!"STUCK t={fbits L.t} events={L.tr.length} leftover={L.s.u.rng.length}"
          else if dyn == "sto" then IO.println s!"END t={fbits L.t} events={L.tr.length} leftover={L.s.u.rng.length}{mon}"
          else IO.println s!"END t={fbits L.t} events={L.tr.length} steps={L.steps} leftover={L.s.u.rng.length}{mon}"
    | ["OPS"] =>
      let cfg := mkCfg r
      let s0 := doSetup cfg r.setup.toList (initState r)
      IO.println s!"START {stateLine r s0}"
      st := some s0
    | "OP" :: rest =>
      match st, parseAct rest with
      | some s, some a =>
        let cfg := mkCfg r
        let s' := exec (runActs cfg [a] s.q.now (0, 0)) s
        IO.println s!"ST log=[{" ".intercalate s'.u.log.toList}] | {stateLine r s'}"
        st := some { s' with u := { s'.u with log := #[] } }
      | _, _ => IO.println "bad-op"
    | _ => pure ()
    line ← stdin.getLine
