import EpyVerif.Model.GFFast
import EpyVerif.Model.NetGF
open GF in
def parseRat (s : String) : Rat :=
  match s.splitOn "/" with
  | [p, q] => (p.toInt! : Rat) / (q.toInt! : Rat)
  | [p] => (p.toInt! : Rat)
  | _ => 0

def showRat (r : Rat) : String := if r.den == 1 then s!"{r.num}" else s!"{r.num}/{r.den}"

open GF in
def stepRPN (st : List G) (ws : List String) : List G :=
  match ws, st with
  | "cs" :: rest, st => leaf (rest.map parseRat) :: st
  | ["dup"], a :: st => a :: a :: st
  | ["add"], b :: a :: st => G.sum a b :: st
  | ["sub"], b :: a :: st => G.sum a (scale (-1) b) :: st
  | ["mul"], b :: a :: st => G.prod a b :: st
  | ["scale", c], a :: st => scale (parseRat c) a :: st
  | ["div", c], a :: st => scale (1 / parseRat c) a :: st
  | ["addc", c], a :: st => G.sum a (leaf [parseRat c]) :: st
  | ["subc", c], a :: st => G.sum a (leaf [parseRat c * -1]) :: st
  | ["dx", k], a :: st => dx k.toNat! a :: st
  | _, st => st

/- The driver answers coefficient queries from `tab` and values from `evalF`; `Lemmas/GFFast.lean` proves
   `tab n e = (List.range n).map (coeff e)` and `evalF e x = eval e x`, so these are the model's answers. -/
open GF in
def main : IO Unit := do
  let stdin ← IO.getStdin
  let mut st : List G := []
  let mut top : Option (List Rat) := none
  let mut dxs : List (Nat × G × List Rat) := []
  let mut line ← stdin.getLine
  while !line.isEmpty do
    let ws := (line.trimAscii.toString.splitOn " ").filter (· ≠ "")
    match ws, st with
    | "NET" :: ds, _ =>
      -- DiscreteGF._coefficientsFromNetwork on a degree sequence
      let ds := ds.map String.toNat!
      let cs := NetGF.coeffs ds (NetGF.maxDeg ds)
      let mean := ((List.range cs.length).zip cs).foldl (fun (m : Rat) x => m + (x.1 : Rat) * x.2) 0
      IO.println s!"COEFFS {" ".intercalate (cs.map showRat)} SUM {showRat (cs.foldl (· + ·) 0)} MEAN {showRat mean}"
    | ["RESET"], _ => st := []; top := none; dxs := []
    | ["COEFF", i], g :: _ =>
      let t ← match top with
        | some t => pure t
        | none => let t := tab 16 g; top := some t; pure t
      IO.println (showRat (t.getD i.toNat! 0))
    | ["EVAL", x], g :: _ => IO.println (showRat (evalF g (parseRat x)))
    | ["DXCOEFF", k, i], g :: _ =>
      let k := k.toNat!
      let (d, t) ← match dxs.find? (·.1 == k) with
        | some e => pure e.2
        | none => let d := dx k g; let t := tab 8 d; dxs := (k, d, t) :: dxs; pure (d, t)
      let _ := d
      IO.println (showRat (t.getD i.toNat! 0))
    | ["DXEVAL", k, x], g :: _ =>
      let k := k.toNat!
      let d := match dxs.find? (·.1 == k) with
        | some e => e.2.1
        | none => dx k g
      IO.println (showRat (evalF d (parseRat x)))
    | ws, _ => st := stepRPN st ws; top := none; dxs := []
    line ← stdin.getLine
