import EpyVerif.Model.Bbt
open Bbt

partial def dump : T Int → String
  | .nil => "-"
  | .node l d r h ls rs => s!"({dump l} {d}:{h}:{ls}:{rs} {dump r})"

def listT : T Int → List Int
  | .nil => []
  | .node l d r _ _ _ => listT l ++ d :: listT r

def findT (e : Int) : T Int → Bool
  | .nil => false
  | .node l d r _ _ _ => if e == d then true else if e < d then findT e l else findT e r

/-- TreeNode.draw with the scripted integers; returns (result or error, number of integers consumed, mismatch) -/
partial def drawT (t : T Int) (xs : List (Nat × Nat)) (used : Nat) : String :=
  match t with
  | .nil => "ValueError"
  | .node l d r _ ls rs =>
    let n := ls + 1 + rs
    if n == 1 then s!"{d} used={used}" else
      match xs with
      | [] => "rng-exhausted"
      | (hi, i) :: rest =>
        if hi != n then s!"rng-mismatch asked={n} logged={hi}" else
        if i < ls then drawT l rest (used+1) else if i == ls then s!"{d} used={used+1}" else drawT r rest (used+1)

def step (t : T Int) (ws : List String) : T Int × String :=
  match ws with
  | ["add", n] => let t' := add t n.toInt!; (t', dump t')
  | ["discard", n] => let t' := discard t n.toInt!; (t', dump t')
  | ["remove", n] => let r := discardAux n.toInt! t; if r.2 then (r.1, dump r.1) else (t, "KeyError")
  | ["in", n] => (t, toString (findT n.toInt! t))
  | ["len"] => (t, s!"{len t} empty={match t with | .nil => true | _ => false}")
  | ["iter"] => (t, toString (listT t))
  | "draw" :: rest =>
    let pairs := rest.map (fun s => match s.splitOn ":" with | [a, b] => (a.toNat!, b.toNat!) | _ => (0, 0))
    (t, drawT t pairs 0)
  | ["reset"] => (.nil, "-")
  | _ => (t, "bad-op")

def main : IO Unit := do
  let stdin ← IO.getStdin
  let mut t : T Int := .nil
  let mut line ← stdin.getLine
  while !line.isEmpty do
    let ws := (line.trimAscii.toString.splitOn " ").filter (· ≠ "")
    let (t', out) := step t ws
    t := t'
    IO.println out
    line ← stdin.getLine

