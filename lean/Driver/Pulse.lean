import EpyVerif.Model.Pulse
/-! Line-protocol driver for the pulse-coupled oscillator model at `K = Float`. -/
open Queue Dyn Pulse

instance : Arith Float where
  zero := 0.0
  one := 1.0
  add := (· + ·)
  mul := (· * ·)
  ofNat := Float.ofNat
  isZero := fun a => a == 0.0
  gillespieDt := fun a r1 => (1.0 / a) * Float.log (1.0 / r1)

def fbits (x : Float) : String := toString x.toBits
def parseF (s : String) : Float := Float.ofBits s.toNat!.toUInt64

/-- CPython's `round(x, 5)`: the decimal with five places nearest to the exact value of `x` (ties to even), then the double
    nearest to that decimal -/
def round5 (x : Float) : Float :=
  if x.isNaN || x.isInf then x else
  let bits := x.toBits
  let neg := (bits >>> 63) == 1
  let e := ((bits >>> 52) &&& 0x7FF).toNat
  let mant := (bits &&& 0xFFFFFFFFFFFFF).toNat
  let m : Nat := if e == 0 then mant else mant + 2 ^ 52
  let ex : Int := if e == 0 then -1074 else (e : Int) - 1075
  let p := m * 100000
  let n : Nat :=
    if ex ≥ 0 then p * 2 ^ ex.toNat
    else
      let q := 2 ^ (-ex).toNat
      let d := p / q
      let r := p % q
      if 2 * r > q || (2 * r == q && d % 2 == 1) then d + 1 else d
  let y := Float.ofNat n / 100000.0
  if neg then -y else y

def norm (x : Float) : Float :=
  let r := round5 x
  let m := if 1.0 < r then 1.0 else r          -- min(r, 1.0)
  if m < 0.0 then 0.0 else m                   -- max(m, 0.0)

def mkOps (period b coupling : Float) : Ops Float :=
  let state := fun (phi : Float) => (1.0 / b) * Float.log (1.0 + (Float.exp b - 1.0) * phi)
  let toPhase := fun (u : Float) => (Float.exp (b * u) - 1.0) / (Float.exp b - 1.0)
  { phaseOf := fun t ft => norm (1.0 - (ft - t) / period),
    fireAt := fun t phi => round5 (t + norm (1.0 - phi) * period),
    state := state,
    bump := fun phi => norm (toPhase (coupling + state phi)),
    ofState := toPhase,
    isEnd := fun x => x == 1.0 || x == 0.0,
    zero := 0.0, start := 0.0 }

structure Rec where
  nodes : List Node := []
  adj : List (Node × List Node) := []
  period : Float := 1.0
  b : Float := 1.0
  coupling : Float := 1.0
  rng : Array Float := #[]
  perms : Array (List Node) := #[]

def stateLine (s : St Float (U Float) Node) : String :=
  let pend := (s.q.finder.map (fun p => (p.2, p.1))).toArray.qsort (fun a b => a.1 < b.1 || (a.1 == b.1 && a.2 < b.2))
  let pendS := pend.toList.map fun p => s!"{p.2}:{fbits p.1}"
  let ev := s.u.nodes.map fun n => s!"{n}:" ++ (match s.u.evid.lookup n with | some i => toString i | none => "-")
  s!"pend=[{" ".intercalate pendS}] evid=[{" ".intercalate ev}]"

def tapFn (ev : Fired Float Node Unit) (s : St Float (U Float) Node) : U Float :=
  { s.u with out := s.u.out.push s!"EV own={fbits ev.own} h={fbits ev.htime} clock={fbits ev.clock} tap={fbits ev.tap} id={ev.pid} n={ev.elem} | {stateLine s}" }

def main : IO Unit := do
  let stdin ← IO.getStdin
  let mut r : Rec := {}
  let mut line ← stdin.getLine
  while !line.isEmpty do
    let ws := (line.trimAscii.toString.splitOn " ").filter (· ≠ "")
    match ws with
    | ["RESET"] => r := {}
    | "NODES" :: rest => r := { r with nodes := rest.map String.toInt! }
    | "ADJ" :: u :: rest => r := { r with adj := r.adj ++ [(u.toInt!, rest.map String.toInt!)] }
    | ["PARAMS", p, b, c] => r := { r with period := parseF p, b := parseF b, coupling := parseF c }
    | ["RF", x] => r := { r with rng := r.rng.push (parseF x) }
    | "PERM" :: rest => r := { r with perms := r.perms.push (rest.map String.toInt!) }
    | ["ROUND", x] => IO.println (fbits (round5 (parseF x)))
    | ["RUN", dyn, maxT] =>
      let O := mkOps r.period r.b r.coupling
      let P := mkProc O (parseF maxT) tapFn
      let adjL := r.adj
      let u0 : U Float := { nodes := r.nodes, adj := fun n => (adjL.lookup n).getD [], rng := r.rng.toList, perms := r.perms.toList }
      let s0 := exec (initPhases O r.nodes) { q := { heap := [], finder := [], nextId := 0, now := 0.0 }, u := u0 }
      IO.println s!"START {stateLine s0}"
      match s0.u.err with
      | some e => IO.println s!"ERR {e}"
      | none =>
        let L0 : Loop Float (U Float) Node Unit := { s := s0, tr := [], t := if dyn == "sto" then 0.0 else 1.0 }
        let L := if dyn == "sto" then runSto P 3000 6000 L0 else runSyn P 3000 6000 L0
        for l in L.s.u.out do IO.println l
        match L.s.u.err with
        | some e => IO.println s!"ERR {e}"
        | none =>
          if L.stuck then IO.println s!"STUCK t={fbits L.t} events={L.tr.length}"
          else
            let ph := (finalPhases O L.s).map fun o => match o with | some x => fbits x | none => "None"
            IO.println s!"END t={fbits L.t} events={L.tr.length} clock={fbits L.s.q.now} phases=[{" ".intercalate ph}] ftimes=[{" ".intercalate (L.s.u.ftimes.map fbits)}] fnodes=[{" ".intercalate (L.s.u.fnodes.map toString)}]"
    | _ => pure ()
    line ← stdin.getLine
