"""Drive real epydemic simulations under a scripted RNG and emit (a) the run record for Driver/Sim.lean and
(b) the lines the model must print.  Used by the C01–C08, C10–C12, C19, C20 plug-ins."""
import sys, os, struct, random, math, json
import vrepo
import networkx as nx
import epydemic
from epydemic import (Process, ProcessSequence, CompartmentedModel, SIR, SIS, SIRS, SEIR, SIR_FixedRecovery,
                      SIS_FixedRecovery, SIR_VariableInfection, Opinion, StochasticDynamics, SynchronousDynamics,
                      Dynamics, NetworkGenerator, Locus, Monitor)
from epydemic.compartmentedmodel import CompartmentedNodeLocus, CompartmentedEdgeLocus
from epydemic.opinion_model import MultiCompartmentedEdgeLocus


def bits(x):
    return struct.unpack('>Q', struct.pack('>d', float(x)))[0]


def fb(x):
    return str(bits(x))


class CaseTooBig(BaseException):
    """the generated case produces more events than we want to replay, or does not end: discarded (counted), never reported"""


class ScriptedRng:
    """the three methods the code uses; every value is derived from one PRNG and written to the protocol.
    `specials`: values returned (exactly, or one ulp either side) with probability `pspecial` — boundary direction"""

    def __init__(self, seed, specials=(), pspecial=0.0):
        self.r = random.Random(seed); self.lines = []; self.specials = list(specials); self.pspecial = pspecial
        self.nspecial = 0; self.recent = []; self.hook = None
        self.values = []        # every value handed out, in order (replayed by the fresh twin of C10)
        self.sticky = 0.0; self.last_int = None

    def random(self):
        x = self._random(); self.recent.append(x); return x

    def _random(self):
        sp = list(self.specials) + (self.hook() if self.hook else [])
        if sp and self.r.random() < self.pspecial:
            p = self.r.choice(sp); k = self.r.choice([0, 0, 1, -1])
            x = p if k == 0 else math.nextafter(p, 2.0 if k > 0 else -1.0)
            if 0.0 < x < 1.0:
                self.nspecial += 1
                self.lines.append(f"RF {bits(x)}"); self.values.append(x); return x
        x = self.r.randrange(1, 1 << 30) / float(1 << 30)
        self.lines.append(f"RF {bits(x)}"); self.values.append(x); return x

    def integers(self, low, high=None):
        if high is None:
            low, high = 0, low
        x = self.r.randrange(low, high)
        # 'sticky' streams repeat the previous draw for long stretches: rejection loops in the code under test then go round many times
        if self.sticky and self.last_int is not None and self.last_int[0] == high and self.r.random() < self.sticky: x = self.last_int[1]
        self.last_int = (high, x)
        assert low == 0
        self.lines.append(f"RI {high} {x}"); self.values.append(x); return x

    # the rest of numpy's Generator that a rewrite of the code under test might reach for, built on the two scripted primitives so that such a
    # run goes on and the oracles get to judge it (the model knows nothing of these: the correspondence is broken by their use anyway)
    def uniform(self, low=0.0, high=1.0):
        return low + (high - low) * self.random()

    def binomial(self, n, p):
        return sum(1 for _ in range(int(n)) if self.random() <= p)

    def choice(self, a, size=None, replace=True, p=None):
        pool = list(range(int(a))) if isinstance(a, (int,)) or hasattr(a, '__index__') else list(a)
        if size is None: return pool[self.integers(len(pool))]
        out = []
        for _ in range(int(size)):
            k = self.integers(len(pool)); out.append(pool[k])
            if not replace: pool.pop(k)
        return out

    def permutation(self, x):
        pool = list(range(int(x))) if hasattr(x, '__index__') else list(x)
        out = []
        while pool: out.append(pool.pop(self.integers(len(pool))))
        return out

    def shuffle(self, x):
        x[:] = self.permutation(list(x))


class ReplayRng:
    """hands out a recorded sequence of values again"""
    def __init__(self, values):
        self.values = list(values); self.lines = []; self.recent = []

    def random(self):
        return self.values.pop(0)

    def integers(self, low, high=None):
        return self.values.pop(0)


class Injected(Exception):
    """the fault the harness injects into an earlier run (C10)"""


def snapshot(o, depth=0, memo=None):
    """canonical, comparable picture of an object's state (C10 fresh-twin oracle): ids, wrappers and bound objects are abstracted"""
    import types
    memo = memo if memo is not None else {}
    if isinstance(o, (int, float, str, bool, type(None))): return o
    if id(o) in memo or depth > 7: return '<seen>'
    if isinstance(o, (list, tuple)): return [snapshot(x, depth + 1, memo) for x in o]
    if isinstance(o, (set, frozenset)): return sorted((snapshot(x, depth + 1, memo) for x in o), key=repr)
    if isinstance(o, dict): return sorted(((repr(snapshot(k, depth + 1, memo)), snapshot(v, depth + 1, memo)) for k, v in o.items()), key=lambda kv: kv[0])
    if isinstance(o, nx.Graph):
        return dict(nodes=[(n, snapshot(dict(d), depth + 1, memo)) for n, d in o.nodes(data=True)],
                    adj=[(n, [(m, snapshot(dict(o.edges[n, m]), depth + 1, memo)) for m in o.adj[n]]) for n in o.nodes()])
    if callable(o) and not hasattr(o, '__dict__') or isinstance(o, (types.FunctionType, types.MethodType, types.BuiltinFunctionType)):
        f = getattr(o, '_orig', o)
        return '<fn ' + getattr(getattr(f, '__func__', f), '__qualname__', '?').split('.<locals>')[0] + '>'
    memo[id(o)] = True
    if hasattr(o, '__iter__') and hasattr(o, '__len__') and type(o).__name__ in ('DrawSet', 'Locus', 'CompartmentedNodeLocus', 'CompartmentedEdgeLocus', 'MultiCompartmentedEdgeLocus', 'SingletonLocus'):
        extra = {k: snapshot(v, depth + 1, memo) for k, v in vars(o).items() if k in ('_name', '_compartment', '_left', '_right', '_rights')}
        return dict(cls=type(o).__name__, elems=sorted(repr(x) for x in o), **extra)
    if hasattr(o, '__dict__'):
        skip = ('_vp_', 'build', 'setUp', 'results', 'perElementEventDistribution', '_metadata', '_results', '_dynamics', '_container', '_generator', 'log', 'hf',
                '_runId', '_uniqueId')      # (run counter and instance serial number: meant to differ)
        return dict(cls=type(o).__name__.rstrip('2') if type(o).__name__ in ('D', 'D2') else type(o).__name__, vars=sorted((k, snapshot(v, depth + 1, memo)) for k, v in vars(o).items()
                                                     if not any(k.startswith(x) or k == x for x in skip)))
    return '<' + type(o).__name__ + '>'


# AddDelete.add iterates a Python set of the chosen nodes; that order is an input of the model (it checks that it is a
# permutation of the nodes it chose itself): observe it at Process.addEdge and write it to the random stream afterwards
from epydemic import AddDelete, Process as _Process, FixedNetwork
CURRENT = {}
_ad_add = AddDelete.add
_p_addEdge = _Process.addEdge


def _vp_add(self, t, e):
    self._vp_js = []
    _ad_add(self, t, e)
    if CURRENT.get('sr') is not None: CURRENT['sr'].lines.append("RP " + ' '.join(map(str, self._vp_js)))
    self._vp_js = None


def _vp_addEdge(self, n, m, **kw):
    js = getattr(self, '_vp_js', None)
    if js is not None: js.append(m)
    return _p_addEdge(self, n, m, **kw)


_vp_add.__qualname__ = 'AddDelete.add'
if not getattr(AddDelete.add, '_vp', False):
    _vp_add._vp = True; AddDelete.add = _vp_add; _Process.addEdge = _vp_addEdge


LABELS = {}        # label of the real network -> the integer the model uses (order-preserving); empty = labels are the integers themselves


def L(x):
    if LABELS and x in LABELS: return LABELS[x]
    if isinstance(x, tuple): return tuple(L(y) for y in x)
    return x


def lab_of(case):
    """nodes may be labelled with strings whose order is that of the integers they stand for"""
    if case.get('strlabels') == 'digits':
        # short digit strings, some of which spell out two other labels ('12' ~ '1','2'); listed in string order, which is the order of the numbers they stand for
        D_ = ['1', '11', '12', '2', '21', '22', '3', '31', '32', '4', '41', '42']
        return lambda n: ''.join([D_[n]]) if n < len(D_) else f"9{n:03d}"
    if case.get('strlabels') == 'big': return lambda n: int(str(1000 + n))      # equal integers that are not the same object (beyond the small-int cache)
    if case.get('strlabels') == 'tuple': return lambda n: ('t', n)         # tuple labels (lattice coordinates and the like), ordered as the integers
    if case.get('strlabels'): return lambda n: f"n{n:03d}"
    return lambda n: n


def mkgen(case, edges=None):
    f = lab_of(case)
    return Gen([f(n) for n in case['nodes']], [(f(a), f(b)) for (a, b) in (case['edges'] if edges is None else edges)])


class Gen(NetworkGenerator):
    def __init__(self, nodes, edges):
        super().__init__(); self._nodes = nodes; self._edges = edges

    def topology(self):
        return 'scripted'

    def _generate(self, params):
        # 'vp.dropedges' is a parameter of this generator's ensemble (C10/C15: a run must see only the parameters set for it)
        k = int(params.get('vp.dropedges', 0))
        g = nx.Graph(); g.add_nodes_from(self._nodes); g.add_edges_from(self._edges[:len(self._edges) - k] if k else self._edges)
        if getattr(self, 'attrs', None): self.attrs(g)
        return g


# ---------------------------------------------------------------------------------------------------------------
# handler bodies of the shipped models as action scripts (compartments by class-constant name)
# (checked against the source by harness/extract_tables.py)
ACTS = {
    'SIR.infect': ['CCL INFECTED', 'OCC', 'HIT'], 'SIR.remove': ['CCL REMOVED'],
    'SIS.infect': ['CCL INFECTED', 'OCC', 'HIT'], 'SIS.recover': ['CCL SUSCEPTIBLE'],
    'SIRS.resuscept': ['CCL SUSCEPTIBLE'],
    'SEIR.infect': ['CCL EXPOSED', 'OCC', 'HIT'], 'SEIR.infectAsymptomatic': ['CCL EXPOSED', 'OCC', 'HIT'],
    'SEIR.symptoms': ['CCL INFECTED'], 'SEIR.remove': ['CCL REMOVED'],
    'SIR_FixedRecovery.infect': ['CCL INFECTED', 'OCC', 'HIT', 'POSTL T SIR.remove'],
    'SIS_FixedRecovery.infect': ['CCL INFECTED', 'OCC', 'HIT', 'POSTL T SIS.recover'],
    'Opinion.affect': ['CCL SPREADER', 'OCC', 'HIT'], 'Opinion.stifle': ['CCL STIFLER'],
    'VarInfFixed.infect': ['CCL INFECTED', 'OCC', 'HIT', 'POSTL T SIR.remove'],
    'Isolate.isolate': ['CCL REMOVED'],                                                 # a user process acting on a sibling's locus (simprofiles.Isolate)       # a user process of the harness (simprofiles.VarInfFixed)
    'Monitor.observe': ['OBSERVE'],
    'Census.observe': [],           # a user process that also looks at the network every so often (changes nothing)
    'AddDelete.add': ['ADADD'], 'AddDelete.delete': ['ADDEL'],
    'SIvR.infect': ['SIVR'], 'SIvR.remove': ['CCL REMOVED', 'PLEAVE INFECTED_V', 'PLEAVE INFECTED_N'], 'Vaccinate.vaccinate': ['VACC'],
}
EDGE_HANDLERS = {'VarInfFixed.infect', 'SIR.infect', 'SIS.infect', 'SEIR.infect', 'SEIR.infectAsymptomatic', 'SIR_FixedRecovery.infect',
                 'SIS_FixedRecovery.infect', 'Opinion.affect', 'Opinion.stifle', 'SIvR.infect'}


class ScriptProc(CompartmentedModel):
    """A compartmented process whose structure and handlers come from a script (see gen in the plug-ins).
    spec = dict(comps=[p0,p1,..], nodeloci=[c,..], edgeloci=[(l,r),..], multiloci=[(l,[rs]),..],
                perel=[(locus,p,h)], fixed=[(locus,p,h)], handlers=[(kind, [act,...])], posts=[(t, elem, h)])"""

    def __init__(self, spec, name=None):
        super().__init__(name)
        self.spec = spec; self.log = []; self.hf = []

    def cname(self, i):
        return f'c{i}'

    def build(self, params):
        super().build(params)
        sp = self.spec
        for i, p in enumerate(sp['comps']):
            self.addCompartment(self.cname(i), p)
        self.lnames = []
        for c in sp['nodeloci']:
            self.trackNodesInCompartment(self.cname(c), name=f'N{c}'); self.lnames.append(f'N{c}')
        for (l, r) in sp['edgeloci']:
            self.trackEdgesBetweenCompartments(self.cname(l), self.cname(r), name=f'E{l}_{r}'); self.lnames.append(f'E{l}_{r}')
        for (l, rs) in sp['multiloci']:
            nm = f'M{l}_' + '_'.join(map(str, rs))
            self.addLocus(nm, MultiCompartmentedEdgeLocus(nm, self.cname(l), [self.cname(r) for r in rs])); self.lnames.append(nm)
        self.hf = [self.mk(h) for h in range(len(sp['handlers']))]
        for (l, p, h) in sp['perel']:
            self.addEventPerElement(self.lnames[l], p, self.hf[h], name=f'h{h}')
        for (l, p, h) in sp['fixed']:
            self.addFixedRateEvent(self.lnames[l], p, self.hf[h], name=f'h{h}')

    def setUp(self, params):
        super().setUp(params)
        for (t, e, h) in self.spec['posts']:
            self.postEvent(t, e, self.hf[h], name=f'h{h}')
        for (t0, dt, e, h) in self.spec.get('repeats', []):          # the repeating-event API, anonymously as a user would
            self.postRepeatingEvent(t0, dt, e, self.hf[h])

    def mk(self, h):
        proc = self

        # a plain function, and every handler of every scripted process is called `handler`: event functions are told apart by what they
        # are, not by what they are called
        def handler(t, e):
            proc.run_acts(proc.spec['handlers'][h][1], t, e)
        handler.qn = f'h{h}'
        return handler

    def api(self, a, t, e):
        """one scripted API call; `e` is the element of the current event"""
        op = a[0]
        if op == 'CCL':
            n = e[0] if isinstance(e, tuple) else e
            self.changeCompartment(n, self.cname(a[1]))
        elif op == 'OCC': self.markOccupied(e, t, firstOnly=True)
        elif op == 'HIT': self.markHit(e[0] if isinstance(e, tuple) else e, t, firstOnly=True)
        elif op == 'POSTE': self.postEvent(t + a[1], e, self.hf[a[2]], name=f'h{a[2]}')
        elif op == 'POSTL': self.postEvent(t + a[1], e[0] if isinstance(e, tuple) else e, self.hf[a[2]], name=f'h{a[2]}')
        elif op == 'POSTABS':
            try:
                i = self.postEvent(a[1], e, self.hf[a[2]], name=f'h{a[2]}'); self.log.append(f"post={i}")
            except ValueError:
                self.log.append("post=ValueError")
        elif op == 'UNPOST':
            try:
                CURRENT.pop('last_unpost', None)
                r = self.unpostEvent(a[1], bool(a[2])); self.log.append("unpost=None" if r is None else f"unpost={bits(r)}")
                if 'last_unpost' in CURRENT and CURRENT['last_unpost'] != r and CURRENT.get('qviol'):
                    CURRENT['qviol'](f"Process.unpostEvent({a[1]}) returned {r}, the dynamics' unpostEvent returned {CURRENT['last_unpost']}")
            except KeyError:
                self.log.append("unpost=KeyError")
        elif op == 'PENDING':
            try:
                self.log.append(f"pending={bits(self.pendingEventTime(a[1]))}")
            except KeyError:
                self.log.append("pending=KeyError")
        elif op == 'CLOCK': self.log.append(f"clock={bits(self.currentSimulationTime())}")
        elif op == 'CC': self.changeCompartment(a[1], self.cname(a[2]))
        elif op == 'SETC': self.setCompartment(a[1], self.cname(a[2]))
        # (a script marked 'bulk' uses the ...From forms of the topology API, documented to do the same thing element by element)
        elif op == 'ADDNODE' and self.spec.get('bulk'): self.addNodesFrom([a[1]], c=None if a[2] is None else self.cname(a[2]))
        elif op == 'RMNODE' and self.spec.get('bulk'): self.removeNodesFrom(iter([a[1]]))
        elif op == 'ADDEDGE' and self.spec.get('bulk'): self.addEdgesFrom([(a[1], a[2])])
        elif op == 'RMEDGE' and self.spec.get('bulk'): self.removeEdgesFrom(iter([(a[1], a[2])]))
        elif op == 'ADDNODE': self.addNode(a[1], c=None if a[2] is None else self.cname(a[2]))
        elif op == 'RMNODE': self.removeNode(a[1])
        elif op == 'ADDEDGE': self.addEdge(a[1], a[2])
        elif op == 'RMEDGE':
            if self.network().has_edge(a[1], a[2]): self.removeEdge(a[1], a[2])        # (a handler may find the edge already gone)
        else: raise ValueError(op)

    def run_acts(self, acts, t, e):
        for a in acts:
            self.api(a, t, e)


def act_line(a, inst):
    """protocol text of a scripted action for instance index `inst`"""
    op = a[0]
    if op == 'CCL': return f"CCL {inst} {a[1]}"
    if op in ('OCC', 'HIT'): return f"{op} {inst}"
    if op in ('POSTE', 'POSTL'): return f"{op} {fb(a[1])} {{h{a[2]}}}"
    if op == 'POSTABS': return f"POSTABS {fb(a[1])} {{h{a[2]}}}"
    if op == 'UNPOST': return f"UNPOST {a[1]} {1 if a[2] else 0}"
    if op == 'PENDING': return f"PENDING {a[1]}"
    if op == 'CLOCK': return "CLOCK"
    if op in ('CC', 'SETC'): return f"{op} {inst} {a[1]} {a[2]}"
    if op == 'ADDNODE': return f"ADDNODE {inst} {a[1]} {'-' if a[2] is None else a[2]}"
    if op == 'RMNODE': return f"RMNODE {inst} {a[1]}"
    if op in ('ADDEDGE', 'RMEDGE'): return f"{op} {inst} {a[1]} {a[2]}"
    raise ValueError(op)


# ---------------------------------------------------------------------------------------------------------------
class Extract:
    """configuration tables read back from the real objects after build()"""

    def __init__(self, top, d):
        self.top = top; self.d = d
        self.leaves = top.allProcesses()
        self.cms = [p for p in self.leaves if isinstance(p, CompartmentedModel)]
        self.inst = {id(p): i for i, p in enumerate(self.cms)}
        self.loci = list(d.loci().values())
        self.lidx = {id(l): i for i, l in enumerate(self.loci)}
        self.cidx = {id(p): {c: i for i, c in enumerate(p._compartments.keys())} for p in self.cms}
        self.hnames = []; self.hlines = {}; self.hkind = {}
        self.unknown = []       # handlers of the real code that the model's handler table does not know (overridden in a subclass, renamed, ...)

    def locus_line(self, l):
        p = l.process(); ci = self.cidx.get(id(p)); i = self.inst.get(id(p))
        if isinstance(l, MultiCompartmentedEdgeLocus):
            return f"LOCUS edge {i} {ci[l._left]} {','.join(str(ci[r]) for r in sorted(l._rights, key=lambda c: ci[c]))} 1"
        if isinstance(l, CompartmentedEdgeLocus):
            return f"LOCUS edge {i} {ci[l._left]} {ci[l._right]} 0"
        if isinstance(l, CompartmentedNodeLocus):
            return f"LOCUS node {i} {ci[l._compartment]}"
        return "LOCUS plain N"

    def hkey(self, ef):
        """name of an event function: qualname[@instance] for bound methods, scripted handlers by their own name"""
        f = getattr(ef, '_orig', ef)
        if getattr(f, '__qualname__', '').endswith('postRepeatingEvent.<locals>.repeat'):
            cells = dict(zip(f.__code__.co_freevars, [c.cell_contents for c in f.__closure__]))
            k, p, qn = self.hkey(cells['ef'])
            return (k + '#repeat', p, qn + '#repeat')
        if hasattr(f, '__func__'):
            p = f.__self__; qn = f.__func__.__qualname__
            nm = p.instanceName()
            return (qn + ('@' + nm if nm else ''), p, qn)
        if not hasattr(f, 'qn') and getattr(f, '__closure__', None):
            # a wrapper this harness does not know (the library wrapped the event function once more): look through it
            for c in f.__closure__:
                try:
                    v = c.cell_contents
                except ValueError:
                    continue
                if callable(v) and v is not f and (hasattr(v, '__func__') or hasattr(v, 'qn') or hasattr(v, '_orig') or getattr(v, '__closure__', None)):
                    try:
                        return self.hkey(v)
                    except Exception:
                        continue
        p = getattr(f, 'proc', None)
        return (f.qn, p, f.qn)

    def hid(self, ef):
        key, p, qn = self.hkey(ef)
        if key not in self.hnames:
            self.hnames.append(key)
            self.hlines[key] = self.handler_line(key, p, qn, ef)
        return self.hnames.index(key)

    def handler_line(self, key, p, qn, ef):
        if isinstance(p, ScriptProc) or (p is None and qn.startswith('h')):
            f = getattr(ef, '_orig', ef)
            sp = f.__self__ if hasattr(f, '__self__') else None
            raise AssertionError("scripted handlers are registered by register_script")
        tp = getattr(p, '_vp_target', None) or p          # a process that acts on a sibling compartmented model names it here
        i = self.inst.get(id(tp)); ci = self.cidx.get(id(tp)); cls = type(tp)
        acts = []
        rep = qn.endswith('#repeat')
        if rep:
            f = getattr(ef, '_orig', ef)
            cells = dict(zip(f.__code__.co_freevars, [c.cell_contents for c in f.__closure__]))
            qn = qn[:-len('#repeat')]
        acts_src = ACTS.get(qn)
        if acts_src is None:
            # not in the table: fall back to the inherited handler of the same name so that the run (and the oracles) can go on;
            # the correspondence is reported as broken whatever the streams say
            for base in type(p).__mro__:
                if f"{base.__name__}.{qn.split('.')[-1]}" in ACTS:
                    acts_src = ACTS[f"{base.__name__}.{qn.split('.')[-1]}"]; break
            if acts_src is None: raise KeyError(qn)
            self.unknown.append(qn)
        for a in acts_src:
            w = a.split()
            if w[0] == 'CCL': acts.append(f"CCL {i} {ci[getattr(cls, w[1])]}")
            elif w[0] in ('OCC', 'HIT'): acts.append(f"{w[0]} {i}")
            elif w[0] == 'POSTL':
                tq = w[2]; tcls = {'SIR.remove': 'remove', 'SIS.recover': 'recover'}[tq]
                acts.append(f"POSTL {fb(p._tInfected)} {self.hid(getattr(p, tcls))}")
            elif w[0] == 'OBSERVE': acts.append("OBSERVE")
            elif w[0] == 'VACC': acts.append("VACC")
            elif w[0] == 'PLEAVE': acts.append(f"PLEAVE {self.lidx[id(p.locus(getattr(cls, w[1])))]}")
            elif w[0] == 'SIVR':
                eff = p._efficacy[0] if isinstance(p._efficacy, list) else p._efficacy
                acts.append(f"SIVR {i} {ci[p.INFECTED]} {fb(p._offset)} {fb(eff)} {self.lidx[id(p.locus(p.INFECTED_N))]} {self.lidx[id(p.locus(p.INFECTED_V))]}")
            elif w[0] == 'ADADD': acts.append(f"ADADD {self.lidx[id(p.locus(AddDelete.NODES))]} {p._c} {self.ad_mode(p)}")
            elif w[0] == 'ADDEL': acts.append(f"ADDEL {self.lidx[id(p.locus(AddDelete.NODES))]} {self.ad_mode(p)}")
            else: raise ValueError(a)
        if rep:
            acts.append(f"POSTE {fb(cells['dt'])} {self.hnames.index(key)}")
        kind = 'E' if qn in EDGE_HANDLERS else ('X' if qn.startswith('Monitor.') or qn.startswith('Census.') else 'N')
        self.hkind[key] = kind
        return f"HANDLER {key} {kind} " + ' ; '.join(acts)

    def ad_mode(self, p):
        if isinstance(p, CompartmentedModel): q = p; kind = 'inherit'
        elif getattr(p, 'VP_MODE', None): q = p.container()[p.DISEASE]; kind = 'seq' if p.VP_MODE == 'seq' else 'inherit'
        else: return 'alone'
        ci = self.cidx[id(q)]
        return f"{kind} {self.inst[id(q)]} {ci[q.SUSCEPTIBLE]} {ci[q.REMOVED]}"

    def register_script(self, sp):
        """scripted process: all its handlers, in order"""
        i = self.inst[id(sp)]
        ids = []
        for h, (kind, acts) in enumerate(sp.spec['handlers']):
            key = f'h{h}' + ('@' + sp.instanceName() if sp.instanceName() else '')
            sp.hf[h].qn = key; sp.hf[h].proc = sp
            self.hnames.append(key); ids.append(len(self.hnames) - 1)
            self.hkind[key] = kind
        for h, (kind, acts) in enumerate(sp.spec['handlers']):
            key = self.hnames[ids[h]]
            txt = ' ; '.join(act_line(a, i) for a in acts)
            for hh in range(len(ids)):
                txt = txt.replace('{h%d}' % hh, str(ids[hh]))
            self.hlines[key] = f"HANDLER {key} {kind} " + txt
            for (t0, dt, e, h2) in sp.spec.get('repeats', []):
                if h2 == h and key + '#repeat' not in self.hnames:
                    # postRepeatingEvent(t0, dt, e, handler): the handler, then the same again dt later
                    rk = key + '#repeat'
                    self.hnames.append(rk); self.hkind[rk] = kind
                    self.hlines[rk] = f"HANDLER {rk} {kind} " + (txt + ' ; ' if txt else '') + f"POSTE {fb(dt)} {self.hnames.index(rk)}"
        return ids


def _thunk_ef(thunk):
    """the event function inside the `lambda: ef(t, e)` that Dynamics.postEvent queues"""
    cells = dict(zip(thunk.__code__.co_freevars, [c.cell_contents for c in thunk.__closure__]))
    return cells['ef']


def elem_pair(e):
    if e is None: return (0, 0)
    return e if isinstance(e, tuple) else (e, 0)


def state_line(d, ex):
    g = d.network()
    comps = []
    for p in ex.cms:
        ci = ex.cidx[id(p)]
        comps.append(' '.join(str(ci[c]) if (c := g.nodes[n].get(p.COMPARTMENT)) is not None else '-' for n in g.nodes()))
    loci = ' '.join('{' + ', '.join(str(L(x)) for x in l) + '}' for l in d.loci().values())
    pend = ' '.join(f"{i}:{bits(t)}" for (t, i) in sorted((ev[0], i) for i, ev in d._postedEventFinder.items()))
    occ = []
    for i, p in enumerate(ex.cms):
        for (a, b, data) in g.edges(data=True):
            if data.get(p.OCCUPIED, False): occ.append((i, min(L(a), L(b)), max(L(a), L(b))))
    occs = ' '.join(f"{i}:{a}-{b}" for (i, a, b) in sorted(occ))
    tocc = sorted((min(L(a), L(b)), max(L(a), L(b)), data['tOccupied']) for (a, b, data) in g.edges(data=True) if 'tOccupied' in data)
    toccs = ' '.join(f"{a}-{b}@{bits(t)}" for (a, b, t) in tocc)
    names = {p.instanceName(): i for i, p in enumerate(ex.cms) if p.instanceName() is not None}
    hit = []
    for n in sorted(g.nodes()):
        if 'tHitting' in g.nodes[n]:
            s = f"{L(n)}@{bits(g.nodes[n]['tHitting'])}"
            if 'hittingProcess' in g.nodes[n]: s += f"/{names[g.nodes[n]['hittingProcess']]}"
            hit.append(s)
    nodes = ' '.join(str(L(n)) for n in g.nodes())
    adj = ' '.join(f"{L(n)}:" + ','.join(str(L(m)) for m in g.adj[n]) for n in g.nodes())
    vac = [f"{L(n)}@{bits(g.nodes[n].get('vaccination_time', 0.0))}" for n in sorted(g.nodes()) if g.nodes[n].get('vaccincated')]
    return (f"nodes=[{nodes}] adj=[{adj}] comp=[{' | '.join(comps)}] loci=[{loci}] pend=[{pend}] occ=[{occs}] "
            f"tocc=[{toccs}] hit=[{' '.join(hit)}]" + (f" vacc=[{' '.join(vac)}]" if vac else ""))


def lkey(l):
    return l.name() if hasattr(l, 'name') else ('single', getattr(l, '_value', None))


def fkey(f):
    f = getattr(f, '_orig', f)
    return getattr(f, '__qualname__', None) or getattr(f, 'qn', None) or str(f)


def gillespie_oracle(g, rs, cur, t, e):
    """C02: from the rates of this iteration and the random numbers it consumed, which event must fire and when
    (exact: rates and random numbers are dyadic; a verdict within rounding distance of a boundary is withheld)"""
    from fractions import Fraction as F
    tr = g['tr']
    for (l, r, f, nm) in tr:
        pass
    a = 0.0
    for (_, r, _, _) in tr: a += r
    if a == 0.0 or not rs: return None
    r1 = rs[0]
    want_t = g['t'] + (1.0 / a) * math.log(1.0 / r1)
    if t != want_t:
        return f"stochastic event fired at {t}; loop time {g['t']} + ln(1/r1)/a = {want_t} (a={a}, r1={r1})"
    idx = 0
    if len(tr) > 1:
        if len(rs) < 2: return None
        xc = F(rs[1]) * F(a); cum = F(0); idx = len(tr) - 1
        for i, (_, r, _, _) in enumerate(tr):
            if cum + F(r) > xc: idx = i; break
            cum += F(r)
        bounds = [abs(xc - sum((F(x[1]) for x in tr[:i]), F(0))) for i in range(len(tr) + 1)]
        if min(bounds) < F(a) / 10**12: return None
    mine = [x for x in tr if x[2] is cur['ef'] and (cur['locus'] is None or x[0] is cur['locus'] or type(x[0]).__name__ == 'SingletonLocus')]
    if mine and all(x[1] <= 0 for x in mine):
        return f"event {mine[0][3]} fired although its rate in this iteration is {mine[0][1]} (rates {[x[1] for x in tr]})"
    (l, r, f, nm) = tr[idx]
    if r <= 0: return f"event {nm} has rate {r} but was selectable (r2*a={float(xc) if len(tr) > 1 else None})"
    if f is not cur['ef']:
        return (f"rates {[x[1] for x in tr]}, r2={rs[1] if len(rs) > 1 else None}: the event with cumulative interval containing r2*a is "
                f"#{idx} ({nm}) but {getattr(cur['ef'], '__qualname__', cur['ef'])} fired")
    if cur['locus'] is not None and cur['locus'] is not l and type(l).__name__ != 'SingletonLocus':
        return f"event #{idx} was selected on locus {l.name()} but fired on another locus"
    return None


def is_member(l, e):
    """is `e` an element of the locus the event was registered on, judged on the tracked set itself
    (a SingletonLocus stands for one element of the model's S-I locus)"""
    # (by walking the tracked set, not by the locus' own `in`: the oracle must not inherit a membership test that has gone wrong)
    if type(l).__name__ == 'SingletonLocus':
        p = l.process()
        return e == l._value and any(x == e for x in p.locus(p.SI))
    return any(x == e for x in l)


def registered_check(ex, case):
    """what build() registered with the dynamics must be what was asked for: a scripted process' own probability / rate list, and for a
    shipped model every transition parameter handed to the run (own decorated name, else the shared name). The model's tables are read off
    the registered events, so this is the one place where the registered numbers meet the configured ones."""
    SHORT = ('pInfect', 'pRemove', 'pRecover', 'pResuscept', 'pAffect', 'pStifle', 'pInfectSymptomatic', 'pInfectAsymptomatic', 'pSymptoms')
    for p in ex.leaves:
        if isinstance(p, ScriptProc):
            want = [float(x[1]) for x in p.spec['perel']]; got = [float(pr) for (l, pr, f, nm) in p._perElementEvents]
            if want != got: return f"per-element events were registered with probabilities {got}, the process asked for {want}"
            want = [float(x[1]) for x in p.spec['fixed']]; got = [float(pr) for (l, pr, f, nm) in p._perLocusEvents]
            if want != got: return f"fixed-rate events were registered with rates {got}, the process asked for {want}"
    merged = case['params']
    for pj, p in zip(case.get('procs_json', []), ex.leaves):
        if pj.get('cls') == 'Script' or not isinstance(p, CompartmentedModel) or type(p).__name__ == 'SIR_VariableInfection': continue
        regs = [float(pr) for (l, pr, f, nm) in p._perElementEvents + p._perLocusEvents]
        nm_ = p.instanceName()
        for k in pj.get('params', {}):
            kb = k.split('@')[0]
            if kb.split('.')[-1] not in SHORT: continue
            val = merged.get(f"{kb}@{nm_}", merged.get(kb)) if nm_ is not None else merged.get(kb)
            if isinstance(val, (int, float)) and float(val) not in regs:
                return f"{type(p).__name__}: parameter {kb} = {val}, registered probabilities / rates are {regs}"
        for k in pj.get('params', {}):
            kb = k.split('@')[0]
            if kb.split('.')[-1] not in ('pInfected', 'pAffected', 'pExposed'): continue
            val = merged.get(f"{kb}@{nm_}", merged.get(kb)) if nm_ is not None else merged.get(kb)
            init = [float(x) for x in p._compartments.values()]
            if isinstance(val, (int, float)) and float(val) not in init:
                return f"{type(p).__name__}: parameter {kb} = {val}, the initial compartment distribution is {init}"
    return None


def fresh_twin(case, values, snap):
    """C10: the state of every object of the experiment at the start of the run must equal that of a brand-new experiment given the same
    network, parameters and random numbers"""
    if snap is None: return None
    rr = ReplayRng(values)
    vrepo.patch_rng(rr); CURRENT['sr'] = None
    top = case['build'](); top.setMaximumTime(case['maxT'])
    Dyn = StochasticDynamics if case['dyn'] == 'sto' else SynchronousDynamics
    got = {}

    class Stop(BaseException):
        pass

    class D2(Dyn):
        def simulationStarted(self, params):
            got['snap'] = snapshot(self); raise Stop()
    d2 = D2(top, FixedNetwork(mkgen(case)._generate({})) if case.get('fixed_proto') else mkgen(case))
    try:
        d2.set(case['params']).run(fatal=True)
    except Stop:
        pass
    except Exception as ex_:
        return None
    a, b = snap, got.get('snap')
    if b is None or a == b: return None

    def diff(x, y, path):
        if type(x) != type(y): return f"{path}: {str(x)[:80]} vs {str(y)[:80]}"
        if isinstance(x, dict):
            for k in sorted(set(x) | set(y), key=str):
                if x.get(k) != y.get(k): return diff(x.get(k), y.get(k), f"{path}.{k}")
        if isinstance(x, list):
            if len(x) != len(y): return f"{path}: {len(x)} entries vs {len(y)} in a fresh experiment: {str(x)[:120]} vs {str(y)[:120]}"
            for i, (u, v) in enumerate(zip(x, y)):
                if u != v: return diff(u, v, f"{path}[{u[0] if isinstance(u, (list, tuple)) and u and isinstance(u[0], str) else i}]")
        return f"{path}: {str(x)[:100]} vs {str(y)[:100]} in a fresh experiment"
    return "state at the start of the run differs from a fresh experiment's: " + diff(a, b, 'experiment')


def run_case(case):
    """case: dict(build=callable -> top process, dyn='sto'|'syn', nodes, edges, maxT, seed, params, specials, ops)
    returns (input lines, expected lines, info)"""
    sr = ScriptedRng(case['seed'], case.get('specials', ()), case.get('pspecial', 0.0))
    vrepo.patch_rng(sr); CURRENT['sr'] = sr
    sr.sticky = case.get('sticky', 0.0)
    top = case['build']()
    top.setMaximumTime(case['maxT'])
    Dyn = StochasticDynamics if case['dyn'] == 'sto' else SynchronousDynamics
    exp = []; st = {}
    info = dict(events=0, posted=0, stale=0, handlers=set(), exc=None, oracle=[])
    cur = {}

    ref = {}          # reference model of the pending events: id -> (time, element)   (C04 oracle)
    qv = []

    def qviol(msg):
        if not qv:
            qv.append(msg); info['oracle'].append(('queue', msg))
    CURRENT['qviol'] = qviol

    def check_skipped(upto=None):
        """C05/C06: a chosen event that is passed over must have left its locus by its turn"""
        tr = st.get('tranche') or []
        while tr:
            (l, e, fk) = tr.pop(0)
            if upto is not None and (lkey(l), e, fk) == upto:
                return
            if is_member(l, e) and not any(o[0] == 'sync' for o in info['oracle']):
                info['oracle'].append(('sync', f"event {fk} chosen for {e} was passed over although {e} was still in its locus at its turn"))

    def wrap(ef, posted_time=None, locus=None, cell=None):
        if getattr(ef, '_wrapped', False) and posted_time is None and locus is None:
            return ef
        orig = getattr(ef, '_orig', ef)

        def w(t, e):
            st['nev'] = st.get('nev', 0) + 1
            if isinstance(st.get('inject'), (list, tuple)) and st['inject'][0] == 'event' and st['nev'] == st['inject'][1]:
                raise Injected(f"event {st['nev']}")
            cur.update(fresh=True, h=t, clock=d.currentSimulationTime(), ef=orig, posted=posted_time is not None,
                       own=posted_time if posted_time is not None else t, locus=locus,
                       member=is_member(locus, e) if locus is not None else True)
            if locus is not None and case['dyn'] == 'syn' and st.get('tranche') is not None:
                check_skipped(upto=(lkey(locus), e, fkey(orig)))
            elif posted_time is not None and case['dyn'] == 'sto' and st.get('gil') is not None and not any(o[0] == 'gillespie' for o in info['oracle']):
                # with all rates zero the loop jumps to the next posted time and comes back to look at the rates; once a posted event has made
                # them positive, no posted event of a strictly later time may fire before a waiting time is drawn
                a0 = 0.0
                for (_, r_, _, _) in st['gil']['tr']: a0 += r_
                if a0 == 0.0:
                    tot = 0.0
                    for q_ in top.allProcesses():
                        for (l_, pr_, f_, nm_) in q_.perElementEventDistribution(t): tot += pr_ * sum(1 for _ in l_)
                        for (l_, pr_, f_, nm_) in q_.fixedRateEventDistribution(t): tot += pr_
                    if tot > 0.0:
                        if st.get('pos_since') is None: st['pos_since'] = posted_time
                        elif posted_time > st['pos_since']:
                            info['oracle'].append(('gillespie', f"the total event rate has been positive ({tot}) since {st['pos_since']}, yet the posted event due at {posted_time} "
                                                   f"fired without a waiting time having been drawn"))
            elif posted_time is not None and case['dyn'] == 'syn' and st.get('tranche'):
                # a posted event belongs to the next timestep: whatever is left of the last tranche was passed over, and has to be judged
                # now, before this handler changes the state
                check_skipped()
            if cell is not None:
                i = cell.get('id')
                if i not in ref:
                    qviol(f"event id {i} fired but was not pending (fired twice, or after being un-posted)")
                else:
                    (rt, re_) = ref.pop(i)
                    if rt != t or re_ != e:
                        qviol(f"event id {i} posted for t={rt} on {re_} but its handler got t={t}, element {e}")
                    earlier = [(tt, j) for j, (tt, _) in ref.items() if (tt, j) < (rt, i)]
                    if earlier:
                        qviol(f"event id {i} (t={rt}) fired before pending event {min(earlier)[1]} (t={min(earlier)[0]})")
            return orig(t, e)
        w._wrapped = True; w._orig = orig
        return w

    class D(Dyn):
        def simulationStarted(self, params):
            if st.get('fresh_check'):
                if self.currentSimulationTime() != 0.0: info['oracle'].append(('fresh', f"the run starts at simulation time {self.currentSimulationTime()}, not 0"))
                if set(self._postedEventFinder) != set(ref):
                    info['oracle'].append(('fresh', f"pending events at the start are {sorted(self._postedEventFinder)}, this run's build and set-up posted {sorted(ref)}"))
                st['snap'] = snapshot(self)
            exp.append("START " + state_line(self, st['ex']))
            st['sizes'] = [(None, [len(l) for l in self.loci().values()])]
            g = self.network()
            self._vp_seeds = {id(q): {n for n in g.nodes() if g.nodes[n].get(q.COMPARTMENT) in
                                      ({q.INFECTED} if hasattr(q, 'INFECTED') and not hasattr(q, 'EXPOSED') else
                                       {q.EXPOSED} if hasattr(q, 'EXPOSED') else {q.SPREADER} if hasattr(q, 'SPREADER') else set())}
                              for q in st['ex'].cms}
            for f in case.get('oracles', ()):
                if getattr(f, '__name__', '') == 'oracle_diagram' or getattr(f, 'at_start', False): f(self, st['ex'], dict(posted=True), 0.0, None, None, None)

        def eventFired(self, t, p, name, e):
            ex = st['ex']
            if not cur.get('fresh') and hp.get('last') is not None:
                # the event reached the queue without passing through postEvent (so it was not wrapped): take what can be known from the
                # heap entry itself
                last = hp['last']
                cur.update(h=last[0], clock=self.currentSimulationTime(), ef=getattr(_thunk_ef(last[3]), '_orig', _thunk_ef(last[3])), posted=True,
                           own=last[0], locus=None, member=True)
            cur['fresh'] = False
            if case['dyn'] == 'syn' and cur.get('posted') and cur['own'] > st.get('step_t', 0.0) + 1.0 and not any(o[0] == 'sync' for o in info['oracle']):
                info['oracle'].append(('sync', f"posted event due at {cur['own']} fired in timestep {st.get('step_t', 0.0) + 1.0}, before it was due"))
            key = ex.hnames[ex.hid(cur['ef'])]
            kind = ex.hkind.get(key, 'N')
            es = 'None' if e is None else str(L(e))
            log = []
            for q in ex.leaves:
                if isinstance(q, ScriptProc):
                    log += q.log; q.log = []
            info['events'] += 1; info['posted'] += 1 if cur['posted'] else 0; info['handlers'].add(key)
            info['tmax'] = t if info.get('tmax') is None else max(info['tmax'], t)
            if not key.startswith('Monitor.'):
                st.setdefault('sizes', []).append((cur['own'], [len(l) for l in self.loci().values()]))
            if info['events'] > case.get('maxevents', 400):
                raise CaseTooBig()
            if case['dyn'] == 'sto' and not cur['posted'] and st.get('gil') and not info['oracle']:
                r = gillespie_oracle(st['gil'], sr.recent[st['gil']['mark']:], cur, t, e)
                if r: info['oracle'].append(('gillespie', r))
            for f in case.get('oracles', ()):
                r = f(self, ex, cur, t, p, name, e)
                if r: info['oracle'].append(r)
            exp.append(f"EV own={bits(cur['own'])} h={bits(cur['h'])} clock={bits(cur['clock'])} tap={bits(t)} "
                       f"{'P' if cur['posted'] else 'S'} {key} {es} log=[{' '.join(log)}] | " + state_line(self, ex))

        def eventRateDistribution(self, t):
            tr = super().eventRateDistribution(t)
            # C02: the rates the dynamics works with are those of every registered event of every component: probability x current
            # locus size for per-element events, the probability itself for fixed-rate ones, in registration order
            want = []
            for q in self._process.allProcesses():
                want += [(lkey(l), pr * sum(1 for _ in l), fkey(f)) for (l, pr, f, nm) in q.perElementEventDistribution(t)]     # (size by counting)
            for q in self._process.allProcesses():
                want += [(lkey(l), pr, fkey(f)) for (l, pr, f, nm) in q.fixedRateEventDistribution(t)]
            have = [(lkey(l), r, fkey(f)) for (l, r, f, nm) in tr]
            if have != want and not any(o[0] == 'gillespie' for o in info['oracle']):
                info['oracle'].append(('gillespie', f"the dynamics' event rates {have} are not those of the registered events {want}"))
            prev = st.get('gil')
            if prev is not None and not any(o[0] == 'gillespie' for o in info['oracle']):
                # every iteration with a positive total rate advances the clock by its own waiting time, whether or not an event came of it
                a0 = 0.0
                for (_, r, _, _) in prev['tr']: a0 += r
                rs0 = sr.recent[prev['mark']:]
                if a0 > 0.0 and rs0:
                    want_t = prev['t'] + (1.0 / a0) * math.log(1.0 / rs0[0])
                    if t != want_t:
                        info['oracle'].append(('gillespie', f"the iteration that started at {prev['t']} drew r1={rs0[0]} at total rate {a0}: the next one should start at {want_t}, it starts at {t}"))
            st['gil'] = dict(t=t, tr=[(l, r, getattr(f, '_orig', f), nm) for (l, r, f, nm) in tr], mark=len(sr.recent))
            st['pos_since'] = None
            return tr

        def allEventsInTimestep(self, t):
            """C06 oracle: recompute the tranche from the loci at the start of the step and the random numbers consumed"""
            per = [(l, p, getattr(f, '_orig', f), nm, list(l)) for (l, p, f, nm) in self.perElementEventDistribution(t)]
            fix = [(l, p, getattr(f, '_orig', f), nm, len(l)) for (l, p, f, nm) in self.fixedRateEventDistribution(t)]
            mark = len(sr.recent); imark = len(sr.lines)
            due = [ev[0] for ev in self._postedEventFinder.values() if ev[0] <= t]
            if due and not any(o[0] == 'sync' for o in info['oracle']):
                info['oracle'].append(('sync', f"the trials of timestep {t} are drawn while a posted event due at {min(due)} has not fired yet"))
            check_skipped()
            st['step_t'] = t
            evs = super().allEventsInTimestep(t)
            st['tranche'] = [(l, e, fkey(f)) for (l, e, f, nm) in evs]
            rs = sr.recent[mark:]
            want = []; k = 0; ok = True
            for (l, p, f, nm, els) in per:
                if len(els) > 0 and p > 0.0:
                    for e in els:
                        if k >= len(rs): ok = False; break
                        if rs[k] <= p: want.append((lkey(l), e, fkey(f)))
                        k += 1
            nfix = 0
            for (l, p, f, nm, n) in fix:
                if n > 0 and p > 0.0:
                    if k >= len(rs): ok = False; break
                    if rs[k] <= p: want.append((lkey(l), None, fkey(f))); nfix += 1
                    k += 1
            got = [(lkey(l), e, fkey(getattr(f, '_orig', f))) for (l, e, f, nm) in evs]
            nper = len(want) - nfix
            if not ok or k != len(rs):
                info['oracle'].append(('sync', f"timestep {t}: {len(rs)} random numbers consumed, {k} independent trials expected (one per element per event, one per fixed-rate event)"))
            elif got[:nper] != want[:nper] or [(a, c) for (a, b, c) in got[nper:]] != [(a, c) for (a, b, c) in want[nper:]]:
                info['oracle'].append(('sync', f"timestep {t}: chosen {[(e, f) for (_, e, f) in got]} but the trials r<=p select {[(e, f) for (_, e, f) in want]}"))
            if t != float(int(t)) or t < 1.0:
                info['oracle'].append(('sync', f"timestep time {t} is not a positive whole number"))
            return evs

        def postEvent(self, t, p, e, ef, name=None, *more, **kw):
            cell = {}
            past = t < self.currentSimulationTime()
            try:
                i = super().postEvent(t, p, e, wrap(ef, posted_time=t, cell=cell), name, *more, **kw)
            except ValueError:
                if not past: qviol(f"postEvent({t}) at time {self.currentSimulationTime()} raised ValueError")
                raise
            if past: qviol(f"postEvent({t}) into the past (now {self.currentSimulationTime()}) was accepted")
            if i in ref or i in st.setdefault('ids', set()): qviol(f"postEvent returned id {i}, which was already used")
            st['ids'].add(i); cell['id'] = i; ref[i] = (t, e)
            return i

        def unpostEvent(self, id, fatal=True):
            try:
                r = super().unpostEvent(id, fatal)
            except KeyError:
                if id in ref: qviol(f"unpostEvent({id}) raised KeyError but the event is pending for {ref[id][0]}")
                elif not fatal: qviol(f"unpostEvent({id}, fatal=False) raised KeyError")
                raise
            CURRENT['last_unpost'] = r
            if id in ref:
                if r != ref[id][0]: qviol(f"unpostEvent({id}) returned {r}, the event was due at {ref[id][0]}")
                del ref[id]
            elif r is not None or fatal:
                qviol(f"unpostEvent({id}, fatal={fatal}) returned {r} for an event that is not pending")
            return r

        def pendingEventTime(self, id):
            try:
                r = super().pendingEventTime(id)
            except KeyError:
                if id in ref: qviol(f"pendingEventTime({id}) raised KeyError but the event is pending for {ref[id][0]}")
                raise
            if id not in ref: qviol(f"pendingEventTime({id}) returned {r} for an event that is not pending")
            elif r != ref[id][0]: qviol(f"pendingEventTime({id}) returned {r}, the event is due at {ref[id][0]}")
            return r

    LABELS.clear(); LABELS.update({lab_of(case)(n): n for n in case['nodes']} if case.get('strlabels') else {})
    gen0 = mkgen(case)
    if case.get('prior_other'):
        # the process object was first run by a dynamics object of the *other* class (an experiment of its own), then handed to this one
        O = SynchronousDynamics if case['dyn'] == 'sto' else StochasticDynamics
        top.setMaximumTime(case['prior_other'].get('maxT', case['maxT']))
        try:
            O(top, mkgen(case)).set(case['params']).run(fatal=True)
            info['hist_done'] = 1
        except Exception as ex_:
            info['hist_exc'] = f"{type(ex_).__name__}: {ex_}"
        sr.lines.clear(); sr.recent.clear(); sr.values.clear(); sr.nspecial = 0
        top.setMaximumTime(case['maxT'])
        st['fresh_check'] = True
    d = D(top, gen0)
    # C04 at the level of the heap itself (whatever API put the entry there): a live entry that is popped must be the one with the
    # smallest time among the live pending entries and, among those with that time, the one pushed first
    import heapq as _hq, epydemic.networkdynamics as _nd
    hp = dict(seq=0, live={})

    def _hpush(h, ev):
        hp['seq'] += 1; hp['live'][id(ev)] = (ev[0], hp['seq'], ev)
        return _hq.heappush(h, ev)

    def _hpop(h):
        ev = _hq.heappop(h)
        me = hp['live'].pop(id(ev), None)
        if len(ev) > 3 and ev[3] is not None: hp['last'] = ev
        if me is not None and len(ev) > 3 and ev[3] is not None:
            others = [(t, sq) for (t, sq, o) in hp['live'].values() if len(o) > 3 and o[3] is not None]
            early = [x for x in others if x[0] < me[0]]
            tie = [x for x in others if x[0] == me[0] and x[1] < me[1]]
            if early: qviol(f"posted event for t={me[0]} taken off the queue while an event for t={min(early)[0]} is still pending")
            elif tie: qviol(f"posted event for t={me[0]} (posted {me[1]}-th) taken off the queue before an earlier-posted event for the same time (posted {min(tie)[1]}-th)")
        return ev
    _nd.heappush = _hpush; _nd.heappop = _hpop
    if case.get('preattr') is not None:
        # the network handed to the experiment already carries this model's state attributes (e.g. the residual network of an earlier run)
        def attrs(g, seed=case['preattr']):
            rp = random.Random(seed)
            for p in top.allProcesses():
                if not isinstance(p, CompartmentedModel): continue
                names = ([p.cname(i) for i in range(len(p.spec['comps']))] if isinstance(p, ScriptProc) else
                         [getattr(p, k) for k in ('SUSCEPTIBLE', 'INFECTED', 'REMOVED', 'EXPOSED', 'IGNORANT', 'SPREADER', 'STIFLER') if hasattr(p, k)])
                for n in g.nodes():
                    if names and rp.random() < 0.7: g.nodes[n][p.COMPARTMENT] = rp.choice(names)
                for (a, b) in g.edges():
                    if rp.random() < 0.3: g.edges[a, b][p.OCCUPIED] = True
        gen0.attrs = attrs

    def boundary():
        g = st.get('gil')
        if not g or case['dyn'] != 'sto': return []
        a = sum(r for (_, r, _, _) in g['tr'])
        if a <= 0: return []
        # these are aimed at the selection draw (the second random number of an iteration) only: as a *waiting-time* draw a number within
        # 2^-53 of 1 gives a step too short to move the float clock, and an infection at the very time of the infector's — the float
        # artefact the properties' "every random schedule" (in real numbers) leaves out
        if len(sr.recent) - g['mark'] != 1: return []
        out = []; c = 0.0
        for (_, r, _, _) in g['tr'][:-1]:
            c += r; out.append(c / a)
        out += [1.0 - 2.0 ** -53, 1.0 - 2.0 ** -52]          # the top end of the scan: r2*a within an ulp or two of the total rate
        return [x for x in out if 0.0 < x < 1.0]
    sr.hook = boundary
    orig_build = top.build

    def build(params):
        if st.get('inject') == 'build0': raise Injected('before build')
        orig_build(params)
        if st.get('inject') == 'build': raise Injected('after build')
        ex = Extract(top, d); st['ex'] = ex
        for p in ex.leaves:
            if isinstance(p, ScriptProc): ex.register_script(p)
        for p in ex.leaves:
            if isinstance(p, SIR_VariableInfection):
                # its distribution is rebuilt on every call with fresh SingletonLocus objects: wrap what it returns
                def dist(t, p=p, f0=type(p).perElementEventDistribution):
                    return [(l, pr, wrap(f, locus=l), nm) for (l, pr, f, nm) in f0(p, t)]
                p.perElementEventDistribution = dist
            p._perElementEvents = [(l, pr, wrap(f, locus=l), nm) for (l, pr, f, nm) in p._perElementEvents]
            p._perLocusEvents = [(l, pr, wrap(f, locus=l), nm) for (l, pr, f, nm) in p._perLocusEvents]
        r_ = registered_check(ex, case)
        if r_: info['oracle'].append(('registered', r_))
        for p in ex.leaves:
            for (l, pr, f, nm) in list(p._perElementEvents) + list(p._perLocusEvents):
                if id(l) not in ex.lidx and type(l).__name__ != 'SingletonLocus':
                    # (the model's tables cannot even be written down: the event points outside this run)
                    info['oracle'].append(('fresh', f"{type(p).__name__} enters the run with an event ({nm}) registered on a locus that is not one of this "
                                           f"run's loci: {len(p._perElementEvents)} per-element events are registered, left over from an earlier run"))
                    raise RuntimeError('event registered on a locus of another run')
        cfg = [f"NINST {len(ex.cms)} " + ' '.join('1' if p.instanceName() is not None else '0' for p in ex.cms)]
        for l in ex.loci: cfg.append(ex.locus_line(l))
        for p in ex.cms:
            i = ex.inst[id(p)]; ci = ex.cidx[id(p)]
            for c, hs in p._effects.items():
                if c in ci:
                    cfg.append(f"EFFECT {i} {ci[c]} {','.join(str(ex.lidx[id(h[0].__self__)]) for h in hs)}")
        per = []; fix = []
        varat = {}
        for p in ex.leaves:
            for (l, pr, f, nm) in p._perElementEvents: per.append(f"PEREL {ex.lidx[id(l)]} {fb(pr)} {ex.hid(f)}")
            varat[id(p)] = len(per)
        for p in ex.leaves:
            for (l, pr, f, nm) in p._perLocusEvents: fix.append(f"FIXED {ex.lidx[id(l)]} {fb(pr)} {ex.hid(f)}")
        # set-up steps in the order the real code performs them: every build, then every setUp
        setup = []
        for p in ex.leaves:          # events posted by build(): before every setUp
            if isinstance(p, Monitor) or getattr(p, 'VP_BUILDPOST', False):
                ev = [e for e in d._postedEvents if e[2] is p][0]
                setup.append(f"S_POST {fb(ev[0])} 0 0 {ex.hid(_thunk_ef(ev[3]))}")
        for p in ex.leaves:
            if isinstance(p, CompartmentedModel):
                i = ex.inst[id(p)]; ci = ex.cidx[id(p)]
                setup.append(f"S_INITC {i} " + ' '.join(f"{ci[c]}:{fb(pp)}" for c, pp in p._compartments.items()))
                for (n, ck) in getattr(p, '_vp_force', ()): setup.append(f"S_FORCE {i} {n} {ci[getattr(p, ck)]}")
                if isinstance(p, SIR_FixedRecovery) or getattr(p, 'VP_POSTC', False):
                    setup.append(f"S_POSTC {i} {ci[p.INFECTED]} {fb(p._tInfected)} {ex.hid(p.remove)}")
                if isinstance(p, SIS_FixedRecovery):
                    setup.append(f"S_POSTC {i} {ci[p.INFECTED]} {fb(p._tInfected)} {ex.hid(p.recover)}")
                if isinstance(p, SIR_VariableInfection):
                    setup.append("S_INFV")
                    cfg.append(f"VARINF {ex.lidx[id(p.locus(p.SI))]} {ex.hid(p.infect)} {varat[id(p)]}")
                if isinstance(p, ScriptProc):
                    ids = [ex.hnames.index(p.hf[h].qn) for h in range(len(p.hf))]
                    for (t, e, h) in p.spec['posts']:
                        a, b = elem_pair(e); setup.append(f"S_POST {fb(t)} {a} {b} {ids[h]}")
                    for (t0, dt, e, h) in p.spec.get('repeats', []):
                        a, b = elem_pair(e); setup.append(f"S_POST {fb(t0)} {a} {b} {ex.hnames.index(p.hf[h].qn + '#repeat')}")
        for p in ex.leaves:
            if isinstance(p, AddDelete): setup.append(f"S_ALLNODES {ex.lidx[id(p.locus(AddDelete.NODES))]}")
        eq = []
        for p in ex.leaves:
            if type(p).__name__ == 'NetworkStatistics':
                eq.append(f"EQ {fb(0.0)} none")
            elif isinstance(p, Opinion):
                eq.append(f"EQ {fb(p.maximumTime())} {ex.lidx[id(p.locus(Opinion.GP))]},{ex.lidx[id(p.locus(Opinion.PPT))]}")
            else:
                eq.append(f"EQ {fb(p.maximumTime())} none")
        if any(type(p).__name__ == 'NetworkStatistics' for p in ex.leaves): cfg.append("STATS")
        for k in ex.hnames: cfg.append(ex.hlines[k])
        st['cfg'] = cfg + per + fix + eq + setup

    top.build = build
    orig_setUp = top.setUp; orig_results = top.results

    def setUp_(params):
        if st.get('inject') == 'setup0': raise Injected('before setUp')
        orig_setUp(params)
        if st.get('inject') == 'setup': raise Injected('after setUp')

    def results_():
        if st.get('inject') == 'results': raise Injected('results')
        return orig_results()
    if case.get('history'):
        top.setUp = setUp_; top.results = results_
    protos = []; handed = []
    for ep in case.get('history', ()):
        # an earlier run on the same experiment object: other parameters, perhaps cut short, perhaps failing; then forget what was recorded
        st['inject'] = ep.get('inject'); st['nev'] = 0
        top.setMaximumTime(ep.get('maxT', case['maxT']))
        pp = dict(case['params']); pp.update(ep.get('params', {}))
        gen0._edges = mkgen(case, [tuple(e) for e in ep['edges']])._edges if ep.get('edges') is not None else mkgen(case)._edges     # (same generator object throughout)
        try:
            rc0 = d.set(pp).run(fatal=True)
            handed.append((rc0, snapshot(rc0.get('results', {}))))
            info['hist_done'] = info.get('hist_done', 0) + 1
        except Injected:
            info['hist_injected'] = info.get('hist_injected', 0) + 1
        except (CaseTooBig,):
            info['hist_cut'] = info.get('hist_cut', 0) + 1
        except RecursionError:
            raise
        except Exception as ex_:
            info['hist_exc'] = f"{type(ex_).__name__}: {ex_}"
        exp.clear(); sr.lines.clear(); sr.recent.clear(); sr.values.clear(); sr.nspecial = 0
        keep = dict(hist_done=info.get('hist_done', 0), hist_injected=info.get('hist_injected', 0), hist_cut=info.get('hist_cut', 0), hist_exc=info.get('hist_exc'))
        info.clear(); info.update(events=0, posted=0, stale=0, handlers=set(), exc=None, oracle=[], **keep)
        st.clear(); cur.clear(); ref.clear(); qv.clear(); hp['live'].clear()
        for k in [k for k in d.__dict__ if k.startswith('_vp_')]: del d.__dict__[k]
    if case.get('history'):
        st['inject'] = None
        top.setMaximumTime(case['maxT'])
        if case.get('fixed_proto'):
            proto = mkgen(case)._generate({})
            protos.append(proto); d.setNetworkGenerator(FixedNetwork(proto))
        else:
            gen0._edges = mkgen(case)._edges
        st['fresh_check'] = True
    try:
        rc = d.set(case['params']).run(fatal=True)
        md = rc['metadata']; res = rc['results']
        left = 0
        mon = ""
        if Monitor.OBSERVATIONS in res:
            obs = res[Monitor.OBSERVATIONS]
            series = [res[Monitor.timeSeriesForLocus(n)] for n in d.loci().keys()]
            mon = " mon=" + ','.join(str(bits(t)) for t in obs) + "/" + ';'.join(','.join(str(sr_[k]) for sr_ in series) for k in range(len(obs)))
        from epydemic import NetworkStatistics as NS
        if NS.N in res:
            mon += (f" stats=N:{res[NS.N]},M:{res[NS.M]},kmean:{bits(res[NS.KMEAN])},kmax:{res[NS.KMAX]},ncomp:{res[NS.COMPONENTS]},"
                    f"lcc:{res[NS.LCC]},slcc:{res[NS.SLCC]}")
        if case['dyn'] == 'sto':
            exp.append(f"END t={bits(md[Dynamics.TIME])} events={md[Dynamics.EVENTS]} leftover={left}{mon}")
        else:
            exp.append(f"END t={bits(md[Dynamics.TIME])} events={md[Dynamics.EVENTS]} "
                       f"steps={md[SynchronousDynamics.TIMESTEPS_WITH_EVENTS]} leftover={left}{mon}")
        info['results'] = {k: v for k, v in res.items() if isinstance(v, (int, float, str))}
        info['metadata_events'] = md[Dynamics.EVENTS]; info['time'] = md[Dynamics.TIME]
        if case['dyn'] == 'sto' and md[Dynamics.TIME] < top.maximumTime() and not any(type(q).__name__ in ('Opinion', 'NetworkStatistics') for q in st['ex'].leaves):
            # the loop only gives up before the maximum time when nothing can happen any more
            tot = 0.0
            for q in top.allProcesses():
                for (l, pr, f, nm) in q.perElementEventDistribution(md[Dynamics.TIME]): tot += pr * sum(1 for _ in l)
                for (l, pr, f, nm) in q.fixedRateEventDistribution(md[Dynamics.TIME]): tot += pr
            if tot > 0.0:
                info['oracle'].append(('gillespie', f"the run stopped at {md[Dynamics.TIME]}, before its maximum time {top.maximumTime()}, with a total event rate of {tot}"))
        if case['dyn'] == 'sto':
            late = [(tt, j) for j, (tt, _) in ref.items() if tt < md[Dynamics.TIME]]
            if late: qviol(f"run ended at {md[Dynamics.TIME]} with event id {min(late)[1]} still pending for {min(late)[0]}")
        if case['dyn'] == 'syn': check_skipped()
        case['_sizes'] = st.get('sizes', []); case.setdefault('procs_json', [])
        for f in case.get('finals', ()):
            r = f(d, st['ex'], res, md, case)
            if r: info['oracle'].append((f.__name__.replace('final_', ''), r))
        if md[Dynamics.EVENTS] != info['events']:
            info['oracle'].append(('clock', f"metadata reports {md[Dynamics.EVENTS]} events, the tap saw {info['events']}"))
        if info.get('tmax') is not None and info['tmax'] > md[Dynamics.TIME]:
            info['oracle'].append(('clock', f"an event was delivered to the tap at {info['tmax']}, after the reported end time {md[Dynamics.TIME]}"))
        if st.get('fresh_check'):
            for (rc0, snap0) in handed:
                if snapshot(rc0.get('results', {})) != snap0:
                    info['oracle'].append(('fresh', "the results returned by an earlier run were changed by a later run on the same experiment")); break
            for proto in protos:
                want = mkgen(case)._generate({})
                if list(proto.nodes(data=True)) != list(want.nodes(data=True)) or [(a, b, dict(dd)) for a, b, dd in proto.edges(data=True)] != [(a, b, dict(dd)) for a, b, dd in want.edges(data=True)]:
                    info['oracle'].append(('fresh', "the prototype network of the fixed-network generator was modified by a run"))
                if d.network() is proto: info['oracle'].append(('fresh', "the run worked on the prototype itself, not on a copy"))
            r = fresh_twin(case, sr.values, st.get('snap'))
            if r: info['oracle'].append(('fresh', r))
    except RecursionError:
        raise
    except Exception as ex_:
        info['exc'] = f"{type(ex_).__name__}: {ex_}"
        exp.append(f"EXC {type(ex_).__name__}")
        if case.get('strlabels') == 'tuple':
            # outside the model (its nodes are numbers): judged by the oracle alone
            info['oracle'].append(('tuple-labels', f"network whose node labels are tuples: {type(ex_).__name__} {ex_} "
                                   f"(the code tells nodes from edges by isinstance(e, tuple))"))
            info['model_skip'] = True
        if isinstance(ex_, KeyError) and any(getattr(o, '__name__', '') == 'oracle_compose' for o in case.get('oracles', ())):
            info['oracle'].append(('compose', f"KeyError {ex_} although every parameter is supplied under the instance's decorated name or the shared name"))
    _nd.heappush = _hq.heappush; _nd.heappop = _hq.heappop
    g0 = Gen(case['nodes'], case['edges'])._generate({})
    if case.get('history') and case.get('fixed_proto'): g0 = g0.copy()      # what FixedNetwork hands out (networkx copy() re-inserts adjacency)
    inp = ["RESET", "NODES " + ' '.join(map(str, g0.nodes()))]
    for u in g0.nodes(): inp.append(f"ADJ {u} " + ' '.join(map(str, g0.adj[u])))
    inp += st.get('cfg', [])
    inp += sr.lines
    inp.append(f"RUN {case['dyn']}")
    info['handlers'] = sorted(info['handlers']); info['rng'] = len(sr.lines); info['nspecial'] = sr.nspecial
    if st.get('ex') is not None and st['ex'].unknown: info['unknown'] = sorted(set(st['ex'].unknown))
    if info.get('model_skip'): return [], [], info
    return inp, exp, info
