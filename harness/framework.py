#!/venv/bin/python
"""Generic three-stage check (see DESIGN.md 2.2).

  stage 1 PROOF   lake build of the property's theorem modules, forbidden-token scan, axiom audit
  stage 2 TIE     correspondence: real code (from VERIF_REPO or /repo) against the Lean model's driver
  stage 3 SEARCH  only when 1 or 2 failed (the direct oracles also run beside stage 2): look for a
                  concrete failing input on the real code

Per-property plug-ins live in harness/props/Cnn.py.
"""
import sys, os, subprocess, json, time, hashlib, re, shutil, argparse, importlib, fcntl, traceback
from concurrent.futures import ThreadPoolExecutor

ROOT = os.path.dirname(os.path.dirname(os.path.abspath(__file__)))
LEAN = os.path.join(ROOT, 'lean')
PY = '/venv/bin/python'
REPO = os.path.realpath(os.environ.get('VERIF_REPO', '/repo'))
ALLOWED = {'propext', 'Classical.choice', 'Quot.sound'}
FORBIDDEN = [r'\bsorry\b', r'\badmit\b', r'^\s*axiom ', r'native_decide', r'bv_decide', r'implemented_by',
             r'\bunsafe ', r'maxHeartbeats 0', r'@\[extern', r'\bopaque ']
NCPU = os.cpu_count() or 4

BASE_TRUSTED = [
    "Lean 4.33.0 kernel (leanchecker re-check in the thorough tier)",
    "axioms allowed per theorem: propext, Classical.choice, Quot.sound (audited by #print axioms on every run); no sorry/native_decide/bv_decide/own axioms",
    "Mathlib v4.33.0 as installed (only in Lemmas/Props files that import it)",
    "the hand-written Lean model is believed only as far as this run's correspondence exercised it",
    "harness: scripted RNG substituted for epydemic.rng / numpy.random.shuffle, protocol encoders, canonicalisation",
]


class Timeout(Exception):
    pass


def sh(cmd, timeout=None, **kw):
    try:
        return subprocess.run(cmd, capture_output=True, text=True, timeout=timeout, **kw)
    except subprocess.TimeoutExpired as ex:
        raise Timeout(f"{cmd!r} exceeded {timeout}s") from ex


def strip_comments(txt):
    # nested block comments are rare in our sources; handle one level + line comments
    txt = re.sub(r'/-.*?-/', '', txt, flags=re.S)
    txt = re.sub(r'--.*', '', txt)
    return txt


def module_file(mod):
    return os.path.join(LEAN, *mod.split('.')) + '.lean'


def theorems_of(mod):
    """fully qualified names of the theorems declared in a Props module (outside comments)"""
    src = strip_comments(open(module_file(mod)).read())
    names, stack = [], []
    for line in src.splitlines():
        m = re.match(r'\s*namespace\s+(\S+)', line)
        if m:
            stack.append(m.group(1)); continue
        m = re.match(r'\s*end\s+(\S+)', line)
        if m and stack and stack[-1] == m.group(1):
            stack.pop(); continue
        m = re.match(r'\s*(?:protected\s+|private\s+)?theorem\s+(\S+)', line)
        if m:
            names.append('.'.join(stack + [m.group(1)]))
    return names


def transitive_sources(mods):
    """project-local source files reachable by `import EpyVerif...` from the given modules"""
    seen, todo = {}, list(mods)
    while todo:
        m = todo.pop()
        if m in seen:
            continue
        f = module_file(m)
        if not os.path.exists(f):
            continue
        txt = open(f).read()
        seen[m] = f
        for im in re.findall(r'^import\s+(EpyVerif\.\S+)', txt, flags=re.M):
            todo.append(im)
    return seen


def lake_build(mods, timeout=3000):
    os.makedirs(os.path.join(LEAN, '.lake'), exist_ok=True)
    with open(os.path.join(LEAN, '.build.lock'), 'w') as lk:
        fcntl.flock(lk, fcntl.LOCK_EX)
        try:
            return sh(['lake', 'build'] + list(mods), cwd=LEAN, timeout=timeout)
        finally:
            fcntl.flock(lk, fcntl.LOCK_UN)


def stage_proof(mods, run, tier, extra_lean=None):
    """extra_lean: list of (filename, text) generated files that must also compile (table obligations);
    theorems in them are audited too."""
    t0 = time.time()
    b = lake_build(mods)
    if b.returncode != 0:
        return dict(ok=False, what='build', theorems=[], axioms={}, detail=(b.stdout + b.stderr)[-3000:])
    bad = []
    for m, f in transitive_sources(mods).items():
        txt = strip_comments(open(f).read())
        for pat in FORBIDDEN:
            if re.search(pat, txt, flags=re.M):
                bad.append((m, pat))
    if bad:
        return dict(ok=False, what='forbidden-token', theorems=[], axioms={}, detail=bad)
    names = []
    for m in mods:
        names += theorems_of(m)
    gen_imports = []
    gen_names = []
    for fn, text in (extra_lean or []):
        p = os.path.join(run, fn)
        open(p, 'w').write(text)
        txt = strip_comments(text)
        for pat in FORBIDDEN:
            if re.search(pat, txt, flags=re.M):
                return dict(ok=False, what='forbidden-token', theorems=names, axioms={}, detail=[(fn, pat)])
        g = sh(['lake', 'env', 'lean', '-o', p[:-5] + '.olean', p], cwd=LEAN, timeout=1200)
        if g.returncode != 0:
            return dict(ok=False, what=f'generated-obligation:{fn}', theorems=names, axioms={},
                        detail=(g.stdout + g.stderr)[-3000:])
    aud = os.path.join(run, 'Audit.lean')
    with open(aud, 'w') as f:
        for m in mods:
            f.write(f"import {m}\n")
        for n in names:
            f.write(f"#print axioms {n}\n")
    a = sh(['lake', 'env', 'lean', aud], cwd=LEAN, timeout=1200)
    ax = {}
    for m in re.finditer(r"'([^']+)' (?:depends on axioms: \[([^\]]*)\]|does not depend on any axioms)", a.stdout):
        ax[m.group(1)] = [x.strip() for x in (m.group(2) or '').replace('\n', ' ').split(',') if x.strip()]
    missing = [n for n in names if n not in ax]
    badax = {n: v for n, v in ax.items() if not set(v) <= ALLOWED}
    ok = a.returncode == 0 and not missing and not badax and len(names) > 0
    res = dict(ok=ok, what='axiom-audit', theorems=names, axioms=ax, secs=round(time.time() - t0, 2),
               detail=None if ok else dict(missing=missing, bad_axioms=badax, out=a.stdout[-1500:] + a.stderr[-800:]))
    if ok and tier == 'thorough':
        c = sh(['lake', 'env', 'leanchecker'] + list(mods), cwd=LEAN, timeout=3000)
        res['leanchecker'] = c.returncode
        if c.returncode != 0:
            res.update(ok=False, what='leanchecker', detail=(c.stdout + c.stderr)[-1500:])
    return res


def lean_driver(driver, infile, outfile, timeout=1200):
    """run a line-protocol driver of the model: lake env lean --run Driver/X.lean < infile > outfile"""
    with open(infile) as fi, open(outfile, 'w') as fo:
        try:
            p = subprocess.run(['lake', 'env', 'lean', '--run', os.path.join(LEAN, 'Driver', driver)],
                               cwd=LEAN, stdin=fi, stdout=fo, stderr=subprocess.PIPE, text=True, timeout=timeout)
        except subprocess.TimeoutExpired as ex:
            raise Timeout(f"driver {driver} exceeded {timeout}s") from ex
    return p


def parallel(fn, items, workers=None):
    with ThreadPoolExecutor(max_workers=workers or NCPU) as ex:
        return list(ex.map(fn, items))


def first_diff(exp, got):
    for i, (a, b) in enumerate(zip(exp, got)):
        if a != b:
            return i
    if len(exp) != len(got):
        return min(len(exp), len(got))
    return None


class Ctx:
    def __init__(self, prop, tier, seed, run):
        self.prop, self.tier, self.seed, self.run = prop, tier, seed, run
        self.root, self.lean, self.py, self.repo = ROOT, LEAN, PY, REPO
        self.t0 = time.time()
        self.env = dict(os.environ, VERIF_REPO=REPO, PYTHONPATH=os.path.join(ROOT, 'harness'), PYTHONHASHSEED='0')

    def quick(self):
        return self.tier == 'quick'

    def harness(self, script, args, timeout=1800):
        """run a harness script under the repo's python; returns CompletedProcess"""
        return sh([PY, os.path.join(ROOT, 'harness', script)] + [str(a) for a in args], timeout=timeout, env=self.env)

    def sub(self, name):
        d = os.path.join(self.run, name)
        os.makedirs(d, exist_ok=True)
        return d

    def corpus(self):
        d = os.path.join(ROOT, 'corpus', self.prop)
        return [os.path.join(d, f) for f in sorted(os.listdir(d))] if os.path.isdir(d) else []


def load_known(prop):
    p = os.path.join(ROOT, 'known_findings.json')
    if not os.path.exists(p):
        return []
    return [e for e in json.load(open(p)).get('findings', []) if e.get('property') == prop]


def main():
    ap = argparse.ArgumentParser()
    ap.add_argument('prop')
    ap.add_argument('--tier', default=os.environ.get('VERIF_TIER', 'quick'), choices=['quick', 'thorough'])
    ap.add_argument('--replay')
    a = ap.parse_args()
    seed = int(os.environ.get('VERIF_SEED', '0') or 0)
    t0 = time.time()
    sys.path.insert(0, os.path.join(ROOT, 'harness'))
    mod = importlib.import_module(f'props.{a.prop}')
    run = os.path.join(LEAN, '.run', f'{a.prop}-{os.getpid()}')
    os.makedirs(run, exist_ok=True)
    ctx = Ctx(a.prop, a.tier, seed, run)
    try:
        if a.replay:
            rep = json.load(open(a.replay))
            o = mod.replay(ctx, rep)
            print(json.dumps(o, default=str))
            if o.get('found'):
                print(f"VIOLATION property={a.prop} replay={a.replay}")
                sys.exit(1)
            sys.exit(0)

        extra = mod.generated_lean(ctx) if hasattr(mod, 'generated_lean') else None
        if isinstance(extra, dict) and extra.get('error'):
            p = dict(ok=False, what='translator', theorems=[], axioms={}, detail=extra['error'])
        else:
            drv = lake_build(getattr(mod, 'DRIVER_MODULES', []) or ['EpyVerif.Model.Sim', 'EpyVerif.Model.GFFast', 'EpyVerif.Model.Bbt'])
            if drv.returncode != 0:
                raise RuntimeError('model modules used by the drivers do not build: ' + (drv.stdout + drv.stderr)[-1500:])
            p = stage_proof(mod.LEAN_MODULES, run, a.tier, extra)
        t = mod.tie(ctx)
        known = [e for e in load_known(a.prop) if e.get('status') == 'known']
        known_sigs = {e['signature'] for e in known}
        # direct-oracle hits seen beside stage 2
        hits = [h for h in t.get('violations', []) if h.get('signature') not in known_sigs]
        viol = None
        search = None
        if not (p['ok'] and t['ok']) or hits:
            if hits:
                search = dict(found=True, **hits[0])
            else:
                search = mod.search(ctx, t.get('fail'))
                if search.get('found') and search.get('signature') in known_sigs:
                    search = dict(found=False, note='only the known finding was met: ' + str(search.get('signature')))
            broken = []
            if not p['ok']:
                broken.append(f"proof:{p['what']}")
            if not t['ok']:
                broken.append(f"correspondence:{t.get('fail', {}).get('what')}")
            if hits:
                broken.append('direct-oracle')
            rep = dict(property=a.prop, tier=a.tier, seed=seed, broken=broken, found=bool(search.get('found')),
                       replay=search.get('replay'), reason=search.get('reason'), signature=search.get('signature'),
                       no_longer_checks=dict(proof=None if p['ok'] else dict(what=p['what'], detail=p.get('detail')),
                                             correspondence=None if t['ok'] else t.get('fail')),
                       search=dict((k, v) for k, v in search.items() if k not in ('replay',)))
            os.makedirs(os.path.join(ROOT, 'replays'), exist_ok=True)
            h = hashlib.sha1(json.dumps(rep, sort_keys=True, default=str).encode()).hexdigest()[:10]
            path = os.path.join(ROOT, 'replays', f"{a.prop}-{h}.json")
            json.dump(rep, open(path, 'w'), indent=1, default=str)
            viol = (path, bool(search.get('found')))
        # known findings: confirm each still reproduces, print the line
        known_lines = []
        for e in known:
            r = mod.confirm_known(ctx, e) if hasattr(mod, 'confirm_known') else dict(reproduced=None)
            if r.get('reproduced') is False:
                known_lines.append(f"NOTE: known finding no longer reproduces: property={a.prop} {e['signature']}")
            else:
                known_lines.append(f"KNOWN-FINDING: property={a.prop} {e['what']}")
        st = t.get('stats', {})
        nob = len(p.get('theorems', [])) + len(st.get('generated_obligations', []))
        disc = (len([n for n in p.get('theorems', []) if set(p.get('axioms', {}).get(n, ['?'])) <= ALLOWED])
                + len(st.get('generated_obligations', []))) if p['ok'] else 0
        ev = dict(property_id=a.prop, tier=a.tier, seed=seed, level='proof', wall_s=round(time.time() - t0, 2),
                  violations=1 if viol else 0,
                  assumptions=getattr(mod, 'ASSUMPTIONS', []),
                  coverage=dict(
                      obligations=max(nob, 1), discharged=disc,
                      checker_cmd=f"cd lean && lake build {' '.join(mod.LEAN_MODULES)} && lake env lean <generated Audit.lean: #print axioms of every theorem>"
                                  + (" && lake env leanchecker " + ' '.join(mod.LEAN_MODULES) if a.tier == 'thorough' else ''),
                      trusted_base=BASE_TRUSTED + getattr(mod, 'TRUSTED', []),
                      theorems=p.get('axioms', {}),
                      proof_stage=dict(ok=p['ok'], what=p.get('what'), secs=p.get('secs'), leanchecker=p.get('leanchecker')),
                      partial=getattr(mod, 'PARTIAL', []),
                      evaluations=int(st.get('evaluations', 0)),
                      distinct_nontrivial=int(st.get('distinct_nontrivial', 0)),
                      rule=getattr(mod, 'RULE', ''),
                      samples=st.get('samples', []),
                      input_distribution=st.get('distribution', {}),
                      correspondence_ok=bool(t['ok']),
                      known_findings=known_lines,
                      exhaustive=bool(st.get('exhaustive', False))))
        evdir = os.environ.get('VERIF_EVIDENCE_DIR') or os.path.join(ROOT, 'evidence')     # (seeded-change trials write elsewhere)
        os.makedirs(evdir, exist_ok=True)
        tmp = os.path.join(evdir, f'.{a.prop}.{os.getpid()}.tmp')
        json.dump(ev, open(tmp, 'w'), indent=1, default=str)
        os.replace(tmp, os.path.join(evdir, f'{a.prop}.json'))
        for l in known_lines:
            print(l)
        if viol:
            print(f"VIOLATION property={a.prop} replay={viol[0]}" + ("" if viol[1] else " no-failing-input-found"))
            sys.exit(1)
        print(f"OK {a.prop} tier={a.tier} seed={seed} theorems={len(p['theorems'])} evaluations={st.get('evaluations')} "
              f"nontrivial={st.get('distinct_nontrivial')} wall={time.time() - t0:.1f}s")
        sys.exit(0)
    finally:
        shutil.rmtree(run, ignore_errors=True)


if __name__ == '__main__':
    try:
        main()
    except SystemExit:
        raise
    except Timeout as ex:
        print(f"TIMEOUT {ex}", file=sys.stderr)
        sys.exit(2)
    except Exception:
        traceback.print_exc()
        sys.exit(2)
