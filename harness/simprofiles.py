"""Case generators (JSON-serialisable specs) and direct property oracles for the simulation family."""
import random, math, json
from simlib import *
from epydemic import SIvR, Vaccinate, AddDelete, PulseCoupledOscillator, NetworkStatistics

D = [0.0, 0.125, 0.25, 0.5, 0.75, 1.0]          # dyadic probabilities: exact in Float and in Q


def shipped_params(cls, rnd, extreme=False):
    p = lambda: rnd.choice(D[1:-1] if not extreme else D)
    if cls == 'SIR': return {SIR.P_INFECTED: rnd.choice([0.125, 0.25, 0.5]), SIR.P_INFECT: p(), SIR.P_REMOVE: p()}
    if cls == 'SIS': return {SIS.P_INFECTED: rnd.choice([0.125, 0.25, 0.5]), SIS.P_INFECT: p(), SIS.P_RECOVER: p()}
    if cls == 'SIRS': return {SIR.P_INFECTED: 0.25, SIR.P_INFECT: p(), SIR.P_REMOVE: p(), SIRS.P_RESUSCEPT: p()}
    if cls == 'SEIR': return {SEIR.P_EXPOSED: 0.25, SEIR.P_INFECT_ASYMPTOMATIC: p(), SEIR.P_INFECT_SYMPTOMATIC: p(),
                              SEIR.P_SYMPTOMS: p(), SEIR.P_REMOVE: p()}
    if cls == 'SIR_FixedRecovery': return {SIR.P_INFECTED: 0.25, SIR.P_INFECT: p(), SIR_FixedRecovery.T_INFECTED: rnd.choice([0.5, 1.0, 1.75, 2.5, 1.0 + 1e-10, 2.0 - 1e-10])}
    if cls == 'SIS_FixedRecovery': return {SIS.P_INFECTED: 0.25, SIS.P_INFECT: p(), SIS_FixedRecovery.T_INFECTED: rnd.choice([0.5, 1.0, 1.75, 2.5, 1.0 + 1e-10, 2.0 - 1e-10])}
    if cls == 'Opinion': return {Opinion.P_AFFECTED: 0.25, Opinion.P_AFFECT: p(), Opinion.P_STIFLE: p()}
    if cls == 'SIR_VariableInfection': return {SIR.P_INFECTED: 0.25, SIR.P_REMOVE: p()}
    if cls == 'VarInfFixed': return {SIR.P_INFECTED: rnd.choice([0.25, 0.5]), SIR.P_REMOVE: 0.0, VarInfFixed.T: rnd.choice([0.25, 0.5, 1.0, 1.75])}
    if cls == 'SIvR': return {SIR.P_INFECTED: 0.25, SIR.P_INFECT: p(), SIR.P_REMOVE: p(), SIvR.EFFICACY: rnd.choice([0.0, 0.25, 0.5, 0.75, 1.0]),
                              SIvR.T_OFFSET: rnd.choice([0.0, 0.0, 0.5, 1.0])}
    if cls == 'Vaccinate': return {Opinion.P_AFFECTED: 0.25, Opinion.P_AFFECT: p(), Opinion.P_STIFLE: p(), Vaccinate.P_VACCINATE: rnd.choice([0.25, 0.5, 1.0])}
    raise ValueError(cls)


CLASSES = dict(SIR=SIR, SIS=SIS, SIRS=SIRS, SEIR=SEIR, SIR_FixedRecovery=SIR_FixedRecovery, SIS_FixedRecovery=SIS_FixedRecovery,
               Opinion=Opinion, SIR_VariableInfection=SIR_VariableInfection)
SHIPPED = list(CLASSES)
CLASSES.update(SIvR=SIvR, Vaccinate=Vaccinate)


def rand_net(rnd, nmin=2, nmax=8, dens=None, kind=None):
    n = rnd.randint(nmin, nmax); nodes = list(range(n)); rnd.shuffle(nodes)
    kind = kind or rnd.choice(['er', 'er', 'er', 'star', 'complete', 'path'])
    if kind == 'er':
        q = dens if dens is not None else rnd.choice([0.25, 0.45, 0.7])
        edges = [(a, b) for a in range(n) for b in range(a + 1, n) if rnd.random() < q]
    elif kind == 'star': edges = [(0, b) for b in range(1, n)]
    elif kind == 'complete': edges = [(a, b) for a in range(n) for b in range(a + 1, n)]
    else: edges = [(a, a + 1) for a in range(n - 1)]
    rnd.shuffle(edges)
    edges = [[a, b] if rnd.random() < 0.5 else [b, a] for a, b in edges]
    if rnd.random() < 0.12:     # a self-loop or two, somewhere in the middle of the adjacency lists
        for _ in range(rnd.choice([1, 1, 2])):
            v = rnd.randrange(n)
            if [v, v] not in edges: edges.insert(rnd.randrange(len(edges) + 1), [v, v])
    return nodes, edges


class VarInfFixed(SIR_VariableInfection):
    '''a user process: per-edge infectivities (one SingletonLocus per S-I edge) with a fixed infectious period realised by posted
    events — stochastic events interleaved with posted events that empty the loci they were drawn from'''
    T = 'vp.tInfected'
    VP_POSTC = True

    def build(self, params):
        super().build(params)
        self._tInfected = params[self.T]

    def setUp(self, params):
        super().setUp(params)
        for n in self.compartment(self.INFECTED):
            self.postEvent(self._tInfected, n, self.remove, name=self.REMOVED)

    def infect(self, t, e):
        super().infect(t, e)
        (n, _) = e
        self.postEvent(t + self._tInfected, n, self.remove, name=self.REMOVED)


class Isolate(Process):
    '''a user process with a per-element event on a locus it does not own: infected nodes of the sibling 'disease' component are isolated
    (moved to removed) at their own rate'''
    P = 'vp.pIsolate'

    def build(self, params):
        super().build(params)
        self._vp_target = self.container()['disease']
        self.addEventPerElement(self._vp_target.locus(SIR.INFECTED), params[self.P], self.isolate, name='vp.isolate')

    def isolate(self, t, n):
        self._vp_target.changeCompartment(n, SIR.REMOVED)


class DynamicSIR(SIR, AddDelete):
    '''the multiple-inheritance combination (test/test_adddeletesir.py)'''
    def addNewNode(self, **kwds):
        n = super().addNewNode(**kwds)
        self.setCompartment(n, SIR.SUSCEPTIBLE)
        return n

    def removeNode(self, n):
        self.changeCompartment(n, SIR.REMOVED)
        super().removeNode(n)


class CompartmentedAddDelete(AddDelete):
    '''the named-sequence recipe of doc/cookbook/dynamic-population.rst and test/test_adddeletesir.py, verbatim'''
    DISEASE = 'diseaseModel'
    VP_MODE = 'seq'

    def addNewNode(self, **kwds):
        n = super().addNewNode(**kwds)
        self.container()[self.DISEASE].setCompartment(n, SIR.SUSCEPTIBLE)
        return n

    def removeNode(self, n):
        self.container()[self.DISEASE].changeCompartment(n, SIR.REMOVED)
        super().removeNode(n)


class FullAddDelete(CompartmentedAddDelete):
    '''the recipe completed: edges and node removal also go through the disease model'''
    VP_MODE = 'full'

    def addEdge(self, n, m, **kwds):
        js = getattr(self, '_vp_js', None)
        if js is not None: js.append(m)
        self.container()[self.DISEASE].addEdge(n, m, **kwds)

    def removeNode(self, n):
        d = self.container()[self.DISEASE]
        d.changeCompartment(n, SIR.REMOVED)
        self.locus(self.NODES).removeHandler(self.network(), n)
        d.removeNode(n)


CLASSES['VarInfFixed'] = VarInfFixed
ADCLASSES = dict(AddDelete=AddDelete, DynamicSIR=DynamicSIR, CompartmentedAddDelete=CompartmentedAddDelete, FullAddDelete=FullAddDelete)


class Census(Process):
    '''a user process that counts the nodes every `interval`: a second periodic observer next to the Monitor, its event function also
    called observe'''
    VP_BUILDPOST = True
    INTERVAL = 'vp.census.interval'

    def build(self, params):
        super().build(params)
        self.counts = []
        self.postRepeatingEvent(0, params[self.INTERVAL], None, self.observe)

    def observe(self, t, e):
        self.counts.append((t, self.network().order()))


def mkproc(p):
    if p['cls'] == 'Census': return Census()
    if p['cls'] in ADCLASSES: return ADCLASSES[p['cls']]()
    if p['cls'] == 'Isolate': return Isolate()
    if p['cls'] == 'Monitor': return Monitor()
    if p['cls'] == 'NetworkStatistics': return NetworkStatistics()
    if p['cls'] == 'Script':
        return ScriptProc(p['spec'], p.get('name'))
    if p['cls'] == 'SEIR':
        return SEIR()
    cls = CLASSES[p['cls']]
    if p.get('force'):
        # seeding through the documented hook: default random placement, then chosen nodes forced with changeInitialCompartment()
        force = [(n, ck) for (n, ck) in p['force']]

        class Forced(cls):
            def initialCompartments(self):
                super().initialCompartments()
                for (n, ck) in force: self.changeInitialCompartment(n, getattr(self, ck))
        Forced.__name__ = cls.__name__; Forced.__qualname__ = cls.__qualname__
        q = Forced(p['name']) if p.get('name') else Forced()
        q._vp_force = force
        return q
    if p.get('setc'):
        # a model that seeds with setCompartment(): at set-up no node has a compartment yet, which is exactly what setCompartment() is for
        class Seeded(cls):
            def changeInitialCompartment(self, n, c):
                self.setCompartment(n, c)
        Seeded.__name__ = cls.__name__; Seeded.__qualname__ = cls.__qualname__
        return Seeded(p['name']) if p.get('name') else Seeded()
    return cls(p['name']) if p.get('name') else cls()


def fixspec(sp):
    """JSON turns tuples into lists; the scripted process wants tuples for edge elements"""
    sp = dict(sp)
    sp['posts'] = [(t, tuple(e) if isinstance(e, list) else e, h) for (t, e, h) in sp.get('posts', [])]
    sp['repeats'] = [(t0, dt, tuple(e) if isinstance(e, list) else e, h) for (t0, dt, e, h) in sp.get('repeats', [])]
    sp['handlers'] = [(k, [tuple(a) for a in acts]) for (k, acts) in sp['handlers']]
    sp['edgeloci'] = [tuple(x) for x in sp['edgeloci']]; sp['multiloci'] = [(l, list(rs)) for (l, rs) in sp['multiloci']]
    sp['perel'] = [tuple(x) for x in sp['perel']]; sp['fixed'] = [tuple(x) for x in sp['fixed']]
    return sp


def build_case(spec):
    procs = spec['procs']
    for p in procs:
        if p['cls'] == 'Script': p['spec'] = fixspec(p['spec'])

    def build():
        ps = [mkproc(p) for p in procs]
        if spec.get('seq', 'bare') == 'bare' and len(ps) == 1: return ps[0]
        if spec['seq'] == 'dict': return ProcessSequence({(p.get('key') or p.get('name') or f'p{i}'): q for i, (p, q) in enumerate(zip(procs, ps))})
        if spec['seq'] == 'nested' and len(ps) >= 2: return ProcessSequence([ProcessSequence(ps[:1]), ProcessSequence(ps[1:])])
        return ProcessSequence(ps)
    params = {}
    for p in procs: params.update(p.get('params', {}))
    pt = spec.get('ptypes')
    if pt:      # the same values as Python ints (where integral) or numpy scalars: what a parameter sweep or a JSON file hands over
        import numpy
        params = {k: ((int(v) if pt == 'int' and float(v).is_integer() else numpy.float64(v) if pt == 'np' else v) if isinstance(v, float) else v)
                  for k, v in params.items()}
    return dict(maxevents=spec.get('maxevents', 400), prior_other=spec.get('prior_other'), sticky=spec.get('sticky', 0.0), strlabels=spec.get('strlabels', False), history=spec.get('history', []), fixed_proto=spec.get('fixed_proto', False), preattr=spec.get('preattr'), procs_json=procs, build=build, dyn=spec['dyn'], nodes=spec['nodes'], edges=[tuple(e) for e in spec['edges']], maxT=spec['maxT'],
                seed=spec['seed'], params=params, specials=spec.get('specials', ()), pspecial=spec.get('pspecial', 0.0),
                oracles=[ORACLES[o] for o in spec.get('oracles', [])], finals=[FINALS[o] for o in spec.get('oracles', []) if o in FINALS])


# ---------------------------------------------------------------------------------------------------------------
# direct oracles, called from the event tap of the real run:  f(dyn, extract, cur, t, p, name, e) -> reason | None
def oracle_clock(d, ex, cur, t, p, name, e):
    """C03: handler time = clock inside the handler = tap time = the event's own time"""
    st = d.__dict__.setdefault('_vp_clock', dict(last=None))
    own = cur['own']
    r = None
    if not (cur['h'] == own and cur['clock'] == own and t == own):
        r = (f"clocks disagree for {'posted' if cur['posted'] else 'stochastic'} event: own={own} handler={cur['h']} "
             f"clock-in-handler={cur['clock']} tap={t}")
    elif st['last'] is not None and own < st['last']:
        r = f"time ran backwards: event at {own} after event at {st['last']}"
    st['last'] = own if st['last'] is None else max(st['last'], own)
    return ('clock', r) if r else None


def oracle_member(d, ex, cur, t, p, name, e):
    """C05: a stochastic event function is only called on a current member of its locus"""
    if not cur['posted'] and not cur['member']:
        return ('member', f"event {name} fired on {e}, which was not in its locus at the call")
    return None


def spec_of_locus(l, g, p):
    if isinstance(l, MultiCompartmentedEdgeLocus):
        L, R = l._left, set(l._rights)
    elif isinstance(l, CompartmentedEdgeLocus):
        L, R = l._left, {l._right}
    elif isinstance(l, CompartmentedNodeLocus):
        return {n for n in g.nodes() if g.nodes[n].get(p.COMPARTMENT) == l._compartment}, None
    else:
        return None, None
    c = lambda n: g.nodes[n].get(p.COMPARTMENT)
    want = set()
    for (a, b) in g.edges():
        if c(a) == L and c(b) in R: want.add((a, b))
        if c(b) == L and c(a) in R: want.add((b, a))
    return want, (L in R)


def check_loci(d, ex):
    """C01: every tracking locus = the set it is declared to track (for L in R: the lenient form)"""
    g = d.network()
    for l in d.loci().values():
        p = l.process()
        if not isinstance(p, CompartmentedModel): continue
        want, both = spec_of_locus(l, g, p)
        if want is None: continue
        have = set(l)
        if not both:
            if have != want:
                return f"locus {l.name()}: holds {sorted(have)} but the network has {sorted(want)}"
        else:
            # an edge qualifying in both directions is present at least once, every stored pair qualifies
            if not have <= want:
                return f"locus {l.name()} (L in R): stale {sorted(have - want)}"
            for (a, b) in want:
                if (a, b) not in have and (b, a) not in have:
                    return f"locus {l.name()} (L in R): missing {(a, b)}"
        if len(l) != len(have): return f"locus {l.name()}: len {len(l)} != {len(have)}"
    return None


def oracle_loci(d, ex, cur, t, p, name, e):
    r = check_loci(d, ex)
    return ('loci', r) if r else None


ORACLES = dict(clock=oracle_clock, member=oracle_member, loci=oracle_loci, monitor=lambda *a: None)


# ---------------------------------------------------------------------------------------------------------------
def gen_shipped(rnd, classes=None, dyn=None, oracles=('clock', 'member', 'loci'), extreme=False, net=None, maxT=None):
    cls = rnd.choice(classes or SHIPPED)
    nodes, edges = net or rand_net(rnd)
    params = shipped_params(cls, rnd, extreme)
    dyn = dyn or rnd.choice(['sto', 'syn'])
    if dyn == 'sto' and rnd.random() < 0.15:
        # rates above 1 (transmission three or four times as fast as recovery, written as such)
        ks = [k for k in params if k.split('.')[-1] in ('pInfect', 'pRemove', 'pRecover', 'pAffect', 'pStifle', 'pInfectSymptomatic', 'pSymptoms')]
        if ks:
            k = rnd.choice(ks); params[k] = params[k] * rnd.choice([4.0, 8.0])
    ps = sorted({v for k, v in params.items() if isinstance(v, float) and 0 < v < 1})
    return dict(procs=[dict(cls=cls, name=None, params=params, setc=(rnd.random() < 0.15 and cls != 'SEIR'))], seq='bare', dyn=dyn, nodes=nodes,
                edges=edges, maxT=maxT or rnd.choice([3.0, 6.0, 12.0]), seed=rnd.random(), specials=ps, pspecial=0.15,
                oracles=list(oracles), preattr=(rnd.randrange(1 << 30) if rnd.random() < 0.25 else None), strlabels=rnd.choice([False, False, False, False, False, False, False, True, True, 'big', 'digits']),
                ptypes=rnd.choice([None, None, None, 'int', 'np']))


def gen_tuplelabels(rnd):
    """networks whose node labels are tuples (networkx lattices): known finding K3"""
    base = gen_shipped(rnd, net=rand_net(rnd, 2, 5)); base.update(strlabels='tuple', preattr=None)
    return base


def gen_varfix(rnd, dyn=None):
    return gen_shipped(rnd, classes=['VarInfFixed'], dyn=dyn, oracles=('clock', 'member', 'loci', 'diagram', 'forest'),
                       net=rand_net(rnd, 3, 7, kind=rnd.choice(['er', 'complete', 'star'])), maxT=rnd.choice([2.0, 4.0]))


def gen_isolate(rnd, dyn=None):
    nodes, edges = rand_net(rnd, 3, 7, kind=rnd.choice(['er', 'complete', 'star', 'path']))
    sir = {SIR.P_INFECTED: rnd.choice([0.25, 0.5]), SIR.P_INFECT: rnd.choice(D[1:-1]), SIR.P_REMOVE: rnd.choice([0.0, 0.125, 0.25])}
    procs = [dict(cls='SIR', name=None, key='disease', params=sir), dict(cls='Isolate', name=None, key='iso', params={Isolate.P: rnd.choice([0.25, 0.5, 1.0])})]
    ps = sorted({v for v in list(sir.values()) + [procs[1]['params'][Isolate.P]] if 0 < v < 1})
    return dict(procs=procs, seq='dict', dyn=dyn or rnd.choice(['sto', 'syn']), nodes=nodes, edges=edges, maxT=rnd.choice([3.0, 6.0]), seed=rnd.random(),
                specials=ps, pspecial=0.15, oracles=['clock', 'member', 'loci', 'diagram'])


def gen_fixrec0(rnd, dyn=None):
    """fixed-recovery models at the edge of their parameter range: infectious period 0 (recovery due at the very time of infection, at
    time 0 for the seeds), no transmission, everybody or nobody seeded"""
    cls = rnd.choice(['SIR_FixedRecovery', 'SIS_FixedRecovery'])
    base = gen_shipped(rnd, classes=[cls], dyn=dyn, oracles=('clock', 'member', 'loci', 'diagram'), net=rand_net(rnd, 2, 6))
    p = base['procs'][0]
    for k in list(p['params']):
        if k.endswith('tInfected'): p['params'][k] = rnd.choice([0.0, 0.0, 0.5, 1.0])
        elif k.endswith('pInfect'): p['params'][k] = rnd.choice([0.0, 0.0, 0.5, 1.0])
        elif k.endswith('pInfected'): p['params'][k] = rnd.choice([0.0, 0.5, 1.0])
    base['maxT'] = rnd.choice([2.0, 3.0])
    if rnd.random() < 0.3:
        base['procs'].append(dict(cls='Monitor', name=None, params={Monitor.DELTA: 1.0})); base['seq'] = 'list'
    return base


def gen_compfix(rnd, dyn=None):
    """two named fixed-recovery epidemics over one network (they share the undecorated infection_time attribute)"""
    nodes, edges = rand_net(rnd, 3, 7, kind=rnd.choice(['er', 'complete', 'star']))
    procs = []
    for nm in 'ab':
        cls = rnd.choice(['SIS_FixedRecovery', 'SIR_FixedRecovery', 'SIS_FixedRecovery'])
        pr = shipped_params(cls, rnd)
        procs.append(dict(cls=cls, name=nm, params={f"{k}@{nm}": v for k, v in pr.items()}))
    return dict(procs=procs, seq='list', dyn=dyn or rnd.choice(['sto', 'syn']), nodes=nodes, edges=edges, maxT=rnd.choice([3.0, 6.0]), seed=rnd.random(),
                specials=[0.25, 0.5], pspecial=0.1, oracles=['clock', 'member', 'loci', 'diagram'])


def gen_forced(rnd, dyn=None):
    base = gen_shipped(rnd, classes=['SIR', 'SIS', 'SIRS', 'SIR_FixedRecovery', 'SIS_FixedRecovery', 'Opinion'], dyn=dyn,
                       oracles=('clock', 'member', 'loci', 'diagram', 'forest'), net=rand_net(rnd, 3, 7, kind=rnd.choice(['er', 'complete', 'path', 'star'])))
    p = base['procs'][0]
    inf, sus = ('SPREADER', 'IGNORANT') if p['cls'] == 'Opinion' else ('INFECTED', 'SUSCEPTIBLE')
    nodes = base['nodes']
    # (Opinion: only towards SPREADER — moving a spreader back exercises the L-in-R locus of known finding K1, which is C01's business)
    p['force'] = [[rnd.choice(nodes), rnd.choice([inf, inf, sus]) if p['cls'] != 'Opinion' else inf] for _ in range(rnd.randint(1, 4))]
    base['preattr'] = None; base['strlabels'] = False      # (the forced seeds name nodes by number)
    return base


def gen_vacc(rnd, dyn=None):
    """SIvR with the Vaccinate opinion process driving vaccination (the intended composition), optionally SIvR alone"""
    nodes, edges = rand_net(rnd, 3, 7, kind=rnd.choice(['er', 'complete', 'star', 'path']))
    # (two compartmented models in one simulation have to be named instances: unnamed ones share the 'compartment' attribute)
    procs = [dict(cls='SIvR', name='d', params=shipped_params('SIvR', rnd))]
    if rnd.random() < 0.85: procs.append(dict(cls='Vaccinate', name='o', params=shipped_params('Vaccinate', rnd)))
    if rnd.random() < 0.5: procs.reverse()
    ps = sorted({v for p in procs for v in p['params'].values() if isinstance(v, float) and 0 < v < 1})
    return dict(procs=procs, seq='list', dyn=dyn or rnd.choice(['sto', 'syn']), nodes=nodes, edges=edges, maxT=rnd.choice([3.0, 6.0]), seed=rnd.random(),
                specials=ps, pspecial=0.2, oracles=['clock', 'member', 'loci', 'diagram', 'forest', 'vacc'])


def oracle_vacc(d, ex, cur, t, p, name, e):
    """SIvR's marker loci: infected-unvaccinated and infected-vaccinated are disjoint and hold infected nodes only"""
    g = d.network()
    for q in ex.cms:
        if type(q).__name__ != 'SIvR': continue
        a = set(q.locus(q.INFECTED_N)); b = set(q.locus(q.INFECTED_V))
        inf = {n for n in g.nodes() if g.nodes[n].get(q.COMPARTMENT) == q.INFECTED}
        if a & b: return ('vacc', f"nodes {sorted(a & b)} are in both marker loci")
        if q is p and isinstance(e, tuple) and name == q.INFECTED:
            n = e[0]; eff = q._efficacy
            effective = bool(g.nodes[n].get('vaccincated')) and g.nodes[n].get('vaccination_time', 0.0) + q._offset < t
            infected = g.nodes[n].get(q.COMPARTMENT) == q.INFECTED
            if effective and eff == 1.0 and infected: return ('vacc', f"node {n}, vaccinated with efficacy 1 in effect since {g.nodes[n].get('vaccination_time')}, was infected at {t}")
            if eff == 0.0 and not infected: return ('vacc', f"infection of {n} at {t} failed although the vaccine has efficacy 0")
            if not effective and not infected: return ('vacc', f"infection of the unvaccinated (or not yet protected) node {n} at {t} failed")
        if not (a | b) <= inf: return ('vacc', f"marker loci hold {sorted((a | b) - inf)}, which are not infected")
    return None


ORACLES['vacc'] = oracle_vacc


def gen_script_queue(rnd, dyn=None):
    """a scripted process mixing per-element, fixed-rate, posted and self-re-posting events whose handlers call the queue API"""
    ncomp = 2
    nh = rnd.randint(3, 6)
    times = [0.0, 0.5, 1.0, 1.0, 1.5, 2.0, 2.0, 2.5, 3.0, 4.0]
    if rnd.random() < 0.3:      # times a hair after / before a whole timestep: where 'due by t' is decided exactly, not within a tolerance
        import math
        times = times + [1.0 + 1e-10, 2.0 + 1e-10, math.nextafter(1.0, 2.0), math.nextafter(2.0, 0.0), 3.0 - 1e-10, 1e-12]
    handlers = []
    for h in range(nh):
        acts = []
        for _ in range(rnd.randint(0, 3)):
            k = rnd.random()
            if k < 0.3: acts.append(['POSTE', rnd.choice([0.0, 0.0, 0.25, 0.5, 1.0, 2.0]), rnd.randrange(nh)])
            elif k < 0.45: acts.append(['POSTABS', rnd.choice(times), rnd.randrange(nh)])
            elif k < 0.65: acts.append(['UNPOST', rnd.randrange(12), rnd.random() < 0.6])
            elif k < 0.8: acts.append(['PENDING', rnd.randrange(12)])
            elif k < 0.9: acts.append(['CLOCK'])
            else: acts.append(['CCL', rnd.randrange(ncomp)])
        handlers.append(['N', acts])
    # keep the process finite: a post for the current time only goes to a handler with a higher index
    for h, (k, acts) in enumerate(handlers):
        acts = [(['POSTE', 0.5, a[2]] if (a[0] == 'POSTE' and a[1] == 0.0 and a[2] <= h) else a) for a in acts]
        acts = [a for a in acts if not (a[0] == 'POSTABS' and a[2] <= h)]      # an absolute-time post may not re-arm its own chain
        handlers[h] = [k, acts]
    nodes, edges = rand_net(rnd, 2, 5)
    posts = [[rnd.choice(times), rnd.choice(nodes), rnd.randrange(nh)] for _ in range(rnd.randint(2, 7))]
    if rnd.random() < 0.3:
        # a fuller queue: 8-16 events posted in no particular order of time, and a first handler (due at 0) that un-posts several of them
        # from the middle of the heap and posts a few more
        grid = [0.25 * k for k in range(1, 25)]
        big = rnd.random() < 0.3          # now and then a really long queue most of which is un-posted again (with many equal times)
        posts = [[rnd.choice(grid), rnd.choice(nodes), rnd.randrange(1, nh)] for _ in range(rnd.randint(70, 110) if big else rnd.randint(8, 16))]
        first = [['UNPOST', k_, False] for k_ in rnd.sample(range(len(posts)), (len(posts) * 2) // 3 if big else rnd.randint(1, 4))] + \
                [['POSTABS', rnd.choice(grid), rnd.randrange(1, nh)] for _ in range(rnd.randint(0, 2))] + \
                [['UNPOST', rnd.randrange(len(posts) + 2), False] for _ in range(rnd.randint(0, 2))]
        handlers[0] = ['N', first]
        posts.insert(rnd.randrange(len(posts) + 1), [0.0, rnd.choice(nodes), 0])
        handlers = [[k_, [a for a in acts if not (a[0] in ('POSTABS', 'POSTE') and a[2] == 0)]] for (k_, acts) in handlers[:1]] + \
                   [[k_, [a for a in acts if not (a[0] in ('POSTABS', 'POSTE') and a[2] == 0)]] for (k_, acts) in handlers[1:]]
    perel = [[0, rnd.choice([0.125, 0.5]), rnd.randrange(nh)]] if rnd.random() < 0.6 else []
    fixed = [[rnd.randrange(2), rnd.choice([0.25, 0.5, 1.0]), rnd.randrange(nh)]] if rnd.random() < 0.5 else []
    sp = dict(comps=[0.5, 0.5], nodeloci=[0, 1], edgeloci=[], multiloci=[], perel=perel, fixed=fixed, handlers=handlers, posts=posts)
    if rnd.random() < 0.3:
        # one or two events posted through postRepeatingEvent (on different handlers), next to the one-off ones
        hs = rnd.sample(range(nh), min(nh, rnd.choice([1, 2, 2])))
        sp['repeats'] = [[rnd.choice([0.0, 0.5, 1.0]), rnd.choice([0.5, 1.0, 0.3, 0.7, 1.5]), rnd.choice(nodes), h] for h in hs]
    return dict(procs=[dict(cls='Script', name=None, spec=sp)], seq='bare', dyn=dyn or rnd.choice(['sto', 'syn']), nodes=nodes, edges=edges,
                maxT=rnd.choice([3.0, 5.0]), seed=rnd.random(), specials=[0.125, 0.25, 0.5], pspecial=0.1, oracles=['clock', 'member'])


# ---------------------------------------------------------------------------------------------------------------
# C01: histories of process-API calls on a scripted compartmented model (no dynamics loop)
def gen_ops(rnd, nops=30, lin_r=False):
    ncomp = 3
    nodes, edges = rand_net(rnd, 2, 7)
    nodeloci = sorted(rnd.sample(range(ncomp), rnd.randint(1, 3)))
    pairs = [(l, r) for l in range(ncomp) for r in range(ncomp) if (l != r or lin_r)]
    edgeloci = [list(p) for p in rnd.sample(pairs, rnd.randint(1, 3))]
    multiloci = []
    if rnd.random() < 0.6:
        l = rnd.randrange(ncomp); rs = sorted(rnd.sample([c for c in range(ncomp) if (c != l or lin_r)], 2))
        multiloci.append([l, rs])
    sp = dict(comps=[0.5, 0.25, 0.25], nodeloci=nodeloci, edgeloci=edgeloci, multiloci=multiloci, perel=[], fixed=[], handlers=[], posts=[],
              bulk=rnd.random() < 0.3)
    # shadow of the network state, to generate legal operations only
    V = list(nodes); E = {frozenset(e) for e in edges}; hascomp = set(nodes); nxt = max(nodes) + 1
    ops = []
    for _ in range(nops):
        k = rnd.random()
        withc = [n for n in V if n in hascomp]
        if k < 0.35 and withc:
            ops.append(['CC', rnd.choice(withc), rnd.randrange(ncomp)])
        elif k < 0.45 and withc:                       # repeated no-op change is just a CC to the current compartment: drawn often enough
            n = rnd.choice(withc); ops.append(['CC', n, rnd.randrange(ncomp)]); ops.append(list(ops[-1]))
        elif k < 0.55:
            c = None if rnd.random() < 0.2 else rnd.randrange(ncomp)
            ops.append(['ADDNODE', nxt, c]); V.append(nxt)
            if c is not None: hascomp.add(nxt)
            nxt += 1
        elif k < 0.62 and [n for n in V if n not in hascomp]:
            n = rnd.choice([n for n in V if n not in hascomp]); ops.append(['SETC', n, rnd.randrange(ncomp)]); hascomp.add(n)
        elif k < 0.75 and withc:
            n = rnd.choice(withc)                      # includes nodes that still have edges
            ops.append(['RMNODE', n]); V.remove(n); hascomp.discard(n); E = {e for e in E if n not in e}
        elif k < 0.9 and len(withc) >= 1:
            a = rnd.choice(withc); b = rnd.choice(withc) if rnd.random() < 0.9 else a
            ops.append(['ADDEDGE', a, b]); E.add(frozenset((a, b)))      # may be an existing edge, or a self-loop
        elif E:
            e = rnd.choice(sorted(E, key=sorted)); a, b = (sorted(e) * 2)[:2]
            if rnd.random() < 0.5: a, b = b, a
            ops.append(['RMEDGE', a, b]); E.discard(e)
    return dict(mode='ops', procs=[dict(cls='Script', name=None, spec=sp)], nodes=nodes, edges=edges, seed=rnd.random(), ops=ops,
                dyn='sto', maxT=1.0)


def run_ops_case(spec):
    spec = json.loads(json.dumps(spec))
    p0 = spec['procs'][0]; p0['spec'] = fixspec(p0['spec'])
    sr = ScriptedRng(spec['seed']); vrepo.patch_rng(sr)
    proc = ScriptProc(p0['spec'], p0.get('name'))
    proc.setMaximumTime(spec['maxT'])
    d = StochasticDynamics(proc, Gen(spec['nodes'], [tuple(e) for e in spec['edges']]))
    st = {}
    orig_build = proc.build
    cfg = []

    def build(params):
        orig_build(params)
        ex = Extract(proc, d); st['ex'] = ex
        ex.register_script(proc)
        cfg.append(f"NINST 1 " + ('1' if proc.instanceName() is not None else '0'))
        for l in ex.loci: cfg.append(ex.locus_line(l))
        ci = ex.cidx[id(proc)]
        for c, hs in proc._effects.items():
            if c in ci: cfg.append(f"EFFECT 0 {ci[c]} {','.join(str(ex.lidx[id(h[0].__self__)]) for h in hs)}")
        cfg.append(f"S_INITC 0 " + ' '.join(f"{ci[c]}:{fb(pp)}" for c, pp in proc._compartments.items()))
    proc.build = build
    exp = []; info = dict(events=0, oracle=[], exc=None, tags=[])
    d.set(dict())
    d.setUp(d.parameters())
    ex = st['ex']
    exp.append("START " + state_line(d, ex))
    r = check_loci(d, ex)
    if r: info['oracle'].append(('loci', f"after set-up: {r}"))
    inp_ops = []
    for k, op in enumerate(spec['ops']):
        a = tuple(op)
        inp_ops.append("OP " + act_line(a, 0))
        try:
            proc.api(a, 0.0, None)
        except RecursionError:
            raise
        except Exception as ex_:
            info['exc'] = f"op {k} {op}: {type(ex_).__name__}: {ex_}"
            exp.append(f"EXC {type(ex_).__name__}")
            break
        exp.append(f"ST log=[{' '.join(proc.log)}] | " + state_line(d, ex)); proc.log = []
        info['events'] += 1
        if not info['oracle']:
            r = check_loci(d, ex)
            if r: info['oracle'].append(('loci', f"after op {k} {op}: {r}"))
    g0 = Gen(spec['nodes'], [tuple(e) for e in spec['edges']])._generate({})
    inp = ["RESET", "NODES " + ' '.join(map(str, g0.nodes()))]
    for u in g0.nodes(): inp.append(f"ADJ {u} " + ' '.join(map(str, g0.adj[u])))
    inp += cfg + sr.lines + ["OPS"] + inp_ops
    kinds = {o[0] for o in spec['ops']}
    info['tags'] = sorted(kinds) + (['rmnode_with_edges'] if any(o[0] == 'RMNODE' for o in spec['ops']) else [])
    info['handlers'] = []
    return inp, exp, info


RUNNERS = dict(ops=run_ops_case)


# ---------------------------------------------------------------------------------------------------------------
# C07 / C08 oracles on the real run
DIAGRAMS = {
    'SIR': {('S', 'I'), ('I', 'R')}, 'SIS': {('S', 'I'), ('I', 'S')}, 'SIRS': {('S', 'I'), ('I', 'R'), ('R', 'S')},
    'SEIR': {('S', 'E'), ('E', 'I'), ('I', 'R')}, 'SIR_FixedRecovery': {('S', 'I'), ('I', 'R')}, 'SIS_FixedRecovery': {('S', 'I'), ('I', 'S')},
    'SIR_VariableInfection': {('S', 'I'), ('I', 'R')}, 'Opinion': {('G', 'P'), ('P', 'T')}, 'SIvR': {('S', 'I'), ('I', 'R')}, 'Vaccinate': {('G', 'P'), ('P', 'T')}, 'VarInfFixed': {('S', 'I'), ('I', 'R')},
}


def _short(p, c):
    """compartment constant -> its letter in the property text"""
    for k in dir(type(p)):
        if k.isupper() and getattr(type(p), k) == c and k in ('SUSCEPTIBLE', 'INFECTED', 'REMOVED', 'EXPOSED', 'IGNORANT', 'SPREADER', 'STIFLER'):
            return {'SUSCEPTIBLE': 'S', 'INFECTED': 'I', 'REMOVED': 'R', 'EXPOSED': 'E', 'IGNORANT': 'G', 'SPREADER': 'P', 'STIFLER': 'T'}[k]
    return None


def _infectious(p):
    cls = type(p).__name__
    if cls == 'SEIR': return {p.EXPOSED, p.INFECTED}
    if cls in ('Opinion', 'Vaccinate'): return {p.SPREADER}
    return {p.INFECTED}


def _configured_T(d, q):
    """the infectious period the experiment's parameters configure for instance q (own decorated name, else the shared name): taken from
    the parameters handed to the run, not from what the process stored"""
    try:
        ps = d.parameters()
    except Exception:
        ps = {}
    for cls_ in type(q).__mro__:
        key = getattr(cls_, 'T_INFECTED', None) or (getattr(cls_, 'T', None) if cls_.__name__ == 'VarInfFixed' else None)
        if key is None: continue
        nm = q.instanceName()
        if nm is not None and f"{key}@{nm}" in ps: return ps[f"{key}@{nm}"]
        if key in ps: return ps[key]
    return q._tInfected


def oracle_diagram(d, ex, cur, t, p, name, e):
    """C07: partition; every compartment change is an arrow of the diagram; infection only through an edge to a neighbour that is
    infectious at that very moment; per-edge transmission rate; fixed recovery exactly T after infection"""
    g = d.network()
    st = d.__dict__.setdefault('_vp_diag', dict(prev={}, since={}))
    out = None
    for q in ex.cms:
        if isinstance(q, ScriptProc): continue
        key = id(q); cls = type(q).__name__
        now = {n: g.nodes[n].get(q.COMPARTMENT) for n in g.nodes()}
        for n, c in now.items():
            if c not in q._compartments: out = out or f"node {n} is in no compartment of {cls} ({c})"
        prev = st['prev'].get(key)
        if prev is not None:
            changed = [(n, prev[n], now[n]) for n in now if n in prev and prev[n] != now[n]]
            for (n, a, b) in changed:
                arrow = (_short(q, a), _short(q, b))
                if arrow not in DIAGRAMS.get(cls, set()):
                    out = out or f"{cls}: node {n} moved {arrow[0]}->{arrow[1]}, not an arrow of the diagram (event {name})"
                if arrow[0] in ('S', 'G') and q is p:
                    if not (isinstance(e, tuple) and e[0] == n):
                        out = out or f"{cls}: node {n} was infected by event {name} on {e}, not through one of its edges"
                    elif prev.get(e[1]) not in _infectious(q) or not g.has_edge(e[0], e[1]):
                        out = out or f"{cls}: node {n} infected through {e} but {e[1]} was in {_short(q, prev.get(e[1]))} at that moment"
                if cls in ('SIR_FixedRecovery', 'SIS_FixedRecovery', 'VarInfFixed'):
                    if arrow[0] == 'S': st['since'][(key, n)] = t
                    if arrow[0] == 'I':
                        t0 = st['since'].get((key, n), 0.0)
                        if t != t0 + _configured_T(d, q):
                            out = out or f"{cls}: node {n} entered I at {t0} and left at {t}, configured time {_configured_T(d, q)}"
                        st['since'].pop((key, n), None)
        if cls in ('SIR_FixedRecovery', 'SIS_FixedRecovery', 'VarInfFixed'):
            for n, c in now.items():
                if c == q.INFECTED:
                    t0 = st['since'].get((key, n), 0.0)
                    if t0 + _configured_T(d, q) < t and not cur.get('posted'):
                        out = out or f"{cls}: node {n} entered I at {t0} and is still infected at {t}, configured time {_configured_T(d, q)}"
        st['prev'][key] = now
        # transmission acts on every susceptible-infectious edge: rate of the infection event = p * number of such edges
        if d.__class__.__mro__[1].__name__ == 'StochasticDynamics' and cls not in ('SIR_VariableInfection', 'VarInfFixed', 'Opinion', 'Vaccinate', 'SEIR'):
            si = sum(1 for (a, b) in g.edges() if {now[a], now[b]} == {q.SUSCEPTIBLE, q.INFECTED})
            for (l, r, f, nm) in q.perElementEventRateDistribution(t) + q.fixedRateEventDistribution(t):
                if nm == q.INFECTED and hasattr(l, 'name') and l.name().endswith('SI'):
                    pinf = [pr for (ll, pr, ff, nn) in q._perElementEvents + q._perLocusEvents if nn == q.INFECTED][0]
                    if r != pinf * si:
                        out = out or f"{cls}: infection rate is {r} with {si} susceptible-infected edges and pInfect={pinf}"
    return ('diagram', out) if out else None


def final_diagram(d, ex, res, md, spec):
    """end-of-run clauses of C07: results = true counts summing to the order; a run that stopped because nothing can happen
    has no S-I edge and (when recovery has positive probability) no infectious node"""
    g = d.network()
    for q in ex.cms:
        if isinstance(q, ScriptProc): continue
        cls = type(q).__name__
        tot = 0
        # (several instances in one sequence report under the same undecorated keys and the sequence keeps the later one — C11; what this
        #  instance itself reports is what C07 speaks about)
        mine = q.results() if len(ex.cms) > 1 else res
        for c in q._compartments:
            true = sum(1 for n in g.nodes() if g.nodes[n].get(q.COMPARTMENT) == c)
            if mine.get(c) != true: return f"{cls}: results report {mine.get(c)} nodes in {_short(q, c)}, the network has {true}"
            tot += true
        if tot != g.order(): return f"{cls}: compartment sizes sum to {tot}, the network has {g.order()} nodes"
        if spec['dyn'] == 'sto' and md[Dynamics.TIME] < q.maximumTime() and cls in ('SIR_FixedRecovery', 'SIS_FixedRecovery', 'VarInfFixed'):
            # the run stopped before its maximum time, so nothing was possible any more: with a fixed infectious period every infected node
            # has a recovery scheduled, hence nobody can still be infected
            inf = [n for n in g.nodes() if g.nodes[n].get(q.COMPARTMENT) == q.INFECTED]
            if inf: return f"{cls}: run stopped at {md[Dynamics.TIME]} (before its maximum time {q.maximumTime()}) with node {inf[0]} still infected, its recovery never happened"
        if spec['dyn'] == 'sto' and md[Dynamics.TIME] < q.maximumTime() and not d._postedEventFinder and cls in ('SIR', 'SIS', 'SIRS', 'SIR_VariableInfection'):
            c = lambda n: g.nodes[n].get(q.COMPARTMENT)
            si = [(a, b) for (a, b) in g.edges() if {c(a), c(b)} == {q.SUSCEPTIBLE, q.INFECTED}]
            pinf = [pr for (l, pr, f, nm) in q._perElementEvents if nm == q.INFECTED]
            if si and (cls == 'SIR_VariableInfection' or (pinf and pinf[0] > 0)) and cls != 'SIR_VariableInfection':
                return f"{cls}: run stopped at {md[Dynamics.TIME]} (nothing possible) with S-I edge {si[0]} left"
            prem = [pr for (l, pr, f, nm) in q._perElementEvents if nm in (getattr(q, 'REMOVED', None), getattr(q, 'RECOVERED', None))]
            inf = [n for n in g.nodes() if c(n) == q.INFECTED]
            if inf and prem and prem[0] > 0:
                return f"{cls}: run stopped at {md[Dynamics.TIME]} with infectious node {inf[0]} although recovery has probability {prem[0]}"
    return None


def final_forest(d, ex, res, md, spec):
    """C08 on the final network: occupied edges form a forest, one seed per tree touching an infected node, hitting times"""
    g = d.network()
    seeds = d.__dict__.get('_vp_seeds', {})
    for q in ex.cms:
        if isinstance(q, ScriptProc): continue
        cls = type(q).__name__
        if cls in ('SIS', 'SIS_FixedRecovery', 'SIRS'): continue           # nodes can be infected more than once
        occ = [(a, b) for (a, b, data) in g.edges(data=True) if data.get(q.OCCUPIED, False)]
        seed = seeds.get(id(q), set())
        sus = q.SUSCEPTIBLE if hasattr(q, 'SUSCEPTIBLE') else q.IGNORANT
        ever = {n for n in g.nodes() if g.nodes[n].get(q.COMPARTMENT) != sus} | seed
        parent = {n: n for n in g.nodes()}

        def find(x):
            while parent[x] != x:
                parent[x] = parent[parent[x]]; x = parent[x]
            return x
        for (a, b) in occ:
            ra, rb = find(a), find(b)
            if ra == rb: return f"{cls}: occupied edges contain a cycle through ({a}, {b})"
            parent[ra] = rb
        trees = {}
        for n in g.nodes(): trees.setdefault(find(n), []).append(n)
        touched = {n for e in occ for n in e}
        for r, ns in trees.items():
            if any(n in ever for n in ns):
                k = [n for n in ns if n in seed]
                if len(k) != 1: return f"{cls}: the occupied tree {sorted(ns)} contains {len(k)} initially infected seeds"
        multi = len(ex.cms) > 1
        for n in g.nodes():
            hit = g.nodes[n].get('tHitting')
            # the hitting mark is one shared attribute: with several instances it records the first of them to reach the node
            if multi and hit is not None and g.nodes[n].get('hittingProcess') != q.instanceName(): hit = None if n not in ever or n in seed else 'other'
            if hit == 'other': continue
            inc = [(a, b) for (a, b) in occ if n in (a, b)]
            if n in seed:
                if hit is not None: return f"{cls}: seed {n} has hitting time {hit}"
            elif n in ever:
                mine = [(a, b) for (a, b) in inc if g.edges[a, b].get('tOccupied') == hit]
                if hit is None: return f"{cls}: infected node {n} has no hitting time"
                # (tOccupied is one shared attribute too: with several instances a later instance's occupation of the same edge overwrites it)
                if len(mine) < 1 and not multi: return f"{cls}: infected node {n} (hit at {hit}) has no occupied edge occupied at that time"
            else:
                if inc: return f"{cls}: never-infected node {n} touches occupied edge {inc[0]}"
                if hit is not None: return f"{cls}: never-infected node {n} has hitting time {hit}"
        if len(occ) != len(ever - seed): return f"{cls}: {len(occ)} occupied edges for {len(ever - seed)} infected non-seed nodes"
    # skeletonise(): exactly the occupied edges, on the full node set (it prunes the working network in place: last thing we do)
    qs = [q for q in ex.cms if not isinstance(q, ScriptProc) and type(q).__name__ not in ('SIS', 'SIS_FixedRecovery', 'SIRS')]
    if len(ex.cms) == 1 and qs:
        q = qs[0]
        nodes0 = list(g.nodes())
        occ = sorted(tuple(sorted((a, b), key=repr)) for (a, b, data) in g.edges(data=True) if data.get(q.OCCUPIED, False))
        sk = q.skeletonise()
        if list(sk.nodes()) != nodes0: return f"{type(q).__name__}: skeletonise() returned nodes {list(sk.nodes())}, the network has {nodes0}"
        got = sorted(tuple(sorted((a, b), key=repr)) for (a, b) in sk.edges())
        if got != occ: return f"{type(q).__name__}: skeletonise() kept edges {got}, the occupied edges are {occ}"
    return None


def oracle_forest(d, ex, cur, t, p, name, e):
    """C08 per event: an infection occupies exactly its edge at the event's time, the hitting time is that time and is strictly later
    than the infector's (seeds carry none)"""
    g = d.network()
    if '_vp_seeds' not in d.__dict__: return None
    q = p
    if not isinstance(q, CompartmentedModel) or isinstance(q, ScriptProc): return None
    if isinstance(e, tuple) and name in (getattr(q, 'INFECTED', None), getattr(q, 'SPREADER', None), getattr(q, 'INFECTED_ASYMPTOMATIC', None),
                                         getattr(q, 'INFECTED_SYMPTOMATIC', None), getattr(q, 'EXPOSED', None)):
        (n, m) = e
        if not g.has_edge(n, m): return None
        data = g.edges[n, m]
        first = d.__dict__.setdefault('_vp_first', {})
        if hasattr(q, 'SUSCEPTIBLE') and g.nodes[n].get(q.COMPARTMENT) == q.SUSCEPTIBLE: return None       # (SIvR: the vaccine held)
        if (id(q), n) not in first:
            first[(id(q), n)] = t
            if len(ex.cms) > 1 and g.nodes[n].get('hittingProcess') != q.instanceName(): return None       # first reached by another instance
            if not data.get(q.OCCUPIED, False): return ('forest', f"infection of {n} through {e} at {t} did not mark the edge occupied")
            if g.nodes[n].get('tHitting') != t: return ('forest', f"node {n} infected at {t} has hitting time {g.nodes[n].get('tHitting')}")
            if data.get('tOccupied') != t and type(q).__name__ not in ('SIS', 'SIS_FixedRecovery', 'SIRS') and len(ex.cms) == 1:
                return ('forest', f"edge {e} occupied by the infection at {t} records occupation time {data.get('tOccupied')}")
            hm = g.nodes[m].get('tHitting')
            if m not in d._vp_seeds.get(id(q), set()) and (hm is None or not hm < t):
                return ('forest', f"node {n} hit at {t} by {m}, whose own hitting time is {hm}")
        elif len(ex.cms) == 1 and g.nodes[n].get('tHitting') != first[(id(q), n)]:
            # infected again (SIS and its kin): the recorded hitting time stays that of the first infection
            return ('forest', f"node {n} was first infected at {first[(id(q), n)]}; after its infection at {t} its hitting time reads {g.nodes[n].get('tHitting')}")
    return None


ORACLES.update(diagram=oracle_diagram, forest=oracle_forest)
FINALS = dict(diagram=final_diagram, forest=final_forest)


def gen_rates(rnd, dyn='sto'):
    """C02/C06: a scripted process with several per-element and fixed-rate events whose rates are equal, zero, or differ by 1:1000,
    on loci of different sizes (incl. empty ones); handlers move nodes between compartments"""
    ncomp = 3
    nodes, edges = rand_net(rnd, 3, 8)
    nh = 3
    handlers = [['N', [['CCL', c]]] for c in range(ncomp)]
    if rnd.random() < 0.4:
        handlers[rnd.randrange(3)] = ['N', [['CLOCK']]]        # an event that leaves its element where it is
    P = [0.0, 0.0009765625, 0.125, 0.25, 0.5, 1.0]
    if dyn == 'sto': P = P + [2.0, 3.0, 1000.0]          # under Gillespie dynamics the numbers are rates, not bounded by 1
    if rnd.random() < 0.35: P = [0.0, 0.1, 0.2, 0.3, 0.7, 0.6, 1.1] if dyn == 'sto' else [0.0, 0.1, 0.2, 0.3, 0.7, 0.6]      # rates whose running sums round
    nodeloci = [0, 1, 2]
    perel = []
    for l in rnd.sample(range(3), rnd.randint(1, 3)):
        perel.append([l, rnd.choice(P), (l + rnd.choice([1, 2])) % 3])
    if rnd.random() < 0.4 and perel:
        perel.append([perel[0][0], perel[0][1], perel[0][2]])           # two events with the same rate on the same locus
    # (a fixed-rate event keeps its rate while its locus is empty: thousands of idle iterations at rate 1000, more than the model driver's fuel)
    fixed = [[rnd.randrange(3), rnd.choice([p for p in P if p <= 3.0]), rnd.randrange(3)] for _ in range(rnd.choice([0, 1, 2]))]
    comps = rnd.choice([[0.5, 0.5, 0.0], [0.5, 0.25, 0.25], [1.0, 0.0, 0.0]])
    if rnd.random() < 0.2:
        # a fixed-rate event with positive rate on a locus that starts empty, and last of all one with rate zero on a populated locus
        comps = [1.0, 0.0, 0.0]
        fixed = [[rnd.choice([1, 2]), rnd.choice([0.25, 0.5, 1.0, 3.0]), rnd.randrange(3)], [0, 0.0, rnd.randrange(3)]]
    sp = dict(comps=comps, nodeloci=nodeloci, edgeloci=[], multiloci=[], perel=perel, fixed=fixed, handlers=handlers, posts=[])
    ps = sorted({p for (_, p, _) in perel + fixed if 0 < p < 1})
    return dict(procs=[dict(cls='Script', name=None, spec=sp)], seq='bare', dyn=dyn, nodes=nodes, edges=edges,
                maxT=rnd.choice([2.0, 4.0, 8.0]), seed=rnd.random(), specials=ps, pspecial=rnd.choice([0.25, 0.5]), oracles=['clock', 'member', 'loci'])


def gen_bigloci(rnd, dyn='syn'):
    """loci of a few hundred elements (every other generated network has fewer than ten nodes): one or two steps of a shipped model on
    250-330 nodes, most of them infected, a handful of edges"""
    cls = rnd.choice(['SIR', 'SIS'])
    n = rnd.randint(258, 330)
    nodes = list(range(n)); rnd.shuffle(nodes)
    edges = [[rnd.randrange(n), rnd.randrange(n)] for _ in range(rnd.randint(0, 6))]
    edges = [e for e in edges if e[0] != e[1]]
    P = SIR if cls == 'SIR' else SIS
    params = {P.P_INFECTED: 1.0, P.P_INFECT: 0.5, (SIR.P_REMOVE if cls == 'SIR' else SIS.P_RECOVER): rnd.choice([0.5, 1.0, 0.03125])}
    return dict(procs=[dict(cls=cls, name=None, params=params)], seq='bare', dyn=dyn, nodes=nodes, edges=edges, maxT=2.0, seed=rnd.random(),
                specials=[0.5], pspecial=0.05, oracles=['clock', 'member'], maxevents=800)


def gen_dominoes(rnd, dyn='syn'):
    """an event function that posts an event for the current time which moves *another* element out of the locus: posted for now, it is due
    at the start of the next step, not in the middle of this one's firings"""
    nodes, edges = rand_net(rnd, 3, 6)
    order = sorted(nodes)
    b = rnd.choice(order[1:3]) if rnd.random() < 0.7 else rnd.choice(order)
    handlers = [['N', [['POSTE', 0.0, 1]]], ['N', [['CC', b, 1]]]]
    sp = dict(comps=[1.0, 0.0], nodeloci=[0], edgeloci=[], multiloci=[], perel=[[0, rnd.choice([1.0, 1.0, 0.5]), 0]], fixed=[], handlers=handlers, posts=[])
    return dict(procs=[dict(cls='Script', name=None, spec=sp)], seq='bare', dyn=dyn, nodes=nodes, edges=edges,
                maxT=rnd.choice([2.0, 3.0]), seed=rnd.random(), specials=[0.5], pspecial=0.1, oracles=['clock', 'member', 'loci'])


def gen_adaptive(rnd, dyn=None):
    """an adaptive-network process: two per-element events on one edge locus, the first of which cuts an edge of the network (so that an
    element chosen for the second may have left the locus through the topology, its endpoints' compartments unchanged)"""
    nodes, edges = rand_net(rnd, 3, 6, kind=rnd.choice(['er', 'complete', 'star', 'path']))
    if not edges: edges = [[nodes[0], nodes[1]]]
    cut = [rnd.choice(edges) for _ in range(rnd.choice([1, 2]))]
    handlers = [['E', [['RMEDGE', a, b] for (a, b) in cut]], ['E', [['CCL', 1]]], ['N', [['CCL', 0]]]]
    perel = [[0, rnd.choice([0.5, 1.0]), 0], [0, rnd.choice([0.5, 1.0]), 1]]
    if rnd.random() < 0.5: perel.append([1, rnd.choice([0.25, 0.5]), 2])
    sp = dict(comps=[0.5, 0.5], nodeloci=[1], edgeloci=[[0, 1]], multiloci=[], perel=[[1, p, h] if l == 0 else [0, p, h] for (l, p, h) in perel],
              fixed=[], handlers=handlers, posts=[])
    ps = sorted({p for (_, p, _) in sp['perel'] if 0 < p < 1})
    return dict(procs=[dict(cls='Script', name=None, spec=sp)], seq='bare', dyn=dyn or rnd.choice(['syn', 'syn', 'sto']), nodes=nodes, edges=edges,
                maxT=rnd.choice([2.0, 3.0]), seed=rnd.random(), specials=ps, pspecial=0.15, oracles=['clock', 'member', 'loci'])


def gen_monitored(rnd, dyn=None):
    """C12: a shipped model observed by a Monitor (and NetworkStatistics) in a sequence"""
    base = gen_shipped(rnd, dyn=dyn, oracles=('clock', 'member', 'loci'))
    delta = rnd.choice([0.25, 0.5, 1.0, 1.5, 2.0, 0.75, 3.0, 0.1, 0.3, 1 / 3, 0.7])     # (also intervals that are not binary fractions: sums round)
    procs = base['procs'] + [dict(cls='Monitor', name=None, params={Monitor.DELTA: delta})]
    if rnd.random() < 0.5: procs.append(dict(cls='NetworkStatistics', name=None, params={}))
    if rnd.random() < 0.3: procs = [procs[1], procs[0]] + procs[2:]
    if rnd.random() < 0.3: procs.append(dict(cls='Census', name=None, params={Census.INTERVAL: rnd.choice([0.5, 1.0, 0.7, 2.0])}))
    base.update(procs=procs, seq=rnd.choice(['list', 'list', 'nested']), oracles=['clock', 'member', 'loci', 'monitor'])
    return base


def gen_monfix(rnd, dyn=None):
    """C04: a fixed-recovery epidemic observed by a Monitor whose interval divides the infectious period: every removal is due at the very
    time of a (later posted) observation, so the tie order between a one-off and a repeating event is exercised"""
    cls = rnd.choice(['SIR_FixedRecovery', 'SIS_FixedRecovery'])
    base = gen_shipped(rnd, classes=[cls], dyn=dyn, oracles=('clock', 'member', 'loci'), net=rand_net(rnd, 3, 7, kind=rnd.choice(['er', 'complete', 'star'])))
    delta = rnd.choice([0.5, 1.0])
    T = delta * rnd.choice([1, 2, 3])
    p = base['procs'][0]
    p['params'] = {k: (T if k.endswith('tInfected') else v) for k, v in p['params'].items()}
    procs = [p, dict(cls='Monitor', name=None, params={Monitor.DELTA: delta})]
    if rnd.random() < 0.3: procs.reverse()
    base.update(procs=procs, seq='list', oracles=['clock', 'member', 'loci', 'monitor'], maxT=rnd.choice([3.0, 5.0]))
    return base


def final_monitor(d, ex, res, md, spec):
    """C12: observation times 0, d, 2d, ... up to the end; one series per locus, as long as the list of times; each value is the
    locus' size after every strictly earlier event and before every strictly later one.  NetworkStatistics against a BFS."""
    from epydemic import NetworkStatistics as NS
    if any(isinstance(p, Monitor) for p in ex.leaves) and Monitor.OBSERVATIONS not in res:
        return "a Monitor is part of the simulation but the results hold no observation times"
    if Monitor.OBSERVATIONS in res:
        mon = [p for p in ex.leaves if isinstance(p, Monitor)][0]
        delta = None
        obs = res[Monitor.OBSERVATIONS]
        if len(obs) >= 2: delta = obs[1] - obs[0]
        T = md[Dynamics.TIME]
        bound = T if spec['dyn'] == 'sto' else T - 1.0
        dlt = spec['params'][Monitor.DELTA]
        want = []; t = 0.0
        while t <= bound and len(want) < 10000:
            want.append(t); t = t + dlt
        if obs != want: return f"observations at {obs[:8]}{'...' if len(obs) > 8 else ''} ({len(obs)}), expected every {dlt} from 0 to {bound}: {want[:8]} ({len(want)})"
        names = list(d.loci().keys())
        hist = spec.get('_sizes', [])
        for li, n in enumerate(names):
            ser = res.get(Monitor.timeSeriesForLocus(n))
            if ser is None: return f"no time series for locus {n}"
            if len(ser) != len(obs): return f"series for {n} has {len(ser)} entries, {len(obs)} observations"
            for k, o in enumerate(obs):
                # states the observation may legitimately see: after all events strictly before o, up to after all events at o
                cands = [hist[0][1][li]] if hist else []
                last_before = hist[0][1][li] if hist else None
                for (tt, sz) in hist[1:]:
                    if tt < o: last_before = sz[li]
                cands = [last_before] + [sz[li] for (tt, sz) in hist[1:] if tt == o]
                if ser[k] not in cands:
                    return f"locus {n} at observation time {o}: recorded {ser[k]}, size after the earlier events was {last_before}"
    if NS.N in res:
        g = d.network()
        n = g.order(); degs = [dd for (_, dd) in g.degree()]
        seen = set(); comps = []
        for v in g.nodes():
            if v in seen: continue
            stack = [v]; seen.add(v); c = 1
            while stack:
                x = stack.pop()
                for y in g.adj[x]:
                    if y not in seen: seen.add(y); stack.append(y); c += 1
            comps.append(c)
        comps.sort(reverse=True)
        want = {NS.N: n, NS.M: g.number_of_edges(), NS.KMEAN: sum(degs) / n, NS.KMAX: max(degs), NS.COMPONENTS: len(comps),
                NS.LCC: comps[0] if comps else 0, NS.SLCC: comps[1] if len(comps) > 1 else 0}
        for k, v in want.items():
            if res[k] != v: return f"NetworkStatistics reports {k.split('.')[-1]} = {res[k]}, computed from the final network: {v}"
        hist_ = res[NS.KDIST]
        if [hist_[i] if i < len(hist_) else 0 for i in range(max(degs) + 1)] != [degs.count(i) for i in range(max(degs) + 1)] or any(hist_[max(degs) + 1:]):
            return f"degree histogram {list(hist_)} for degrees {sorted(degs)}"
    return None


FINALS['monitor'] = final_monitor


# ---------------------------------------------------------------------------------------------------------------
# C11: composition, named instances, parameter decoration
NAMEABLE = ['SIR', 'SIS', 'SIRS', 'SIR_FixedRecovery', 'SIS_FixedRecovery', 'Opinion', 'SIR_VariableInfection']


def gen_composed(rnd, dyn=None):
    k = rnd.choice([2, 2, 3])
    nodes, edges = rand_net(rnd, 3, 7)
    procs = []
    names = rnd.sample('abc', 3)          # instance names (and dict keys) in no particular order
    for i in range(k):
        cls = rnd.choice([c for c in NAMEABLE if c != 'SIR_VariableInfection' or all(q['cls'] != c for q in procs)])   # the model carries one infectivity table
        name = names[i]
        plain = shipped_params(cls, rnd)
        params = {}
        how = {}
        for key, v in plain.items():
            mode = rnd.choice(['deco', 'deco', 'both', 'plain'])
            how[key] = mode
            if mode in ('deco', 'both'): params[f"{key}@{name}"] = v
            if mode == 'both': params[key] = rnd.choice([x for x in D[1:-1] if x != v] or [0.5]) if key.split('.')[-1][0] == 'p' else v + 1.0
            if mode == 'plain': params[key] = v
        procs.append(dict(cls=cls, name=name, params=params, expect={key: v for key, v in plain.items()}))
    # undecorated keys are shared: a later component's plain value overrides an earlier one's in the merged dict; make expectations follow
    merged = {}
    for p in procs: merged.update(p['params'])
    for p in procs:
        for key in list(p['expect']):
            dk = f"{key}@{p['name']}"
            p['expect'][key] = merged[dk] if dk in merged else merged.get(key)
    if rnd.random() < 0.4: procs.append(dict(cls='Monitor', name=None, params={Monitor.DELTA: rnd.choice([0.5, 1.0])}))
    if rnd.random() < 0.3: procs.append(dict(cls='NetworkStatistics', name=None, params={}))
    return dict(procs=procs, seq=rnd.choice(['list', 'dict', 'nested']), dyn=dyn or rnd.choice(['sto', 'syn']), nodes=nodes, edges=edges,
                maxT=rnd.choice([2.0, 4.0]), seed=rnd.random(), specials=[0.25, 0.5], pspecial=0.1,
                oracles=['clock', 'member', 'loci', 'compose', 'forest'])


SHARED_ATTRS = {'tOccupied', 'tHitting', 'hittingProcess', 'infection_time', 'vaccincated', 'vaccination_time'}


def oracle_compose(d, ex, cur, t, p, name, e):
    """C11 per event: an event of one instance changes only state decorated with its own name (or the documented shared attributes)"""
    g = d.network()
    snap = {('n', n): dict(g.nodes[n]) for n in g.nodes()}
    snap.update({('e', frozenset((a, b))): dict(data) for (a, b, data) in g.edges(data=True)})
    prev = d.__dict__.get('_vp_snap')
    d._vp_snap = snap
    if prev is None or p is None or not isinstance(p, CompartmentedModel): return None
    own = p.instanceName()
    for k, attrs in snap.items():
        old = prev.get(k, {})
        for a in set(attrs) | set(old):
            if attrs.get(a) != old.get(a):
                base, _, inst = a.partition('@')
                if a in SHARED_ATTRS: continue
                if (inst or None) != own:
                    return ('compose', f"event {name} of instance {own} changed attribute {a} of {k[0]} {sorted(k[1]) if k[0] == 'e' else k[1]}")
    return None


def final_compose(d, ex, res, md, spec):
    """C11 at the end: registered probabilities follow the decoration rule; schedule = union of the components' events; results union;
    maximum time; equilibrium"""
    top = d.process()
    leaves = top.allProcesses()
    want = []
    def flat(p):
        if isinstance(p, ProcessSequence):
            for q in p.processes(): flat(q)
        else: want.append(p)
    flat(top)
    if [id(x) for x in leaves] != [id(x) for x in want]: return "allProcesses() is not the left-to-right list of the leaves"
    per = d.perElementEventDistribution(0.0); cat = [x for q in leaves for x in q.perElementEventDistribution(0.0)]
    if [(lkey(l), pr, nm) for (l, pr, f, nm) in per] != [(lkey(l), pr, nm) for (l, pr, f, nm) in cat]:
        return "the dynamics' per-element event distribution is not the concatenation of the components' distributions"
    fx = d.fixedRateEventDistribution(0.0); catf = [x for q in leaves for x in q.fixedRateEventDistribution(0.0)]
    if [(lkey(l), pr, nm) for (l, pr, f, nm) in fx] != [(lkey(l), pr, nm) for (l, pr, f, nm) in catf]:
        return "the dynamics' fixed-rate event distribution is not the concatenation of the components' distributions"
    if top.maximumTime() != max([q.maximumTime() for q in leaves] + [0]): return f"maximumTime {top.maximumTime()} is not the largest component maximum"
    for tt in (0.0, spec['maxT'] - 0.5, spec['maxT'], spec['maxT'] + 1):
        if bool(top.atEquilibrium(tt)) != all(bool(q.atEquilibrium(tt)) for q in leaves): return f"atEquilibrium({tt}) differs from 'every component is'"
    exp_res = {}
    for q in leaves: exp_res.update(q.results())
    for k, v in exp_res.items():
        if isinstance(v, (int, float, str)) and res.get(k) != v: return f"results[{k}] = {res.get(k)}, the last component reporting it gives {v}"
    # decoration rule, read off what was registered
    for p, q in zip(spec['procs_json'], [x for x in leaves]):
        exp = p.get('expect')
        if not exp: continue
        for key, v in exp.items():
            short = key.split('.')[-1]
            if short in ('pInfect', 'pRemove', 'pRecover', 'pResuscept', 'pAffect', 'pStifle'):
                regs = [pr for (l, pr, f, nm) in q._perElementEvents + q._perLocusEvents]
                if v not in regs: return f"instance {q.instanceName()} of {type(q).__name__}: parameter {short} should be {v} (own decorated name, else shared name), registered probabilities are {regs}"
            if short in ('pInfected', 'pAffected'):
                if v not in q._compartments.values(): return f"instance {q.instanceName()}: {short} should be {v}, initial distribution is {list(q._compartments.values())}"
            if short == 'tInfected' and getattr(q, '_tInfected', v) != v: return f"instance {q.instanceName()}: tInfected should be {v}, is {q._tInfected}"
    return None


ORACLES['compose'] = oracle_compose
FINALS['compose'] = final_compose


def gen_deco(rnd):
    keys = ['p', 'q', 'p.x']
    names = [None, 'a', 'b', 'ab']
    d = {}
    for k in keys:
        for n in names:
            if rnd.random() < 0.4: d[k + ('@' + n if n else '')] = rnd.randrange(100) if rnd.random() < 0.85 else rnd.choice([None, 0, 0.0, False, ''])       # (present, with a value that tests false / is None)
    return dict(mode='deco', params=d, name=rnd.choice(names), key=rnd.choice(keys), dflt=rnd.choice([None, None, 7]), seed=0, dyn='sto', procs=[])


def run_deco(spec):
    p = Process(spec['name']) if spec['name'] else Process()
    k = spec['key'] if spec['dflt'] is None else (spec['key'], spec['dflt'])
    MISSING = object()
    try:
        got = p.getParameters(dict(spec['params']), [k])[0]
    except KeyError:
        got = MISSING
    out = "KeyError" if got is MISSING else str(got)
    plain = all(isinstance(v, int) and not isinstance(v, bool) for v in spec['params'].values())
    inp = [f"DECO {spec['name'] or '-'} {spec['key']} {'-' if spec['dflt'] is None else spec['dflt']} " + ' '.join(f"{a}={b}" for a, b in spec['params'].items())]
    # the rule itself, as the property states it: own decorated name if present (whatever its value), else the shared name if present, else the
    # declared default
    viol = []
    dk = spec['key'] + ('@' + spec['name'] if spec['name'] else '')
    ps = spec['params']
    want = ps[dk] if dk in ps else ps[spec['key']] if spec['key'] in ps else spec['dflt'] if spec['dflt'] is not None else MISSING
    same = (got is MISSING and want is MISSING) or (got is not MISSING and want is not MISSING and type(got) == type(want) and got == want)
    if not same:
        viol.append(('compose', f"getParameters({ps}, {k}) for instance {spec['name']} gave {out}, the rule gives {'KeyError' if want is MISSING else repr(want)}"))
    rt = Process(spec['name']) if spec['name'] else Process()
    pp = rt.setParameters({}, {spec['key']: 5})
    if rt.getParameters(pp, [spec['key']]) != [5]: viol.append(('compose', "setParameters/getParameters do not round-trip"))
    if not plain:          # values the model's protocol has no notation for: judged by the rule alone
        return [], [], dict(events=1, oracle=viol, exc=None, handlers=[], tags=['deco'])
    return inp, [out], dict(events=1, oracle=viol, exc=None, handlers=[], tags=['deco'])


RUNNERS['deco'] = run_deco


class _Stub(Process):
    def __init__(self, i, mt, eq, res):
        super().__init__(); self._i = i; self._mt = mt; self._eq = eq; self._res = res
    def maximumTime(self): return self._mt
    def atEquilibrium(self, t): return self._eq
    def results(self): return dict(self._res)


def gen_seqtree(rnd):
    cnt = [0]
    def tree(depth):
        out = []
        for _ in range(rnd.choice([0, 1, 2, 2, 3])):
            if depth < 3 and rnd.random() < 0.35: out.append(dict(seq=tree(depth + 1), named=rnd.random() < 0.5))
            else:
                cnt[0] += 1
                out.append(dict(leaf=cnt[0], mt=rnd.randrange(0, 6), eq=rnd.random() < 0.8,
                                res={rnd.choice('abcd'): rnd.randrange(100) for _ in range(rnd.choice([0, 1, 2]))}))
        return out
    return dict(mode='seqtree', tree=tree(0), named=rnd.random() < 0.5, seed=0, dyn='sto', procs=[])


def run_seqtree(spec):
    toks = []
    def mk(items, named):
        ps = []
        for it in items:
            if 'leaf' in it:
                ps.append(_Stub(it['leaf'], it['mt'], it['eq'], it['res']))
                toks.append(f"{it['leaf']}:{it['mt']}:{1 if it['eq'] else 0}:" + ','.join(f"{k}={v}" for k, v in it['res'].items()))
            else:
                toks.append('('); ps.append(mk(it['seq'], it['named'])); toks.append(')')
        return ProcessSequence({f"p{j}": p for j, p in enumerate(ps)} if named else ps)
    try:
        top = mk(spec['tree'], spec['named'])
        res = top.results()
        leaves = [p._i for p in top.allProcesses()]
    except Exception as ex_:
        return ["SEQ " + ' '.join(toks)], [f"EXC {type(ex_).__name__}"], dict(events=0, oracle=[('compose', f"building / reading the sequence raised {type(ex_).__name__}: {ex_}")], exc=str(ex_), handlers=[], tags=['seqtree'])
    out = f"leaves=[{', '.join(map(str, leaves))}] maxT={top.maximumTime()} eq={'true' if top.atEquilibrium(0.0) else 'false'} res=[{', '.join(f'({k}, {res[k]})' for k in sorted(res))}]"
    viol = []
    # the property's statement, directly
    flat = []
    def walk(items):
        for it in items:
            if 'leaf' in it: flat.append(it)
            else: walk(it['seq'])
    walk(spec['tree'])
    if leaves != [it['leaf'] for it in flat]: viol.append(('compose', f"allProcesses() gives {leaves}, the leaves left to right are {[it['leaf'] for it in flat]}"))
    if top.maximumTime() != max([it['mt'] for it in flat] + [0]): viol.append(('compose', f"maximumTime {top.maximumTime()} is not the largest component maximum"))
    if bool(top.atEquilibrium(0.0)) != all(it['eq'] for it in flat): viol.append(('compose', "atEquilibrium differs from 'every component is'"))
    want = {}
    for it in flat: want.update(it['res'])
    if res != want: viol.append(('compose', f"results {res}, the union with later components winning is {want}"))
    return ["SEQ " + ' '.join(toks)], [out], dict(events=len(flat), oracle=viol, exc=None, handlers=[], tags=['seqtree'])


RUNNERS['seqtree'] = run_seqtree


# ---------------------------------------------------------------------------------------------------------------
# C19: addition-deletion
def gen_adddel(rnd, dyn=None, combo=None):
    combo = combo or rnd.choice(['alone', 'alone', 'inherit', 'inherit', 'seq', 'full'])
    nodes, edges = rand_net(rnd, 2, 7)
    n = len(nodes)
    if rnd.random() < 0.5:
        # labels beyond the order (a sub-network, even labels, ...): newNodeName must step over names in use
        lab = sorted(rnd.sample(range(0, 2 * n + 4), n)); rnd.shuffle(lab)
        nodes = [lab[x] for x in nodes]; edges = [[lab[a], lab[b]] for a, b in edges]
    regime = rnd.choice(['mixed', 'mixed', 'growth', 'decay'])
    pa, pd = dict(mixed=(rnd.choice([0.25, 0.5, 1.0]), rnd.choice([0.25, 0.5, 1.0])), growth=(rnd.choice([0.5, 1.0]), 0.0),
                  decay=(0.0, rnd.choice([0.5, 1.0, 2.0])))[regime]
    # `add` does not return when fewer than c other nodes exist (the property exempts that case): keep c = 1 unless the population cannot shrink below c
    c = rnd.choice([1, 2, 3]) if regime == 'growth' and n > 3 else (rnd.choice([0, 1, 1]) if regime != 'decay' else rnd.choice([0, 1, 2]))
    c = min(c, n - 1) if regime == 'growth' else c
    ad = {AddDelete.P_ADD: pa, AddDelete.P_DELETE: pd, AddDelete.DEGREE: c}
    sir = {SIR.P_INFECTED: rnd.choice([0.25, 0.5]), SIR.P_INFECT: rnd.choice([0.25, 0.5, 1.0]), SIR.P_REMOVE: rnd.choice([0.125, 0.25])}
    if combo == 'alone': procs = [dict(cls='AddDelete', name=None, params=ad)]; seq = rnd.choice(['bare', 'list'])
    elif combo == 'inherit': procs = [dict(cls='DynamicSIR', name=None, params={**ad, **sir})]; seq = rnd.choice(['bare', 'list'])
    else:
        procs = [dict(cls='SIR', name=None, key='diseaseModel', params=sir),
                 dict(cls='CompartmentedAddDelete' if combo == 'seq' else 'FullAddDelete', name=None, key='population', params=ad)]
        seq = 'dict'
    if rnd.random() < 0.25 and seq != 'dict' and seq != 'bare': procs.append(dict(cls='Monitor', name=None, params={Monitor.DELTA: 1.0}))
    return dict(procs=procs, seq=seq, dyn=dyn or rnd.choice(['sto', 'sto', 'syn']), nodes=nodes, edges=edges, maxT=rnd.choice([2.0, 3.0, 5.0]),
                seed=rnd.random(), specials=[0.25, 0.5], pspecial=0.1, combo=combo,
                oracles=['clock', 'adddel'] if combo == 'seq' else ['clock', 'member', 'adddel'], maxevents=150,
                sticky=rnd.choice([0.0, 0.0, 0.9, 0.97, 0.99]))


def oracle_adddel(d, ex, cur, t, p, name, e):
    """C19 per event: all-nodes locus = node set; a new node has a fresh name and exactly c distinct other neighbours; a deleted
    node is gone from the network and from every locus of every process"""
    g = d.network()
    st = d.__dict__.setdefault('_vp_ad', dict(prev=None, adds=0, dels=0, n0=None, born=set(), dead=set(), k2=False))
    if st['k2']: return None          # the sequence recipe's bookkeeping has already diverged (reported once); what follows is a consequence
    cur_nodes = set(g.nodes())
    ads = [q for q in ex.leaves if isinstance(q, AddDelete)]
    ex._vp_combo = 'seq' if any(type(q) is CompartmentedAddDelete for q in ads) else 'other'
    r = None
    for q in ads:
        have = set(q.locus(AddDelete.NODES))
        if have != cur_nodes: r = r or f"all-nodes locus holds {sorted(have)}, the network's nodes are {sorted(cur_nodes)}"
    ef = getattr(cur.get('ef'), '__func__', None)
    prev = st['prev']
    if prev is not None and ef is not None and ads:
        q = ads[0]
        if ef.__qualname__ == 'AddDelete.add':
            st['adds'] += 1
            new = cur_nodes - prev['nodes']
            st['born'] |= new
            if len(new) != 1 or prev['nodes'] - cur_nodes: r = r or f"add changed the node set from {sorted(prev['nodes'])} to {sorted(cur_nodes)}"
            else:
                i = next(iter(new)); nb = list(g.adj[i])
                if i in nb: r = r or f"new node {i} has a self-loop"
                if len(set(nb)) != len(nb): r = r or f"new node {i} has parallel edges"
                if not set(nb) <= prev['nodes']: r = r or f"new node {i} is joined to {sorted(set(nb) - prev['nodes'])}, which did not exist"
                if len(prev['nodes']) >= q._c and len(nb) != q._c: r = r or f"new node {i} has degree {len(nb)}, configured degree {q._c}"
                if prev['edges'] != {frozenset(x) for x in g.edges() if i not in x}: r = r or "add changed edges not incident to the new node"
        elif ef.__qualname__ == 'AddDelete.delete':
            st['dels'] += 1; st['dead'].add(e)
            if cur_nodes != prev['nodes'] - {e}: r = r or f"delete of {e} changed the node set from {sorted(prev['nodes'])} to {sorted(cur_nodes)}"
            if {frozenset(x) for x in g.edges()} != {x for x in prev['edges'] if e not in x}: r = r or f"delete of {e} changed edges not incident to it"
        else:
            if cur_nodes != prev['nodes'] or {frozenset(x) for x in g.edges()} != prev['edges']: r = r or f"event {name} changed the network"
    # the disease model's loci: equal to the sets they track; nothing may mention a node that left the network
    k2 = None
    for l in d.loci().values():
        q = l.process()
        if not isinstance(q, CompartmentedModel): continue
        want, both = spec_of_locus(l, g, q)
        if want is None: continue
        have = set(l)
        if have != want:
            bad = have ^ want
            touched = {y for x in bad for y in (x if isinstance(x, tuple) else (x,))}
            msg = f"locus {l.name()} holds {sorted(have)} but the network has {sorted(want)}"
            if ex.__dict__.get('_vp_combo') == 'seq' and touched & (st['born'] | st['dead']) and r is None:
                k2 = k2 or ("cookbook sequence recipe: " + msg + f" (nodes added / deleted by the sibling add-delete process: {sorted(touched & (st['born'] | st['dead']))})")
            else: r = r or msg
    st['prev'] = dict(nodes=cur_nodes, edges={frozenset(x) for x in g.edges()})
    if r is None and k2:
        st['k2'] = True
        return ('adddel-k2', k2)
    st['prev'] = dict(nodes=cur_nodes, edges={frozenset(x) for x in g.edges()})
    return ('adddel', r) if r else None


def final_adddel(d, ex, res, md, spec):
    st = d.__dict__.get('_vp_ad')
    n0 = len(spec['nodes'])
    if st is None: return None
    if d.network().order() != n0 + st['adds'] - st['dels']:
        return f"final order {d.network().order()} != initial {n0} + {st['adds']} additions - {st['dels']} deletions"
    # what a compartmented component reports at the end is the population that is there at the end (nodes born and dead included)
    g = d.network()
    for q in ex.cms:
        if isinstance(q, ScriptProc): continue
        try:
            r = q.results()
        except Exception as ex_:
            return f"{type(q).__name__}.results() raised {type(ex_).__name__}: {ex_}"
        for c in q._compartments:
            want = sum(1 for n in g.nodes() if g.nodes[n].get(q.COMPARTMENT) == c)
            if c in r and r[c] != want:
                return f"{type(q).__name__} reports {r[c]} nodes in {c.split('.')[-1]}, the final network has {want} (after {st['adds']} additions and {st['dels']} deletions)"
    return None


oracle_adddel.at_start = True
ORACLES['adddel'] = oracle_adddel
FINALS['adddel'] = final_adddel


# ---------------------------------------------------------------------------------------------------------------
# C10: earlier runs on the same experiment object, then the recorded run
def gen_rerun(rnd, classes=None, dyn=None):
    base = gen_shipped(rnd, classes=classes or rnd.choice([['SIR_FixedRecovery', 'SIS_FixedRecovery'], ['SIR_FixedRecovery', 'SIS_FixedRecovery'], None]),
                       dyn=dyn, oracles=('clock', 'member', 'loci', 'diagram', 'forest'), net=rand_net(rnd, 3, 7))
    if rnd.random() < 0.3:
        base['procs'].append(dict(cls='Monitor', name=None, params={Monitor.DELTA: rnd.choice([0.5, 1.0])})); base['seq'] = 'list'
        base['oracles'] = ['clock', 'member', 'loci']
    hist = []
    n = len(base['nodes'])
    for _ in range(rnd.choice([1, 1, 2, 3])):
        ep = {}
        k = rnd.random()
        if k < 0.55:
            ep['inject'] = rnd.choice(['build0', 'build', 'setup0', 'setup', 'results', ['event', 1], ['event', rnd.randint(1, 6)], ['event', rnd.randint(2, 12)]])
        if rnd.random() < 0.5: ep['maxT'] = rnd.choice([0.25, 0.5, 1.0, 1.5])           # cut short, often with events still queued
        if rnd.random() < 0.5:
            ep['params'] = {kk: (rnd.choice(D[1:-1]) if kk.split('.')[-1].startswith('p') and not kk.endswith('Infected') else v)
                            for p in base['procs'] for kk, v in p.get('params', {}).items() if isinstance(v, float) and kk.split('.')[-1].startswith('p')}
        if rnd.random() < 0.4:
            ep['edges'] = [[a, b] for a in range(n) for b in range(a + 1, n) if rnd.random() < 0.5]
        if rnd.random() < 0.3:
            ep.setdefault('params', {})['vp.dropedges'] = rnd.choice([1, 2])          # a generator parameter the recorded run does not supply
        hist.append(ep)
    base.update(history=hist, fixed_proto=rnd.random() < 0.5, maxevents=150)
    if rnd.random() < 0.25:
        base['prior_other'] = dict(maxT=rnd.choice([1.0, 2.0, base['maxT']]))
    return base


def gen_genlimit(rnd):
    return dict(mode='genlimit', limit=rnd.choice([None, 0, 1, 2, 3, 5]), asks=rnd.randint(0, 8), how=[rnd.choice(['generate', 'next', 'fresh', 'loop', 'setgen']) for _ in range(8)],
                fixed=rnd.random() < 0.5, seed=0, dyn='sto', procs=[])


def run_genlimit(spec):
    import networkx as nx
    from epydemic import FixedNetwork, NetworkGenerator
    proto = nx.path_graph(4)
    made = []

    class G(NetworkGenerator):
        def topology(self): return 'test'
        def _generate(self, params): g = nx.path_graph(3); return g
    gen = FixedNetwork(proto, limit=spec['limit']) if spec['fixed'] else G(limit=spec['limit'])
    for i in range(spec['asks']):
        h = spec['how'][i]
        if h == 'generate': g = gen.generate()
        elif h == 'setgen': g = gen.set({}).generate()          # the chained idiom of the experiment classes
        elif h == 'loop':                     # a for-loop over the generator left after its first network
            g = None
            for g_ in gen:
                g = g_; break
        else:
            try: g = next(iter(gen)) if h == 'fresh' else next(gen)          # ('fresh': a new iterator every time, never run to its end)
            except StopIteration: g = None
        if g is not None: made.append(g)
    viol = []
    if spec['limit'] is not None and len(made) > spec['limit']: viol.append(('fresh', f"a generator with limit {spec['limit']} yielded {len(made)} networks"))
    if spec['limit'] is None and len(made) != spec['asks']: viol.append(('fresh', "an unlimited generator refused a network"))
    if spec['fixed']:
        for g in made:
            if g is proto or any(g is h for h in made if h is not g): viol.append(('fresh', "FixedNetwork handed out the prototype itself or the same object twice"))
            if list(g.nodes()) != list(proto.nodes()) or sorted(map(sorted, g.edges())) != sorted(map(sorted, proto.edges())): viol.append(('fresh', "a copy differs from the prototype"))
        if made:
            made[0].add_edge(0, 3); made[0].nodes[0]['x'] = 1
            if proto.has_edge(0, 3) or 'x' in proto.nodes[0] or any(h.has_edge(0, 3) for h in made[1:]): viol.append(('fresh', "changing one copy changed the prototype or another copy"))
    if spec['limit'] in (1, 2) and not viol:
        # an experiment over a generator limited to L networks: L runs go ahead, each on a network of its own; the next one has no network
        # to run on and must not quietly go ahead on an earlier run's
        from epydemic import StochasticDynamics, SynchronousDynamics
        L_ = spec['limit']
        Dyn_ = StochasticDynamics if spec['asks'] % 2 == 0 else SynchronousDynamics
        q_ = SIR(); q_.setMaximumTime(2.0)
        e_ = Dyn_(q_, FixedNetwork(nx.path_graph(4), limit=L_) if spec['fixed'] else G(limit=L_))
        seen_ = []
        for i_ in range(L_ + 1):
            try:
                e_.set({SIR.P_INFECTED: 0.5, SIR.P_INFECT: 0.5, SIR.P_REMOVE: 0.5}).run(fatal=True); ok_ = True
            except Exception:
                ok_ = False
            if i_ < L_ and not ok_: viol.append(('fresh', f"run {i_ + 1} of an experiment over a generator limited to {L_} networks failed")); break
            if i_ < L_: seen_.append(id(e_.network()) if e_.network() is not None else None)
            if i_ == L_ and ok_:
                viol.append(('fresh', f"run {L_ + 1} of an experiment over a generator limited to {L_} networks went ahead although there was no network left for it")); break
    rem = gen._remaining
    return [f"GEN {'-' if spec['limit'] is None else spec['limit']} {spec['asks']}"], [f"made={len(made)} remaining={rem}"], \
        dict(events=spec['asks'], oracle=viol[:1], exc=None, handlers=[], tags=['genlimit'])


RUNNERS['genlimit'] = run_genlimit
