"""Case generators (JSON-serialisable specs) and direct property oracles for the simulation family."""
import random, math, json
from simlib import *
from epydemic import SIvR, Vaccinate, AddDelete, PulseCoupledOscillator, NetworkStatistics

D = [0.0, 0.125, 0.25, 0.5, 0.75, 1.0]          # dyadic probabilities: exact in Float and in Q


def shipped_params(cls, rnd, extreme=False):
    p = lambda: rnd.choice(D[1:-1] if not extreme else D)
    if cls == 'SIR': return {SIR.P_INFECTED: rnd.choice([0.125, 0.25, 0.5]), SIR.P_INFECT: p(), SIR.P_REMOVE: p()}
    if cls == 'SIS': return {SIS.P_INFECTED: rnd.choice([0.125, 0.25, 0.5]), SIS.P_INFECT: p(), SIS.P_RECOVER: p()}
    if cls == 'SIRS': return {SIR.P_INFECTED: 0.25, SIR.P_INFECT: p(), SIR.P_REMOVE: p(), SIRS.P_RESUSCEPT: p()}
    if cls == 'SEIR': return {SEIR.P_EXPOSED: 0.25, SEIR.P_INFECT_ASYMPTOMATIC: p(), SEIR.P_INFECT_SYMPTOMATIC: p(),
                              SEIR.P_SYMPTOMS: p(), SEIR.P_REMOVE: p()}
    if cls == 'SIR_FixedRecovery': return {SIR.P_INFECTED: 0.25, SIR.P_INFECT: p(), SIR_FixedRecovery.T_INFECTED: rnd.choice([0.5, 1.0, 1.75, 2.5])}
    if cls == 'SIS_FixedRecovery': return {SIS.P_INFECTED: 0.25, SIS.P_INFECT: p(), SIS_FixedRecovery.T_INFECTED: rnd.choice([0.5, 1.0, 1.75, 2.5])}
    if cls == 'Opinion': return {Opinion.P_AFFECTED: 0.25, Opinion.P_AFFECT: p(), Opinion.P_STIFLE: p()}
    if cls == 'SIR_VariableInfection': return {SIR.P_INFECTED: 0.25, SIR.P_REMOVE: p()}
    raise ValueError(cls)


CLASSES = dict(SIR=SIR, SIS=SIS, SIRS=SIRS, SEIR=SEIR, SIR_FixedRecovery=SIR_FixedRecovery, SIS_FixedRecovery=SIS_FixedRecovery,
               Opinion=Opinion, SIR_VariableInfection=SIR_VariableInfection)
SHIPPED = list(CLASSES)


def rand_net(rnd, nmin=2, nmax=8, dens=None, kind=None):
    n = rnd.randint(nmin, nmax); nodes = list(range(n)); rnd.shuffle(nodes)
    kind = kind or rnd.choice(['er', 'er', 'er', 'star', 'complete', 'path'])
    if kind == 'er':
        q = dens if dens is not None else rnd.choice([0.25, 0.45, 0.7])
        edges = [(a, b) for a in range(n) for b in range(a + 1, n) if rnd.random() < q]
    elif kind == 'star': edges = [(0, b) for b in range(1, n)]
    elif kind == 'complete': edges = [(a, b) for a in range(n) for b in range(a + 1, n)]
    else: edges = [(a, a + 1) for a in range(n - 1)]
    rnd.shuffle(edges)
    edges = [[a, b] if rnd.random() < 0.5 else [b, a] for a, b in edges]
    return nodes, edges


def mkproc(p):
    if p['cls'] == 'Script':
        return ScriptProc(p['spec'], p.get('name'))
    if p['cls'] == 'SEIR':
        return SEIR()
    return CLASSES[p['cls']](p['name']) if p.get('name') else CLASSES[p['cls']]()


def fixspec(sp):
    """JSON turns tuples into lists; the scripted process wants tuples for edge elements"""
    sp = dict(sp)
    sp['posts'] = [(t, tuple(e) if isinstance(e, list) else e, h) for (t, e, h) in sp.get('posts', [])]
    sp['handlers'] = [(k, [tuple(a) for a in acts]) for (k, acts) in sp['handlers']]
    sp['edgeloci'] = [tuple(x) for x in sp['edgeloci']]; sp['multiloci'] = [(l, list(rs)) for (l, rs) in sp['multiloci']]
    sp['perel'] = [tuple(x) for x in sp['perel']]; sp['fixed'] = [tuple(x) for x in sp['fixed']]
    return sp


def build_case(spec):
    procs = spec['procs']
    for p in procs:
        if p['cls'] == 'Script': p['spec'] = fixspec(p['spec'])

    def build():
        ps = [mkproc(p) for p in procs]
        if spec.get('seq', 'bare') == 'bare' and len(ps) == 1: return ps[0]
        if spec['seq'] == 'dict': return ProcessSequence({(p.get('name') or f'p{i}'): q for i, (p, q) in enumerate(zip(procs, ps))})
        return ProcessSequence(ps)
    params = {}
    for p in procs: params.update(p.get('params', {}))
    return dict(build=build, dyn=spec['dyn'], nodes=spec['nodes'], edges=[tuple(e) for e in spec['edges']], maxT=spec['maxT'],
                seed=spec['seed'], params=params, specials=spec.get('specials', ()), pspecial=spec.get('pspecial', 0.0),
                oracles=[ORACLES[o] for o in spec.get('oracles', [])])


# ---------------------------------------------------------------------------------------------------------------
# direct oracles, called from the event tap of the real run:  f(dyn, extract, cur, t, p, name, e) -> reason | None
def oracle_clock(d, ex, cur, t, p, name, e):
    """C03: handler time = clock inside the handler = tap time = the event's own time"""
    st = d.__dict__.setdefault('_vp_clock', dict(last=None))
    own = cur['own']
    r = None
    if not (cur['h'] == own and cur['clock'] == own and t == own):
        r = (f"clocks disagree for {'posted' if cur['posted'] else 'stochastic'} event: own={own} handler={cur['h']} "
             f"clock-in-handler={cur['clock']} tap={t}")
    elif st['last'] is not None and own < st['last']:
        r = f"time ran backwards: event at {own} after event at {st['last']}"
    st['last'] = own if st['last'] is None else max(st['last'], own)
    return ('clock', r) if r else None


def oracle_member(d, ex, cur, t, p, name, e):
    """C05: a stochastic event function is only called on a current member of its locus"""
    if not cur['posted'] and not cur['member']:
        return ('member', f"event {name} fired on {e}, which was not in its locus at the call")
    return None


def spec_of_locus(l, g, p):
    if isinstance(l, MultiCompartmentedEdgeLocus):
        L, R = l._left, set(l._rights)
    elif isinstance(l, CompartmentedEdgeLocus):
        L, R = l._left, {l._right}
    elif isinstance(l, CompartmentedNodeLocus):
        return {n for n in g.nodes() if g.nodes[n].get(p.COMPARTMENT) == l._compartment}, None
    else:
        return None, None
    c = lambda n: g.nodes[n].get(p.COMPARTMENT)
    want = set()
    for (a, b) in g.edges():
        if c(a) == L and c(b) in R: want.add((a, b))
        if c(b) == L and c(a) in R: want.add((b, a))
    return want, (L in R)


def check_loci(d, ex):
    """C01: every tracking locus = the set it is declared to track (for L in R: the lenient form)"""
    g = d.network()
    for l in d.loci().values():
        p = l.process()
        if not isinstance(p, CompartmentedModel): continue
        want, both = spec_of_locus(l, g, p)
        if want is None: continue
        have = set(l)
        if not both:
            if have != want:
                return f"locus {l.name()}: holds {sorted(have)} but the network has {sorted(want)}"
        else:
            # an edge qualifying in both directions is present at least once, every stored pair qualifies
            if not have <= want:
                return f"locus {l.name()} (L in R): stale {sorted(have - want)}"
            for (a, b) in want:
                if (a, b) not in have and (b, a) not in have:
                    return f"locus {l.name()} (L in R): missing {(a, b)}"
        if len(l) != len(have): return f"locus {l.name()}: len {len(l)} != {len(have)}"
    return None


def oracle_loci(d, ex, cur, t, p, name, e):
    r = check_loci(d, ex)
    return ('loci', r) if r else None


ORACLES = dict(clock=oracle_clock, member=oracle_member, loci=oracle_loci)


# ---------------------------------------------------------------------------------------------------------------
def gen_shipped(rnd, classes=None, dyn=None, oracles=('clock', 'member', 'loci'), extreme=False, net=None, maxT=None):
    cls = rnd.choice(classes or SHIPPED)
    nodes, edges = net or rand_net(rnd)
    params = shipped_params(cls, rnd, extreme)
    ps = sorted({v for k, v in params.items() if isinstance(v, float) and 0 < v < 1})
    return dict(procs=[dict(cls=cls, name=None, params=params)], seq='bare', dyn=dyn or rnd.choice(['sto', 'syn']), nodes=nodes,
                edges=edges, maxT=maxT or rnd.choice([3.0, 6.0, 12.0]), seed=rnd.random(), specials=ps, pspecial=0.15,
                oracles=list(oracles))


def gen_script_queue(rnd, dyn=None):
    """a scripted process mixing per-element, fixed-rate, posted and self-re-posting events whose handlers call the queue API"""
    ncomp = 2
    nh = rnd.randint(3, 6)
    times = [0.0, 0.5, 1.0, 1.0, 1.5, 2.0, 2.0, 2.5, 3.0, 4.0]
    handlers = []
    for h in range(nh):
        acts = []
        for _ in range(rnd.randint(0, 3)):
            k = rnd.random()
            if k < 0.3: acts.append(['POSTE', rnd.choice([0.0, 0.0, 0.25, 0.5, 1.0, 2.0]), rnd.randrange(nh)])
            elif k < 0.45: acts.append(['POSTABS', rnd.choice(times), rnd.randrange(nh)])
            elif k < 0.65: acts.append(['UNPOST', rnd.randrange(12), rnd.random() < 0.6])
            elif k < 0.8: acts.append(['PENDING', rnd.randrange(12)])
            elif k < 0.9: acts.append(['CLOCK'])
            else: acts.append(['CCL', rnd.randrange(ncomp)])
        handlers.append(['N', acts])
    # keep the process finite: a post for the current time only goes to a handler with a higher index
    for h, (k, acts) in enumerate(handlers):
        acts = [(['POSTE', 0.5, a[2]] if (a[0] == 'POSTE' and a[1] == 0.0 and a[2] <= h) else a) for a in acts]
        acts = [a for a in acts if not (a[0] == 'POSTABS' and a[2] <= h)]      # an absolute-time post may not re-arm its own chain
        handlers[h] = [k, acts]
    nodes, edges = rand_net(rnd, 2, 5)
    posts = [[rnd.choice(times), rnd.choice(nodes), rnd.randrange(nh)] for _ in range(rnd.randint(2, 7))]
    perel = [[0, rnd.choice([0.125, 0.5]), rnd.randrange(nh)]] if rnd.random() < 0.6 else []
    fixed = [[rnd.randrange(2), rnd.choice([0.25, 0.5, 1.0]), rnd.randrange(nh)]] if rnd.random() < 0.5 else []
    sp = dict(comps=[0.5, 0.5], nodeloci=[0, 1], edgeloci=[], multiloci=[], perel=perel, fixed=fixed, handlers=handlers, posts=posts)
    return dict(procs=[dict(cls='Script', name=None, spec=sp)], seq='bare', dyn=dyn or rnd.choice(['sto', 'syn']), nodes=nodes, edges=edges,
                maxT=rnd.choice([3.0, 5.0]), seed=rnd.random(), specials=[0.125, 0.25, 0.5], pspecial=0.1, oracles=['clock', 'member'])


# ---------------------------------------------------------------------------------------------------------------
# C01: histories of process-API calls on a scripted compartmented model (no dynamics loop)
def gen_ops(rnd, nops=30, lin_r=False):
    ncomp = 3
    nodes, edges = rand_net(rnd, 2, 7)
    nodeloci = sorted(rnd.sample(range(ncomp), rnd.randint(1, 3)))
    pairs = [(l, r) for l in range(ncomp) for r in range(ncomp) if (l != r or lin_r)]
    edgeloci = [list(p) for p in rnd.sample(pairs, rnd.randint(1, 3))]
    multiloci = []
    if rnd.random() < 0.6:
        l = rnd.randrange(ncomp); rs = sorted(rnd.sample([c for c in range(ncomp) if (c != l or lin_r)], 2))
        multiloci.append([l, rs])
    sp = dict(comps=[0.5, 0.25, 0.25], nodeloci=nodeloci, edgeloci=edgeloci, multiloci=multiloci, perel=[], fixed=[], handlers=[], posts=[])
    # shadow of the network state, to generate legal operations only
    V = list(nodes); E = {frozenset(e) for e in edges}; hascomp = set(nodes); nxt = max(nodes) + 1
    ops = []
    for _ in range(nops):
        k = rnd.random()
        withc = [n for n in V if n in hascomp]
        if k < 0.35 and withc:
            ops.append(['CC', rnd.choice(withc), rnd.randrange(ncomp)])
        elif k < 0.45 and withc:                       # repeated no-op change is just a CC to the current compartment: drawn often enough
            n = rnd.choice(withc); ops.append(['CC', n, rnd.randrange(ncomp)]); ops.append(list(ops[-1]))
        elif k < 0.55:
            c = None if rnd.random() < 0.2 else rnd.randrange(ncomp)
            ops.append(['ADDNODE', nxt, c]); V.append(nxt)
            if c is not None: hascomp.add(nxt)
            nxt += 1
        elif k < 0.62 and [n for n in V if n not in hascomp]:
            n = rnd.choice([n for n in V if n not in hascomp]); ops.append(['SETC', n, rnd.randrange(ncomp)]); hascomp.add(n)
        elif k < 0.75 and withc:
            n = rnd.choice(withc)                      # includes nodes that still have edges
            ops.append(['RMNODE', n]); V.remove(n); hascomp.discard(n); E = {e for e in E if n not in e}
        elif k < 0.9 and len(withc) >= 1:
            a = rnd.choice(withc); b = rnd.choice(withc) if rnd.random() < 0.9 else a
            ops.append(['ADDEDGE', a, b]); E.add(frozenset((a, b)))      # may be an existing edge, or a self-loop
        elif E:
            e = rnd.choice(sorted(E, key=sorted)); a, b = (sorted(e) * 2)[:2]
            if rnd.random() < 0.5: a, b = b, a
            ops.append(['RMEDGE', a, b]); E.discard(e)
    return dict(mode='ops', procs=[dict(cls='Script', name=None, spec=sp)], nodes=nodes, edges=edges, seed=rnd.random(), ops=ops,
                dyn='sto', maxT=1.0)


def run_ops_case(spec):
    spec = json.loads(json.dumps(spec))
    p0 = spec['procs'][0]; p0['spec'] = fixspec(p0['spec'])
    sr = ScriptedRng(spec['seed']); vrepo.patch_rng(sr)
    proc = ScriptProc(p0['spec'], p0.get('name'))
    proc.setMaximumTime(spec['maxT'])
    d = StochasticDynamics(proc, Gen(spec['nodes'], [tuple(e) for e in spec['edges']]))
    st = {}
    orig_build = proc.build
    cfg = []

    def build(params):
        orig_build(params)
        ex = Extract(proc, d); st['ex'] = ex
        ex.register_script(proc)
        cfg.append(f"NINST 1 " + ('1' if proc.instanceName() is not None else '0'))
        for l in ex.loci: cfg.append(ex.locus_line(l))
        ci = ex.cidx[id(proc)]
        for c, hs in proc._effects.items():
            if c in ci: cfg.append(f"EFFECT 0 {ci[c]} {','.join(str(ex.lidx[id(h[0].__self__)]) for h in hs)}")
        cfg.append(f"S_INITC 0 " + ' '.join(f"{ci[c]}:{fb(pp)}" for c, pp in proc._compartments.items()))
    proc.build = build
    exp = []; info = dict(events=0, oracle=[], exc=None, tags=[])
    d.set(dict())
    d.setUp(d.parameters())
    ex = st['ex']
    exp.append("START " + state_line(d, ex))
    r = check_loci(d, ex)
    if r: info['oracle'].append(('loci', f"after set-up: {r}"))
    inp_ops = []
    for k, op in enumerate(spec['ops']):
        a = tuple(op)
        inp_ops.append("OP " + act_line(a, 0))
        try:
            proc.api(a, 0.0, None)
        except RecursionError:
            raise
        except Exception as ex_:
            info['exc'] = f"op {k} {op}: {type(ex_).__name__}: {ex_}"
            exp.append(f"EXC {type(ex_).__name__}")
            break
        exp.append(f"ST log=[{' '.join(proc.log)}] | " + state_line(d, ex)); proc.log = []
        info['events'] += 1
        if not info['oracle']:
            r = check_loci(d, ex)
            if r: info['oracle'].append(('loci', f"after op {k} {op}: {r}"))
    g0 = Gen(spec['nodes'], [tuple(e) for e in spec['edges']])._generate({})
    inp = ["RESET", "NODES " + ' '.join(map(str, g0.nodes()))]
    for u in g0.nodes(): inp.append(f"ADJ {u} " + ' '.join(map(str, g0.adj[u])))
    inp += cfg + sr.lines + ["OPS"] + inp_ops
    kinds = {o[0] for o in spec['ops']}
    info['tags'] = sorted(kinds) + (['rmnode_with_edges'] if any(o[0] == 'RMNODE' for o in spec['ops']) else [])
    info['handlers'] = []
    return inp, exp, info


RUNNERS = dict(ops=run_ops_case)
