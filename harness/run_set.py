"""Drive the real DrawSet and write protocol + expected output for Driver/Set.lean.
usage: run_set.py OUTDIR SEED MODE [args]
  MODE random NH NOPS | exh K NWORKERS MAXLEN U | orders K NWORKERS | corpus FILE...
Writes OUTDIR/ops.txt, expected.txt, index.json (per history: start line, number of lines, ops, stats)."""
import sys, os, random, json, itertools
import vrepo
from epydemic import DrawSet
import epydemic.bbt as bbt

PAIR = 1000


def enc(k):
    return k[0] * PAIR + k[1] if isinstance(k, tuple) else k


class Script:
    def __init__(self, rnd):
        self.rnd = rnd; self.log = []

    def integers(self, low, high=None):
        if high is None:
            low, high = 0, low
        x = self.rnd.randrange(low, high); self.log.append((high, x)); return x


COUNT = dict(rot=0, two=0)
VIOL = []
_rot = bbt.TreeNode._rotate
_dis = bbt.TreeNode.discard


def _rotate(self):
    COUNT['rot'] += 1
    return _rot(self)


def _discard(self, e):
    if e == self._data and self._left is not None and self._right is not None:
        COUNT['two'] += 1
    return _dis(self, e)


bbt.TreeNode._rotate = _rotate
bbt.TreeNode.discard = _discard


def dump(n):
    if n is None:
        return "-"
    return f"({dump(n._left)} {enc(n._data)}:{n._height}:{n._leftSize}:{n._rightSize} {dump(n._right)})"


def history(rnd, nops):
    U = rnd.choice([4, 8, 16, 64]); pa = rnd.choice([0.35, 0.5, 0.7])
    pair = rnd.random() < 0.3
    def key():
        k = rnd.randrange(U)
        return (k // 4, k % 4) if pair else k
    ops = []
    if rnd.random() < 0.25:
        # the constructor form DrawSet(including[, excluding]), with repeated and excluded elements
        inc = [key() for _ in range(rnd.randint(0, 12))]
        exc = None if rnd.random() < 0.5 else [key() for _ in range(rnd.randint(0, 4))]
        ops.append(('init', inc, exc))
    for _ in range(nops):
        r = rnd.random(); k = key()
        if r < pa: ops.append(('add', k))
        elif r < pa + 0.25: ops.append(('discard', k))
        elif r < pa + 0.35: ops.append(('remove', k))
        elif r < pa + 0.42: ops.append(('in', k))
        elif r < pa + 0.46: ops.append(('len',))
        elif r < pa + 0.48: ops.append(('iter',))
        elif r < pa + 0.50: ops.append(('iter', 'peek'))          # a walk over the set that is abandoned after its first element, then a full one
        else: ops.append(('draw',))
    if rnd.random() < 0.3:   # drain to empty, draw on empty, refill
        ks = sorted({o[1] for o in ops if len(o) > 1 and o[0] not in ('init', 'iter')}, key=enc)
        ops += [('discard', k) for k in ks] + [('draw',), ('len',), ('add', ks[0] if ks else 1), ('add', ks[-1] if ks else 0), ('draw',)]
    return ops


def execute(ops, rnd):
    """run on the real implementation; returns (protocol lines, expected lines, stats)"""
    ds = DrawSet(); sc = Script(rnd); bbt.rng = sc
    COUNT['rot'] = COUNT['two'] = 0
    inp = ["reset"]; exp = ["-"]
    tup = lambda x: tuple(x) if isinstance(x, list) else x
    for op in ops:
        if op[0] == 'init':
            # the elements reach the tree through add(), in the iteration order of a Python set: observe that order
            inc = [tup(x) for x in op[1]]; exc = None if op[2] is None else [tup(x) for x in op[2]]
            seen = []
            orig_add = DrawSet.add

            def rec(self, e):
                orig_add(self, e); seen.append((e, dump(self._root)))
            DrawSet.add = rec
            try:
                ds = DrawSet(inc, exc)
            finally:
                DrawSet.add = orig_add
            for (e, dmp) in seen:
                inp.append(f"add {enc(e)}"); exp.append(dmp)
            want = set(inc) - set(exc or [])
            inp.append("len"); exp.append(f"{len(ds)} empty={'true' if ds.empty() else 'false'}")
            inp.append("iter"); exp.append("[" + ", ".join(str(enc(x)) for x in ds) + "]")
            if sorted(map(enc, ds)) != sorted(map(enc, want)) or len(ds) != len(want):
                VIOL.append(f"DrawSet({inc}, {exc}) holds {[enc(x) for x in ds]} (len {len(ds)}), the set is {sorted(map(enc, want))}")
            continue
        op = tuple(tuple(x) if isinstance(x, list) else x for x in op)
        try:
            if op[0] == 'add':
                inp.append(f"add {enc(op[1])}"); ds.add(op[1]); exp.append(dump(ds._root))
            elif op[0] == 'discard':
                inp.append(f"discard {enc(op[1])}"); ds.discard(op[1]); exp.append(dump(ds._root))
            elif op[0] == 'remove':
                inp.append(f"remove {enc(op[1])}")
                try:
                    ds.remove(op[1]); exp.append(dump(ds._root))
                except KeyError:
                    exp.append("KeyError")
            elif op[0] == 'in':
                inp.append(f"in {enc(op[1])}"); exp.append("true" if op[1] in ds else "false")
            elif op[0] == 'len':
                inp.append("len"); exp.append(f"{len(ds)} empty={'true' if ds.empty() else 'false'}")
            elif op[0] == 'iter':
                if len(op) > 1:
                    for _x in ds: break
                    next(iter(ds), None)
                inp.append("iter"); exp.append("[" + ", ".join(str(enc(x)) for x in ds) + "]")
            elif op[0] == 'draw':
                sc.log = []
                try:
                    r = ds.draw(); out = f"{enc(r)} used={len(sc.log)}"
                except ValueError:
                    out = "ValueError"
                inp.append(("draw " + " ".join(f"{h}:{x}" for h, x in sc.log)).strip()); exp.append(out)
        except RecursionError:
            raise
        except Exception as ex:   # the real code raised where a set would not: keep the line count aligned
            exp.append(f"EXC {type(ex).__name__}")
    return inp, exp, dict(rot=COUNT['rot'], two=COUNT['two'])


def loci_as_sets(ops):
    """'and therefore every locus': the same history on an object of each locus class, judged against a Python set (membership, length,
    emptiness, KeyError, ascending iteration, draw from the current members)"""
    from epydemic import Locus
    from epydemic.compartmentedmodel import CompartmentedNodeLocus, CompartmentedEdgeLocus
    from epydemic.opinion_model import MultiCompartmentedEdgeLocus
    mk = [('Locus', lambda: Locus('x')), ('CompartmentedNodeLocus', lambda: CompartmentedNodeLocus('x', 'c')),
          ('CompartmentedEdgeLocus', lambda: CompartmentedEdgeLocus('x', 'l', 'r')),
          ('MultiCompartmentedEdgeLocus', lambda: MultiCompartmentedEdgeLocus('x', 'l', ['r', 'q']))]
    tup = lambda x: tuple(x) if isinstance(x, list) else x
    for (nm, f) in mk:
        try:
            l = f(); ref = set()
            for k, op in enumerate(ops):
                if op[0] == 'init': continue
                e = tup(op[1]) if len(op) > 1 else None
                what = None
                if op[0] == 'add': l.add(e); ref.add(e)
                elif op[0] == 'discard': l.discard(e); ref.discard(e)
                elif op[0] == 'remove':
                    try:
                        l.remove(e); ok = True
                    except KeyError:
                        ok = False
                    if ok != (e in ref): what = f"remove({e}) {'succeeded' if ok else 'raised KeyError'}, the set {'does not hold' if ok else 'holds'} it"
                    ref.discard(e)
                elif op[0] == 'iter' and len(op) > 1:
                    for _x in l: break
                elif op[0] == 'in':
                    if (e in l) != (e in ref): what = f"{e} in locus is {e in l}, in the set {e in ref}"
                elif op[0] == 'draw':
                    try:
                        r = l.draw()
                        if r not in ref: what = f"draw() returned {r}, not a member of {sorted(ref, key=enc)}"
                    except ValueError:
                        if ref: what = "draw() raised ValueError on a non-empty set"
                if what is None and (len(l) != len(ref) or l.empty() != (not ref) or [enc(x) for x in l] != sorted(enc(x) for x in ref)):
                    what = f"holds {[enc(x) for x in l]} (len {len(l)}, empty {l.empty()}), a set would hold {sorted(enc(x) for x in ref)}"
                if what:
                    return f"{nm} after {k + 1} operations ({' '.join(map(str, op))}): {what}"
        except RecursionError:
            raise
        except Exception as ex:
            return f"{nm}: {type(ex).__name__}: {ex}"
    return None


def cost_check():
    """'every operation visits O(log n) entries': on a set of 2048 elements that count the comparisons made with them, a membership test, an
    insertion, a removal and a discard of an absent element each make at most 8*log2(n) comparisons (the unchanged code: about 2*log2(n))"""
    import math
    n = 2048; cnt = [0]

    class K:
        __slots__ = ('v',)
        def __init__(self, v): self.v = v
        def __lt__(self, o): cnt[0] += 1; return self.v < o.v
        def __gt__(self, o): cnt[0] += 1; return self.v > o.v
        def __le__(self, o): cnt[0] += 1; return self.v <= o.v
        def __ge__(self, o): cnt[0] += 1; return self.v >= o.v
        def __eq__(self, o): cnt[0] += 1; return isinstance(o, K) and self.v == o.v
        def __ne__(self, o): cnt[0] += 1; return not (isinstance(o, K) and self.v == o.v)
        def __hash__(self): return hash(self.v)
    rr = random.Random(5)
    vals = list(range(0, 2 * n, 2)); rr.shuffle(vals)
    ds = DrawSet()
    for v in vals: ds.add(K(v))
    bound = 8 * int(math.log2(n))
    for (what, f) in [("a membership test of the largest element", lambda: K(2 * n - 2) in ds), ("a membership test of an absent element", lambda: K(n + 1) in ds),
                      ("an insertion", lambda: ds.add(K(n - 1))), ("a removal", lambda: ds.remove(K(n - 1))), ("a discard of an absent element", lambda: ds.discard(K(3)))]:
        cnt[0] = 0
        try:
            f()
        except Exception as ex:
            return f"{what} on a set of {n} elements raised {type(ex).__name__}"
        if cnt[0] > bound:
            return f"{what} on a set of {n} elements made {cnt[0]} comparisons (8*log2(n) = {bound})"
    return None


def exhaustive(k, nw, maxlen, U):
    kinds = [(o, e) for o in ('add', 'discard', 'remove') for e in range(U)]
    i = 0
    for n in range(1, maxlen + 1):
        for h in itertools.product(kinds, repeat=n):
            if i % nw == k:
                yield list(h)
            i += 1


def orders(k, nw):
    i = 0
    for n in range(1, 8):                       # every insertion order of {0..n-1}, n <= 7
        for p in itertools.permutations(range(n)):
            if i % nw == k:
                yield [('add', x) for x in p] + [('iter',)]
            i += 1
    for p in itertools.permutations(range(5)):  # every 5-element tree shape reachable x every deletion order
        for q in itertools.permutations(range(5)):
            if i % nw == k:
                yield [('add', x) for x in p] + [('discard', x) for x in q]
            i += 1


if __name__ == '__main__':
    out, seed, mode = sys.argv[1], int(sys.argv[2]), sys.argv[3]
    rnd = random.Random(seed)
    if mode == 'random':
        nh, nops = int(sys.argv[4]), int(sys.argv[5])
        cases = (history(rnd, nops) for _ in range(nh))
    elif mode == 'exh':
        cases = exhaustive(int(sys.argv[4]), int(sys.argv[5]), int(sys.argv[6]), int(sys.argv[7]))
    elif mode == 'orders':
        cases = orders(int(sys.argv[4]), int(sys.argv[5]))
    elif mode == 'corpus':
        cases = (json.load(open(f))['history'] for f in sys.argv[4:])
    keep_hist = mode in ('random', 'corpus')
    if mode == 'random':
        w = cost_check()
        if w: VIOL.append(dict(msg=w, history=None))
    index = []; nlines = 0
    with open(os.path.join(out, 'ops.txt'), 'w') as fi, open(os.path.join(out, 'expected.txt'), 'w') as fe:
        for ops in cases:
            i, e, st = execute(ops, rnd)
            if keep_hist and len(VIOL) < 3:
                w = loci_as_sets(ops)
                if w: VIOL.append(dict(msg=w, history=ops))
            index.append(dict(start=nlines, n=len(i), rot=st['rot'], two=st['two'], ops=ops if keep_hist else None,
                              key=None if keep_hist else hash(json.dumps(ops))))
            nlines += len(i)
            fi.write("\n".join(i) + "\n"); fe.write("\n".join(e) + "\n")
    json.dump(dict(mode=mode, args=sys.argv[4:], index=index, viol=VIOL[:3]), open(os.path.join(out, 'index.json'), 'w'))
