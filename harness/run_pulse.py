"""Worker for C20 (pulse-coupled oscillators): run the real PulseCoupledOscillator with scripted initial states under either
dynamics, write the model's input (Driver/Pulse.lean) and the expected output; run the direct oracle beside it.
usage: run_pulse.py OUTDIR SEED PROFILE N | run_pulse.py OUTDIR SEED replay FILE"""
import sys, os, json, random, struct, signal, math
import vrepo
import networkx as nx
from epydemic import PulseCoupledOscillator, StochasticDynamics, SynchronousDynamics, Dynamics, FixedNetwork


def bits(x):
    return struct.unpack('>Q', struct.pack('>d', float(x)))[0]


class Scripted:
    def __init__(self, vals):
        self.vals = list(vals); self.lines = []

    def random(self):
        x = self.vals.pop(0); self.lines.append(f"RF {bits(x)}"); return x

    def integers(self, *a):
        raise AssertionError("no integer draws expected")


class CaseTimeout(BaseException):
    pass


def _alarm(*a):
    raise CaseTimeout()


def gen(rnd, complete=None):
    n = rnd.randint(2, 7)
    nodes = list(range(n)); rnd.shuffle(nodes)
    comp = (rnd.random() < 0.45) if complete is None else complete
    if comp: edges = [(a, b) for a in range(n) for b in range(a + 1, n)]
    else:
        q = rnd.choice([0.3, 0.5, 0.8])
        edges = [(a, b) for a in range(n) for b in range(a + 1, n) if rnd.random() < q]
    rnd.shuffle(edges)
    if not comp and rnd.random() < 0.15:
        v = rnd.randrange(n); edges.insert(rnd.randrange(len(edges) + 1), (v, v))        # an oscillator coupled to itself
    period = rnd.choice([1.0, 1.0, 2.0, 0.5, 1.5, 0.7, 3.0])
    if rnd.random() < 0.25: period = rnd.choice([0.333333, 1 / 3, 0.7142843, 0.123456, 1.2345678, 2.000003])      # not multiples of the 1e-5 grid firing times are rounded to
    b = rnd.choice([1.0, 2.0, 0.5, 3.0, 0.25, 0.1])
    coupling = rnd.choice([0.01, 0.05, 0.1, 0.25, 0.5, 1.0, 0.0, 1e-6])        # (also no coupling at all, and one below the 1e-5 phase quantum)
    pool = [rnd.random() for _ in range(3)]
    states = [rnd.choice(pool) if rnd.random() < 0.4 else rnd.choice([rnd.random(), rnd.randrange(1, 1 << 20) / (1 << 20), 0.5, 1e-9, 1 - 1e-9])
              for _ in nodes]
    prior = rnd.choice([None, None, None, 'setup_exc', 'interrupt', 'normal', 'cascade_exc', 'cascade_exc'])
    return dict(fault_at=rnd.randint(2, 9), prior=prior, prior_states=[rnd.random() for _ in nodes], nodes=nodes, edges=[list(e) for e in edges], complete=comp, period=period, b=b, coupling=coupling, states=states,
                dyn=rnd.choice(['sto', 'syn']), maxT=rnd.choice([2.0, 3.0, 5.0]) * max(1.0, period))


def run(spec):
    import epydemic.pulsecoupled as pm
    sr = Scripted(spec['states'])
    pm.rng = sr
    g = nx.Graph(); g.add_nodes_from(spec['nodes']); g.add_edges_from([tuple(e) for e in spec['edges']])
    p = PulseCoupledOscillator()
    p.setMaximumTime(spec['maxT'])
    Dyn = StochasticDynamics if spec['dyn'] == 'sto' else SynchronousDynamics
    exp = []; viol = []; perms = []; info = dict(events=0, exc=None)
    period = spec['period']
    st = dict(taps=[], groups=None)

    def vio(msg, offgrid=False):
        if not viol: viol.append(('pulse-offgrid' if offgrid else 'pulse', msg))

    orig_cascade = p.cascade

    def cascade(t, n, m):
        perms[-1].append(m)
        if st.get('cascade_fault') is not None:
            st['cascade_fault'] -= 1
            if st['cascade_fault'] <= 0:
                st['cascade_fault'] = None
                raise RuntimeError('injected in the middle of a cascade')
        return orig_cascade(t, n, m)
    p.cascade = cascade
    orig_fired = p.fired

    def fired(t, n):
        perms.append([])
        return orig_fired(t, n)
    p.fired = fired          # (setFiringTime posts self.fired: the instance attribute)

    def state_line(d):
        pend = ' '.join(f"{i}:{bits(t)}" for (t, i) in sorted((ev[0], i) for i, ev in d._postedEventFinder.items()))
        gg = d.network()
        ev = ' '.join(f"{n}:{gg.nodes[n].get(p.NODE_EVENT_ID, '-')}" for n in gg.nodes())
        return f"pend=[{pend}] evid=[{ev}]"

    def check(d, now, firedn=None):
        gg = d.network()
        ids = [gg.nodes[n].get(p.NODE_EVENT_ID) for n in gg.nodes()]
        fin = d._postedEventFinder
        if any(i is None for i in ids): return vio(f"a node has no firing event at t={now}")
        if len(set(ids)) != len(ids): return vio(f"two nodes share a firing event at t={now}")
        if set(fin.keys()) != set(ids):
            return vio(f"at t={now} pending event ids {sorted(fin.keys())} are not exactly the nodes' firing events {sorted(ids)} (a node with no or more than one scheduled firing)")
        for n in gg.nodes():
            ft = d.pendingEventTime(gg.nodes[n][p.NODE_EVENT_ID])
            if ft > now + period + 0.5e-5 + 1e-12: return vio(f"node {n} is due at {ft}, more than one period ({period}) after t={now}")
            if ft < now: return vio(f"node {n} is due at {ft}, before the current time {now}")
        if firedn is not None:
            ft = d.pendingEventTime(gg.nodes[firedn][p.NODE_EVENT_ID])
            if ft != round(now + period, 5): return vio(f"node {firedn} fired at {now} and is rescheduled for {ft}, not one period ({period}) later")
        # known finding K4: for a period below 1 that is not a multiple of 1e-5 a node that has just fired reads back phase 1e-5, is bumped by the
        # nodes firing at the same instant, and a synchronised group splits until its next firing; the clause is judged there only in the
        # recorded replay (spec['k4']), under its own signature
        offgrid = period < 1.0 and abs(round(period, 5) - period) > 1e-12
        if spec['complete'] and (not offgrid or spec.get('k4')):
            ph = [p.getPhase(now, n, normalise=True) for n in gg.nodes()]
            cnt = {}
            for x in ph: cnt[x] = cnt.get(x, 0) + 1
            cur = (len(cnt), max(cnt.values()))
            if st['groups'] is not None:
                if cur[0] > st['groups'][0]: return vio(f"complete network, period {period}: distinct phases went from {st['groups'][0]} to {cur[0]} at t={now}", offgrid)
                if cur[1] < st['groups'][1]: return vio(f"complete network, period {period}: largest synchronised group shrank from {st['groups'][1]} to {cur[1]} at t={now}", offgrid)
            st['groups'] = cur

    class D(Dyn):
        def simulationStarted(self, params):
            exp.append("START " + state_line(self)); check(self, 0.0)

        def eventFired(self, t, pr, name, e):
            info['events'] += 1
            if st.get('interrupt_at') == info['events']: raise KeyboardInterrupt()
            st['taps'].append((t, e, name))
            if info['events'] > 600: raise CaseTimeout()
            exp.append(f"EV own={bits(t)} h={bits(t)} clock={bits(self.currentSimulationTime())} tap={bits(t)} id={st.get('lastid', 0)} n={e} | " + state_line(self))
            check(self, t, firedn=e)

        # the id of the event being fired: read it as it is popped
        def nextPendingEventBefore(self, t):
            r = super().nextPendingEventBefore(t)
            return r

    d = D(p, FixedNetwork(g))
    # ids of fired events: the tap does not see them; take them from the node attribute before the handler replaces it
    orig_fired2 = p.fired

    def fired_id(t, n):
        st['lastid'] = d.network().nodes[n].get(p.NODE_EVENT_ID, 0)
        return orig_fired2(t, n)
    p.fired = fired_id
    params = {PulseCoupledOscillator.PERIOD: period, PulseCoupledOscillator.B: spec['b'], PulseCoupledOscillator.COUPLING: spec['coupling']}
    if spec.get('prior'):
        # an earlier run on the same experiment object that ended abnormally (or normally); then forget what was recorded
        sr.vals = list(spec['prior_states']) + sr.vals
        orig_init = p.initialisePhases
        if spec['prior'] == 'setup_exc':
            def bad():
                orig_init(); raise RuntimeError('injected in set-up')
            p.initialisePhases = bad
        if spec['prior'] == 'interrupt': st['interrupt_at'] = 2
        if spec['prior'] == 'cascade_exc': st['cascade_fault'] = spec.get('fault_at', 3)       # the run dies inside an event handler, part of a cascade done
        try:
            rc0 = d.set(params).run(fatal=True)
            import copy
            st['handed'] = (rc0['results'], copy.deepcopy(rc0['results']))
        except (RuntimeError, KeyboardInterrupt):
            pass
        p.initialisePhases = orig_init
        st.pop('interrupt_at', None); st['cascade_fault'] = None
        handed = st.pop('handed', None)
        exp.clear(); perms.clear(); viol.clear(); sr.lines.clear(); info['events'] = 0; st['taps'] = []; st['groups'] = None; st.pop('lastid', None)
        st['handed'] = handed
    try:
        rc = d.set(params).run(fatal=True)
        res = rc['results'] if 'results' in rc else rc[list(rc)[-1]]
        md = rc['metadata']
        ft = res[PulseCoupledOscillator.FIRING_TIMES]; fn = res[PulseCoupledOscillator.FIRING_NODES]; ph = res[PulseCoupledOscillator.PHASES]
        exp.append(f"END t={bits(md[Dynamics.TIME])} events={md[Dynamics.EVENTS]} clock={bits(d.currentSimulationTime())} "
                   f"phases=[{' '.join(str(bits(x)) for x in ph)}] ftimes=[{' '.join(str(bits(x)) for x in ft)}] fnodes=[{' '.join(map(str, fn))}]")
        if len(ft) != len(fn): vio(f"{len(ft)} firing times but {len(fn)} firing nodes")
        if any(a > b for a, b in zip(ft, ft[1:])): vio("recorded firing times decrease")
        taps = [(t, e) for (t, e, nm) in st['taps'] if nm == PulseCoupledOscillator.FIRED]
        if len(taps) != len(st['taps']): vio("an event other than a firing was delivered to the tap")
        if taps != list(zip(ft, fn)): vio(f"the firing log {list(zip(ft, fn))[:6]}... does not match the firing events delivered to the tap {taps[:6]}...")
        if any(not (0.0 <= x <= 1.0) for x in ph): vio(f"final phases {ph} not all in [0, 1]")
        if len(ph) != len(spec['nodes']): vio("final phases do not cover the nodes")
        if st.get('handed') is not None and st['handed'][0] != st['handed'][1]:
            vio("the results returned by an earlier run on the same process were changed by the later run")
    except CaseTimeout:
        raise
    except Exception as ex:
        info['exc'] = f"{type(ex).__name__}: {ex}"
        exp.append(f"EXC {type(ex).__name__}")
        vio(f"the run raised {type(ex).__name__}: {ex}")
    inp = ["RESET", "NODES " + ' '.join(map(str, g.nodes()))]
    for u in g.nodes(): inp.append(f"ADJ {u} " + ' '.join(map(str, g.adj[u])))
    inp.append(f"PARAMS {bits(period)} {bits(spec['b'])} {bits(spec['coupling'])}")
    inp += sr.lines
    inp += ["PERM " + ' '.join(map(str, pm_)) for pm_ in perms]
    inp.append(f"RUN {spec['dyn']} {bits(spec['maxT'])}")
    return inp, exp, info, viol


def gen_round(rnd):
    k = rnd.choice([0, 1, 2, 3])
    if k == 0: x = rnd.random() * rnd.choice([1, 10, 100])
    elif k == 1: x = rnd.randrange(0, 10 ** 7) / 1e5 + rnd.choice([0.0, 5e-6, -5e-6, 4.9999e-6, 1e-12])
    elif k == 2: x = (2 * rnd.randrange(0, 10 ** 6) + 1) / 2e5          # a tie in decimal, as near as a double gets
    else: x = rnd.choice([0.0, 1.0, 0.5, 1e-5, 5e-6, 1.5e-5, 2.5e-5, 0.000005, 0.999995, 1.000005, 2.675, 1e-300, 123456.789012])
    return dict(runner='round', x=x)


def run_round(spec):
    x = spec['x']
    return [f"ROUND {bits(x)}"], [str(bits(round(x, 5)))], dict(events=1), []


def gen2(rnd):
    sp = gen(rnd); sp['runner'] = 'pulse2'; sp['period2'] = rnd.choice([1.0, 2.0, 0.5, 1.5]); sp['states2'] = [rnd.random() for _ in sp['nodes']]
    sp['prior'] = None
    return sp


def run2(spec):
    """two named oscillator populations over one network (oracle only: the model carries one population): each keeps its own one
    pending firing per node, and neither disturbs the other's"""
    import epydemic.pulsecoupled as pm
    from epydemic import ProcessSequence
    sr = Scripted(list(spec['states']) + list(spec['states2'])); pm.rng = sr
    g = nx.Graph(); g.add_nodes_from(spec['nodes']); g.add_edges_from([tuple(e) for e in spec['edges']])
    a = PulseCoupledOscillator('fast'); b = PulseCoupledOscillator('slow')
    top = ProcessSequence([a, b]); top.setMaximumTime(spec['maxT'])
    Dyn = StochasticDynamics if spec['dyn'] == 'sto' else SynchronousDynamics
    viol = []; info = dict(events=0, exc=None)

    def vio(msg):
        if not viol: viol.append(('pulse', msg))

    def check(d, now):
        gg = d.network(); fin = d._postedEventFinder
        ids = []
        for q in (a, b):
            mine = [gg.nodes[n].get(q.NODE_EVENT_ID) for n in gg.nodes()]
            if any(i is None for i in mine): return vio(f"at t={now} a node has no firing event of population {q.instanceName()}")
            if any(i not in fin for i in mine): return vio(f"at t={now} a firing event of population {q.instanceName()} is not pending (un-posted or overwritten by the other population)")
            ids += mine
        if len(set(ids)) != len(ids) or set(ids) != set(fin): return vio(f"at t={now} the pending events {sorted(fin)} are not exactly one per node and population {sorted(ids)}")

    class D(Dyn):
        def simulationStarted(self, params): check(self, 0.0)

        def eventFired(self, t, pr, name, e):
            info['events'] += 1
            if info['events'] > 600: raise CaseTimeout()
            check(self, t)
    d = D(top, FixedNetwork(g))
    P = PulseCoupledOscillator
    params = {P.PERIOD + '@fast': spec['period'], P.PERIOD + '@slow': spec['period2'], P.B: spec['b'], P.COUPLING: spec['coupling']}
    try:
        rc = d.set(params).run(fatal=True)
        res = rc['results']
        for q in (a, b):
            ft = res.get(q.decoratedNameInInstance(P.FIRING_TIMES) if hasattr(q, 'decoratedNameInInstance') else P.FIRING_TIMES)
            if ft is not None and any(x > y for x, y in zip(ft, ft[1:])): vio(f"firing times of population {q.instanceName()} decrease")
    except CaseTimeout:
        raise
    except Exception as ex:
        info['exc'] = f"{type(ex).__name__}: {ex}"; vio(f"the run raised {type(ex).__name__}: {ex}")
    return ["ROUND 0"], ["0"], info, viol


PROFILES = dict(pulse2=gen2, pulse=lambda rnd: dict(gen(rnd), runner='pulse'), pulse_complete=lambda rnd: dict(gen(rnd, complete=True), runner='pulse'),
                round=gen_round)
RUNNERS = dict(pulse=run, round=run_round, pulse2=run2)


def main():
    out, seed, prof = sys.argv[1], int(sys.argv[2]), sys.argv[3]
    rnd = random.Random(seed)
    if prof == 'replay': specs = json.load(open(sys.argv[4]))
    else: specs = [PROFILES[prof](rnd) for _ in range(int(sys.argv[4]))]
    signal.signal(signal.SIGALRM, _alarm)
    index = []; nexp = 0; viol = []; discarded = 0
    with open(os.path.join(out, 'ops.txt'), 'w') as fi, open(os.path.join(out, 'expected.txt'), 'w') as fe:
        for spec in specs:
            sj = json.loads(json.dumps(spec))
            signal.alarm(20)
            try:
                inp, exp, info, v = RUNNERS[spec.get('runner', 'pulse')](spec)
            except CaseTimeout:
                discarded += 1; continue
            finally:
                signal.alarm(0)
            for (kind, reason) in v: viol.append(dict(spec=sj, oracle=kind, reason=reason))
            index.append(dict(start=nexp, n=len(exp), spec=sj, events=info.get('events', 0), exc=info.get('exc'),
                              tags=[spec.get('runner', 'pulse'), 'complete' if spec.get('complete') else 'other']))
            nexp += len(exp)
            fi.write("\n".join(inp) + "\n"); fe.write("\n".join(exp) + "\n")
    json.dump(dict(index=index, violations=viol, timeouts=discarded), open(os.path.join(out, 'index.json'), 'w'))


if __name__ == '__main__':
    main()
