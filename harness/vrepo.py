"""Import epydemic from the tree under test (VERIF_REPO, default /repo) and make sure that is what we got."""
import os, sys
REPO = os.path.realpath(os.environ.get('VERIF_REPO', '/repo'))
if sys.path[0] != REPO:
    sys.path.insert(0, REPO)
import epydemic  # noqa: E402
_got = os.path.realpath(epydemic.__file__)
assert _got.startswith(REPO + os.sep), f"epydemic imported from {_got}, expected under {REPO}"


def patch_rng(script):
    """Replace the module-level name `rng` in every loaded epydemic module (each did `from epydemic import rng`)
    and the module-level name `numpy` where a module calls numpy.random.shuffle through it."""
    n = 0
    for name, m in list(sys.modules.items()):
        if m is not None and (name == 'epydemic' or name.startswith('epydemic.')):
            if hasattr(m, 'rng'):
                setattr(m, 'rng', script); n += 1
    return n
