"""C17 worker: network generating functions against the Lean model (exact rationals reconstructed from the floats, which must be
within 1e-12), and the analytic families (ER, PLC) against high-precision Poisson / polylog values (numerical oracle).
usage: run_gf17.py OUTDIR SEED PROFILE N | run_gf17.py OUTDIR SEED replay FILE"""
import sys, os, json, random, math
from fractions import Fraction as F
import vrepo
import networkx as nx
import mpmath
from epydemic.gf import gf_from_network, gf_er, gf_plc

TOL_NET = 1e-12


def fr(x):
    x = F(x)
    return f"{x.numerator}/{x.denominator}" if x.denominator != 1 else f"{x.numerator}"


def gen_net(rnd):
    n = rnd.randint(1, 12)
    kind = rnd.choice(['er', 'er', 'hub', 'iso', 'loop', 'regular'])
    gtype = rnd.choice(['graph', 'graph', 'graph', 'multi', 'di'])          # also multigraphs with repeated edges and directed graphs (degree = in + out)
    if rnd.random() < 0.04:
        # a single hub whose degree exceeds the 301 terms evaluate() adds up when no largest term is given
        n = rnd.choice([302, 303, 350, 420]); kind = 'hub'
    if kind == 'er': es = [[a, b] for a in range(n) for b in range(a + 1, n) if rnd.random() < rnd.choice([0.1, 0.3, 0.6])]
    elif kind == 'hub': es = [[0, b] for b in range(1, n)]
    elif kind == 'iso': es = [[0, 1]] if n > 1 else []
    elif kind == 'loop': es = [[a, a] for a in range(n) if rnd.random() < 0.3] + [[a, (a + 1) % n] for a in range(n) if n > 2]
    else: es = [[a, (a + 1) % n] for a in range(n)] if n > 2 else []
    spec = dict(kind='net', n=n, edges=es, gtype=gtype if n <= 12 else 'graph')
    if spec['gtype'] == 'multi' and es: spec['edges'] = es + [rnd.choice(es) for _ in range(rnd.randint(1, 3))]
    if rnd.random() < 0.4 and 3 <= n <= 12:
        # the same graph object had other edges before (same node count, usually the same edge count) and was read then
        prior = []
        for _ in range(rnd.choice([1, 1, 2])):
            m = len(es) if rnd.random() < 0.75 else rnd.randint(0, n)
            pairs = [[a, b] for a in range(n) for b in range(a + 1, n)]
            rnd.shuffle(pairs)
            prior.append(pairs[:m])
        spec['prior'] = prior
    return spec


def run_net(spec):
    n = spec['n']
    g = {'graph': nx.Graph, 'multi': nx.MultiGraph, 'di': nx.DiGraph}[spec.get('gtype', 'graph')](); g.add_nodes_from(range(n))
    for es in spec.get('prior', []):
        g.add_edges_from([tuple(e) for e in es])
        try:
            h = gf_from_network(g); h[0]; h[1]
        except Exception:
            pass
        g.remove_edges_from(list(g.edges()))
    g.add_edges_from([tuple(e) for e in spec['edges']])
    ds = [d for (_, d) in g.degree()]
    N = g.order(); M = g.number_of_edges()
    viol = []; exp = []
    try:
        gf = gf_from_network(g)
        maxk = max(ds)
        cs = []
        for i in range(maxk + 1):
            c = gf[i]; k = round(c * N)
            if abs(c - k / N) > TOL_NET: viol.append(f"coefficient {i} is {c}, not a multiple of 1/{N}")
            cs.append(F(k, N))
            true = sum(1 for d in ds if d == i)
            if not viol and k != true: viol.append(f"coefficient {i} = {c} = {k}/{N} but {true} of {N} nodes have degree {i}")
        if not viol and gf[maxk + 1] != 0: viol.append(f"coefficient {maxk + 1} beyond the maximum degree is {gf[maxk + 1]}")
        one = gf(1.0)
        if not viol and abs(one - 1.0) > 1e-9: viol.append(f"G(1) = {one}")
        d1 = gf.dx()(1.0)
        if not viol and abs(d1 - 2 * M / N) > 1e-9: viol.append(f"G'(1) = {d1}, mean degree 2M/N = {2 * M / N}")
        for k in (1, 2):
            for i in range(0, maxk + 1):
                if i + k <= maxk + 1 and not viol:
                    want = float((cs[i + k] if i + k <= maxk else 0) * F(math.factorial(i + k), math.factorial(i)))
                    got = gf.dx(k)[i]
                    if abs(got - want) > 1e-9 * max(1, abs(want)): viol.append(f"dx({k})[{i}] = {got}, expected {want}")
        mean = sum(F(i) * c for i, c in enumerate(cs))
        exp.append(f"COEFFS {' '.join(fr(c) for c in cs)} SUM {fr(sum(cs, F(0)))} MEAN {fr(mean)}")
    except Exception as ex:
        exp.append(f"EXC {type(ex).__name__}"); viol.append(f"gf_from_network raised {type(ex).__name__}: {ex}")
    inp = ["NET " + ' '.join(map(str, ds))]
    return inp, exp, dict(samples=len(ds), M=M), [('netgf', v) for v in viol[:1]]


def gen_analytic(rnd):
    fam = rnd.choice(['er', 'er', 'er', 'plc'])
    o = rnd.choice([1, 2, 3]); c = rnd.choice([0.5, 3.0, 0.25, -1.0, -2.5])
    if fam == 'er' and rnd.random() < 0.3:
        # derivatives of high order (index + order up to 60), at mean degrees where the coefficients involved are not negligible
        o = rnd.choice([11, 16, 21, 25, 30, 40])
        return dict(kind='analytic', fam='er', kmean=rnd.choice([10.0, 15.0, 20.0]), idx=sorted(rnd.sample(range(0, 60 - o), 2)), order=o, c=c)
    if fam == 'er':
        return dict(kind='analytic', fam='er', kmean=rnd.choice([0.5, 1.0, 2.0, 5.0, 10.0, 20.0, round(rnd.uniform(0.1, 20), 3)]),
                    idx=sorted(rnd.sample(range(0, 58), 2)), order=o, c=c)
    return dict(kind='analytic', fam='plc', exponent=rnd.choice([2.0, 2.5, 3.0, 3.5]), cutoff=rnd.choice([5.0, 10.0, 30.0, 60.0]),
                idx=[rnd.randrange(1, 40)], order=rnd.choice([1, 2]), c=c)


def run_analytic(spec):
    """purely numerical: no model line.  Every case is tried plain, differentiated, scaled, and both ways round."""
    mpmath.mp.dps = 40
    viol = []
    try:
        if spec['fam'] == 'er':
            k = spec['kmean']; gf = gf_er(1000, kmean=k)
            p = lambda i: mpmath.e ** (-k) * mpmath.mpf(k) ** i / mpmath.factorial(i)
        else:
            a, cut = spec['exponent'], spec['cutoff']; gf = gf_plc(a, cut)
            Z = mpmath.polylog(a, mpmath.e ** (-1 / mpmath.mpf(cut)))
            p = lambda i: (mpmath.mpf(i) ** (-a) * mpmath.e ** (-i / mpmath.mpf(cut)) / Z) if i >= 1 else mpmath.mpf(0)
        O, C = spec['order'], spec['c']
        variants = [(0, 1.0, 'plain', gf), (O, 1.0, f'dx({O})', gf.dx(O)), (0, C, f'* {C}', gf * C),
                    (O, C, f'dx({O}) then * {C}', gf.dx(O) * C), (O, C, f'* {C} then dx({O})', (gf * C).dx(O)),
                    (O, 1 / C, f'dx({O}) then / {C}', gf.dx(O) / C)]
        for (o, c, what, h) in variants:
            if viol: break
            for i in spec['idx']:
                if i + o > 60: continue
                fac = mpmath.factorial(i + o) / mpmath.factorial(i)
                want = c * p(i + o) * fac
                # what the contour sum with n points returns in exact arithmetic is a_m + a_{m+n} + a_{m+2n} + ... (roots-of-unity filter):
                # the inherent part of the "numerical tolerance"; allow ten times it plus float noise
                npts = int(math.ceil((i + 1) / 99) * 100)
                alias = c * fac * sum(p(i + o + j * npts) for j in range(1, 6))
                got = h[i]
                # (float noise of about 1e-16 on the Taylor coefficient itself is multiplied by (i+o)!/i! like everything else)
                if abs(got - want) > 10 * abs(alias) + 1e-6 * abs(want) + 1e-9 + abs(c) * fac * 1e-12:
                    viol.append(f"{spec['fam']} {dict((k_, v) for k_, v in spec.items() if k_ in ('kmean', 'exponent', 'cutoff'))} {what}: "
                                f"coefficient {i} = {got}, Taylor coefficient {mpmath.nstr(want, 12)}")
                    break
            # (values at 1 of derivatives of high order are dominated by cancellation in the 100-point contour sum: 7e-5 relative at order 40 on
            #  the unchanged code; they are judged for the low orders only)
            if spec['fam'] == 'er' and not viol and o <= 5:
                want = c * mpmath.mpf(spec['kmean']) ** o
                got = h(1.0)
                if abs(got - want) > 1e-6 * abs(want) + 1e-9:
                    viol.append(f"er kmean={spec['kmean']} {what}: value at 1 = {got}, expected {mpmath.nstr(want, 12)}")
    except Exception as ex:
        viol.append(f"{spec['fam']} raised {type(ex).__name__}: {ex}")
    return [], [], dict(samples=len(spec['idx']) * 6, M=0), [('analytic', v) for v in viol[:1]]


def gen_analytic_hi(rnd):
    o = rnd.choice([11, 16, 21, 25, 30, 40]); c = rnd.choice([0.5, 3.0, 0.25])
    return dict(kind='analytic', fam='er', kmean=rnd.choice([10.0, 15.0, 20.0]), idx=sorted(rnd.sample(range(0, 60 - o), 2)), order=o, c=c)


PROFILES = dict(net=(gen_net, run_net), analytic=(gen_analytic, run_analytic), analytic_hi=(gen_analytic_hi, run_analytic))


def main():
    out, seed, prof = sys.argv[1], int(sys.argv[2]), sys.argv[3]
    rnd = random.Random(seed)
    if prof == 'replay':
        specs = json.load(open(sys.argv[4]))
    else:
        specs = [dict(PROFILES[prof][0](rnd), runner=prof) for _ in range(int(sys.argv[4]))]
    index = []; nexp = 0; viol = []
    with open(os.path.join(out, 'ops.txt'), 'w') as fi, open(os.path.join(out, 'expected.txt'), 'w') as fe:
        for spec in specs:
            sj = json.loads(json.dumps(spec))
            inp, exp, info, v = PROFILES[spec['runner']][1](spec)
            for (kind, reason) in v: viol.append(dict(spec=sj, oracle=kind, reason=reason))
            index.append(dict(start=nexp, n=len(exp), spec=sj, events=info.get('samples', 0), exc=None, tags=[spec.get('kind', ''), spec.get('fam', '')]))
            nexp += len(exp)
            if inp: fi.write("\n".join(inp) + "\n")
            if exp: fe.write("\n".join(exp) + "\n")
    json.dump(dict(index=index, violations=viol, timeouts=0), open(os.path.join(out, 'index.json'), 'w'))


if __name__ == '__main__':
    main()
