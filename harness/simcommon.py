"""Shared stage-2/3 logic of the simulation-family plug-ins (C01–C08, C10–C12, C19, C20): run worker jobs
(harness/run_sim.py) on the real code, pipe the records through Driver/Sim.lean, diff, collect direct-oracle hits."""
import os, json
import framework as fw

SIM_TRUSTED = [
    "models EpyVerif/Model/{Queue,Dyn,Comp,Sim}.lean (networkdynamics.py posted events, the two simulation loops, compartment/locus "
    "bookkeeping, handler scripts) tied by Driver/Sim.lean: after set-up and after every event the handler time, clock, tap time, "
    "handler, element, API results, network, compartments, all loci, pending events and occupation/hitting marks are compared",
    "theorems hold for every linearly ordered time type; the driver instantiates the same definitions at Float "
    "(IEEE + - * / log bit-identical to CPython on this image; NaN/rounding not covered by a theorem)",
    "heapq assumed to be a priority queue on [time, id, ...]; networkx Graph (add/remove node/edge, insertion-ordered adjacency) as modelled and exercised",
    "handler bodies of the shipped models are action scripts checked against the source by harness/extract_tables.py",
]


def run_jobs(ctx, jobs, driver='Sim.lean', script='run_sim.py'):
    """jobs: list of (name, [profile, n]) or (name, ['replay', file]); returns per-job result dicts"""
    deep = int(os.environ.get('VERIF_DEPTH', '4'))
    names = [j[0] for j in jobs]
    if len(set(names)) != len(names):         # two workers would write into one directory
        raise RuntimeError(f"duplicate job names: {sorted(n for n in set(names) if names.count(n) > 1)}")

    def one(j):
        name, args = j
        if not ctx.quick() and len(args) == 2 and isinstance(args[1], int):
            args = [args[0], args[1] * deep]          # thorough tier: deeper again than the plug-in's own tenfold
        d = ctx.sub(name)
        g = ctx.harness(script, [d, ctx.seed * 1000 + jobs.index(j)] + args, timeout=1500)
        if g.returncode != 0:
            return dict(name=name, err='harness', detail=(g.stderr or g.stdout)[-3000:])
        p = fw.lean_driver(driver, os.path.join(d, 'ops.txt'), os.path.join(d, 'got.txt'), timeout=1500)
        if p.returncode != 0:
            return dict(name=name, err='driver', detail=p.stderr[-2000:])
        exp = open(os.path.join(d, 'expected.txt')).read().split('\n')
        got = open(os.path.join(d, 'got.txt')).read().split('\n')
        ix = json.load(open(os.path.join(d, 'index.json')))
        idx = ix['index']
        fd = fw.first_diff(exp, got)
        res = dict(name=name, lines=len(exp) - 1, cases=len(idx), idx=idx, diff=None, viol=ix['violations'], timeouts=ix.get('timeouts', 0))
        if fd is not None:
            e = next((e for e in idx if e['start'] <= fd < e['start'] + e['n']), idx[-1] if idx else None)
            res['diff'] = dict(what=f'Driver/{driver} vs real run, job {name}, output line {fd} (line {fd - e["start"] if e else "?"} of its case)',
                               expected=(exp[fd] if fd < len(exp) else None), got=(got[fd] if fd < len(got) else None),
                               spec=e['spec'] if e else None)
        return res
    return fw.parallel(one, jobs)


def summarise(rs, nontrivial, sample_key='spec'):
    errs = [r for r in rs if r.get('err')]
    good = [r for r in rs if not r.get('err')]
    allidx = [e for r in good for e in r['idx']]
    nt = {json.dumps(e['spec'], sort_keys=True) for e in allidx if nontrivial(e)}
    hs = {}
    for e in allidx:
        for h in e.get('handlers', []): hs[h] = hs.get(h, 0) + 1
    tags = {}
    for e in allidx:
        for t in e.get('tags', []): tags[t] = tags.get(t, 0) + 1
    dist = dict(cases=len(allidx), events=sum(e.get('events', 0) for e in allidx), posted_events=sum(e.get('posted', 0) for e in allidx),
                real_code_exceptions=sum(1 for e in allidx if e.get('exc')), discarded_too_big_or_slow=sum(r['timeouts'] for r in good),
                boundary_randoms=sum(e.get('nspecial', 0) for e in allidx), handlers_fired=hs, tags=tags,
                by_dynamics={k: sum(1 for e in allidx if e['spec'].get('dyn') == k) for k in ('sto', 'syn')},
                by_kind={k: sum(1 for e in allidx if e['spec'].get('kind') == k) for k in {e['spec'].get('kind') for e in allidx} if k},
                by_process={}, jobs=[r['name'] for r in good])
    for e in allidx:
        for p in e['spec'].get('procs', []):
            dist['by_process'][p['cls']] = dist['by_process'].get(p['cls'], 0) + 1
    samples = [dict((k, v) for k, v in e['spec'].items() if k not in ('oracles', 'specials', 'pspecial')) for e in allidx[:2]]
    stats = dict(evaluations=sum(r['lines'] for r in good), distinct_nontrivial=len(nt), samples=samples, distribution=dist, exhaustive=False)
    return errs, good, stats


def small(v):
    return len(json.dumps(v.get('spec')))


def tie_with(ctx, jobs, nontrivial, sigfn=None, driver='Sim.lean', script='run_sim.py'):
    rs = run_jobs(ctx, jobs, driver, script)
    errs, good, stats = summarise(rs, nontrivial)
    if errs and errs[0]['err'] == 'driver':
        raise RuntimeError(f"model driver failed: {errs[0]['detail']}")
    viol = sorted((v for r in good for v in r['viol']), key=small)
    viol = [dict(replay=dict(spec=v['spec']), reason=v['reason'], signature=(sigfn(v) if sigfn else v['oracle'])) for v in viol]
    if errs:
        return dict(ok=False, stats=stats, violations=viol, fail=dict(what=f"harness could not drive the real code ({errs[0]['name']})", detail=errs[0]['detail']))
    unknown = sorted({h for r in good for e in r['idx'] for h in e.get('unknown', [])})
    if unknown:
        return dict(ok=False, stats=stats, violations=viol, fail=dict(what=f"handlers of the real code that the model's handler table does not contain: {unknown}"))
    diffs = [r['diff'] for r in good if r['diff']]
    if diffs:
        return dict(ok=False, stats=stats, violations=viol, fail=min(diffs, key=lambda d: len(json.dumps(d.get('spec')))))
    return dict(ok=True, stats=stats, violations=viol)


def search_with(ctx, hint, jobs, sigfn=None, driver='Sim.lean', script='run_sim.py'):
    """more cases with the direct oracles on (they already ran beside stage 2); plus the case the correspondence broke on"""
    js = list(jobs)
    if hint and hint.get('spec'):
        p = os.path.join(ctx.run, 'hint.json'); json.dump([hint['spec']], open(p, 'w'))
        js.append(('hint', ['replay', p]))
    rs = run_jobs(ctx, js, driver, script)
    viol = sorted((v for r in rs if not r.get('err') for v in r['viol']), key=small)
    if viol:
        v = viol[0]
        return dict(found=True, replay=dict(spec=v['spec']), reason=v['reason'], signature=(sigfn(v) if sigfn else v['oracle']))
    return dict(found=False, tried=sum(r.get('cases', 0) for r in rs if not r.get('err')))


def replay_with(ctx, rep, driver='Sim.lean', script='run_sim.py'):
    r = rep.get('replay') or {}
    if not r.get('spec'):
        return dict(found=False, note='replay names a theorem/correspondence, no concrete input', detail=rep.get('no_longer_checks'))
    p = os.path.join(ctx.run, 'rep.json'); json.dump([r['spec']], open(p, 'w'))
    rs = run_jobs(ctx, [('rep', ['replay', p])], driver, script)
    v = [v for x in rs if not x.get('err') for v in x['viol']]
    d = [x['diff'] for x in rs if not x.get('err') and x['diff']]
    return dict(found=bool(v), reason=v[0]['reason'] if v else None, correspondence_diff=d[0] if d else None)


def corpus_job(ctx):
    cor = ctx.corpus()
    if not cor:
        return []
    specs = [json.load(open(f))['spec'] for f in cor]
    p = os.path.join(ctx.run, 'corpus.json'); json.dump(specs, open(p, 'w'))
    return [('corpus', ['replay', p])]
