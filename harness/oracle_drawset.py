"""Direct property oracle for C09 on the real implementation; searches for / shrinks a failing history.
usage: oracle_drawset.py SEED BUDGET [history.json] -> prints JSON {found, history, reason}"""
import sys, os, random, json
from fractions import Fraction
import vrepo
from epydemic import DrawSet
import epydemic.bbt as bbt

class TooWide(Exception):
    pass

class Enum:
    """enumerate every outcome of rng.integers under draw(): exact law"""
    def __init__(self): self.path=[]; self.pos=0; self.ranges=[]
    def integers(self, low, high=None):
        if high is None: low, high = 0, low
        if high > 4096: raise TooWide()          # (a draw from a range this size cannot be enumerated outcome by outcome)
        if self.pos < len(self.path): x=self.path[self.pos]
        else: self.path.append(0); x=0
        if self.pos >= len(self.ranges): self.ranges.append(high)
        else: self.ranges[self.pos]=high
        self.pos+=1; return x
def draw_law(ds):
    law={}; en=Enum(); bbt.rng=en
    while True:
        en.pos=0
        r=ds.draw()
        p=Fraction(1)
        for h in en.ranges[:en.pos]: p/=h
        law[r]=law.get(r,0)+p
        # next path (odometer over the used prefix)
        i=en.pos-1
        en.path=en.path[:en.pos]; en.ranges=en.ranges[:en.pos]
        while i>=0 and en.path[i]+1>=en.ranges[i]: i-=1
        if i<0: break
        en.path=en.path[:i]+[en.path[i]+1]; en.ranges=en.ranges[:i+1]
    return law
def walk(n, lo=None, hi=None, depth=0):
    if n is None: return (-1,0)
    if lo is not None and not lo < n._data: raise AssertionError(f"order at {n._data}")
    if hi is not None and not n._data < hi: raise AssertionError(f"order at {n._data}")
    hl,sl=walk(n._left, lo, n._data); hr,sr=walk(n._right, n._data, hi)
    if abs(hl-hr)>1: raise AssertionError(f"unbalanced at {n._data}")
    if n._height!=max(hl,hr)+1: raise AssertionError(f"stale height at {n._data}")
    if n._leftSize!=sl or n._rightSize!=sr: raise AssertionError(f"stale size at {n._data}")
    return (max(hl,hr)+1, sl+sr+1)
def check(ops, dense=True):
    """returns None if the property holds along the history, else a reason.  dense: inspect the whole set after every operation;
    sparse: only what the history itself asks (membership tests are operations of the history), full inspection at the end — an
    implementation may keep state between calls that frequent inspection would refresh"""
    ds=DrawSet(); ref=set()
    for k,op in enumerate(ops):
        last = k == len(ops) - 1
        try:
            if op[0]=='init':
                inc=[tuple(x) if isinstance(x, list) else x for x in op[1]]; exc=None if op[2] is None else [tuple(x) if isinstance(x, list) else x for x in op[2]]
                ds=DrawSet(inc, exc); ref=set(inc)-set(exc or [])
            elif op[0]=='in':
                if (op[1] in ds)!=(op[1] in ref): return f"op {k}: membership of {op[1]}"
            elif op[0]=='peek':
                for _x in ds: break          # a walk abandoned after its first element
            elif op[0]=='add': ds.add(op[1]); ref.add(op[1])
            elif op[0]=='discard': ds.discard(op[1]); ref.discard(op[1])
            elif op[0]=='remove':
                try: ds.remove(op[1]); ok=True
                except KeyError: ok=False
                if ok != (op[1] in ref): return f"op {k}: remove KeyError behaviour"
                ref.discard(op[1])
            if not dense and not last: continue
            if list(ds)!=sorted(ref): return f"op {k}: contents {list(ds)} != {sorted(ref)}"
            if len(ds)!=len(ref) or ds.empty()!=(not ref): return f"op {k}: len/empty"
            for x in list(ref)[:3]+([op[1]] if op[0] not in ('init', 'peek') else []):
                if (x in ds)!=(x in ref): return f"op {k}: membership of {x}"
            walk(ds._root)
            if ref:
                try:
                    law=draw_law(ds)
                except TooWide:
                    law=None                  # not enumerable: a seeded sample instead, judged far out in the tail (no false alarm in practice)
                    if len(ref) >= 2 and (last or k % 7 == 0):
                        import numpy, math
                        bbt.rng = numpy.random.default_rng(20260101)
                        n_ = len(ref); N_ = 400 * n_; cnt_ = {}
                        for _ in range(N_):
                            x_ = ds.draw(); cnt_[x_] = cnt_.get(x_, 0) + 1
                        chi2 = sum((cnt_.get(x_, 0) - N_ / n_) ** 2 / (N_ / n_) for x_ in ref)
                        df_ = n_ - 1
                        if set(cnt_) - ref: return f"op {k}: draw returned {sorted(set(cnt_) - ref)[:3]}, not members"
                        if chi2 > df_ + 12 * math.sqrt(2 * df_) + 60:
                            return (f"op {k}: {N_} draws (numpy default_rng(20260101)) from a set of {n_}: counts {sorted(cnt_.get(x_, 0) for x_ in ref)} around {N_ // n_}, "
                                    f"chi-squared {chi2:.1f} on {df_} degrees of freedom: not uniform")
                if law is not None and (set(law)!=ref or any(p!=Fraction(1,len(ref)) for p in law.values())): return f"op {k}: draw law {law}"
            else:
                try: ds.draw(); return f"op {k}: draw on empty did not raise"
                except ValueError: pass
        except AssertionError as ex: return f"op {k}: {ex}"
        except Exception as ex: return f"op {k}: {type(ex).__name__}: {ex}"
    return None
def both(ops):
    return check(ops, True) or check(ops, False)
def shrink(ops):
    ops=list(ops); reason=both(ops)
    changed=True
    while changed:
        changed=False
        for i in range(len(ops)):
            cand=ops[:i]+ops[i+1:]
            r=both(cand)
            if r: ops, reason, changed = cand, r, True; break
    return ops, reason
if __name__=='__main__':
    seed, budget = int(sys.argv[1]), int(sys.argv[2])
    cands=[]
    def tup(o): return tuple(o) if o[0]=='init' else ('peek', 0) if o[0]=='iter' else (o[0], tuple(o[1]) if isinstance(o[1], list) else o[1])
    if len(sys.argv)>3: cands=[[tup(o) for o in h if o[0] in('add','discard','remove','in','init') or (o[0]=='iter' and len(o)>1)] for h in json.load(open(sys.argv[3]))]
    rnd=random.Random(seed)
    for _ in range(budget):
        U=rnd.choice([4,8,16]); pair=rnd.random()<0.25
        def key():
            k=rnd.randrange(U); return (k//4,k%4) if pair else k
        h=[(rnd.choice(['add','add','discard','remove','in','add','discard','peek']), key()) for _ in range(rnd.randint(5,60))]
        if rnd.random()<0.3: h=[('init', [key() for _ in range(rnd.randint(0,10))], None if rnd.random()<0.5 else [key() for _ in range(3)])]+h
        cands.append(h)
    for ops in cands:
        r=both(ops)
        if r:
            ops,r=shrink(ops); print(json.dumps(dict(found=True, history=ops, reason=r, signature='drawset:'+r.split(': ',1)[-1].split(' ')[0]))); sys.exit(0)
    print(json.dumps(dict(found=False, tried=len(cands))))

