"""Drive epydemic.gf on expression trees with Fraction coefficients; write protocol + expected output for Driver/GF.lean,
and check each tree directly against list-based polynomial arithmetic (the property's own oracle).
usage: run_gf.py OUTDIR SEED MODE [args]
   MODE random N MAXDEPTH | exh K NWORKERS | trees FILE
A tree is a nested list: ["cs", [fractions as "p/q"]] | [op, t1, t2] for add/sub/mul | [op, t, c] for scale/div/addc/subc | ["dx", t, k]."""
import sys, os, random, json, itertools
from fractions import Fraction as F
import vrepo
from epydemic.gf import gf_from_coefficients

NQ = 8   # coefficient indices queried per tree


def fr(x):
    x = F(x)
    return f"{x.numerator}/{x.denominator}" if x.denominator != 1 else f"{x.numerator}"


def pf(s):
    return F(s)


# ---------- the real code ----------
def build(t):
    op = t[0]
    if op == 'cs':
        return gf_from_coefficients([pf(c) for c in t[1]])
    if op in ('add', 'sub', 'mul'):
        a, b = build(t[1]), build(t[2])
        return a + b if op == 'add' else a - b if op == 'sub' else a * b
    if op == 'dx':
        return build(t[1]).dx(t[2])
    if op in ('sq', 'dbl'):           # the same GF object on both sides of the operator
        g = build(t[1]); return g * g if op == 'sq' else g + g
    if op == 'after':                 # an object that has been used as an operand of a later expression is observed again afterwards
        g = build(t[2]); h = build(t[3])
        _ = {'add': lambda: g + h, 'sub': lambda: g - h, 'mul': lambda: g * h, 'radd': lambda: h + g, 'dx': lambda: g.dx(1), 'scale': lambda: g * F(3, 2)}[t[1]]()
        _[0]                          # (and that expression has been evaluated)
        return g
    g, c = build(t[1]), pf(t[2])
    return {'scale': lambda: g * c, 'div': lambda: g / c, 'addc': lambda: g + c, 'subc': lambda: g - c}[op]()


def rpn(t, out):
    op = t[0]
    if op == 'cs':
        out.append("cs " + ' '.join(fr(pf(c)) for c in t[1]))
    elif op in ('add', 'sub', 'mul'):
        rpn(t[1], out); rpn(t[2], out); out.append(op)
    elif op == 'dx':
        rpn(t[1], out); out.append(f"dx {t[2]}")
    elif op in ('sq', 'dbl'):
        rpn(t[1], out); out.append("dup"); out.append('mul' if op == 'sq' else 'add')
    elif op == 'after':
        rpn(t[2], out)
    else:
        rpn(t[1], out); out.append(f"{op} {fr(pf(t[2]))}")


# ---------- the oracle: plain coefficient lists ----------
def padd(a, b):
    n = max(len(a), len(b)); return [(a[i] if i < len(a) else 0) + (b[i] if i < len(b) else 0) for i in range(n)]


def pmul(a, b):
    r = [F(0)] * (len(a) + len(b) - 1)
    for i, x in enumerate(a):
        for j, y in enumerate(b):
            r[i + j] += x * y
    return r


def pdx(a, k):
    for _ in range(k):
        a = [a[i] * i for i in range(1, len(a))] or [F(0)]
    return a


def plist(t):
    op = t[0]
    if op == 'cs':
        return [pf(c) for c in t[1]]
    if op == 'add': return padd(plist(t[1]), plist(t[2]))
    if op == 'sub': return padd(plist(t[1]), [-x for x in plist(t[2])])
    if op == 'mul': return pmul(plist(t[1]), plist(t[2]))
    if op == 'dx': return pdx(plist(t[1]), t[2])
    if op == 'sq': return pmul(plist(t[1]), plist(t[1]))
    if op == 'dbl': return padd(plist(t[1]), plist(t[1]))
    if op == 'after': return plist(t[2])
    a, c = plist(t[1]), pf(t[2])
    if op == 'scale': return [x * c for x in a]
    if op == 'div': return [x / c for x in a]
    if op == 'addc': return padd(a, [c])
    if op == 'subc': return padd(a, [-c])


def pev(a, x):
    return sum((c * x ** i for i, c in enumerate(a)), F(0))


def maxleaf(t):
    return len(t[1]) if t[0] == 'cs' else max(maxleaf(s) for s in t[1:] if isinstance(s, list))


def oracle(t, x, ks):
    """None if the three views agree with the polynomial, else a reason (leaves of any length)."""
    try:
        g = build(t)
        p = plist(t)
        small = True
        for i in range(NQ + 2):
            want = p[i] if i < len(p) else 0
            if F(g[i]) != want: return f"coefficient {i}: code {g[i]} polynomial {want}"
        if small and F(g(x)) != pev(p, x): return f"value at {x}: code {g(x)} polynomial {pev(p, x)}"
        for k in ks:
            d = g.dx(k); q = pdx(p, k)
            for i in range(NQ):
                want = q[i] if i < len(q) else 0
                if F(d[i]) != want: return f"dx({k}) coefficient {i}: code {d[i]} polynomial {want}"
            if small and F(d(x)) != pev(q, x): return f"dx({k}) value at {x}: code {d(x)} polynomial {pev(q, x)}"
    except RecursionError:
        return f"RecursionError: the code does not come back from a tree of depth {depth(t)} (the polynomial is {p[:4]}...)"
    except Exception as ex:
        return f"{type(ex).__name__}: {ex}"
    return None


# ---------- generators ----------
def gen(rnd, depth):
    if depth == 0 or rnd.random() < 0.2:
        n = rnd.choice([1, 1, 2, 3, 4, 5])
        return ['cs', [fr(F(rnd.randint(-5, 5), rnd.randint(1, 4))) for _ in range(n)]]
    op = rnd.choice(['add', 'sub', 'mul', 'mul', 'scale', 'div', 'dx', 'dx', 'addc', 'subc', 'sq', 'sq', 'dbl', 'after'])
    if op == 'after':
        return ['after', rnd.choice(['add', 'sub', 'mul', 'radd', 'dx', 'scale']), gen(rnd, max(depth - 1, 0)), gen(rnd, max(depth - 2, 0))]
    pd = max(depth - 2, 0)              # products count double: their derivatives unfold into 2^k products
    if op in ('sq', 'dbl'):
        return [op, gen(rnd, pd if op == 'sq' else depth - 1)]
    if op in ('add', 'sub', 'mul'):
        d = pd if op == 'mul' else depth - 1
        return [op, gen(rnd, d), gen(rnd, d)]
    if op == 'dx':
        return ['dx', gen(rnd, depth - 1), rnd.choice([0, 1, 1, 2, 3, 5])]
    return [op, gen(rnd, depth - 1), fr(F(rnd.randint(-3, 3) or 1, rnd.randint(1, 3)))]


LEAVES = [['cs', ['1']], ['cs', ['0', '1']], ['cs', ['1/2', '-1', '2']]]


def shapes(d):
    if d == 0:
        yield from LEAVES; return
    yield from LEAVES
    sub = list(shapes(d - 1))
    for op in ('add', 'sub', 'mul'):
        for a in sub:
            for b in sub:
                yield [op, a, b]
    for a in sub:
        yield ['sq', a]; yield ['dbl', a]; yield ['after', 'add', a, LEAVES[2]]; yield ['after', 'sub', a, LEAVES[1]]
        yield ['scale', a, '-2/3']; yield ['div', a, '2']; yield ['addc', a, '1/3']; yield ['dx', a, 1]; yield ['dx', a, 2]


def depth(t):
    return 0 if t[0] == 'cs' else 1 + max(depth(s) for s in t[1:] if isinstance(s, list))


if __name__ == '__main__':
    out, seed, mode = sys.argv[1], int(sys.argv[2]), sys.argv[3]
    rnd = random.Random(seed)
    if mode == 'random':
        n, md = int(sys.argv[4]), int(sys.argv[5])
        def cases():
            for i in range(n):
                if i % 40 == 39:    # a leaf longer than the 301 terms evaluate() adds up when no largest term is given
                    yield ['add', ['cs', [fr(F(rnd.randint(-2, 2), 3)) for _ in range(rnd.choice([301, 302, 310]))]], gen(rnd, 1)]
                else:
                    yield gen(rnd, rnd.randint(1, md))
        cases = cases()
    elif mode == 'exh':
        k, nw = int(sys.argv[4]), int(sys.argv[5])
        cases = (t for i, t in enumerate(shapes(2)) if i % nw == k)
    elif mode == 'trees':
        cases = iter(json.load(open(sys.argv[4])))
    index = []; nlines = 0; viol = []
    with open(os.path.join(out, 'ops.txt'), 'w') as fi, open(os.path.join(out, 'expected.txt'), 'w') as fe:
        for t in cases:
            inp = ["RESET"]; exp = []
            x = F(rnd.randint(-3, 3), rnd.randint(1, 3)); ks = [rnd.choice([1, 2]), rnd.choice([0, 3, 4])]
            if isinstance(t, dict):     # a replay fixes the evaluation point and the derivative orders too
                x, ks, t = pf(t.get('x', fr(x))), t.get('ks', ks), t['tree']
            rpn(t, inp)
            long = maxleaf(t) > 301
            try:
                g = build(t)
                for i in range(NQ):
                    inp.append(f"COEFF {i}"); exp.append(fr(g[i]))
                if not long or True:
                    inp.append(f"EVAL {fr(x)}"); exp.append(fr(g(x)))
                for k in ks:
                    d = g.dx(k)
                    for i in (0, 1, 2, 5):
                        inp.append(f"DXCOEFF {k} {i}"); exp.append(fr(d[i]))
                    inp.append(f"DXEVAL {k} {fr(x)}"); exp.append(fr(d(x)))
            except Exception as ex:
                while len(exp) < len([l for l in inp if l.split()[0] in ('COEFF', 'EVAL', 'DXCOEFF', 'DXEVAL')]):
                    exp.append(f"EXC {type(ex).__name__}")
            r = oracle(t, x, ks)
            if r:
                viol.append(dict(tree=t, x=fr(x), ks=ks, reason=r))
            index.append(dict(start=nlines, n=len(exp), tree=t if (mode != 'exh' or r) else None, depth=depth(t),
                              prod='mul' in json.dumps(t), dx='dx' in json.dumps(t), long=long))
            nlines += len(exp)
            fi.write("\n".join(inp) + "\n"); fe.write("\n".join(exp) + "\n")
    json.dump(dict(index=index, violations=viol), open(os.path.join(out, 'index.json'), 'w'))
