"""Worker for C15 (network generators): run the real generators with scripted randomness and scripted ER blocks, write the
model's input (Driver/Gens.lean) and the expected output; run the direct oracles beside it.
usage: run_gens.py OUTDIR SEED PROFILE N | run_gens.py OUTDIR SEED replay FILE"""
import sys, os, json, random, struct, signal
import vrepo
import networkx as nx
import epydemic
from epydemic import (NetworkGenerator, FixedNetwork, ERNetwork, BANetwork, PLCNetwork, CorePeripheryNetwork, ModularNetwork,
                      NetworkExperiment, StochasticDynamics, Process)
import epydemic.plc_generator as plcmod
import epydemic.coreperiphery_generator as cpmod
import epydemic.modular_generator as modmod
import epydemic.standard_generators as stdmod


def bits(x):
    return struct.unpack('>Q', struct.pack('>d', float(x)))[0]


class CaseTimeout(BaseException):
    pass


def _alarm(*a):
    raise CaseTimeout()


class Scripted:
    """the random source the generators see; every value goes to the protocol"""
    def __init__(self, seed, accept=None):
        self.r = random.Random(seed); self.lines = []; self.accept = accept; self.lastk = None

    def random(self):
        x = self.r.randrange(0, 1 << 30) / float(1 << 30)
        if self.accept is not None and self.lastk is not None:
            # PLC: steer the acceptance test so that sequences complete quickly and both outcomes occur
            p = self.accept(self.lastk)
            x = p * self.r.random() if self.r.random() < 0.5 else min(0.999999, p + (1 - p) * self.r.random())
            self.lastk = None
        self.lines.append(f"RF {bits(x)}"); return x

    def integers(self, low, high=None, endpoint=False):
        if high is None: low, high = 0, low
        if endpoint: high += 1
        x = self.r.randrange(low, high)         # ValueError when the range is empty, as numpy
        self.lines.append(f"RI {low} {high} {x}"); self.lastk = x; return x

    def choice(self, seq):
        seq = list(seq)
        return seq[self.integers(0, len(seq))]


def gnp(rnd, N, phi):
    g = nx.Graph(); g.add_nodes_from(range(N))
    for a in range(N):
        for b in range(a + 1, N):
            if rnd.random() < phi: g.add_edge(a, b)
    return g


def estr(es):
    return ' '.join(f"{a}-{b}" for a, b in es)


def canon(es):
    return ' '.join(f"{a}-{b}" for a, b in sorted({(min(a, b), max(a, b)) for a, b in es}))


def connected(nodes, edges):
    nodes = list(nodes)
    if not nodes: return True
    adj = {v: set() for v in nodes}
    for a, b in edges: adj[a].add(b); adj[b].add(a)
    seen = {nodes[0]}; st = [nodes[0]]
    while st:
        x = st.pop()
        for y in adj[x]:
            if y not in seen: seen.add(y); st.append(y)
    return len(seen) == len(nodes)


# ---------------------------------------------------------------------------------------------------------------
def gen_plc(rnd):
    return dict(runner='plc', N=rnd.choice([1, 1, 2, 3, 5, 8, 13, 30]), alpha=rnd.choice([1.5, 2.0, 2.5, 3.0]), kappa=rnd.choice([2.0, 5.0, 10.0, 40.0]),
                seed=rnd.random())


def run_plc(spec):
    gen = PLCNetwork()
    p = gen._makePowerlawWithCutoff(spec['alpha'], spec['kappa'])
    sr = Scripted(spec['seed'], accept=p); plcmod.rng = sr
    got = {}
    real_cm = nx.configuration_model

    def cm(ns, create_using=None, seed=None):
        got['ns'] = list(ns)
        return real_cm(ns, create_using=create_using, seed=int(spec['seed'] * 1e6))
    plcmod.configuration_model = cm
    viol = []; exp = []
    try:
        g = gen.set({PLCNetwork.N: spec['N'], PLCNetwork.EXPONENT: spec['alpha'], PLCNetwork.CUTOFF: spec['kappa']}).generate()
        exp.append(f"deg=[{', '.join(map(str, got['ns']))}] leftover=0")
        if g.order() != spec['N']: viol.append(f"PLC network has {g.order()} nodes, N = {spec['N']}")
        if g.is_multigraph() or g.is_directed(): viol.append("PLC network is not a simple undirected Graph")
        if any(d >= 100 for _, d in g.degree()): viol.append("PLC network has a node of degree >= 100")
        if len(got['ns']) != spec['N'] or sum(got['ns']) % 2 or any(not (1 <= k < 100) for k in got['ns']):
            viol.append(f"degree sequence {got['ns']} is not {spec['N']} degrees in 1..99 with an even sum")
    except CaseTimeout:
        raise
    except Exception as ex:
        exp.append(f"EXC {type(ex).__name__}")
        viol.append(f"PLCNetwork with N={spec['N']} raised {type(ex).__name__}: {ex}")
    finally:
        plcmod.configuration_model = real_cm
    inp = ["RESET", "PTAB " + ' '.join(str(bits(p(k))) for k in range(1, 100))] + sr.lines + [f"PLC {spec['N']} 100"]
    return inp, exp, dict(events=len(sr.lines)), [('gens', v) for v in viol[:1]]


# ---------------------------------------------------------------------------------------------------------------
def gen_cp(rnd):
    return dict(runner='cp', Nc=rnd.randint(1, 6), Np=rnd.randint(0, 7), phic=rnd.choice([0.0, 0.3, 0.6, 1.0]), phip=rnd.choice([0.0, 0.1, 0.3, 0.6, 1.0]),
                seed=rnd.random())


def run_cp(spec):
    rnd = random.Random(spec['seed'])
    blocks = []

    def fake_gnp(N, phi, seed=None, directed=False):
        g = gnp(rnd, N, phi); blocks.append(g); return g
    cpmod.fast_gnp_random_graph = fake_gnp
    orders = []
    real_conv = nx.convert_node_labels_to_integers

    def conv(G, first_label=0, **kw):
        orders.append(list(G.nodes())); return real_conv(G, first_label=first_label, **kw)
    cpmod.convert_node_labels_to_integers = conv
    sr = Scripted(rnd.random()); cpmod.rng = sr
    viol = []; exp = []
    gen = CorePeripheryNetwork()
    try:
        g = gen.set({CorePeripheryNetwork.N_core: spec['Nc'], CorePeripheryNetwork.PHI_core: spec['phic'],
                     CorePeripheryNetwork.N_per: spec['Np'], CorePeripheryNetwork.PHI_per: spec['phip']}).generate()
        org = [g.nodes[n].get(CorePeripheryNetwork.ORIGIN) for n in sorted(g.nodes())]
        exp.append(f"n={g.order()} origin=[{', '.join(map(str, org))}] edges=[{canon(g.edges())}]")
        if sorted(g.nodes()) != list(range(g.order())): viol.append(f"core-periphery network is labelled {sorted(g.nodes())}, not 0..n-1")
        if not connected(g.nodes(), g.edges()): viol.append("core-periphery network is not connected")
        if any(o not in (0, 1) for o in org): viol.append(f"a node is marked neither core nor periphery: {org}")
        c = set(CorePeripheryNetwork.coreSubNetwork(g).nodes()); p = set(CorePeripheryNetwork.peripherySubNetwork(g).nodes())
        if c != {n for n in g.nodes() if g.nodes[n][CorePeripheryNetwork.ORIGIN] == 0} or p != {n for n in g.nodes() if g.nodes[n][CorePeripheryNetwork.ORIGIN] == 1} \
                or c | p != set(g.nodes()) or c & p:
            viol.append("the core / periphery extractors do not partition the nodes consistently with the marks")
        if g.is_multigraph() or any(a == b for a, b in g.edges()): viol.append("core-periphery network has parallel edges or self-loops")
    except CaseTimeout:
        raise
    except Exception as ex:
        exp.append(f"EXC {type(ex).__name__}"); viol.append(f"CorePeripheryNetwork raised {type(ex).__name__}: {ex}")
    ce = estr(blocks[0].edges()) if blocks else ''; pe = estr(blocks[1].edges()) if len(blocks) > 1 else ''
    od = ' '.join(map(str, orders[2])) if len(orders) > 2 else ''
    inp = ["RESET"] + sr.lines + [f"CP {spec['Nc']} {spec['Np']} {bits(spec['phip'])} | {ce} | {pe} | {od}"]
    return inp, exp, dict(events=len(sr.lines)), [('gens', v) for v in viol[:1]]


# ---------------------------------------------------------------------------------------------------------------
def gen_mod(rnd):
    return dict(runner='mod', Nc=rnd.randint(1, 6), phic=rnd.choice([0.0, 0.3, 0.6, 1.0]), sats=rnd.choice([0, 0, 1, 2, 3, 4]), Ns=rnd.randint(1, 5),
                phis=rnd.choice([0.0, 0.3, 0.7, 1.0]), seed=rnd.random())


def run_mod(spec):
    rnd = random.Random(spec['seed'])
    blocks = []

    def fake_gnp(N, phi, seed=None, directed=False):
        g = gnp(rnd, N, phi); blocks.append(g); return g
    modmod.fast_gnp_random_graph = fake_gnp
    orders = []
    real_conv = nx.convert_node_labels_to_integers

    def conv(G, first_label=0, **kw):
        orders.append(list(G.nodes())); return real_conv(G, first_label=first_label, **kw)
    modmod.convert_node_labels_to_integers = conv
    sr = Scripted(rnd.random()); modmod.rng = sr
    viol = []; exp = []
    gen = ModularNetwork()
    M = ModularNetwork
    try:
        g = gen.set({M.N_core: spec['Nc'], M.PHI_core: spec['phic'], M.SATELLITES: spec['sats'], M.N_sat: spec['Ns'], M.PHI_sat: spec['phis']}).generate()
        exp.append("nodes=[" + ' '.join(f"{n}:{g.nodes[n].get(M.ORIGIN)}:{1 if g.nodes[n].get(M.CORE_LINK) else 0}" for n in sorted(g.nodes())) +
                   f"] edges=[{canon(g.edges())}]")
        mods = {}
        for n in g.nodes(): mods.setdefault(g.nodes[n][M.ORIGIN], set()).add(n)
        if set(mods) != set(range(spec['sats'] + 1)): viol.append(f"modules present {sorted(mods)}, expected core + {spec['sats']} satellites")
        for i, ns in mods.items():
            inner = [(a, b) for a, b in g.edges() if a in ns and b in ns]
            if not connected(ns, inner): viol.append(f"module {i} is not connected")
            if set(M.satelliteSubNetwork(g, i).nodes()) != ns: viol.append(f"satelliteSubNetwork({i}) disagrees with the marks")
        crossing = [(a, b) for a, b in g.edges() if g.nodes[a][M.ORIGIN] != g.nodes[b][M.ORIGIN]]
        for i in range(1, spec['sats'] + 1):
            mine = [(a, b) for a, b in crossing if i in (g.nodes[a][M.ORIGIN], g.nodes[b][M.ORIGIN])]
            if len(mine) != 1 or 0 not in (g.nodes[mine[0][0]][M.ORIGIN], g.nodes[mine[0][1]][M.ORIGIN]):
                viol.append(f"satellite {i} is joined to the core by {len(mine)} edges {mine}")
        ends = {x for e in crossing for x in e}
        flagged = {n for n in g.nodes() if g.nodes[n][M.CORE_LINK]}
        if flagged != ends: viol.append(f"core-link flags {sorted(flagged)} are not exactly the endpoints of the joining edges {sorted(ends)}")
    except CaseTimeout:
        raise
    except Exception as ex:
        exp.append(f"EXC {type(ex).__name__}"); viol.append(f"ModularNetwork raised {type(ex).__name__}: {ex}")
    secs = [x for b, o in zip(blocks, orders) for x in (estr(b.edges()), ' '.join(map(str, o)))]
    inp = ["RESET"] + sr.lines + [f"MOD {spec['Nc']} {spec['Ns']} | " + ' | '.join(secs)]
    return inp, exp, dict(events=len(sr.lines)), [('gens', v) for v in viol[:1]]


# ---------------------------------------------------------------------------------------------------------------
def gen_std(rnd):
    kind = rnd.choice(['er', 'er', 'ba', 'fixed', 'api'])
    if kind == 'er':
        N = rnd.choice([0, 1, 2, 5, 20, 60])
        return dict(runner='std', kind='er', N=N, phi=rnd.choice([None, 0.0, 0.1, 0.5, 1.0]), kmean=rnd.choice([None, 0.0, 1.0, 3.0, float(max(N - 1, 0))]), seed=rnd.randrange(1 << 30))
    if kind == 'ba':
        N = rnd.choice([2, 3, 5, 20, 60]); return dict(runner='std', kind='ba', N=N, M=rnd.randint(1, N - 1), seed=rnd.randrange(1 << 30))
    if kind == 'fixed':
        return dict(runner='std', kind='fixed', n=rnd.randint(0, 6), seed=rnd.randrange(1 << 30), limit=rnd.choice([None, 0, 1, 3]), asks=rnd.randint(0, 5))
    return dict(runner='std', kind='api', ctor=rnd.choice([None, None, 'same', 'equal']), limit=rnd.choice([None, 0, 1, 2, 4]), asks=rnd.randint(0, 6), how=[rnd.choice(['generate', 'next', 'iter', 'fresh', 'loop', 'setgen']) for _ in range(6)],
                seed=rnd.randrange(1 << 30))


def run_std(spec):
    viol = []; inp = []; exp = []
    if spec['kind'] == 'er':
        seen = {}
        real = nx.fast_gnp_random_graph

        def fake(N, phi, seed=None, directed=False):
            seen['args'] = (N, phi); return real(N, phi, seed=spec['seed'])
        stdmod.fast_gnp_random_graph = fake
        ps = {ERNetwork.N: spec['N']}
        if spec['phi'] is not None: ps[ERNetwork.PHI] = spec['phi']
        if spec['kmean'] is not None: ps[ERNetwork.KMEAN] = spec['kmean']
        inp.append(f"ERPHI {spec['N']} {'-' if spec['phi'] is None else bits(spec['phi'])} {'-' if spec['kmean'] is None else bits(spec['kmean'])}")
        try:
            g = ERNetwork().set(ps).generate()
            exp.append(str(bits(seen['args'][1])))
            if seen['args'][0] != spec['N'] or g.order() != spec['N']: viol.append(f"ER network has {g.order()} nodes, N = {spec['N']}")
            if g.is_multigraph() or g.is_directed() or any(a == b for a, b in g.edges()): viol.append("ER network is not simple and undirected")
        except AttributeError:
            exp.append("AttributeError")
            if spec['phi'] is not None or spec['kmean'] is not None: viol.append("ERNetwork raised AttributeError although phi or kmean was given")
        except ZeroDivisionError:
            exp.append("ZeroDivisionError")          # N = 0 with kmean only: not an admissible parameter vector
            return None
        finally:
            stdmod.fast_gnp_random_graph = real
    elif spec['kind'] == 'ba':
        random.seed(spec['seed'])
        g = BANetwork().set({BANetwork.N: spec['N'], BANetwork.M: spec['M']}).generate()
        if g.order() != spec['N']: viol.append(f"BA network has {g.order()} nodes, N = {spec['N']}")
        if g.is_multigraph() or g.is_directed() or any(a == b for a, b in g.edges()): viol.append("BA network is not simple and undirected")
        inp.append("GEN - 1"); exp.append("made=1 remaining=None")
    elif spec['kind'] == 'fixed':
        rnd = random.Random(spec['seed'])
        proto = gnp(rnd, spec['n'], 0.5)
        for n in proto.nodes(): proto.nodes[n]['w'] = n
        gen = FixedNetwork(proto, limit=spec['limit'])
        made = [g for g in (gen.generate() for _ in range(spec['asks'])) if g is not None]
        for g in made:
            if g is proto or any(g is h for h in made if h is not g): viol.append("FixedNetwork handed out the prototype itself or one object twice")
            if list(g.nodes(data=True)) != list(proto.nodes(data=True)) or canon(g.edges()) != canon(proto.edges()): viol.append("a copy differs from the prototype")
        if made and made[0].order():
            made[0].add_node('x'); made[0].nodes[0]['w'] = 'changed'
            if 'x' in proto or proto.nodes[0]['w'] != 0 or any('x' in h or h.nodes[0]['w'] != 0 for h in made[1:]): viol.append("changing one copy changed the prototype or another copy")
        inp.append(f"GEN {'-' if spec['limit'] is None else spec['limit']} {spec['asks']}"); exp.append(f"made={len(made)} remaining={gen._remaining}")
        if gen.topology() != 'Arbitrary': viol.append("topology marker of FixedNetwork")
    else:
        class G(NetworkGenerator):
            def topology(self): return 'vp-test'
            def _generate(self, params):
                g = nx.empty_graph(int(params.get('n', 0))); g.graph['params'] = dict(params); return g
        ps = {'n': 3, 'stale': 1}
        ctor = spec.get('ctor')
        if ctor:      # the generator was also constructed with parameters: the same dict object, or an equal one
            ps0 = ps if ctor == 'same' else dict(ps)
            gen = G(ps0, limit=spec['limit']).set(ps)
            ps0['n'] = 7
        else:
            gen = G(limit=spec['limit']).set(ps)
        ps['n'] = 7                                                   # the caller's dict changes after set(): the generator must not see it
        made = []
        it = iter(gen)
        for i in range(spec['asks']):
            h = spec['how'][i]
            try:
                if h == 'loop':
                    g = None
                    for g_ in gen:
                        g = g_; break
                elif h == 'setgen': g = gen.set({'n': 3, 'stale': 1}).generate()
                else: g = gen.generate() if h == 'generate' else next(gen) if h == 'next' else next(iter(gen)) if h == 'fresh' else next(it)
            except StopIteration: g = None
            if g is not None: made.append(g)
        if any(g.order() != 3 for g in made): viol.append("the generator used the caller's dict, not a copy of the parameters set")
        gen.set({'n': 2}); extra = gen.generate()
        if extra is not None and (extra.order() != 2 or 'stale' in extra.graph['params']): viol.append("the generator did not use the parameters most recently set")
        if extra is not None: made.append(extra)
        if spec['limit'] is not None and len(made) > spec['limit']: viol.append(f"a generator with limit {spec['limit']} yielded {len(made)} networks")
        inp.append(f"GEN {'-' if spec['limit'] is None else spec['limit']} {spec['asks'] + 1}"); exp.append(f"made={len(made)} remaining={gen._remaining}")
        # the experiment records the generator's topology marker in its parameters
        e = StochasticDynamics(Process(), G())
        params = {'n': 2}
        e.setUp(params)
        if params.get(NetworkGenerator.TOPOLOGY) != 'vp-test': viol.append(f"the experiment recorded topology {params.get(NetworkGenerator.TOPOLOGY)!r}, the generator's marker is 'vp-test'")
        if e.network().order() != 2: viol.append("the experiment's working network was not generated from its parameters")
        e.tearDown()
        # the same parameter dict goes on to an experiment over another generator (a sweep over topologies): the marker is that generator's
        class G2(G):
            def topology(self): return 'vp-other'
        e2 = StochasticDynamics(Process(), G2())
        e2.setUp(params)
        if params.get(NetworkGenerator.TOPOLOGY) != 'vp-other': viol.append(f"a parameter dict that had been through a run over another generator records topology {params.get(NetworkGenerator.TOPOLOGY)!r} for a generator whose marker is 'vp-other'")
        e2.tearDown()
        e.setNetworkGenerator(G2()); e.setUp(params)
        if params.get(NetworkGenerator.TOPOLOGY) != 'vp-other': viol.append("after setNetworkGenerator() the experiment still records the earlier generator's topology marker")
        e.tearDown()
    return inp, exp, dict(events=1), [('gens', v) for v in viol[:1]]


PROFILES = dict(plc=gen_plc, cp=gen_cp, mod=gen_mod, std=gen_std)
RUNNERS = dict(plc=run_plc, cp=run_cp, mod=run_mod, std=run_std)


def main():
    out, seed, prof = sys.argv[1], int(sys.argv[2]), sys.argv[3]
    rnd = random.Random(seed)
    if prof == 'replay': specs = json.load(open(sys.argv[4]))
    else: specs = [PROFILES[prof](rnd) for _ in range(int(sys.argv[4]))]
    signal.signal(signal.SIGALRM, _alarm)
    index = []; nexp = 0; viol = []; discarded = 0
    with open(os.path.join(out, 'ops.txt'), 'w') as fi, open(os.path.join(out, 'expected.txt'), 'w') as fe:
        for spec in specs:
            sj = json.loads(json.dumps(spec))
            signal.alarm(20)
            try:
                r = RUNNERS[spec['runner']](spec)
            except CaseTimeout:
                discarded += 1; continue
            finally:
                signal.alarm(0)
            if r is None:
                discarded += 1; continue
            inp, exp, info, v = r
            for (kind, reason) in v: viol.append(dict(spec=sj, oracle=kind, reason=reason))
            index.append(dict(start=nexp, n=len(exp), spec=sj, events=info.get('events', 0), exc=None, tags=[spec['runner'], spec.get('kind', '')]))
            nexp += len(exp)
            fi.write("\n".join(inp) + "\n"); fe.write("\n".join(exp) + "\n")
    json.dump(dict(index=index, violations=viol, timeouts=discarded), open(os.path.join(out, 'index.json'), 'w'))


if __name__ == '__main__':
    main()
