"""Worker: generate cases of a profile, run them on the real code, write the model's input and the expected output.
usage: run_sim.py OUTDIR SEED PROFILE N   |   run_sim.py OUTDIR SEED replay FILE(json list of specs)"""
import sys, os, json, random, signal
import simprofiles as sp
from simlib import run_case, CaseTooBig


class CaseTimeout(BaseException):
    pass


def _alarm(sig, frm):
    raise CaseTimeout()


PROFILES = {
    'shipped': lambda rnd: sp.gen_shipped(rnd),
    'shipped_sync': lambda rnd: sp.gen_shipped(rnd, dyn='syn'),
    'shipped_sto': lambda rnd: sp.gen_shipped(rnd, dyn='sto'),
    'queue': lambda rnd: sp.gen_script_queue(rnd),
    'composed': lambda rnd: sp.gen_composed(rnd),
    'composed_syn': lambda rnd: sp.gen_composed(rnd, dyn='syn'),
    'composed_sto': lambda rnd: sp.gen_composed(rnd, dyn='sto'),
    'deco': lambda rnd: sp.gen_deco(rnd),
    'fixrec0': lambda rnd: sp.gen_fixrec0(rnd),
    'adaptive': lambda rnd: sp.gen_adaptive(rnd),
    'dominoes': lambda rnd: sp.gen_dominoes(rnd),
    'bigloci': lambda rnd: sp.gen_bigloci(rnd),
    'bigloci_sto': lambda rnd: sp.gen_bigloci(rnd, 'sto'),
    'tuplelabels': lambda rnd: sp.gen_tuplelabels(rnd),
    'isolate': lambda rnd: sp.gen_isolate(rnd),
    'isolate_sto': lambda rnd: sp.gen_isolate(rnd, 'sto'),
    'monfix': lambda rnd: sp.gen_monfix(rnd),
    'varfix': lambda rnd: sp.gen_varfix(rnd),
    'compfix': lambda rnd: sp.gen_compfix(rnd),
    'vacc': lambda rnd: sp.gen_vacc(rnd),
    'forced': lambda rnd: sp.gen_forced(rnd),
    'genlimit': lambda rnd: sp.gen_genlimit(rnd),
    'rerun': lambda rnd: sp.gen_rerun(rnd),
    'rerun_fix': lambda rnd: sp.gen_rerun(rnd, classes=['SIR_FixedRecovery', 'SIS_FixedRecovery']),
    'adddel': lambda rnd: sp.gen_adddel(rnd),
    'adddel_ok': lambda rnd: sp.gen_adddel(rnd, combo=rnd.choice(['alone', 'inherit', 'full'])),
    'adddel_seq': lambda rnd: sp.gen_adddel(rnd, combo='seq'),
    'seqtree': lambda rnd: sp.gen_seqtree(rnd),
    'monitored': lambda rnd: sp.gen_monitored(rnd),
    'fixrec_sto': lambda rnd: sp.gen_shipped(rnd, classes=['SIR_FixedRecovery', 'SIS_FixedRecovery'], dyn='sto'),
    'rates_sto': lambda rnd: sp.gen_rates(rnd, 'sto'),
    'rates_syn': lambda rnd: sp.gen_rates(rnd, 'syn'),
    'one_step': lambda rnd: dict(sp.gen_shipped(rnd, dyn='syn', extreme=rnd.random() < 0.3), maxT=2.0),
    'compete8': lambda rnd: sp.gen_shipped(rnd, classes=['SIR', 'SEIR', 'SIR_FixedRecovery', 'SIR_VariableInfection', 'Opinion', 'SIS'],
                                          dyn=rnd.choice(['syn', 'syn', 'sto']), extreme=True, oracles=('clock', 'member', 'loci', 'diagram', 'forest'),
                                          net=sp.rand_net(rnd, 3, 7, kind=rnd.choice(['star', 'complete', 'er', 'path']))),
    'models': lambda rnd: sp.gen_shipped(rnd, oracles=('clock', 'member', 'loci', 'diagram', 'forest'), extreme=rnd.random() < 0.3,
                                        net=sp.rand_net(rnd, 3, 8)),
    'ops': lambda rnd: sp.gen_ops(rnd),
    'ops_linr': lambda rnd: sp.gen_ops(rnd, lin_r=True),
    'fixrec': lambda rnd: sp.gen_shipped(rnd, classes=['SIR_FixedRecovery', 'SIS_FixedRecovery']),
    'compete': lambda rnd: sp.gen_shipped(rnd, dyn=rnd.choice(['syn', 'syn', 'sto']), extreme=True,
                                         net=sp.rand_net(rnd, 3, 7, kind=rnd.choice(['star', 'complete', 'er', 'path']))),
}


def main():
    out, seed, prof = sys.argv[1], int(sys.argv[2]), sys.argv[3]
    rnd = random.Random(seed)
    if prof == 'replay':
        specs = json.load(open(sys.argv[4]))
    else:
        n = int(sys.argv[4]); gen = sp.PROFILES[prof] if hasattr(sp, 'PROFILES') and prof in sp.PROFILES else PROFILES[prof]
        specs = (gen(rnd) for _ in range(n))
    signal.signal(signal.SIGALRM, _alarm)
    index = []; nexp = 0; viol = []; timeouts = 0
    with open(os.path.join(out, 'ops.txt'), 'w') as fi, open(os.path.join(out, 'expected.txt'), 'w') as fe:
        for spec in specs:
            spec_json = json.loads(json.dumps(spec))
            signal.alarm(20)
            try:
                runner = sp.RUNNERS.get(spec.get('mode', 'run'), None) if hasattr(sp, 'RUNNERS') else None
                inp, exp, info = (runner or (lambda s: run_case(sp.build_case(s))))(spec)
            except (CaseTimeout, CaseTooBig):
                timeouts += 1; continue
            finally:
                signal.alarm(0)
            for (kind, reason) in info.get('oracle', [])[:1]:
                viol.append(dict(spec=spec_json, oracle=kind, reason=reason))
            index.append(dict(start=nexp, n=len(exp), spec=spec_json, events=info.get('events', 0), posted=info.get('posted', 0),
                              exc=info.get('exc'), handlers=info.get('handlers', []), nspecial=info.get('nspecial', 0),
                              tags=info.get('tags', []), unknown=info.get('unknown', []),
                              hist=dict(done=info.get('hist_done', 0), injected=info.get('hist_injected', 0), cut=info.get('hist_cut', 0), exc=info.get('hist_exc'))))
            nexp += len(exp)
            if inp: fi.write("\n".join(inp) + "\n")
            if exp: fe.write("\n".join(exp) + "\n")
    json.dump(dict(index=index, violations=viol, timeouts=timeouts), open(os.path.join(out, 'index.json'), 'w'))


if __name__ == '__main__':
    main()
