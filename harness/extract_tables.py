"""Translator for the data part of the shipped models: registration tables (by running build()), handler bodies (by an AST
walk over the source, for the straight-line subset the shipped handlers are written in) -> a generated Lean file of
literal tables with decidable obligations.  Re-run against the current /repo on every check.
usage: extract_tables.py OUT.lean   (prints a JSON summary; exit 1 + message if something is outside the subset)"""
import sys, os, ast, inspect, json, textwrap
import vrepo
import networkx as nx
from simlib import *
from epydemic import SIvR, Vaccinate

MODELS = ['SIR', 'SIS', 'SIRS', 'SEIR', 'SIR_FixedRecovery', 'SIS_FixedRecovery', 'SIR_VariableInfection', 'Opinion']
CLS = dict(SIR=SIR, SIS=SIS, SIRS=SIRS, SEIR=SEIR, SIR_FixedRecovery=SIR_FixedRecovery, SIS_FixedRecovery=SIS_FixedRecovery,
           SIR_VariableInfection=SIR_VariableInfection, Opinion=Opinion)
PARAMS = {SIR.P_INFECTED: 0.25, SIR.P_INFECT: 0.5, SIR.P_REMOVE: 0.125, SIS.P_INFECTED: 0.25, SIS.P_INFECT: 0.5, SIS.P_RECOVER: 0.125,
          SIRS.P_RESUSCEPT: 0.0625, SEIR.P_EXPOSED: 0.25, SEIR.P_INFECT_ASYMPTOMATIC: 0.5, SEIR.P_INFECT_SYMPTOMATIC: 0.75,
          SEIR.P_SYMPTOMS: 0.125, SEIR.P_REMOVE: 0.0625, SIR_FixedRecovery.T_INFECTED: 1.5, SIS_FixedRecovery.T_INFECTED: 1.5,
          Opinion.P_AFFECTED: 0.25, Opinion.P_AFFECT: 0.5, Opinion.P_STIFLE: 0.125}
# transition diagrams of the property text (C07): arrows between compartments by class-constant name
DIAGRAM = dict(SIR=[('SUSCEPTIBLE', 'INFECTED'), ('INFECTED', 'REMOVED')], SIS=[('SUSCEPTIBLE', 'INFECTED'), ('INFECTED', 'SUSCEPTIBLE')],
               SIRS=[('SUSCEPTIBLE', 'INFECTED'), ('INFECTED', 'REMOVED'), ('REMOVED', 'SUSCEPTIBLE')],
               SEIR=[('SUSCEPTIBLE', 'EXPOSED'), ('EXPOSED', 'INFECTED'), ('INFECTED', 'REMOVED')],
               SIR_FixedRecovery=[('SUSCEPTIBLE', 'INFECTED'), ('INFECTED', 'REMOVED')],
               SIS_FixedRecovery=[('SUSCEPTIBLE', 'INFECTED'), ('INFECTED', 'SUSCEPTIBLE')],
               SIR_VariableInfection=[('SUSCEPTIBLE', 'INFECTED'), ('INFECTED', 'REMOVED')],
               Opinion=[('IGNORANT', 'SPREADER'), ('SPREADER', 'STIFLER')])


class Outside(Exception):
    pass


def const_name(cls, e):
    """self.X where X is a class constant naming a compartment"""
    if isinstance(e, ast.Attribute) and isinstance(e.value, ast.Name) and e.value.id == 'self' and e.attr.isupper():
        return e.attr
    raise Outside(ast.unparse(e))


def handler_acts(cls, name, owner=None):
    """action script of handler `name` as seen from class `cls` (super() calls inlined along the MRO)"""
    mro = cls.__mro__
    owner = owner or next(c for c in mro if name in c.__dict__)
    fn = owner.__dict__[name]
    tree = ast.parse(textwrap.dedent(inspect.getsource(fn))).body[0]
    params = [a.arg for a in tree.args.args]          # self, t, e|n
    tvar, evar = params[1], params[2]
    left = {evar}                                     # names denoting the element's (left) node
    acts = []
    for st in tree.body:
        if isinstance(st, ast.Expr) and isinstance(st.value, ast.Constant):
            continue
        if isinstance(st, ast.Assign) and isinstance(st.targets[0], ast.Tuple) and isinstance(st.value, ast.Name) and st.value.id == evar:
            left.add(st.targets[0].elts[0].id); continue
        if isinstance(st, ast.Assign) and isinstance(st.targets[0], ast.Subscript):
            # g.nodes[n][ATTR] = t : a per-node attribute the properties do not mention (infection time)
            tgt = ast.unparse(st.targets[0])
            if tgt.startswith('self.network().nodes[') and 'COMPARTMENT' not in tgt and 'OCCUPIED' not in tgt:
                continue
            raise Outside(f"{owner.__name__}.{name}: {ast.unparse(st)}")
        if isinstance(st, ast.Expr) and isinstance(st.value, ast.Call):
            c = st.value; f = c.func
            if isinstance(f, ast.Attribute) and isinstance(f.value, ast.Name) and f.value.id == 'self':
                kw = {k.arg: ast.unparse(k.value) for k in c.keywords}
                if f.attr == 'changeCompartment' and isinstance(c.args[0], ast.Name) and c.args[0].id in left:
                    acts.append(f"CCL {const_name(cls, c.args[1])}"); continue
                if f.attr == 'markOccupied' and ast.unparse(c.args[0]) == evar and ast.unparse(c.args[1]) == tvar and kw.get('firstOnly', 'True') == 'True':
                    acts.append("OCC"); continue
                if f.attr == 'markHit' and isinstance(c.args[0], ast.Name) and c.args[0].id in left and ast.unparse(c.args[1]) == tvar and kw.get('firstOnly', 'True') == 'True':
                    acts.append("HIT"); continue
                if f.attr == 'postEvent' and ast.unparse(c.args[0]) == f"{tvar} + self._tInfected" and isinstance(c.args[1], ast.Name) and c.args[1].id in left:
                    tgt = c.args[2]
                    tq = next(k for k in mro if tgt.attr in k.__dict__).__name__ + '.' + tgt.attr
                    acts.append(f"POSTL T {tq}"); continue
                if f.attr in cls.__dict__ or any(f.attr in k.__dict__ for k in mro if k.__module__.startswith('epydemic')):
                    if [ast.unparse(a) for a in c.args] == [tvar, evar] and f.attr not in ('changeCompartment',):
                        acts += handler_acts(cls, f.attr); continue
            if isinstance(f, ast.Attribute) and isinstance(f.value, ast.Call) and getattr(f.value.func, 'id', None) == 'super' and f.attr == name:
                nxt = next(k for k in mro[mro.index(owner) + 1:] if name in k.__dict__)
                acts += handler_acts(cls, name, nxt); continue
        raise Outside(f"{owner.__name__}.{name}: {ast.unparse(st)}")
    return acts


def lean_kind(line):
    w = line.split()
    if w[1] == 'node': return f".node {w[2]} {w[3]}"
    if w[1] == 'edge': return f".edge {w[2]} {w[3]} [{', '.join(w[4].split(','))}] {'true' if w[5] == '1' else 'false'}"
    return ".plain"


def extract(name):
    cls = CLS[name]; m = cls()
    d = StochasticDynamics(m, nx.path_graph(3))
    d._graph = nx.path_graph(3); d._loci = {}; d._processLoci = {}
    m.reset(); m.build(dict(PARAMS))
    ex = Extract(m, d)
    kinds = [lean_kind(ex.locus_line(l)) for l in ex.loci]
    ci = ex.cidx[id(m)]
    eff = [((0, ci[c]), [ex.lidx[id(h[0].__self__)] for h in hs]) for c, hs in m._effects.items() if c in ci]
    handlers = []     # (qualname, derived acts, hand-table acts)
    qs = [f.__func__.__qualname__ for (l, p, f, n) in m._perElementEvents + m._perLocusEvents]
    if isinstance(m, SIR_VariableInfection): qs.append('SIR.infect')
    if isinstance(m, SIR_FixedRecovery): qs.append('SIR.remove')
    if isinstance(m, SIS_FixedRecovery): qs.append('SIS.recover')
    for qn in dict.fromkeys(qs):
        derived = handler_acts(cls, qn.split('.')[1])
        handlers.append((qn, derived, ACTS.get(qn)))
    arrows = [(ci[getattr(cls, a)], ci[getattr(cls, b)]) for a, b in DIAGRAM[name]]
    # what each handler needs as precondition: the locus it is registered on, and the compartment it moves to
    events = [(ex.lidx[id(l)], f.__func__.__qualname__) for (l, p, f, n) in m._perElementEvents + m._perLocusEvents]
    return dict(name=name, kinds=kinds, effects=eff, handlers=handlers, arrows=arrows, comps={c: i for c, i in ci.items()},
                cls=cls, events=events, linr=any(isinstance(l, CompartmentedEdgeLocus) and (
                    (isinstance(l, MultiCompartmentedEdgeLocus) and l._left in l._rights) or
                    (not isinstance(l, MultiCompartmentedEdgeLocus) and l._left == l._right)) for l in ex.loci))


def lean_act(a, cls, ci):
    w = a.split()
    if w[0] == 'CCL': return f".ccLeft 0 {ci[getattr(cls, w[1])]}"
    if w[0] == 'OCC': return ".occ 0"
    if w[0] == 'HIT': return ".hit 0"
    if w[0] == 'POSTL': return ".postL 0 0"
    raise Outside(a)


def generate():
    out = ["import EpyVerif.Props.C07", "import EpyVerif.Lemmas.Tables",
           "/-! GENERATED from /repo by harness/extract_tables.py on this run: registration tables and handler scripts of the shipped",
           "    models, with their decidable obligations. -/", "namespace Gen", "open Comp"]
    summary = dict(models=[], obligations=[], mismatches=[])
    for name in MODELS:
        t = extract(name); cls = t['cls']; ci = t['comps']
        for (qn, derived, hand) in t['handlers']:
            if derived != hand:
                summary['mismatches'].append(dict(model=name, handler=qn, source=derived, harness_table=hand))
        eff = ', '.join(f"(({i}, {c}), [{', '.join(map(str, ls))}])" for ((i, c), ls) in t['effects'])
        out.append(f"def tab_{name} : Table := {{ kinds := [{', '.join(t['kinds'])}], effects := [{eff}] }}")
        if t['linr']:
            out.append(f"-- {name} has a locus with L ∈ R (known finding K1): only registration, not L ∉ R, is checked")
            out.append(f"theorem reg_{name} : tab_{name}.wfReg = true := by decide")
            summary['obligations'].append(f"reg_{name}")
        else:
            out.append(f"theorem wf_{name} : tab_{name}.wf = true := by decide")
            out.append(f"theorem wfcfg_{name} : WfCfg tab_{name}.cfg := tab_{name}.wf_sound wf_{name}")
            summary['obligations'] += [f"wf_{name}"]
        out.append(f"theorem one_{name} : tab_{name}.oneInst 0 = true := by decide")
        hs = ', '.join('[' + ', '.join(lean_act(a, cls, ci) for a in derived) + ']' for (qn, derived, hand) in t['handlers'])
        out.append(f"def handlers_{name} : List (List (Sim.Act Nat)) := [{hs}]   -- {', '.join(q for q, _, _ in t['handlers'])}")
        out.append(f"theorem shippedB_{name} : handlers_{name}.all (fun acts => acts.all C01.shippedB) = true := by decide")
        out.append(f"theorem shipped_{name} : ∀ acts ∈ handlers_{name}, ∀ a ∈ acts, C01.Shipped a := C01.shipped_of_all _ shippedB_{name}")
        # C07: every compartment change a handler makes is an arrow of the diagram whose source is the compartment the
        # element's node has by virtue of the locus the event is registered on
        out.append(f"def arrows_{name} : List (Nat × Nat) := [{', '.join(f'({a}, {b})' for a, b in t['arrows'])}]")
        first = {qn: next((ci[getattr(cls, a.split()[1])] for a in derived if a.startswith('CCL')), None) for (qn, derived, hand) in t['handlers']}
        evs = ', '.join(f"({l}, {first[qn]})" for (l, qn) in t['events'] if first.get(qn) is not None)
        out.append(f"theorem respects_{name} : C07.respects tab_{name}.kinds [{evs}] arrows_{name} = true := by decide")
        out.append(f"theorem targets_{name} : handlers_{name}.all (fun acts => acts.all (C07.targetsB {len(ci)})) = true := by decide")
        summary['obligations'] += [f"one_{name}", f"shipped_{name}", f"respects_{name}", f"targets_{name}"]
        summary['models'].append(dict(name=name, loci=len(t['kinds']), handlers=[q for q, _, _ in t['handlers']], linr=t['linr']))
    out.append("end Gen")
    return "\n".join(out) + "\n", summary


if __name__ == '__main__':
    try:
        text, summary = generate()
    except Outside as ex:
        print(json.dumps(dict(error=f"handler outside the translatable subset: {ex}"))); sys.exit(1)
    open(sys.argv[1], 'w').write(text)
    print(json.dumps(summary))
    sys.exit(1 if summary['mismatches'] else 0)
