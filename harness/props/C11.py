"""C11 — Composed and multiply-instantiated processes do not interfere."""
import simcommon as sc

PROP = 'C11'
LEAN_MODULES = ['EpyVerif.Props.C11']
DRIVER_MODULES = ['EpyVerif.Model.Sim', 'EpyVerif.Model.Stats', 'EpyVerif.Model.Seq']
TRUSTED = sc.SIM_TRUSTED + [
    "Model/Seq.lean (ProcessSequence flattening, maximum time, equilibrium, results; Process.getParameters decoration rule) tied by the "
    "SEQ and DECO commands of Driver/Sim.lean on random nestings of stub processes and random parameter dicts",
    "Python dicts as association lists read by first match (dict.update = prepend)",
    "the model carries one per-edge infectivity table, so at most one SIR_VariableInfection instance per generated composition",
]
ASSUMPTIONS = ["instance names are distinct within a composition and contain no '@'"]
RULE = ("two or three named instances drawn from seven shipped compartmented models (same class allowed), optionally with a Monitor and "
        "NetworkStatistics, as a list, a dict or a nested sequence, under both dynamics; each parameter is supplied under the instance's decorated "
        "name, under the shared name, or both with different values; the whole run is compared with the Lean model (every event, every locus of "
        "every instance), and the oracle checks: no KeyError, registered probabilities and initial distributions follow the decoration rule, an "
        "event of one instance changes only attributes decorated with its own name (or the documented shared marks), the dynamics' distributions "
        "are the concatenation of the components', maximum time / equilibrium / results of the composite. non-trivial = >= 2 named instances and "
        ">= 3 events; plus 'seqtree' and 'deco' cases (non-trivial when the nesting has >= 2 leaves / the dict has >= 2 keys); distinct = distinct spec")
PARTIAL = ["SIvR / Vaccinate / AddDelete instances are not composed here (C19 covers AddDelete composition; SIvR is not modelled)"]


def _jobs(ctx):
    q = ctx.quick()
    return sc.corpus_job(ctx) + [(f'comp{k}', ['composed', 40 if q else 400]) for k in range(10 if q else 16)] + \
        [('seqtree', ['seqtree', 300 if q else 3000]), ('deco', ['deco', 300 if q else 3000])]


def _nt(e):
    s = e['spec']
    if s.get('mode') == 'seqtree': return e.get('events', 0) >= 2
    if s.get('mode') == 'deco': return len(s.get('params', {})) >= 2
    return sum(1 for p in s.get('procs', []) if p.get('name')) >= 2 and e.get('events', 0) >= 3


def tie(ctx):
    return sc.tie_with(ctx, _jobs(ctx), _nt)


def search(ctx, hint):
    return sc.search_with(ctx, hint, [(f's{k}', ['composed', 200]) for k in range(8)] + [('sq', ['seqtree', 2000]), ('dc', ['deco', 2000])])


def replay(ctx, rep):
    return sc.replay_with(ctx, rep)
