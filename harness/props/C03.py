"""C03 — Simulation time never runs backwards and all clocks agree."""
import simcommon as sc

PROP = 'C03'
LEAN_MODULES = ['EpyVerif.Props.C03']
TRUSTED = sc.SIM_TRUSTED + ["hypotheses of the run theorems: t <= t + dt for a Gillespie step and t <= t + 1 (true in exact arithmetic for 0 < r1 <= 1)"]
ASSUMPTIONS = ["r1 = 0 (probability 2^-53) divides by zero in the Gillespie step and is excluded"]
RULE = ("scripted processes mixing per-element, fixed-rate, posted and self-re-posting events whose handlers post further events "
        "(earlier than queued ones, at the current time, into the past), un-post and query, and every shipped model, under both dynamics "
        "with a boundary-directed scripted RNG; every event's handler time / clock / tap time / own time, API results and full state are "
        "compared with the Lean model's trace; beside it the clock oracle checks the four-way agreement and monotonicity on the real "
        "tap stream. non-trivial = run with at least one posted and one stochastic event; distinct = distinct case spec")
PARTIAL = []


def _jobs(ctx):
    q = ctx.quick()
    n = 30 if q else 400
    return sc.corpus_job(ctx) + [(f'queue{k}', ['queue', n]) for k in range(6 if q else 12)] + [(f'ship{k}', ['shipped', n]) for k in range(4 if q else 8)] + [('observed', ['monitored', n]), ('pop', ['adddel_ok', n]), ('fixrec0', ['fixrec0', n])]


def _nontrivial(e):
    return e.get('posted', 0) > 0 and e.get('events', 0) > e.get('posted', 0)


def tie(ctx):
    return sc.tie_with(ctx, _jobs(ctx), _nontrivial)


def search(ctx, hint):
    return sc.search_with(ctx, hint, [(f's{k}', ['queue', 150]) for k in range(8)])


def replay(ctx, rep):
    return sc.replay_with(ctx, rep)
