"""C06 — Synchronous dynamics applies independent per-element trials each timestep."""
import simcommon as sc

PROP = 'C06'
LEAN_MODULES = ['EpyVerif.Props.C06']
TRUSTED = sc.SIM_TRUSTED + ["numpy Generator.random() assumed an ideal uniform stream: distinct coordinates independent",
                            "Mathlib's Lebesgue measure"]
ASSUMPTIONS = []
RULE = ("synchronous runs of scripted processes (several per-element and fixed-rate events, equal / zero / tiny probabilities, empty loci) and of "
        "every shipped model, incl. runs cut at maximum time 2 to observe exactly one step, with the random numbers directed onto r = p and its "
        "neighbours; the tranche, its order, every firing and the state are compared with the Lean model; beside it the sync oracle recomputes the "
        "tranche of every timestep from the loci at the start of the step and the random numbers consumed (one per element per event, one per "
        "fixed-rate event). non-trivial = run with >= 2 timesteps with events or a boundary-valued random number; distinct = distinct spec")
PARTIAL = ["independence of distinct coordinates (hence Binomial/Geometric and exact absorption laws) is the ideal-generator assumption; not formalised"]


def _jobs(ctx):
    q = ctx.quick()
    n = 40 if q else 500
    return (sc.corpus_job(ctx) + [(f'rates{k}', ['rates_syn', n]) for k in range(6 if q else 10)]
            + [(f'one{k}', ['one_step', n]) for k in range(3 if q else 6)] + [(f'ship{k}', ['shipped_sync', n]) for k in range(3 if q else 6)]
            + [('fixrec', ['fixrec', n]), ('sibling', ['isolate', n]), ('varfix', ['varfix', n]), ('nested', ['composed_syn', n]), ('big', ['bigloci', 3 if q else 8])])


def tie(ctx):
    return sc.tie_with(ctx, _jobs(ctx), lambda e: e.get('events', 0) >= 2 or e.get('nspecial', 0) > 0)


def search(ctx, hint):
    return sc.search_with(ctx, hint, [(f's{k}', ['rates_syn', 200]) for k in range(5)] + [('f', ['fixrec', 300]), ('i', ['isolate', 200]), ('v', ['varfix', 200])])


def replay(ctx, rep):
    return sc.replay_with(ctx, rep)
