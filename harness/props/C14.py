"""C14 — Percolate keeps a uniformly random floor(T*M)-subset of the edges."""
import simcommon as sc

PROP = 'C14'
LEAN_MODULES = ['EpyVerif.Props.C14']
DRIVER_MODULES = ['EpyVerif.Model.UF', 'EpyVerif.Model.Perc', 'EpyVerif.Model.Swap']
TRUSTED = ["model EpyVerif/Model/Perc.lean (Percolate.percolate: split of the shuffled edge list at int(M*T)) tied by Driver/Perc.lean: the arguments "
           "of occupy()/unoccupy() are compared for the scripted shuffle; int(M*T) is evaluated in Float on both sides",
           "numpy.random.shuffle assumed uniform over the M! orders (the uniformity theorem counts permutations)", "networkx Graph.copy / remove_edges_from"]
ASSUMPTIONS = ["T in [0, 1]"]
RULE = ("random networks (0..36 edges) and T in {0, 1, dyadic values, k/M, random}, alone and followed by a probing process in a sequence, with a "
        "scripted shuffle; the occupied / unoccupied lists are compared with the Lean model; beside it the oracle checks on the real objects: "
        "kept count = floor(T*M), same nodes, occupy/unoccupy partition the original edge set, the working network is exactly the occupied "
        "edges, the next component sees the percolated network, the prototype is untouched. non-trivial = 0 < floor(T*M) < M; distinct = spec")
PARTIAL = []


def _jobs(ctx):
    q = ctx.quick()
    return sc.corpus_job(ctx) + [(f'perc{k}', ['perc', 80 if q else 1000]) for k in range(6 if q else 12)]


def _nt(e):
    s = e['spec']; M = len(s['edges']); occ = int(M * s['T'])
    return 0 < occ < M


def tie(ctx):
    return sc.tie_with(ctx, _jobs(ctx), _nt, driver='Perc.lean', script='run_perc.py')


def search(ctx, hint):
    return sc.search_with(ctx, hint, [(f's{k}', ['perc', 300]) for k in range(6)], driver='Perc.lean', script='run_perc.py')


def replay(ctx, rep):
    return sc.replay_with(ctx, rep, driver='Perc.lean', script='run_perc.py')
