"""C12 — Monitor time series and network statistics report the true state."""
import simcommon as sc

PROP = 'C12'
LEAN_MODULES = ['EpyVerif.Props.C12']
DRIVER_MODULES = ['EpyVerif.Model.Sim', 'EpyVerif.Model.Stats']
TRUSTED = sc.SIM_TRUSTED + ["networkx degree_histogram and connected_components (their outputs are recomputed independently by the model and by the oracle's BFS)"]
ASSUMPTIONS = ["non-empty final network (the code divides by the order)"]
RULE = ("every shipped model observed by a Monitor (intervals that do and do not divide the run length and that are smaller than the event spacing), "
        "optionally with NetworkStatistics, in flat and nested sequences, both dynamics; the observation times, every series and the eight "
        "statistics are compared with the Lean model at the end of the run (and the whole event stream on the way); beside it the oracle rebuilds "
        "every locus size from the tap stream and recomputes the statistics with its own BFS. non-trivial = >= 3 observations and >= 2 other "
        "events; distinct = distinct spec")
PARTIAL = []


def _jobs(ctx):
    q = ctx.quick()
    return sc.corpus_job(ctx) + [(f'mon{k}', ['monitored', 40 if q else 500]) for k in range(9 if q else 15)] + [('pop', ['adddel_ok', 40 if q else 500]), ('named', ['composed', 40 if q else 500])]


def _nt(e):
    obs = sum(1 for h in e.get('handlers', []) if h.startswith('Monitor'))
    return e.get('posted', 0) >= 3 and e.get('events', 0) - e.get('posted', 0) >= 2


def tie(ctx):
    return sc.tie_with(ctx, _jobs(ctx), _nt)


def search(ctx, hint):
    return sc.search_with(ctx, hint, [(f's{k}', ['monitored', 200]) for k in range(8)])


def replay(ctx, rep):
    return sc.replay_with(ctx, rep)
