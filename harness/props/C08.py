"""C08 — Occupied edges and hitting times record a consistent contact tree."""
import simcommon as sc

PROP = 'C08'
LEAN_MODULES = ['EpyVerif.Props.C08']
TRUSTED = sc.SIM_TRUSTED
ASSUMPTIONS = ["once-infectable models: SIR, SEIR, fixed-recovery and variable-infection SIR, Opinion (SIS/SIRS only for the first-hitting-time clause)"]
RULE = ("every shipped once-infectable model under both dynamics on stars, cliques, paths and random networks with probabilities up to 1 (so that "
        "several infected neighbours are selected for one node in a timestep); occupation flags, occupation times and hitting times after every "
        "event are compared with the Lean model; beside it the forest oracle checks per infection (edge occupied at the event time = hitting time, "
        "strictly later than the infector's) and on the final network (acyclic, one seed per tree touching an infected node, one occupied edge per "
        "infected non-seed, seeds without hitting time, untouched never-infected nodes). non-trivial = run with >= 2 infections; distinct = spec")
PARTIAL = ["the link from runs of the executable model to the abstract infection log (C08.Valid) — that the infector's recorded time is strictly "
           "smaller under synchronous dynamics — is argued from C03/C05/C07 and checked by the oracle, not yet one theorem",
           "skeletonise() is exercised by the oracle only; SIvR is replayed and checked by the oracle, infect_records is stated for the SIR-style action script"]


def _jobs(ctx):
    q = ctx.quick()
    n = 40 if q else 500
    return sc.corpus_job(ctx) + [(f'models{k}', ['models', n]) for k in range(6 if q else 10)] + [(f'comp{k}', ['compete8', n]) for k in range(5 if q else 10)] + [(f'rr{k}', ['rerun_fix', n]) for k in range(2 if q else 4)] + [('forced', ['forced', n])] + [(f'vacc{k}', ['vacc', n]) for k in range(2 if q else 4)]


def _nt(e):
    return sum(1 for h in e.get('handlers', []) if 'infect' in h or 'affect' in h) > 0 and e.get('events', 0) >= 2


def tie(ctx):
    return sc.tie_with(ctx, _jobs(ctx), _nt)


def search(ctx, hint):
    return sc.search_with(ctx, hint, [(f's{k}', ['compete8', 200]) for k in range(6)] + [('r', ['rerun_fix', 200]), ('f', ['forced', 200]), ('v', ['vacc', 300])])


def replay(ctx, rep):
    return sc.replay_with(ctx, rep)
