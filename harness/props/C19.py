"""C19 — Addition-deletion keeps its population bookkeeping exact."""
import os, json
import simcommon as sc

PROP = 'C19'
LEAN_MODULES = ['EpyVerif.Props.C19']
DRIVER_MODULES = ['EpyVerif.Model.Sim', 'EpyVerif.Model.Stats', 'EpyVerif.Model.Seq']
TRUSTED = sc.SIM_TRUSTED + [
    "the order in which Python iterates the set of chosen neighbours (`for j in es`) is observed at Process.addEdge by the harness and given to "
    "the model, which checks that it is a permutation of the nodes it chose itself",
    "the harness wraps AddDelete.add and Process.addEdge (in the harness process only) to observe that order; the wrapped originals are the code under test",
]
ASSUMPTIONS = ["at least c other nodes exist whenever add fires (the property's own exemption: otherwise AddDelete.add does not return; such generated "
               "cases are discarded under an alarm and counted)",
               "a delete event fires on a current member of the all-nodes locus (C05)"]
RULE = ("random networks of 2-7 nodes; regimes mixed / pure growth / pure decay down to the empty network; degree 0-3; AddDelete alone, combined with SIR by "
        "multiple inheritance (DynamicSIR of test_adddeletesir.py), in the cookbook's named sequence verbatim, and in that recipe completed with "
        "addEdge/removeNode overrides; both dynamics; the whole run is compared with the Lean model after every event (network with adjacency order, "
        "compartments, every locus); the oracle checks after every event: all-nodes locus = node set, fresh name, exactly c distinct existing "
        "neighbours, nothing else changed, deleted node gone from network and from every locus, disease loci = tracked sets; at the end the order "
        "balance. non-trivial = at least one addition and one deletion; distinct = distinct spec")
PARTIAL = ["probabilistic termination of the rejection loop in AddDelete.add is not a theorem (add_degree is stated for calls that return)"]


def _sig(v):
    return v['oracle']


def _jobs(ctx):
    q = ctx.quick()
    return sc.corpus_job(ctx) + [(f'ad{k}', ['adddel', 50 if q else 500]) for k in range(10 if q else 16)]


def _nt(e):
    h = set(e.get('handlers', []))
    return 'AddDelete.add' in h and 'AddDelete.delete' in h


def tie(ctx):
    return sc.tie_with(ctx, _jobs(ctx), _nt, sigfn=_sig)


def search(ctx, hint):
    return sc.search_with(ctx, hint, [(f's{k}', ['adddel_ok', 200]) for k in range(8)], sigfn=_sig)


def replay(ctx, rep):
    return sc.replay_with(ctx, rep)


def confirm_known(ctx, entry):
    spec = json.load(open(os.path.join(ctx.root, entry['replay'])))['spec']
    p = os.path.join(ctx.run, 'known.json'); json.dump([spec], open(p, 'w'))
    rs = sc.run_jobs(ctx, [('known', ['replay', p])])
    v = [v for x in rs if not x.get('err') for v in x['viol']]
    return dict(reproduced=any(_sig(x) == entry['signature'] for x in v))
