"""C13 — Newman-Ziff percolation reports true component sizes at every sample."""
import simcommon as sc

PROP = 'C13'
LEAN_MODULES = ['EpyVerif.Props.C13']
DRIVER_MODULES = ['EpyVerif.Model.UF']
TRUSTED = ["model EpyVerif/Model/UF.lean (newmanziff.py: _components with path compression, join, bond and site occupy, the sampling loop) tied by "
           "Driver/Perc.lean: at every sample the label, gcc, ncomponents, the whole _components array and the working network are compared",
           "numpy.random.shuffle assumed uniform over orders (the theorems hold for every order); numpy int32 array as unbounded integers; "
           "the driver evaluates (i+1)/M >= p in Float exactly as Python does, the sampling theorem is over Q",
           "epyc Experiment.run protocol; networkx Graph"]
ASSUMPTIONS = ["nodes are labelled 0..N-1 (the array is indexed by node)", "M >= 1 elements"]
RULE = ("bond and site percolation on random networks of 1..9 nodes (no edges, several components, fewer edges or nodes than sample points), "
        "sample specs as counts and as lists with and without 0 and 1; scripted occupation orders; every sample is compared with the Lean model; "
        "beside it the BFS oracle recomputes gcc, number of components, every componentSize(n), the working network (= occupied elements) and the "
        "occupation count at which each labelled sample is due. non-trivial = run with >= 3 samples and >= 2 occupations; distinct = distinct spec")
PARTIAL = []


def _jobs(ctx):
    q = ctx.quick()
    return sc.corpus_job(ctx) + [(f'nz{k}', ['nz', 60 if q else 800]) for k in range(8 if q else 12)]


def _nt(e):
    return e.get('events', 0) >= 3 and e.get('info', {}).get('M', 0) >= 2


def tie(ctx):
    return sc.tie_with(ctx, _jobs(ctx), _nt, driver='Perc.lean', script='run_perc.py')


def search(ctx, hint):
    return sc.search_with(ctx, hint, [(f's{k}', ['nz', 300]) for k in range(8)], driver='Perc.lean', script='run_perc.py')


def replay(ctx, rep):
    return sc.replay_with(ctx, rep, driver='Perc.lean', script='run_perc.py')
