"""C05 — Event functions are only invoked on live members of their locus."""
import simcommon as sc

PROP = 'C05'
LEAN_MODULES = ['EpyVerif.Props.C05']
TRUSTED = sc.SIM_TRUSTED + ["fire_member_sto assumes draw() returns a member of the set it is called on (proved of the DrawSet model in C09)"]
ASSUMPTIONS = []
RULE = ("every shipped model (incl. per-edge variable infection) and scripted processes (and histories of the topology API, single and bulk forms, after which nothing that left the network may remain in a locus) under both dynamics on stars, cliques, paths and "
        "random networks, with probabilities up to 1 so that several chosen events compete for one node in a timestep, posted events "
        "that empty loci, zero probabilities and empty loci; full trace compared with the Lean model; beside it the membership oracle "
        "checks, at every call of an event function, that the element is in the tracked set its locus stands for. "
        "non-trivial = synchronous run with >= 3 stochastic events, or any run with posted and stochastic events; distinct = distinct spec")
PARTIAL = []


def _jobs(ctx):
    q = ctx.quick()
    n = 30 if q else 400
    return (sc.corpus_job(ctx) + [(f'comp{k}', ['compete', n]) for k in range(6 if q else 12)]
            + [(f'ship{k}', ['shipped', n]) for k in range(3 if q else 8)] + [(f'queue{k}', ['queue', n]) for k in range(3 if q else 6)]
            + [(f'varfix{k}', ['varfix', 2 * n]) for k in range(3 if q else 6)] + [('fixrec', ['fixrec_sto', n]), ('api', ['ops', n]), ('adaptive', ['adaptive', 2 * n]), ('dominoes', ['dominoes', n]), ('rates', ['rates_sto', 2 * n])] + [(f'rates{k}', ['rates_sto', 2 * n]) for k in range(3 if q else 6)])


def _nontrivial(e):
    st = e.get('events', 0) - e.get('posted', 0)
    return (e['spec'].get('dyn') == 'syn' and st >= 3) or (e.get('posted', 0) > 0 and st > 0)


def tie(ctx):
    return sc.tie_with(ctx, _jobs(ctx), _nontrivial)


def search(ctx, hint):
    return sc.search_with(ctx, hint, [(f's{k}', ['compete', 150]) for k in range(6)] + [('v', ['varfix', 300]), ('f', ['fixrec_sto', 150])])


def replay(ctx, rep):
    return sc.replay_with(ctx, rep)
