"""C18 — ShuffleK rewiring preserves every node's degree."""
import simcommon as sc

PROP = 'C18'
LEAN_MODULES = ['EpyVerif.Props.C18']
DRIVER_MODULES = ['EpyVerif.Model.UF', 'EpyVerif.Model.Perc', 'EpyVerif.Model.Swap']
TRUSTED = ["model EpyVerif/Model/Swap.lean (one accepted swap a-b,c-d -> a-d,c-b) tied by Driver/Perc.lean: every swap the real build performs is "
           "replayed, its guards (the hypotheses of the theorem) are re-checked in the network it is applied to, and the final degrees and edge "
           "set are compared; the loop that proposes swaps (shuffles, bin draws, neighbour draws) is not modelled",
           "networkx Graph.degree / has_edge / remove_edges_from / add_edges_from"]
ASSUMPTIONS = ["the original network is simple", "builds that do not terminate within 5 s are discarded (the property speaks of completed builds); they are counted"]
RULE = ("random simple networks of 4..10 nodes, rewiring fractions in {0, 0.1, 0.25, 0.5, 1, 1.5, random}, scripted shuffles and draws; the accepted "
        "swaps are replayed by the Lean model (guards re-checked), final degrees / edges / number of swaps compared; beside it the oracle checks on "
        "the real network: same nodes, same number of edges, every degree unchanged, no self-loop, at most 2*floor(f*M) original edges missing, "
        "identical for floor(f*M) = 0, prototype untouched. non-trivial = at least one swap performed; distinct = spec")
PARTIAL = ["parallel edges cannot be represented in the nx.Graph the code uses; 'no parallel edges' is therefore vacuous on the real code"]


def _jobs(ctx):
    q = ctx.quick()
    return sc.corpus_job(ctx) + [(f'shuf{k}', ['shuf', 40 if q else 500]) for k in range(8 if q else 12)]


def tie(ctx):
    return sc.tie_with(ctx, _jobs(ctx), lambda e: e.get('events', 0) >= 1, driver='Perc.lean', script='run_perc.py')


def search(ctx, hint):
    return sc.search_with(ctx, hint, [(f's{k}', ['shuf', 150]) for k in range(8)], driver='Perc.lean', script='run_perc.py')


def replay(ctx, rep):
    return sc.replay_with(ctx, rep, driver='Perc.lean', script='run_perc.py')
