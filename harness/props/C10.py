"""C10 — Every run starts from a clean slate and prototypes are never modified."""
import simcommon as sc

PROP = 'C10'
LEAN_MODULES = ['EpyVerif.Props.C10']
DRIVER_MODULES = ['EpyVerif.Model.Sim', 'EpyVerif.Model.Stats', 'EpyVerif.Model.Seq', 'EpyVerif.Model.Exp']
TRUSTED = sc.SIM_TRUSTED + [
    "the model is given only the last run of each history (network, parameters, random numbers): agreement of the whole recorded run with it is "
    "what shows that earlier runs left nothing behind in the modelled state (queue, clock, loci, network, compartments, marks)",
    "fresh-twin oracle (harness/simlib.py snapshot): every attribute of the dynamics, the processes, the loci and the working network at the start of "
    "the last run is compared with a brand-new experiment's; the run counter and instance serial number of Process are excluded by design",
    "Python object identity (copy vs. shared prototype) is outside the model and checked on the real objects only",
]
ASSUMPTIONS = ["the user's own process code keeps no state outside what reset/build/setUp re-create (the shipped processes are checked, a user's cannot be)"]
RULE = ("histories of 1-3 earlier runs on one experiment object, each with other parameters, another network of the same nodes, a short maximum time "
        "(equilibrium with events still queued) and/or an exception injected before or after build, before or after set-up, inside the k-th event "
        "handler (stochastic or posted) or in results collection; then a recorded run of a shipped model (fixed-recovery variants over-represented; "
        "a Monitor in a third) over a generated or a fixed prototype network, both dynamics; the recorded run is compared with the Lean model of a "
        "fresh run after every event, the fresh-twin oracle compares all object state at its start, the prototype is compared with its original; "
        "plus generator-limit cases. non-trivial = a history with an injected fault or a cut-short run and >= 2 events in the recorded run; distinct = distinct spec")
PARTIAL = ["history independence is true of the model by construction (setUp ignores the old fields); the theorem is only as strong as the correspondence "
           "and the fresh-twin comparison that tie the model to the code"]


def _jobs(ctx):
    q = ctx.quick()
    return sc.corpus_job(ctx) + [(f'rr{k}', ['rerun', 40 if q else 400]) for k in range(10 if q else 16)] + [('gen', ['genlimit', 200 if q else 2000])]


def _nt(e):
    if e['spec'].get('mode') == 'genlimit': return e['spec'].get('limit') is not None and e['spec']['asks'] > e['spec']['limit']
    h = e.get('hist', {})
    return (h.get('injected', 0) + h.get('cut', 0) >= 1 or any(ep.get('maxT') for ep in e['spec'].get('history', []))) and e.get('events', 0) >= 2


def tie(ctx):
    return sc.tie_with(ctx, _jobs(ctx), _nt)


def search(ctx, hint):
    return sc.search_with(ctx, hint, [(f's{k}', ['rerun', 200]) for k in range(8)] + [('g', ['genlimit', 1000])])


def replay(ctx, rep):
    return sc.replay_with(ctx, rep)
