"""C04 — Posted events fire exactly once, at their time, in posting order on ties."""
import simcommon as sc

PROP = 'C04'
LEAN_MODULES = ['EpyVerif.Props.C04']
TRUSTED = sc.SIM_TRUSTED
ASSUMPTIONS = ["heapq.heappush/heappop implement a priority queue on Python's list comparison of [time, id, ...]"]
RULE = ("scripted processes whose handlers post (for later, for the current time, into the past, ahead of queued events), un-post (fatal and "
        "non-fatal; pending, fired, un-posted and unknown ids) and query events, with equal times and self-re-posting handlers, and the shipped "
        "processes built on posted events (fixed-recovery SIR/SIS), under both dynamics; the pending map, every API result and every firing "
        "are compared with the Lean model; beside it a reference map of pending events checks exactly-once, arguments, (time, id) order, "
        "stale-id behaviour and the end-of-run clause on the real calls. non-trivial = run with >= 3 posted firings and at least one "
        "un-post/query/rejected post; distinct = distinct spec")
PARTIAL = []


def _jobs(ctx):
    q = ctx.quick()
    n = 40 if q else 500
    return (sc.corpus_job(ctx) + [(f'queue{k}', ['queue', n]) for k in range(8 if q else 12)]
            + [(f'fixrec{k}', ['fixrec', n]) for k in range(3 if q else 6)] + [(f'monfix{k}', ['monfix', n]) for k in range(2 if q else 4)]
            + [('fixsto', ['fixrec_sto', n]), ('boundary', ['fixrec0', n])])


def _nontrivial(e):
    acts = [a[0] for p in e['spec']['procs'] if p['cls'] == 'Script' for h in p['spec']['handlers'] for a in h[1]]
    return e.get('posted', 0) >= 3 and any(a in ('UNPOST', 'PENDING', 'POSTABS') for a in acts)


def tie(ctx):
    return sc.tie_with(ctx, _jobs(ctx), _nontrivial)


def search(ctx, hint):
    return sc.search_with(ctx, hint, [(f's{k}', ['queue', 200]) for k in range(5)] + [('m', ['monfix', 300]), ('f', ['fixrec_sto', 200]), ('g', ['fixrec', 200])])


def replay(ctx, rep):
    return sc.replay_with(ctx, rep)
