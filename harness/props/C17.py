"""C17 — Degree-distribution generating functions match their distributions."""
import simcommon as sc

PROP = 'C17'
LEAN_MODULES = ['EpyVerif.Props.C17']
DRIVER_MODULES = ['EpyVerif.Model.GFFast', 'EpyVerif.Model.NetGF']
TRUSTED = ["model EpyVerif/Model/NetGF.lean (DiscreteGF._coefficientsFromNetwork; ContinuousGF order bookkeeping) tied by Driver/GF.lean on the "
           "network clause: the float coefficients are required to be within 1e-12 of a multiple of 1/N and compared as exact rationals",
           "analytic clause: numpy complex arithmetic, numpy.vectorize, mpmath polylog/factorial — compared numerically with 40-digit Poisson / polylog "
           "values, tolerance = 10 x the alias term a_{m+n}+a_{m+2n}+... that the n-point contour sum has in exact arithmetic + 1e-6 relative + 1e-9",
           "networkx Graph.degree (a self-loop counts twice)"]
ASSUMPTIONS = ["ranges of the property: mean degree <= 20, exponent 2..3.5, cutoff 5..60, index + order <= 60; derivative values at 1 only for ER"]
RULE = ("network clause: random graphs of 1..12 nodes incl. isolated nodes, a single hub (4% with degree 301..419), self-loops, regular graphs, in 40% of cases built on a graph object that had other edges (same node count, usually same edge count) and was read through a GF before: coefficients, G(1), G'(1) and "
        "coefficients of derivatives compared with the exact Lean model / the degree sequence. Analytic clause: gf_er and gf_plc at random parameters "
        "of the stated ranges, plain, scaled and differentiated in both orders (orders 1..3, and for ER at mean degree 10..20 orders 11..40 with index + order < 60), against high-precision Taylor coefficients (numerical oracle). "
        "non-trivial = network with >= 2 distinct degrees, or an analytic case with order > 0 or scale != 1; distinct = spec")
PARTIAL = ["'within numerical tolerance' (floating-point contour integration, mpmath.polylog) is compared numerically, not proved; the roots-of-unity "
           "filter behind it is used in the oracle's tolerance but not formalised"]


def _jobs(ctx):
    q = ctx.quick()
    return (sc.corpus_job(ctx) + [(f'net{k}', ['net', 60 if q else 800]) for k in range(4 if q else 8)]
            + [(f'ana{k}', ['analytic', 1 if q else 12]) for k in range(8 if q else 16)] + [('hi', ['analytic_hi', 6 if q else 40])])


def _nt(e):
    s = e['spec']
    if s.get('kind') == 'net':
        return len(s['edges']) >= 2
    return s.get('order', 0) > 0 or s.get('c', 1.0) != 1.0


def tie(ctx):
    return sc.tie_with(ctx, _jobs(ctx), _nt, driver='GF.lean', script='run_gf17.py')


def search(ctx, hint):
    return sc.search_with(ctx, hint, [(f's{k}', ['net', 300]) for k in range(4)] + [(f'a{k}', ['analytic', 4]) for k in range(12)],
                          driver='GF.lean', script='run_gf17.py')


def replay(ctx, rep):
    return sc.replay_with(ctx, rep, driver='GF.lean', script='run_gf17.py')
