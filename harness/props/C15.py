"""C15 — Network generators deliver the structures they promise."""
import simcommon as sc

PROP = 'C15'
LEAN_MODULES = ['EpyVerif.Props.C15']
DRIVER_MODULES = ['EpyVerif.Model.Gens', 'EpyVerif.Model.Exp']
TRUSTED = [
    "model EpyVerif/Model/Gens.lean: the parts of plc_generator.py, coreperiphery_generator.py and modular_generator.py that are epydemic's own "
    "(degree-sequence sampling with parity repair; composition of the ER blocks, cross edges, largest component via the verified union-find of "
    "Model/UF.lean, relabelling, origin and core-link marks, joining edges), tied by Driver/Gens.lean on scripted randomness and scripted ER blocks",
    "networkx is an input, not verified: fast_gnp_random_graph (replaced by a scripted block generator in the correspondence), barabasi_albert_graph, "
    "configuration_model with create_using=Graph, compose, connected_components, subgraph/copy, convert_node_labels_to_integers; their promised "
    "properties (order, simple graph) are checked on the real outputs by the oracle only",
    "the order in which networkx lists a component before relabelling (graph order, or Python set order for a component smaller than half the "
    "graph) is observed and given to the model, which checks it is a permutation of the component it computed",
    "the PLC acceptance probability p(k) (mpmath polylog) is sent to the model as a table of doubles computed by the real _makePowerlawWithCutoff",
]
ASSUMPTIONS = ["admissible parameters: N >= 1 (PLC), 1 <= M < N (BA), at least one node in core + periphery, module sizes >= 1"]
RULE = ("PLC with N in {1,...,30} over 16 (exponent, cutoff) pairs, acceptance tests steered so that both outcomes and the parity repair occur; "
        "core-periphery with 1-6 core and 0-7 periphery nodes, densities 0 to 1; modular with 0-4 satellites of 1-5 nodes, densities 0 to 1; ER over "
        "N in {0..60} with phi / kmean given, both or neither; BA; FixedNetwork copies with limits; a parametrised generator asked through generate(), "
        "next() and iteration with limits 0-4, with the caller's dict changed after set(); the experiment's topology marker. Degree sequences, "
        "labelled networks with marks and remaining counts are compared with the Lean model; the oracle checks every clause of the property on the "
        "real outputs. non-trivial = PLC with a parity repair or N >= 5; core-periphery / modular with >= 2 blocks; limit reached. distinct = distinct spec")
PARTIAL = ["ER and BA guarantees (order, no parallel edges, no self-loops) and the behaviour of configuration_model are networkx's: assumed in Lean, "
           "checked by the oracle on every generated network",
           "the modular network's 'exactly one edge per satellite' is assembled from links_spec and the disjoint label ranges of block_spec; the "
           "assembled statement itself is checked by the oracle, not stated as one theorem"]


def _jobs(ctx):
    q = ctx.quick()
    n = 150 if q else 1500
    return sc.corpus_job(ctx) + [('plc', ['plc', n]), ('plc2', ['plc', n]), ('cp', ['cp', n]), ('cp2', ['cp', n]), ('mod', ['mod', n]), ('mod2', ['mod', n]),
                                 ('std', ['std', n]), ('std2', ['std', n])]


def _nt(e):
    s = e['spec']
    if s['runner'] == 'plc': return s['N'] >= 5 or e.get('events', 0) > 2 * s['N'] + 1
    if s['runner'] == 'cp': return s['Np'] >= 1 and s['Nc'] >= 2
    if s['runner'] == 'mod': return s['sats'] >= 1
    return s.get('limit') is not None and s.get('asks', 0) > s['limit'] or s.get('kind') in ('er', 'ba')


def tie(ctx):
    return sc.tie_with(ctx, _jobs(ctx), _nt, driver='Gens.lean', script='run_gens.py')


def search(ctx, hint):
    return sc.search_with(ctx, hint, [(k, [k, 500]) for k in ('plc', 'cp', 'mod', 'std')], driver='Gens.lean', script='run_gens.py')


def replay(ctx, rep):
    return sc.replay_with(ctx, rep, driver='Gens.lean', script='run_gens.py')
