"""C07 — Compartmented models keep a partition and follow their transition diagram."""
import simcommon as sc
from props import C01 as c01

PROP = 'C07'
LEAN_MODULES = ['EpyVerif.Props.C07']
DRIVER_MODULES = ['EpyVerif.Model.Sim', 'EpyVerif.Props.C07', 'EpyVerif.Lemmas.Tables']
TRUSTED = sc.SIM_TRUSTED + ["translator harness/extract_tables.py (registration tables, handler scripts from the AST, diagrams from the property text); "
                            "its output (wf_*, shipped_*, respects_*, targets_*) is compiled on every run"]
ASSUMPTIONS = ["r1 < 1 so that Gillespie steps are strictly positive"]
RULE = ("every shipped compartmented model (SIR, SIS, SIRS, SEIR, both fixed-recovery variants, variable infection, Opinion) bare, on random "
        "small networks with random dyadic parameters (incl. 0 and 1) and seedings, both dynamics; the full state after every event is compared "
        "with the Lean model; beside it the diagram oracle checks on the real run: partition, every change is an arrow, infection only through a "
        "current edge to a currently infectious neighbour, infection rate = pInfect x #S-I edges, exact recovery delay of the fixed-recovery "
        "variants, results = true counts, clean halting. non-trivial = run with >= 3 events; distinct = distinct spec")
PARTIAL = ["SIvR / Vaccinate: their handlers are modelled and replayed (with named instances) and the vaccine clauses are theorems about the SIvR action "
           "(vaccine_holds, vaccine_void, unvaccinated_as_sir); handler_partition (partition kept) covers the SIvR / Vaccinate actions too; "
           "event_arrow is stated for the SIR-style action scripts",
           "named instances inside sequences are exercised under C11"]

generated_lean = c01.generated_lean


def _jobs(ctx):
    q = ctx.quick()
    n = 40 if q else 500
    return sc.corpus_job(ctx) + [(f'models{k}', ['models', n]) for k in range(8 if q else 14)] + [(f'forced{k}', ['forced', n]) for k in range(3 if q else 6)] + [(f'vacc{k}', ['vacc', n]) for k in range(2 if q else 4)] + [('compfix', ['compfix', n]), ('fixrec0', ['fixrec0', n])]


def tie(ctx):
    r = sc.tie_with(ctx, _jobs(ctx), lambda e: e.get('events', 0) >= 3)
    r['stats']['generated_obligations'] = getattr(ctx, 'tables', {}).get('obligations', [])
    return r


def search(ctx, hint):
    return sc.search_with(ctx, hint, [(f's{k}', ['models', 200]) for k in range(6)] + [(f'f{k}', ['forced', 200]) for k in range(3)] + [('v', ['vacc', 300]), ('cf', ['compfix', 300]), ('bd', ['fixrec0', 300])])


def replay(ctx, rep):
    return sc.replay_with(ctx, rep)
