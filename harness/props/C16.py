"""C16 — Generating-function algebra agrees with exact polynomial arithmetic."""
import os, json
import framework as fw

PROP = 'C16'
LEAN_MODULES = ['EpyVerif.Props.C16']
TRUSTED = [
    "model EpyVerif/Model/GF.lean (FunctionGF/DiscreteGF, SumGF, ProductGF incl. the code's own pair enumeration and product-rule recursion) tied by Driver/GF.lean on exact rationals; the driver's fast tables are proved equal to the model (C16.driver_is_model)",
    "functools.lru_cache assumed transparent (GF objects are immutable); fractions.Fraction assumed exact; itertools.combinations_with_replacement as documented",
    "a coefficient list is modelled as leaf cs = fn (listCoeff cs) (len cs): DiscreteGF passes len(cs) as largest term (honoured since fix ef24ee9); three_views holds for lists of any length, and the harness runs leaves of 301..310 terms",
]
ASSUMPTIONS = ["c*f (reflected multiplication) is not defined by the code; (c*f)[i] is read as f*c"]
RULE = ("random expression trees (depth<=4; leaves = Fraction coefficient lists, some longer than 301 terms) over + - * (GF and constant), "
        "/ constant, dx(k) k<=5, built with the real operators; per tree 8 coefficients, one value, and coefficients/values of two "
        "derivatives compared as exact rationals with the Lean model; thorough adds every tree of depth<=2 over 3 leaves and 8 operators. "
        "Beside it every tree is compared with list-based polynomial arithmetic (direct oracle). non-trivial = tree containing a "
        "product and a derivative; distinct = distinct tree")
PARTIAL = []


def _jobs(ctx):
    q = ctx.quick()
    jobs = []
    cor = ctx.corpus()
    if cor:
        trees = [{k: v for k, v in json.load(open(f)).items() if k in ('tree', 'x', 'ks')} for f in cor]
        p = os.path.join(ctx.run, 'corpus_trees.json'); json.dump(trees, open(p, 'w'))
        jobs.append(('corpus', ['trees', p]))
    for k in range(8 if q else 16):
        jobs.append((f'rnd{k}', ['random', 50 if q else 600, 4]))
    if not q:
        for k in range(16):
            jobs.append((f'exh{k}', ['exh', k, 16]))
    return jobs


def _run(ctx, jobs):
    def one(j):
        name, args = j
        d = ctx.sub(name)
        g = ctx.harness('run_gf.py', [d, ctx.seed * 1000 + jobs.index(j)] + args)
        if g.returncode != 0:
            return dict(name=name, err='harness', detail=g.stderr[-2000:])
        p = fw.lean_driver('GF.lean', os.path.join(d, 'ops.txt'), os.path.join(d, 'got.txt'))
        if p.returncode != 0:
            return dict(name=name, err='driver', detail=p.stderr[-2000:])
        exp = open(os.path.join(d, 'expected.txt')).read().split('\n')
        got = open(os.path.join(d, 'got.txt')).read().split('\n')
        ix = json.load(open(os.path.join(d, 'index.json')))
        idx = ix['index']
        fd = fw.first_diff(exp, got)
        res = dict(name=name, lines=len(exp) - 1, trees=len(idx), diff=None, viol=ix['violations'],
                   nontriv={json.dumps(e['tree']) if e['tree'] else f"{name}:{i}" for i, e in enumerate(idx) if e['prod'] and e['dx']},
                   depth={dd: sum(1 for e in idx if e['depth'] == dd) for dd in range(6)},
                   long=sum(1 for e in idx if e['long']), exc=sum(1 for l in exp if l.startswith('EXC')),
                   sample=[e['tree'] for e in idx[:2] if e['tree']])
        if fd is not None:
            e = next((e for e in idx if e['start'] <= fd < e['start'] + e['n']), idx[-1])
            res['diff'] = dict(what=f'Driver/GF.lean vs epydemic.gf, job {name}, output line {fd}', expected=exp[fd] if fd < len(exp) else None,
                               got=got[fd] if fd < len(got) else None, tree=e['tree'], query=fd - e['start'])
        return res
    return fw.parallel(one, jobs)


def tie(ctx):
    jobs = _jobs(ctx)
    rs = _run(ctx, jobs)
    errs = [r for r in rs if r.get('err')]
    good = [r for r in rs if not r.get('err')]
    nontriv = set()
    for r in good:
        nontriv |= r['nontriv']
    stats = dict(evaluations=sum(r['lines'] for r in good), distinct_nontrivial=len(nontriv),
                 samples=[s for r in good for s in r['sample']][:3], exhaustive=False,
                 distribution=dict(trees=sum(r['trees'] for r in good), by_depth={d: sum(r['depth'].get(d, 0) for r in good) for d in range(6)},
                                   leaves_longer_than_301=sum(r['long'] for r in good), real_code_exceptions=sum(r['exc'] for r in good),
                                   jobs=[r['name'] for r in good]))
    if errs and errs[0]['err'] == 'driver':
        raise RuntimeError(f"model driver failed: {errs[0]['detail']}")
    viol = [dict(replay=dict(tree=v['tree'], x=v['x'], ks=v['ks']), reason=v['reason'], signature='gf:' + v['reason'].split(':')[0])
            for r in good for v in r['viol']]
    viol.sort(key=lambda v: len(json.dumps(v['replay']['tree'])))
    if errs:
        return dict(ok=False, stats=stats, violations=viol, fail=dict(what=f"harness could not drive the real code ({errs[0]['name']})", detail=errs[0]['detail']))
    diffs = [r['diff'] for r in good if r['diff']]
    if diffs:
        return dict(ok=False, stats=stats, violations=viol, fail=diffs[0])
    return dict(ok=True, stats=stats, violations=viol)


def search(ctx, hint):
    """the direct oracle ran beside stage 2 on every tree; here: more random trees, smaller first"""
    jobs = [(f's{k}', ['random', 150 if ctx.quick() else 1500, 3]) for k in range(8)]
    rs = _run(ctx, jobs)
    viol = [v for r in rs if not r.get('err') for v in r['viol']]
    if hint and hint.get('tree'):
        p = os.path.join(ctx.run, 'hint.json'); json.dump([hint['tree']], open(p, 'w'))
        rs2 = _run(ctx, [('hint', ['trees', p])])
        viol += [v for r in rs2 if not r.get('err') for v in r['viol']]
    if viol:
        v = min(viol, key=lambda v: len(json.dumps(v['tree'])))
        return dict(found=True, replay=dict(tree=v['tree'], x=v['x'], ks=v['ks']), reason=v['reason'], signature='gf:' + v['reason'].split(':')[0])
    return dict(found=False, tried=sum(r.get('trees', 0) for r in rs))


def replay(ctx, rep):
    r = rep.get('replay') or {}
    if not r.get('tree'):
        return dict(found=False, note='replay names a theorem/correspondence, no concrete input', detail=rep.get('no_longer_checks'))
    p = os.path.join(ctx.run, 'rep.json'); json.dump([r], open(p, 'w'))
    rs = _run(ctx, [('rep', ['trees', p])])
    v = [v for x in rs if not x.get('err') for v in x['viol']]
    return dict(found=bool(v), reason=v[0]['reason'] if v else None)
