"""C01 — Loci always equal the sets they are declared to track."""
import os, json
import simcommon as sc

PROP = 'C01'
LEAN_MODULES = ['EpyVerif.Props.C01']
DRIVER_MODULES = ['EpyVerif.Model.Sim', 'EpyVerif.Props.C07', 'EpyVerif.Lemmas.Tables']
TRUSTED = sc.SIM_TRUSTED + [
    "translator harness/extract_tables.py: registration tables by running build() of every shipped model, handler bodies by an AST walk; "
    "its output is compiled on every run (wf_* / shipped_* obligations by decide, wf_sound proved)",
    "networkx.Graph add/remove node/edge and iteration order as modelled by Comp.Net (exercised by every history)"]
ASSUMPTIONS = ["compartments named in API calls are declared by the model (a change to an undeclared compartment is outside C01.Legal; seeded change C01_j lives there)",
               "node labels are not tuples: with tuple labels (networkx lattices) set-up raises KeyError — known finding K3, reproduced on every run",
               "API contract (C01.Legal): operations name existing nodes; setCompartment is for a node without a compartment; addNode for a new name",
               "topology operations are performed by the instance owning the loci (C01.OneInst); a sibling process in a sequence is not told (finding K2 of C19)"]
RULE = ("histories of setCompartment/changeCompartment/addNode/removeNode/addEdge/removeEdge on a scripted compartmented model with random node, edge "
        "and multi-compartment loci (L not in R) over random networks — removing nodes that still have edges, edges inside one tracked compartment, "
        "self-loops, repeated no-op changes, re-adding existing edges — and every shipped model under both dynamics; network, compartments and all loci "
        "are compared with the Lean model after set-up and after every call / event; beside it the locus oracle recomputes every tracked set from the "
        "network. non-trivial = history containing a removeNode, an edge operation and a compartment change; distinct = distinct spec")
PARTIAL = ["loci with L in R (Opinion's PPT, trackEdgesBetweenCompartments(c,c)): only the lenient statement (every qualifying edge present at least once, "
           "nothing stale) is checked on the real code for Opinion, the full statement is refuted in Lean (C01.lin_r_stale) — known finding K1"]


def generated_lean(ctx):
    out = os.path.join(ctx.run, 'Tables.lean')
    g = ctx.harness('extract_tables.py', [out])
    try:
        summary = json.loads(g.stdout.strip().split('\n')[-1])
    except Exception:
        return dict(error=(g.stdout + g.stderr)[-2000:])
    if summary.get('error') or summary.get('mismatches'):
        return dict(error=summary)
    ctx.tables = summary
    return [('Tables.lean', open(out).read())]


def _sig(v):
    # K1 concerns direct API histories on a locus with L in R (the 'ops' cases and the scripted process); a shipped model driven by its own
    # events keeps even Opinion's PPT exact on the unchanged code, so there the same message is a new violation
    if '(L in R)' in v['reason']:
        return 'loci:LinR' if v.get('spec', {}).get('mode') == 'ops' or any(p.get('cls') == 'Script' for p in v.get('spec', {}).get('procs', [])) else 'loci:LinR-own-events'
    return v['oracle']


def _jobs(ctx):
    q = ctx.quick()
    n = 40 if q else 500
    return (sc.corpus_job(ctx) + [(f'ops{k}', ['ops', n]) for k in range(8 if q else 12)]
            + [(f'ship{k}', ['shipped', n]) for k in range(4 if q else 8)] + [(f'vacc{k}', ['vacc', n]) for k in range(3 if q else 6)] + [('named', ['composed', n]), ('tuples', ['tuplelabels', 6 if q else 20]), ('forced', ['forced', n]), ('adaptive', ['adaptive', n])])


def _nontrivial(e):
    t = set(e.get('tags', []))
    return {'RMNODE', 'CC'} <= t and bool(t & {'ADDEDGE', 'RMEDGE'})


def tie(ctx):
    r = sc.tie_with(ctx, _jobs(ctx), _nontrivial, sigfn=_sig)
    r['stats']['generated_obligations'] = getattr(ctx, 'tables', {}).get('obligations', [])
    return r


def search(ctx, hint):
    return sc.search_with(ctx, hint, [(f's{k}', ['ops', 200]) for k in range(8)], sigfn=_sig)


def replay(ctx, rep):
    return sc.replay_with(ctx, rep)


def confirm_known(ctx, entry):
    spec = json.load(open(os.path.join(ctx.root, entry['replay'])))['spec']
    p = os.path.join(ctx.run, 'known.json'); json.dump([spec], open(p, 'w'))
    rs = sc.run_jobs(ctx, [('known', ['replay', p])])
    v = [v for x in rs if not x.get('err') for v in x['viol']]
    return dict(reproduced=any(_sig(x) == entry['signature'] for x in v))
