"""C09 — DrawSet is a correct ordered set with an exactly uniform O(log n) draw."""
import os, json, re
import framework as fw

PROP = 'C09'
LEAN_MODULES = ['EpyVerif.Props.C09']
TRUSTED = [
    "model EpyVerif/Model/Bbt.lean (TreeNode/DrawSet of epydemic/bbt.py, drawset.py) tied by Driver/Set.lean: whole tree incl. _height/_leftSize/_rightSize compared after every operation",
    "numpy Generator.integers(n) assumed uniform on 0..n-1 (the draw law is proved about the code's use of it)",
    "Python's == / < on ints and tuples of ints assumed to be a lawful total order (Std.TransOrd, LawfulEqOrd in the theorems); tuple keys are sent to the model through the order-isomorphism (a,b) -> 1000a+b",
]
ASSUMPTIONS = ["elements are totally ordered by < and == as Python ints / tuples of ints are"]
RULE = ("random add/discard/remove/in/len/iter/draw histories (ints and int pairs; duplicates, absent removals, drain-to-empty, "
        "refill) run on the real DrawSet and compared line by line with the Lean model (tree shape and all cached fields, "
        "KeyError/ValueError, len/empty, membership, iteration order, draw result for scripted integers); thorough adds every "
        "history of <=5 ops over 4 keys, every insertion order of <=7 keys, every insertion x deletion order of 5 keys. "
        "non-trivial = history in which the real code performed at least one rotation and deleted a node with two children; "
        "distinct = distinct protocol text")
PARTIAL = ["discard's bookkeeping can touch Theta(log^2 n) entries (parent._updateHeights after each rotation); proved: height-balance, "
           "2^(h/2) <= n+1 and hence O(log n) search/draw/insert paths"]


def _jobs(ctx):
    q = ctx.quick()
    jobs = []
    cor = ctx.corpus()
    if cor:
        jobs.append(('corpus', ['corpus'] + cor))
    nw = 8 if q else 16
    nh, nops = (40, 250) if q else (320, 400)
    for k in range(nw):
        jobs.append((f'rnd{k}', ['random', nh, nops]))
    if not q:
        for k in range(16):
            jobs.append((f'exh{k}', ['exh', k, 16, 5, 4]))
        for k in range(4):
            jobs.append((f'ord{k}', ['orders', k, 4]))
    return jobs


def _ops_of(lines):
    ops = []
    for l in lines:
        w = l.split()
        if not w or w[0] == 'reset':
            continue
        if w[0] in ('add', 'discard', 'remove', 'in'):
            k = int(w[1]); ops.append((w[0], k))
        else:
            ops.append((w[0],))
    return ops


def tie(ctx):
    jobs = _jobs(ctx)

    def one(j):
        name, args = j
        d = ctx.sub(name)
        g = ctx.harness('run_set.py', [d, ctx.seed * 1000 + jobs.index(j)] + args)
        if g.returncode != 0:
            return dict(name=name, err='harness', detail=g.stderr[-2000:])
        p = fw.lean_driver('Set.lean', os.path.join(d, 'ops.txt'), os.path.join(d, 'got.txt'))
        if p.returncode != 0:
            return dict(name=name, err='driver', detail=p.stderr[-2000:])
        exp = open(os.path.join(d, 'expected.txt')).read().split('\n')
        got = open(os.path.join(d, 'got.txt')).read().split('\n')
        ops = open(os.path.join(d, 'ops.txt')).read().split('\n')
        ixj = json.load(open(os.path.join(d, 'index.json')))
        idx = ixj['index']
        fd = fw.first_diff(exp, got)
        res = dict(name=name, lines=len(exp) - 1, hist=len(idx), diff=None, viol=ixj.get('viol', []),
                   nontriv={hash('\n'.join(ops[e['start']:e['start'] + e['n']])) for e in idx if e['rot'] > 0 and e['two'] > 0},
                   rot=sum(e['rot'] for e in idx), two=sum(e['two'] for e in idx),
                   keyerr=exp.count('KeyError'), emptydraw=exp.count('ValueError'), exc=sum(1 for l in exp if l.startswith('EXC')),
                   opmix={k: sum(1 for l in ops if l.startswith(k)) for k in ('add', 'discard', 'remove', 'in', 'len', 'iter', 'draw')},
                   sample=ops[1:9] if name.startswith('rnd') else None)
        if fd is not None:
            e = next((e for e in idx if e['start'] <= fd < e['start'] + e['n']), idx[-1])
            res['diff'] = dict(what=f'Driver/Set.lean vs DrawSet, job {name}, line {fd}', op=ops[fd] if fd < len(ops) else None,
                               expected=exp[fd] if fd < len(exp) else None, got=got[fd] if fd < len(got) else None,
                               history=_ops_of(ops[e['start']:fd + 1]))
        return res
    rs = fw.parallel(one, jobs)
    errs = [r for r in rs if r.get('err')]
    good = [r for r in rs if not r.get('err')]
    nontriv = set()
    for r in good:
        nontriv |= r['nontriv']
    stats = dict(evaluations=sum(r['lines'] for r in good), distinct_nontrivial=len(nontriv),
                 samples=[r['sample'] for r in good if r.get('sample')][:3],
                 exhaustive=False,
                 distribution=dict(histories=sum(r['hist'] for r in good), rotations=sum(r['rot'] for r in good),
                                   two_child_deletions=sum(r['two'] for r in good), keyerrors=sum(r['keyerr'] for r in good),
                                   empty_draws=sum(r['emptydraw'] for r in good), real_code_exceptions=sum(r['exc'] for r in good),
                                   opmix={k: sum(r['opmix'][k] for r in good) for k in ('add', 'discard', 'remove', 'in', 'len', 'iter', 'draw')},
                                   jobs=[r['name'] for r in good]))
    if errs and errs[0]['err'] == 'driver':
        raise RuntimeError(f"model driver failed: {errs[0]['detail']}")
    if errs:
        return dict(ok=False, stats=stats, fail=dict(what=f"harness could not drive the real code ({errs[0]['name']})", detail=errs[0]['detail'], history=None))
    viol = [dict(replay=dict(history=v['history'], note=v['msg']), reason=v['msg'], signature='drawset:locus') if isinstance(v, dict) else
            dict(replay=dict(history=None, note=v), reason=v, signature='drawset:constructor') for r in good for v in r.get('viol', [])][:1]
    diffs = [r['diff'] for r in good if r['diff']]
    if diffs:
        return dict(ok=False, stats=stats, violations=viol, fail=diffs[0])
    return dict(ok=True, stats=stats, violations=viol)


def _oracle(ctx, hists, budget):
    hs = os.path.join(ctx.run, 'h.json')
    json.dump(hists, open(hs, 'w'))
    g = ctx.harness('oracle_drawset.py', [ctx.seed, budget, hs], timeout=1500)
    try:
        return json.loads(g.stdout.strip().split('\n')[-1])
    except Exception:
        return dict(found=False, error=(g.stdout + g.stderr)[-1500:])


def search(ctx, hint):
    hists = [hint['history']] if hint and hint.get('history') else []
    o = _oracle(ctx, hists, 400 if ctx.quick() else 6000)
    if o.get('found'):
        return dict(found=True, replay=dict(history=o['history']), reason=o['reason'], signature=o.get('signature'))
    return dict(found=False, tried=o.get('tried'), error=o.get('error'))


def replay(ctx, rep):
    h = (rep.get('replay') or {}).get('history') or rep.get('history')
    if not h:
        return dict(found=False, note='replay names a theorem/correspondence, no concrete input', detail=rep.get('no_longer_checks'))
    o = _oracle(ctx, [h], 0)
    return dict(found=bool(o.get('found')), reason=o.get('reason'), history=o.get('history'))
