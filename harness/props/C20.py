"""C20 — Pulse-coupled oscillators always have exactly one scheduled firing."""
import simcommon as sc

PROP = 'C20'
LEAN_MODULES = ['EpyVerif.Props.C20']
DRIVER_MODULES = ['EpyVerif.Model.Pulse']
TRUSTED = [
    "model EpyVerif/Model/Pulse.lean (pulsecoupled.py: getFiringTime/setFiringTime/getPhase/setPhase/cascade/fired/initialisePhases/results over the "
    "posted-event queue of Model/Queue.lean, run by the loops of Model/Dyn.lean) tied by Driver/Pulse.lean: after set-up and after every firing the "
    "pending events (id and time, bit for bit) and every node's stored event id are compared; at the end the clock, final phases and firing log",
    "the oscillator arithmetic is a record of functions: uninterpreted in the theorems; in the driver IEEE doubles with libm exp/log (bit-identical to "
    "CPython's math on this image) and an exact integer implementation of CPython's round(x, 5), itself compared with the real round on boundary values",
    "the order of `_bumping.pop()` (a Python set) is observed at cascade() by the harness and given to the model, which checks that it is a "
    "permutation of the fired node's neighbours",
    "heapq assumed to be a priority queue on [time, id, ...]",
]
ASSUMPTIONS = ["firing times computed by the oscillator are never in the past (fireAt t phi >= t): true of the real arithmetic since phases are clamped to [0,1] "
               "and the period is positive; a hypothesis of the theorems, exercised by every replayed run",
               "simple graphs (no self-loops)"]
RULE = ("random networks of 2-7 nodes (45% complete), periods 0.5-3, dissipation 0.5-3, coupling 0.01-1, initial states random, pooled (pre-synchronised "
        "groups) or at the ends of the range, both dynamics, 2-5 periods; the whole run is compared with the Lean model bit for bit; the oracle checks after "
        "set-up and after every firing: exactly one pending event per node (ids in bijection with nodes), due within one period (+ half a unit of the fifth "
        "decimal), the fired node due exactly one period later; at the end the firing log against the tap stream and the phase range; on complete networks the "
        "number of distinct phases never increases and the largest group never shrinks. non-trivial = >= 2 nodes firing and >= 4 events; distinct = distinct spec")
PARTIAL = ["known finding K4: for a period below 1 off the 1e-5 grid the monotonicity clause fails on the unchanged code; it is judged for the other periods only",
           "'due no more than one period ahead' is a theorem (firePosted_sched) under two stated hypotheses on the arithmetic (a computed firing time never "
           "exceeds ub t = one rounded period after t; ub is monotone): facts about doubles that are exercised by the oracle, not proved",
           "the monotonicity of synchrony on complete networks is checked on the real code by the oracle; in Lean: a bumped node's new firing time is a "
           "function of the time and its old firing time only (cascade_step, sync_pair) and the counting argument over the bumped nodes of one cascade "
           "is a theorem (cascade_groups: no more distinct due times, no group shrinks); that a firing on a complete network bumps every other node, "
           "and the bookkeeping of the firing nodes themselves between two events at the same instant, are not part of it",
           "floating-point facts about the return map (range, monotonicity) are not theorems"]


def _jobs(ctx):
    q = ctx.quick()
    return sc.corpus_job(ctx) + [(f'p{k}', ['pulse', 40 if q else 400]) for k in range(8 if q else 14)] + \
        [('pc', ['pulse_complete', 40 if q else 400]), ('two', ['pulse2', 40 if q else 400]), ('round', ['round', 300 if q else 5000])]


def _nt(e):
    return e['spec'].get('runner') == 'pulse' and e.get('events', 0) >= 4


def tie(ctx):
    return sc.tie_with(ctx, _jobs(ctx), _nt, driver='Pulse.lean', script='run_pulse.py')


def search(ctx, hint):
    return sc.search_with(ctx, hint, [(f's{k}', ['pulse', 200]) for k in range(8)], driver='Pulse.lean', script='run_pulse.py')


def confirm_known(ctx, entry):
    import json, os
    spec = json.load(open(os.path.join(ctx.root, entry['replay'])))['spec']
    p = os.path.join(ctx.run, 'known.json'); json.dump([spec], open(p, 'w'))
    rs = sc.run_jobs(ctx, [('known', ['replay', p])], driver='Pulse.lean', script='run_pulse.py')
    v = [v for x in rs if not x.get('err') for v in x['viol']]
    return dict(reproduced=any(x['oracle'] == entry['signature'] for x in v))


def replay(ctx, rep):
    return sc.replay_with(ctx, rep, driver='Pulse.lean', script='run_pulse.py')
