"""C02 — Stochastic dynamics samples the continuous-time Markov chain of the model."""
import simcommon as sc

PROP = 'C02'
LEAN_MODULES = ['EpyVerif.Props.C02']
TRUSTED = sc.SIM_TRUSTED + ["numpy Generator.random() assumed an ideal uniform stream on [0,1): the measure statements are about the code's use of it",
                            "Mathlib's Lebesgue measure, exp and log"]
ASSUMPTIONS = ["0 < r1 (r1 = 0 divides by zero, probability 2^-53)", "event probabilities are non-negative"]
RULE = ("stochastic runs of scripted processes mixing per-element and fixed-rate events with equal, zero and 1:1000 rates on loci of different "
        "sizes (incl. empty), and of every purely stochastic shipped model, with r2 directed onto the cumulative-rate boundaries (and one ulp either "
        "side); every event (time as a bit pattern, kind, element, state) is compared with the Lean model, which computes dt, the selection scan and "
        "the tree draw itself; beside it the Gillespie oracle recomputes from the rates of the iteration and the consumed random numbers which event "
        "must fire and when. non-trivial = run with >= 3 stochastic events and >= 2 transitions; distinct = distinct spec")
PARTIAL = ["whole-run law (final size, duration = the CTMC's): per-step kernel and holding time are proved; the construction of the chain's law from "
           "them is textbook and not formalised; no exhaustive enumeration of absorption laws is run"]


def _jobs(ctx):
    q = ctx.quick()
    n = 40 if q else 500
    return (sc.corpus_job(ctx) + [(f'rates{k}', ['rates_sto', n]) for k in range(8 if q else 12)]
            + [(f'ship{k}', ['shipped_sto', n]) for k in range(3 if q else 8)] + [(f'fixrec{k}', ['fixrec_sto', n]) for k in range(3 if q else 6)]
            + [('observed', ['monitored', n]), ('named', ['composed', n]), ('sibling', ['isolate_sto', n])])


def _nt(e):
    p = e['spec']['procs'][0]
    ntr = len(p['spec']['perel']) + len(p['spec']['fixed']) if p['cls'] == 'Script' else 2
    return e.get('events', 0) - e.get('posted', 0) >= 3 and ntr >= 2


def tie(ctx):
    return sc.tie_with(ctx, _jobs(ctx), _nt)


def search(ctx, hint):
    return sc.search_with(ctx, hint, [(f's{k}', ['rates_sto', 200]) for k in range(4)] + [('i', ['isolate_sto', 200]), ('m', ['monitored', 200])] + [(f'f{k}', ['fixrec_sto', 200]) for k in range(5)])


def replay(ctx, rep):
    return sc.replay_with(ctx, rep)
