"""Worker for the percolation family (C13 Newman-Ziff; C14 Percolate; C18 ShuffleK): run the real code with scripted shuffles,
write the model's input and the expected output; run the direct oracles beside it.
usage: run_perc.py OUTDIR SEED PROFILE N | run_perc.py OUTDIR SEED replay FILE"""
import sys, os, json, random, struct
import vrepo
import numpy, networkx as nx
import epydemic.newmanziff as nzmod
from fractions import Fraction
from epydemic import BondPercolation, SitePercolation


def bits(x):
    return struct.unpack('>Q', struct.pack('>d', float(x)))[0]


class Shim:
    """stands in for the module-level name `numpy` inside a module that calls numpy.random.shuffle"""
    def __init__(self, rnd):
        self.rnd = rnd
        self.called = 0
        outer = self

        class R:
            @staticmethod
            def shuffle(l):
                outer.called += 1
                outer.rnd.shuffle(l)
        self.random = R

    def __getattr__(self, k):
        return getattr(numpy, k)


def order_law(Base, g):
    """exact law of the occupation order when the code draws it itself from a module-level `rng` with integers(): every sequence of
    outcomes is enumerated with its probability. None when the order comes from somewhere this cannot script."""
    from fractions import Fraction
    if not hasattr(nzmod, 'rng'): return None

    class Need(Exception):
        pass

    class Unsupported(Exception):
        pass
    law = {}
    stack = [[]]
    runs = 0
    saved = nzmod.rng
    try:
        while stack:
            path = stack.pop(); runs += 1
            if runs > 2000: return None
            pos = [0]; need = [None]

            class Enum:
                def integers(self, low, high=None, size=None, dtype=None, endpoint=False):
                    if size is not None: raise Unsupported()
                    if high is None: low, high = 0, low
                    hi = int(high) + (1 if endpoint else 0); low = int(low)
                    if pos[0] < len(path):
                        v = path[pos[0]][0]; pos[0] += 1; return v
                    need[0] = (low, hi); raise Need()

                def __getattr__(self, k):
                    raise Unsupported()
            got = {}

            class P(Base):
                def percolate(self, xs):
                    got['order'] = tuple(tuple(x) if isinstance(x, (tuple, list)) else x for x in xs)
                    return super().percolate(xs)
            nzmod.rng = Enum()
            try:
                P(g.copy(), samples=[1.0]).set({}).run(fatal=True)
            except Need:
                (lo, hi) = need[0]
                for v in range(lo, hi): stack.append(path + [(v, hi - lo)])
                continue
            except Unsupported:
                return None
            pr = Fraction(1)
            for (_, w) in path: pr /= w
            if 'order' in got: law[got['order']] = law.get(got['order'], Fraction(0)) + pr
    finally:
        nzmod.rng = saved
    return law


def components(n, edges):
    adj = {v: set() for v in range(n)}
    for a, b in edges: adj[a].add(b); adj[b].add(a)
    seen = {}; comps = []
    for v in range(n):
        if v in seen: continue
        comp = [v]; seen[v] = len(comps); stack = [v]
        while stack:
            x = stack.pop()
            for y in adj[x]:
                if y not in seen: seen[y] = len(comps); comp.append(y); stack.append(y)
        comps.append(comp)
    return seen, comps


def gen_nz(rnd):
    n = rnd.randint(1, 9)
    edges = [[a, b] for a in range(n) for b in range(a + 1, n) if rnd.random() < rnd.choice([0.0, 0.2, 0.5, 0.9])]
    rnd.shuffle(edges)
    kind = rnd.choice(['bond', 'bond', 'site'])
    samples = rnd.choice([2, 3, 5, 11, 30, [0.0, 0.5, 1.0], [0.25, 1.0], [0.0, 0.3, 0.6], [0.1, 0.2, 0.3, 0.9, 1.0], [1.0], [0.5],
                          [0.0, 1.0], [0.0, 0.125, 0.25, 0.375, 0.5, 0.625, 0.75, 0.875, 1.0]])
    M = len(edges) if kind == 'bond' else n
    if M >= 1 and rnd.random() < 0.35:
        # sample points on and within an ulp of the attainable fractions k/M, and their short decimals: where (i+1)/M >= p is decided by rounding
        import math
        pts = set()
        for _ in range(rnd.randint(1, 5)):
            k = rnd.randint(0, M); q = k / M
            pts.add(rnd.choice([q, math.nextafter(q, 2.0), math.nextafter(q, -1.0), round(q, 2), round(q, 3)]))
        samples = sorted(x for x in pts if 0.0 <= x <= 1.0) or [1.0]
    if M >= 1 and isinstance(samples, list) and rnd.random() < 0.3:
        x = tricky_fraction(rnd, M)            # where (i+1)/M >= p, (i+1) >= p*M and (i+1)*(1/M) >= p disagree in doubles
        if x is not None: samples = sorted(set(samples) | {x})
    return dict(kind=kind, n=n, edges=edges, samples=samples, seed=rnd.random(), shuffled_nodes=rnd.random() < 0.4, form=rnd.choice(['asis', 'asis', 'shuffled', 'dups', 'tuple', 'array', 'iter', 'ints']),
                how=rnd.choice(['graph', 'graph', 'fixed', 'limit1', 'limit2']))


def run_nz(spec):
    rnd = random.Random(spec['seed'])
    nzmod.numpy = Shim(rnd)
    n = spec['n']
    order = list(range(n))
    if spec.get('shuffled_nodes'): random.Random(spec['seed'] + 3).shuffle(order)       # labelled 0..N-1, but not inserted in that order
    g = nx.Graph(); g.add_nodes_from(order); g.add_edges_from([tuple(e) for e in spec['edges']])
    for v in g.nodes(): g.nodes[v]['w'] = v                        # the prototype carries attributes: they have to survive too
    for (a, b) in g.edges(): g.edges[a, b]['w'] = a + b
    proto = g.copy()
    kind = spec['kind']
    Base = BondPercolation if kind == 'bond' else SitePercolation
    exp = []; viol = []; info = dict(samples=0, exc=None)
    st = {}

    class E(Base):
        def sample(self, p):
            r = super().sample(p)
            wg = self.network()
            es = sorted(tuple(sorted(e)) for e in wg.edges())
            exp.append(f"SAMPLE {bits(p)} gcc={int(self._gcc)} ncomp={int(self._ncomponents)} c={[int(x) for x in self._components]} "
                       f"edges={es}".replace("'", ""))
            info['samples'] += 1
            if wg is g and not viol: viol.append(f"sample {p}: the run works on the prototype network itself, not on a copy")
            # ---- direct oracle: the reported quantities against a BFS of the working network ----
            if not viol:
                k = st.get('occupied', 0)
                if kind == 'bond':
                    seen, comps = components(n, es)
                    want_es = sorted(tuple(sorted(e)) for e in st['order'][:k])
                    if es != want_es: viol.append(f"sample {p}: working network has edges {es}, occupied so far {want_es}")
                    sizes = {v: len(comps[seen[v]]) for v in range(n)}
                    ncomp = len(comps); gcc = max(len(c) for c in comps)
                else:
                    occ = st['order'][:k]
                    want_es = sorted(tuple(sorted(e)) for e in proto.edges() if e[0] in occ and e[1] in occ)
                    if es != want_es or sorted(wg.nodes()) != sorted(occ):
                        viol.append(f"sample {p}: working network {sorted(wg.nodes())}/{es}, occupied sites {sorted(occ)} induce {want_es}")
                    seen, comps = components(n, es)
                    comps = [c for c in comps if c[0] in occ]
                    sizes = {v: (len(next(c for c in comps if v in c)) if v in occ else 0) for v in range(n)}
                    ncomp = len(comps); gcc = max([len(c) for c in comps], default=0)
                if int(self._gcc) != gcc: viol.append(f"sample {p} after {k} occupations: gcc reported {int(self._gcc)}, true {gcc}")
                elif int(self._ncomponents) != ncomp: viol.append(f"sample {p} after {k} occupations: {int(self._ncomponents)} components reported, true {ncomp}")
                else:
                    saved = self._components.copy()        # componentSize() compresses paths: do not disturb the run
                    for v in range(n):
                        if int(self.componentSize(v)) != sizes[v]:
                            viol.append(f"sample {p} after {k} occupations: componentSize({v}) = {int(self.componentSize(v))}, true {sizes[v]}"); break
                    self._components = saved
                M = len(st['order'])
                if M >= 1:
                    first = 0 if p == 0.0 else next((kk for kk in range(1, M + 1) if kk / M >= p), None)
                    if first is None or first != k:
                        viol.append(f"sample labelled {p} taken after {k} occupations; the first k with k/{M} >= {p} is {first}")
            return r

        def percolate(self, xs):
            st['order'] = [tuple(x) if isinstance(x, tuple) else x for x in xs]
            return super().percolate(xs)

        def eventFired(self, t, p, name, e):
            st['occupied'] = st.get('occupied', 0) + 1

        def simulationStarted(self, params):
            if kind == 'site':
                st['og'] = {u: list(self._originalWorkingNetwork.adj[u]) for u in self._originalWorkingNetwork.nodes()}
    from epydemic import FixedNetwork
    how = spec.get('how', 'graph')
    src = g if how == 'graph' else FixedNetwork(g) if how == 'fixed' else FixedNetwork(g, limit=1 if how == 'limit1' else 2)
    import numpy as _np
    given = spec['samples']
    if isinstance(given, list):
        # the same set of points handed over in another form: the constructor promises to sort and to drop repeats
        f = spec.get('form', 'asis'); r2 = random.Random(spec['seed'] + 7)
        if f in ('shuffled', 'dups'):
            given = list(given) + ([r2.choice(given) for _ in range(2)] if f == 'dups' else [])
            r2.shuffle(given)
        elif f == 'tuple': given = tuple(given)
        elif f == 'array': given = _np.array(given)
        elif f == 'iter': given = iter(list(given))
        elif f == 'ints': given = [int(x) if float(x).is_integer() else x for x in given]
    e = E(src, samples=given)
    # the requested points, computed here and not read back from the object
    pts = ([float(x) for x in _np.linspace(0.0, 1.0, num=spec['samples'], endpoint=True)] if isinstance(spec['samples'], int)
           else sorted({float(x) for x in spec['samples']}))
    res = None
    try:
        if how == 'limit2':
            # an earlier run on the same experiment (the generator's first instance); then forget what it recorded
            rnd0 = random.Random(spec['seed'] + 1); nzmod.numpy = Shim(rnd0)
            e.set({}).run(fatal=True)
            exp.clear(); viol.clear(); info['samples'] = 0; st.clear(); nzmod.numpy = Shim(rnd)
        rc = e.set({}).run(fatal=True)
        res = rc['results']
    except RecursionError:
        raise
    except Exception as ex:
        info['exc'] = f"{type(ex).__name__}: {ex}"
        exp.append(f"EXC {type(ex).__name__}")
        if not viol: viol.append(f"run raised {type(ex).__name__}: {ex}")
    shim = nzmod.numpy
    if res is not None and not viol and len(st.get('order', [])) >= 2 and getattr(shim, 'called', 1) == 0:
        # the occupation order did not come from numpy's shuffle, which is what this harness scripts (and trusts to be uniform): work out the
        # exact law of the order on a small network from the integers the code draws, or give up
        import math
        small = nx.path_graph(4) if kind == 'bond' else nx.path_graph(3)
        law = order_law(Base, small)
        if law is None:
            raise RuntimeError("the occupation order was not drawn with numpy.random.shuffle and its source cannot be scripted")
        m = small.number_of_edges() if kind == 'bond' else small.order()
        bad = [(o, pr) for o, pr in law.items() if pr != Fraction(1, math.factorial(m))]
        if len(law) != math.factorial(m) or bad:
            viol.append(f"{kind} percolation of a path with {m} elements: {len(law)} of the {math.factorial(m)} occupation orders can occur"
                        + (f", e.g. {bad[0][0]} with probability {bad[0][1]}" if bad else "") + " (uniform: each 1/" + str(math.factorial(m)) + ")")
    if res is not None and not viol:
        M = len(st.get('order', []))
        if M >= 1:
            want = [p for p in pts if p <= 1.0]
            got = list(res.get(E.P, []))
            if got != want: viol.append(f"result holds samples for {got}; requested points {want}")
            gccs = list(res.get(E.GCC, []))
            if any(gccs[i] > gccs[i + 1] for i in range(len(gccs) - 1)): viol.append(f"gcc series {gccs} decreases")
            if want and want[-1] == 1.0 and kind == 'bond':
                _, comps = components(n, [tuple(x) for x in spec['edges']])
                if gccs[-1] != max(len(c) for c in comps): viol.append(f"sample at 1.0 reports gcc {gccs[-1]} for the complete network")
        if sorted(map(tuple, map(sorted, g.edges()))) != sorted(map(tuple, map(sorted, proto.edges()))) or sorted(g.nodes()) != sorted(proto.nodes()):
            viol.append("the prototype network was modified")
        elif sorted(g.nodes(data='w')) != sorted(proto.nodes(data='w')) or sorted((min(a, b), max(a, b), w) for a, b, w in g.edges(data='w')) != \
                sorted((min(a, b), max(a, b), w) for a, b, w in proto.edges(data='w')):
            viol.append("the prototype network lost its node or edge attributes")
    exp.append("END")
    inp = [f"N {n}", "SP " + ' '.join(str(bits(p)) for p in pts)]
    if 'order' in st:
        if kind == 'bond':
            inp.append("BOND " + ' '.join(f"{a}-{b}" for a, b in st['order']))
        else:
            for u, vs in st.get('og', {}).items(): inp.append(f"ADJ {u} " + ' '.join(map(str, vs)))
            inp.append("SITE " + ' '.join(map(str, st['order'])))
    else:
        inp.append("BOND")
    info['M'] = len(st.get('order', [])); info['points'] = len(pts)
    return inp, exp, info, [('nz', v) for v in viol[:1]]


PROFILES = {'nz': (gen_nz, run_nz)}
RUNNERS = {'nz': run_nz}


def main():
    out, seed, prof = sys.argv[1], int(sys.argv[2]), sys.argv[3]
    rnd = random.Random(seed)
    if prof == 'replay':
        specs = json.load(open(sys.argv[4]))
    else:
        gen = PROFILES[prof][0]
        specs = [dict(gen(rnd), runner=prof) for _ in range(int(sys.argv[4]))]
    index = []; nexp = 0; viol = []; discarded = 0
    with open(os.path.join(out, 'ops.txt'), 'w') as fi, open(os.path.join(out, 'expected.txt'), 'w') as fe:
        for spec in specs:
            sj = json.loads(json.dumps(spec))
            r = RUNNERS[spec['runner']](spec)
            if r is None:
                discarded += 1; continue
            inp, exp, info, v = r
            for (kind, reason) in v: viol.append(dict(spec=sj, oracle=kind, reason=reason))
            index.append(dict(start=nexp, n=len(exp), spec=sj, events=info.get('samples', 0), exc=info.get('exc'), tags=[spec.get('kind', '')],
                              info={k: v for k, v in info.items() if isinstance(v, (int, str, float, type(None)))}))
            nexp += len(exp)
            fi.write("\n".join(inp) + "\n"); fe.write("\n".join(exp) + "\n")
    json.dump(dict(index=index, violations=viol, timeouts=discarded), open(os.path.join(out, 'index.json'), 'w'))




# ---------------------------------------------------------------------------------------------------------------
# C14 Percolate, C18 ShuffleK
import epydemic.percolate as percmod
import epydemic.shuffle as shufmod
from epydemic import Percolate, ShuffleK, StochasticDynamics, Process, ProcessSequence, DrawSet


def rand_graph(rnd, nmin=2, nmax=9, dens=None):
    n = rnd.randint(nmin, nmax)
    q = dens if dens is not None else rnd.choice([0.2, 0.4, 0.6, 0.9])
    edges = [[a, b] for a in range(n) for b in range(a + 1, n) if rnd.random() < q]
    rnd.shuffle(edges)
    return n, edges


def near_fraction(rnd, M, top=1.0):
    """a fraction whose product with M is an integer k, or falls within an ulp of one, or a short decimal next to it: where int(M*x) is decided
    by rounding (real-number floor and float floor agree in all of these; a tolerance or a round() before int() does not)"""
    import math
    k = rnd.randint(0, max(1, int(M * top))); q = k / M
    return max(0.0, rnd.choice([q, math.nextafter(q, -1.0), math.nextafter(q, 9.0), math.nextafter(math.nextafter(q, -1.0), -1.0), round(q, 2), round(q, 3), q - 1e-10, q + 1e-10, q - 1e-12]))


def tricky_fraction(rnd, M, top=1.0):
    """a fraction x at which algebraically equal ways of computing floor(x*M) / 'k/M <= x' disagree in double arithmetic (if there is one
    among the k/M and the short decimals): where a rearranged formula shows"""
    cands = [k / M for k in range(0, int(M * top) + 1)] + [j / 100 for j in range(0, int(100 * top) + 1)] + [j / 1000 for j in range(0, int(1000 * top) + 1, 7)]
    rnd.shuffle(cands)
    found = []
    for x in cands[:600]:
        forms = {int(M * x), int(M - M * (1.0 - x)) if top <= 1.0 else int(M * x), sum(1 for i in range(int(M * top) + 1) if (i + 1) / M <= x),
                 sum(1 for i in range(int(M * top) + 1) if (i + 1) <= x * M), sum(1 for i in range(int(M * top) + 1) if (i + 1) * (1.0 / M) <= x)}
        if len(forms) > 1: found.append(x)
    return rnd.choice(found) if found else None


def gen_perc(rnd):
    n, edges = rand_graph(rnd, 1, 9)
    M = len(edges)
    T = rnd.choice([0.0, 1.0, 0.5, 0.25, 0.75, 0.125, rnd.random(), (rnd.randrange(M + 1) / M) if M else 0.5])
    if M and rnd.random() < 0.35: T = min(1.0, near_fraction(rnd, M))
    if M and rnd.random() < 0.4: T = tricky_fraction(rnd, M) or T
    spec = dict(kind='perc', n=n, edges=edges, T=T, seed=rnd.random(), shuffled_nodes=rnd.random() < 0.4, Tform=rnd.choice(['float', 'float', 'int', 'npint', 'bool', 'npfloat']), mutocc=rnd.random() < 0.25, follow=rnd.random() < 0.5, limit1=rnd.random() < 0.3,
                labels=rnd.choice(['int', 'int', 'str', 'mixed']))
    if rnd.random() < 0.4 and M:
        # an earlier run of the same objects over a different network (often one with the same number of edges)
        perm = list(range(n)); rnd.shuffle(perm)
        prev = [[perm[a], perm[b]] for a, b in edges]
        if rnd.random() < 0.3: prev = prev[:-1]
        spec.update(prev_edges=prev, prev_T=rnd.choice([0.0, 0.5, 1.0]))
    return spec


class Probe(Process):
    """a later component of the sequence: records the network it is built on"""
    def build(self, params):
        super().build(params)
        Probe.seen = list(self.network().edges())


def run_perc14(spec):
    rnd = random.Random(spec['seed'])
    percmod.numpy = Shim(rnd)
    n = spec['n']
    # node labels: integers, strings, or a mixture of both (a bipartite people / households network, say); the model works with positions
    kind = spec.get('labels', 'int')
    lab = (lambda i: i) if kind == 'int' else (lambda i: f"n{i:02d}") if kind == 'str' else (lambda i: i if i % 2 == 0 else f"s{i}")
    ix = {lab(i): i for i in range(n)}
    I = lambda v: ix.get(v, v if isinstance(v, int) and kind == 'int' else -1 - abs(hash(str(v))) % 1000)     # unknown labels stay visible as negatives
    canon = lambda es: sorted(tuple(sorted((I(a), I(b)))) for (a, b) in es)
    ordr = list(range(n))
    if spec.get('shuffled_nodes'): random.Random(spec['seed'] + 3).shuffle(ordr)      # nodes not inserted in the order of their labels
    g = nx.Graph(); g.add_nodes_from(lab(i) for i in ordr); g.add_edges_from([(lab(a), lab(b)) for (a, b) in spec['edges']])
    proto = g.copy(); T = spec['T']
    st = {}

    class P(Percolate):
        def percolate(self, T_):
            st['before'] = list(self.network().edges())
            return super().percolate(T_)

        def occupy(self, occupied):
            st['occ'] = [tuple(e) for e in occupied]; r = super().occupy(occupied)
            if spec.get('mutocc'):
                # "override to manipulate the network": a sub-class that adds a shortcut of its own while the occupied edges are handled
                gg = self.network(); ns_ = sorted(gg.nodes(), key=I)
                ne = next(((a, b) for a in ns_ for b in ns_ if I(a) < I(b) and not gg.has_edge(a, b)), None)
                if ne is not None: gg.add_edge(*ne); st['extra'] = tuple(sorted((I(ne[0]), I(ne[1]))))
            return r

        def unoccupy(self, unoccupied):
            st['unocc'] = [tuple(e) for e in unoccupied]; return super().unoccupy(unoccupied)
    # capture the shuffled order: the shim shuffles the list in place, so record it there
    order = {}
    inner = percmod.numpy.random.shuffle

    class R:
        @staticmethod
        def shuffle(l):
            inner(l); order['es'] = [tuple(e) for e in l]
    percmod.numpy.random = R
    Probe.seen = None
    p = P()
    top = ProcessSequence([p, Probe()]) if spec.get('follow') else p
    from epydemic import FixedNetwork
    d = StochasticDynamics(top, FixedNetwork(g, limit=1) if spec.get('limit1') and spec.get('prev_edges') is None else g)
    exp = []; viol = []; info = dict(samples=1, exc=None)
    try:
        if spec.get('prev_edges') is not None:
            from epydemic import FixedNetwork
            g0 = nx.Graph(); g0.add_nodes_from(lab(i) for i in range(n)); g0.add_edges_from([(lab(a), lab(b)) for (a, b) in spec['prev_edges']])
            d.setNetworkGenerator(FixedNetwork(g0))
            d.set({Percolate.T: spec['prev_T']}); d.setUp(d.parameters()); d.tearDown()
            d.setNetworkGenerator(FixedNetwork(g)); order.clear(); st.clear(); Probe.seen = None
        Tgiven = T
        if float(T).is_integer() and spec.get('Tform') in ('int', 'npint', 'bool'):       # the same number as a Python int, a bool or a numpy integer
            Tgiven = int(T) if spec['Tform'] == 'int' else bool(T) if spec['Tform'] == 'bool' else numpy.int64(int(T))
        elif spec.get('Tform') == 'npfloat': Tgiven = numpy.float64(T)
        d.set({Percolate.T: Tgiven}); d.setUp(d.parameters())
        wg = d.network()
        M = len(order.get('es', []))
        occ = int(M * T)
        kept = [e for e in canon(wg.edges()) if e != st.get('extra')]
        if st.get('extra') is not None and not wg.has_edge(*[v for v in wg.nodes() if I(v) in st['extra']]):
            viol.append(f"the edge {st['extra']} that the sub-class added in occupy() was removed again (it was never one of the shuffled edges)")
        exp.append(f"OCC {len(st['occ'])} KEPT {canon(st['occ'])} UNOCC {canon(st['unocc'])}".replace("'", ""))
        orig = canon(proto.edges())
        if len(kept) != occ: viol.append(f"T={T}, M={M}: the working network keeps {len(kept)} edges, floor(T*M) = {occ}")
        elif sorted(map(I, wg.nodes())) != sorted(map(I, proto.nodes())): viol.append("the working network lost or gained nodes")
        elif not set(kept) <= set(orig): viol.append(f"kept edges {kept} are not all original edges")
        elif canon(st['occ']) != kept: viol.append(f"occupy() was given {canon(st['occ'])}, the network keeps {kept}")
        elif sorted(canon(st['occ']) + canon(st['unocc'])) != orig: viol.append(f"occupied {canon(st['occ'])} and unoccupied {canon(st['unocc'])} do not partition the edge set {orig}")
        elif canon(g.edges()) != orig or sorted(map(I, g.nodes())) != sorted(map(I, proto.nodes())): viol.append("the prototype network was modified")
        elif wg is g: viol.append("the build worked on the prototype network itself")
        elif spec.get('follow') and [e for e in canon(Probe.seen) if e != st.get('extra')] != kept: viol.append(f"the next component of the sequence was built on {Probe.seen}, the percolated network is {kept}")
    except RecursionError:
        raise
    except Exception as ex:
        info['exc'] = f"{type(ex).__name__}: {ex}"; exp.append(f"EXC {type(ex).__name__}")
        viol.append(f"build raised {type(ex).__name__}: {ex}")
    inp = [f"PERC {bits(T)} " + ' '.join(f"{I(a)}-{I(b)}" for a, b in order.get('es', []))]
    info['M'] = len(order.get('es', []))
    return inp, exp, info, [('perc', v) for v in viol[:1]]


def gen_shuf(rnd):
    n, edges = rand_graph(rnd, 4, 10, dens=rnd.choice([0.3, 0.5, 0.7]))
    f = rnd.choice([0.0, 0.1, 0.25, 0.5, 1.0, 1.5, rnd.random()])
    if edges and rnd.random() < 0.35: f = near_fraction(rnd, len(edges), top=1.5)
    if edges and rnd.random() < 0.4: f = tricky_fraction(rnd, len(edges), top=1.5) or f
    return dict(kind='shuf', n=n, edges=edges, f=f, seed=rnd.random(), shuffled_nodes=rnd.random() < 0.4, sticky=rnd.choice([0.0, 0.0, 0.8, 0.9]), limit1=rnd.random() < 0.3,
                labels=rnd.choice(['int', 'int', 'big', 'str']))


def run_shuf(spec):
    import signal
    rnd = random.Random(spec['seed'])
    shufmod.numpy = Shim(rnd)

    sticky = spec.get('sticky', 0.0)

    class SRng:
        last = None

        def integers(self, low, high=None):
            if high is None: low, high = 0, low
            x = rnd.randrange(low, high)
            # 'sticky' streams repeat the previous draw for long stretches, so rejection loops go round many times
            if sticky and SRng.last is not None and SRng.last[0] == (low, high) and rnd.random() < sticky: x = SRng.last[1]
            SRng.last = ((low, high), x)
            return x
    import epydemic.bbt as bbt
    bbt.rng = SRng()
    n = spec['n']
    # labels that are equal without being the same object (integers beyond the interpreter's small-int cache, strings built at run time):
    # every mention of a node below makes a new object
    kind = spec.get('labels', 'int')
    lab = (lambda i: int(str(1000 + i))) if kind == 'big' else (lambda i: ''.join(['v', str(i)])) if kind == 'str' else (lambda i: i)
    inv = {lab(i): i for i in range(n)}
    ordr = list(range(n))
    if spec.get('shuffled_nodes'): random.Random(spec['seed'] + 3).shuffle(ordr)      # nodes not inserted in the order of their labels
    g = nx.Graph(); g.add_nodes_from(lab(i) for i in ordr); g.add_edges_from([(lab(a), lab(b)) for (a, b) in spec['edges']])
    if kind != 'int': g = g.copy()
    proto = g.copy(); f = spec['f']
    swaps = []

    class G2(nx.Graph):
        pass
    from epydemic import FixedNetwork
    d = StochasticDynamics(ShuffleK(), FixedNetwork(g, limit=1) if spec.get('limit1') else g)
    exp = []; viol = []; info = dict(samples=1, exc=None)

    def alarm(sig, frm):
        raise TimeoutError()
    signal.signal(signal.SIGALRM, alarm); signal.alarm(2)
    try:
        orig_generate = d.networkGenerator().generate

        def gen():
            wg = orig_generate()
            rm, ad = wg.remove_edges_from, wg.add_edges_from

            def remove_edges_from(es):
                es = list(es); st_['rm'] = es; return rm(es)

            def add_edges_from(es, **kw):
                es = list(es)
                if 'rm' in st_ and len(st_['rm']) == 2 and len(es) == 2:
                    (a, b), (c, dd) = st_.pop('rm'); swaps.append((inv[a], inv[b], inv[c], inv[dd]))
                return ad(es, **kw)
            wg.remove_edges_from = remove_edges_from; wg.add_edges_from = add_edges_from
            return wg
        st_ = {}
        d.networkGenerator().generate = gen
        d.set({ShuffleK.REWIRE_FRACTION: f}); d.setUp(d.parameters())
        signal.alarm(0)
        wg = d.network()
        M = proto.number_of_edges(); imax = int(M * f)
        degs = [wg.degree(lab(v)) for v in range(n)]
        es = sorted(tuple(sorted((inv[a], inv[b]))) for (a, b) in wg.edges())
        exp.append(f"FINAL guards=ok deg={degs} edges={es} nswaps={len(swaps)} imax={imax}".replace("'", ""))
        orig = sorted(tuple(sorted((inv[a], inv[b]))) for (a, b) in proto.edges())
        if sorted(wg.nodes()) != sorted(proto.nodes()): viol.append("the working network lost or gained nodes")
        elif wg.number_of_edges() != M: viol.append(f"the working network has {wg.number_of_edges()} edges, the original {M}")
        elif degs != [proto.degree(lab(v)) for v in range(n)]:
            v = next(v for v in range(n) if degs[v] != proto.degree(lab(v)))
            viol.append(f"f={f}: node {v} had degree {proto.degree(lab(v))}, now {degs[v]}")
        elif any(a == b for (a, b) in wg.edges()): viol.append(f"f={f}: self-loop {[e for e in wg.edges() if e[0] == e[1]][0]} introduced")
        elif len(swaps) != imax: viol.append(f"f={f}, M={M}: {len(swaps)} swaps were made, floor(f*M) = {imax}")
        elif len(set(orig) - set(es)) > 2 * imax: viol.append(f"f={f}, M={M}: {len(set(orig) - set(es))} original edges are gone, at most 2*floor(f*M) = {2 * imax} allowed")
        elif imax == 0 and es != orig: viol.append(f"f={f} (floor(f*M) = 0) but the network changed: {sorted(set(orig) ^ set(es))}")
        elif sorted(tuple(sorted((inv[a], inv[b]))) for (a, b) in g.edges()) != orig: viol.append("the prototype network was modified")
        elif wg is g: viol.append("the build worked on the prototype network itself")
    except TimeoutError:
        return None
    except RecursionError:
        raise
    except Exception as ex:
        signal.alarm(0)
        info['exc'] = f"{type(ex).__name__}: {ex}"; exp.append(f"EXC {type(ex).__name__}")
        viol.append(f"build raised {type(ex).__name__}: {ex}")
    finally:
        signal.alarm(0)
    inp = [f"SHUF {n} {bits(f)} " + ' '.join(f"{inv[a]}-{inv[b]}" for a, b in proto.edges()) + " | " + ' '.join(f"{a},{b},{c},{dd}" for (a, b, c, dd) in swaps)]
    info['M'] = proto.number_of_edges(); info['samples'] = len(swaps)
    return inp, exp, info, [('shuf', v) for v in viol[:1]]


PROFILES.update(perc=(gen_perc, run_perc14), shuf=(gen_shuf, run_shuf))
RUNNERS.update(perc=run_perc14, shuf=run_shuf)


if __name__ == '__main__':
    main()
