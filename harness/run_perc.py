"""Worker for the percolation family (C13 Newman-Ziff; C14 Percolate; C18 ShuffleK): run the real code with scripted shuffles,
write the model's input and the expected output; run the direct oracles beside it.
usage: run_perc.py OUTDIR SEED PROFILE N | run_perc.py OUTDIR SEED replay FILE"""
import sys, os, json, random, struct
import vrepo
import numpy, networkx as nx
import epydemic.newmanziff as nzmod
from epydemic import BondPercolation, SitePercolation


def bits(x):
    return struct.unpack('>Q', struct.pack('>d', float(x)))[0]


class Shim:
    """stands in for the module-level name `numpy` inside a module that calls numpy.random.shuffle"""
    def __init__(self, rnd):
        self.rnd = rnd
        outer = self

        class R:
            @staticmethod
            def shuffle(l):
                outer.rnd.shuffle(l)
        self.random = R

    def __getattr__(self, k):
        return getattr(numpy, k)


def components(n, edges):
    adj = {v: set() for v in range(n)}
    for a, b in edges: adj[a].add(b); adj[b].add(a)
    seen = {}; comps = []
    for v in range(n):
        if v in seen: continue
        comp = [v]; seen[v] = len(comps); stack = [v]
        while stack:
            x = stack.pop()
            for y in adj[x]:
                if y not in seen: seen[y] = len(comps); comp.append(y); stack.append(y)
        comps.append(comp)
    return seen, comps


def gen_nz(rnd):
    n = rnd.randint(1, 9)
    edges = [[a, b] for a in range(n) for b in range(a + 1, n) if rnd.random() < rnd.choice([0.0, 0.2, 0.5, 0.9])]
    rnd.shuffle(edges)
    kind = rnd.choice(['bond', 'bond', 'site'])
    samples = rnd.choice([2, 3, 5, 11, 30, [0.0, 0.5, 1.0], [0.25, 1.0], [0.0, 0.3, 0.6], [0.1, 0.2, 0.3, 0.9, 1.0], [1.0], [0.5],
                          [0.0, 1.0], [0.0, 0.125, 0.25, 0.375, 0.5, 0.625, 0.75, 0.875, 1.0]])
    return dict(kind=kind, n=n, edges=edges, samples=samples, seed=rnd.random())


def run_nz(spec):
    rnd = random.Random(spec['seed'])
    nzmod.numpy = Shim(rnd)
    n = spec['n']
    g = nx.Graph(); g.add_nodes_from(range(n)); g.add_edges_from([tuple(e) for e in spec['edges']])
    proto = g.copy()
    kind = spec['kind']
    Base = BondPercolation if kind == 'bond' else SitePercolation
    exp = []; viol = []; info = dict(samples=0, exc=None)
    st = {}

    class E(Base):
        def sample(self, p):
            r = super().sample(p)
            wg = self.network()
            es = sorted(tuple(sorted(e)) for e in wg.edges())
            exp.append(f"SAMPLE {bits(p)} gcc={int(self._gcc)} ncomp={int(self._ncomponents)} c={[int(x) for x in self._components]} "
                       f"edges={es}".replace("'", ""))
            info['samples'] += 1
            # ---- direct oracle: the reported quantities against a BFS of the working network ----
            if not viol:
                k = st.get('occupied', 0)
                if kind == 'bond':
                    seen, comps = components(n, es)
                    want_es = sorted(tuple(sorted(e)) for e in st['order'][:k])
                    if es != want_es: viol.append(f"sample {p}: working network has edges {es}, occupied so far {want_es}")
                    sizes = {v: len(comps[seen[v]]) for v in range(n)}
                    ncomp = len(comps); gcc = max(len(c) for c in comps)
                else:
                    occ = st['order'][:k]
                    want_es = sorted(tuple(sorted(e)) for e in proto.edges() if e[0] in occ and e[1] in occ)
                    if es != want_es or sorted(wg.nodes()) != sorted(occ):
                        viol.append(f"sample {p}: working network {sorted(wg.nodes())}/{es}, occupied sites {sorted(occ)} induce {want_es}")
                    seen, comps = components(n, es)
                    comps = [c for c in comps if c[0] in occ]
                    sizes = {v: (len(next(c for c in comps if v in c)) if v in occ else 0) for v in range(n)}
                    ncomp = len(comps); gcc = max([len(c) for c in comps], default=0)
                if int(self._gcc) != gcc: viol.append(f"sample {p} after {k} occupations: gcc reported {int(self._gcc)}, true {gcc}")
                elif int(self._ncomponents) != ncomp: viol.append(f"sample {p} after {k} occupations: {int(self._ncomponents)} components reported, true {ncomp}")
                else:
                    saved = self._components.copy()        # componentSize() compresses paths: do not disturb the run
                    for v in range(n):
                        if int(self.componentSize(v)) != sizes[v]:
                            viol.append(f"sample {p} after {k} occupations: componentSize({v}) = {int(self.componentSize(v))}, true {sizes[v]}"); break
                    self._components = saved
                M = len(st['order'])
                if M >= 1:
                    first = 0 if p == 0.0 else next((kk for kk in range(1, M + 1) if kk / M >= p), None)
                    if first is None or first != k:
                        viol.append(f"sample labelled {p} taken after {k} occupations; the first k with k/{M} >= {p} is {first}")
            return r

        def percolate(self, xs):
            st['order'] = [tuple(x) if isinstance(x, tuple) else x for x in xs]
            return super().percolate(xs)

        def eventFired(self, t, p, name, e):
            st['occupied'] = st.get('occupied', 0) + 1

        def simulationStarted(self, params):
            if kind == 'site':
                st['og'] = {u: list(self._originalWorkingNetwork.adj[u]) for u in self._originalWorkingNetwork.nodes()}
    e = E(g, samples=spec['samples'])
    pts = list(e._samplepoints)
    res = None
    try:
        rc = e.set({}).run(fatal=True)
        res = rc['results']
    except RecursionError:
        raise
    except Exception as ex:
        info['exc'] = f"{type(ex).__name__}: {ex}"
        exp.append(f"EXC {type(ex).__name__}")
        if not viol: viol.append(f"run raised {type(ex).__name__}: {ex}")
    if res is not None and not viol:
        M = len(st.get('order', []))
        if M >= 1:
            want = [p for p in pts if p <= 1.0]
            got = list(res.get(E.P, []))
            if got != want: viol.append(f"result holds samples for {got}; requested points {want}")
            gccs = list(res.get(E.GCC, []))
            if any(gccs[i] > gccs[i + 1] for i in range(len(gccs) - 1)): viol.append(f"gcc series {gccs} decreases")
            if want and want[-1] == 1.0 and kind == 'bond':
                _, comps = components(n, [tuple(x) for x in spec['edges']])
                if gccs[-1] != max(len(c) for c in comps): viol.append(f"sample at 1.0 reports gcc {gccs[-1]} for the complete network")
        if sorted(map(tuple, map(sorted, g.edges()))) != sorted(map(tuple, map(sorted, proto.edges()))) or sorted(g.nodes()) != sorted(proto.nodes()):
            viol.append("the prototype network was modified")
    exp.append("END")
    inp = [f"N {n}", "SP " + ' '.join(str(bits(p)) for p in pts)]
    if 'order' in st:
        if kind == 'bond':
            inp.append("BOND " + ' '.join(f"{a}-{b}" for a, b in st['order']))
        else:
            for u, vs in st.get('og', {}).items(): inp.append(f"ADJ {u} " + ' '.join(map(str, vs)))
            inp.append("SITE " + ' '.join(map(str, st['order'])))
    else:
        inp.append("BOND")
    info['M'] = len(st.get('order', [])); info['points'] = len(pts)
    return inp, exp, info, [('nz', v) for v in viol[:1]]


PROFILES = {'nz': (gen_nz, run_nz)}
RUNNERS = {'nz': run_nz}


def main():
    out, seed, prof = sys.argv[1], int(sys.argv[2]), sys.argv[3]
    rnd = random.Random(seed)
    if prof == 'replay':
        specs = json.load(open(sys.argv[4]))
    else:
        gen = PROFILES[prof][0]
        specs = [dict(gen(rnd), runner=prof) for _ in range(int(sys.argv[4]))]
    index = []; nexp = 0; viol = []
    with open(os.path.join(out, 'ops.txt'), 'w') as fi, open(os.path.join(out, 'expected.txt'), 'w') as fe:
        for spec in specs:
            sj = json.loads(json.dumps(spec))
            inp, exp, info, v = RUNNERS[spec['runner']](spec)
            for (kind, reason) in v: viol.append(dict(spec=sj, oracle=kind, reason=reason))
            index.append(dict(start=nexp, n=len(exp), spec=sj, events=info.get('samples', 0), exc=info.get('exc'), tags=[spec.get('kind', '')],
                              info={k: v for k, v in info.items() if isinstance(v, (int, str, float, type(None)))}))
            nexp += len(exp)
            fi.write("\n".join(inp) + "\n"); fe.write("\n".join(exp) + "\n")
    json.dump(dict(index=index, violations=viol, timeouts=0), open(os.path.join(out, 'index.json'), 'w'))


if __name__ == '__main__':
    main()
