#!/bin/sh
# tries every seeded change against its property's quick check (in scratch worktrees, four at a time) and writes seeded/RESULTS.md
cd /verif
tmp=$(mktemp -d /tmp/allseeded.XXXXXX)
ls -d seeded/C*_* | xargs -n1 basename | xargs -P 4 -I{} sh -c '
  s={}; tmp='$tmp'
  prop=$(python3 -c "import json,sys; print(json.load(open(sys.argv[1])).get(\"checked_by\", sys.argv[2]))" seeded/$s/meta.json $(echo $s | cut -d_ -f1))
  r=$(tools/try_seeded.sh $s quick $prop 2>&1 | tail -2 | tr "\n" " ")
  case "$r" in
    *"exit=1"*) v="caught"; echo "$r" | grep -q "no-failing-input-found" && v="caught (no-failing-input-found)";;
    *"exit=0"*) v="NOT caught";;
    *"exit=3"*) v="does not apply to the current tree (neutralised by a fix commit)";;
    *) v="error: $r";;
  esac
  echo "| $s | $prop | $v |" > $tmp/$s'
out=seeded/RESULTS.md
echo "| change | property checked | result |" > $out
echo "|---|---|---|" >> $out
cat $tmp/C* >> $out
rm -rf $tmp
cat $out
