#!/bin/sh
# tries every seeded change against its property's quick check (in scratch worktrees) and writes seeded/RESULTS.md
cd /verif
out=seeded/RESULTS.md
echo "| change | property checked | result |" > $out
echo "|---|---|---|" >> $out
for d in seeded/C*_*; do
  s=$(basename $d)
  r=$(tools/try_seeded.sh $s quick 2>&1 | tail -2 | tr '\n' ' ')
  case "$r" in
    *"exit=1"*) v="caught"; echo "$r" | grep -q "no-failing-input-found" && v="caught (no-failing-input-found)";;
    *"exit=0"*) v="NOT caught";;
    *) v="error: $r";;
  esac
  echo "| $s | $(echo $s | cut -d_ -f1) | $v |" >> $out
done
cat $out
