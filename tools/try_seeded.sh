#!/bin/sh
# usage: tools/try_seeded.sh <seeded dir name e.g. C04_a> [tier]
# applies the patch to a scratch worktree of /repo's HEAD, runs the property's check against it (VERIF_REPO), removes the worktree;
# evidence of the trial goes to a scratch directory, never to /verif/evidence
d=/verif/seeded/$1; prop=${3:-$(echo $1 | cut -d_ -f1)}; tier=${2:-quick}
wt=/tmp/try_wt_$1
git -C /repo worktree remove --force $wt >/dev/null 2>&1
git -C /repo worktree add --detach $wt HEAD -q || exit 2
cd $wt || exit 2
if ! git apply --3way $d/patch.diff 2>/tmp/apply_err_$1; then
  if ! patch -p1 --dry-run < $d/patch.diff >/dev/null 2>&1; then echo "PATCH DOES NOT APPLY to current /repo: $(head -3 /tmp/apply_err_$1)"; cd /; git -C /repo worktree remove --force $wt; echo "RESULT $1 exit=3"; exit 3; fi
  patch -p1 -s < $d/patch.diff
fi
cd /verif && VERIF_REPO=$wt VERIF_EVIDENCE_DIR=/tmp/try_ev_$1 ./check $prop --tier $tier > /tmp/try_$1.out 2>&1; rc=$?
tail -3 /tmp/try_$1.out
git -C /repo worktree remove --force $wt; rm -rf /tmp/try_ev_$1
echo "RESULT $1 exit=$rc"
