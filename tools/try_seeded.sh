#!/bin/sh
# usage: tools/try_seeded.sh <seeded dir name e.g. C04_a> [tier]  — applies the patch to /repo, runs the property's check, undoes it
d=/verif/seeded/$1; prop=$(echo $1 | cut -d_ -f1); tier=${2:-quick}
cd /repo || exit 2
if ! git diff --quiet; then echo "REPO DIRTY"; exit 2; fi
if ! git apply --3way $d/patch.diff 2>/tmp/apply_err_$$; then
  if ! patch -p1 --dry-run < $d/patch.diff >/dev/null 2>&1; then echo "PATCH DOES NOT APPLY to current /repo: $(head -3 /tmp/apply_err_$$)"; git checkout -- . ; git reset -q; exit 3; fi
  patch -p1 -s < $d/patch.diff
fi
git reset -q
cd /verif && ./check $prop --tier $tier > /tmp/try_$1.out 2>&1; rc=$?
tail -3 /tmp/try_$1.out
cd /repo && git checkout -- . && git clean -fdq epydemic
echo "RESULT $1 exit=$rc"
