#!/usr/bin/env python3
"""print a python file without docstrings, comments and blank lines (reading aid)"""
import sys, re
s = open(sys.argv[1]).read()
s = re.sub(r"'''.*?'''", "'''...'''", s, flags=re.S)
s = re.sub(r'""".*?"""', '"""..."""', s, flags=re.S)
for i, l in enumerate(s.split('\n')):
    t = l.strip()
    if not t or t.startswith('#') or t in ("'''...'''", '"""..."""'):
        continue
    print(l)
