#!/bin/sh
# runs every quick check on /repo with the default seed and rewrites evidence/*.json; prints one line per property
cd /verif
for c in C01 C02 C03 C04 C05 C06 C07 C08 C09 C10 C11 C12 C13 C14 C15 C16 C17 C18 C19 C20; do
  ./check $c --tier quick 2>&1 | grep -v "^KNOWN" | tail -1
done
