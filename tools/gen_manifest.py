#!/usr/bin/env python3
"""Regenerate MANIFEST.json from tools/manifest_src.json (one entry per claimed property) and validate it."""
import json, os, sys
ROOT = os.path.dirname(os.path.dirname(os.path.abspath(__file__)))
src = json.load(open(os.path.join(ROOT, 'tools', 'manifest_src.json')))
props = [json.loads(l) for l in open(os.path.join(ROOT, 'properties.jsonl'))]
checks = []
for pid, c in sorted(src['claimed'].items()):
    checks.append(dict(property_id=pid, quick_cmd=f"./check {pid} --tier quick", thorough_cmd=f"./check {pid} --tier thorough",
                       evidence_file=f"evidence/{pid}.json", replay_cmd_template=f"./check {pid} --replay {{path}}",
                       engine="epyverif",
                       level_claimed=dict(category="proof", text=c['text'], design_ref=c.get('design_ref', f"DESIGN.md Part B.3 and §4 {pid}")),
                       level_note=c['note'], technique=c['technique']))
na = [dict(property_id=p['id'], reason=src['not_applicable'].get(p['id'], src['default_na_reason'])) for p in props if p['id'] not in src['claimed']]
m = dict(version=1, setup_cmd="cd lean && lake build",
         hooks=dict(guard="EPYDEMIC_VERIF", enable="no source hooks: all instrumentation is done from the harness (module-global substitution, subclassing)",
                    baseline_off_cmd="cd /repo && /venv/bin/python -m pytest -ra -q -p no:cacheprovider --timeout=900 --continue-on-collection-errors",
                    source_commits=[], add_only=True),
         engines=[dict(name="epyverif", path="check", serves_properties=sorted(src['claimed']),
                       kind_free_text="Lean 4 theorems about hand-written executable models (lean/EpyVerif) + per-run correspondence of the models' drivers against the real code under a scripted RNG + direct oracles for failing-input search")],
         checks=checks, notes=src['notes'], not_applicable=na)
json.dump(m, open(os.path.join(ROOT, 'MANIFEST.json'), 'w'), indent=1)
print(f"{len(checks)} claimed, {len(na)} not claimed")
