#!/usr/bin/env python3
"""one-off helper: extract '===== name =====' sections from a prototype notes file"""
import sys, re
src = open(sys.argv[1]).read()
parts = re.split(r'^===== (.*?) =====\n', src, flags=re.M)
secs = {parts[i].strip(): parts[i+1] for i in range(1, len(parts), 2)}
if len(sys.argv) == 2:
    for k, v in secs.items(): print(repr(k), len(v))
else:
    sys.stdout.write(secs[sys.argv[2]])
