#!/usr/bin/env python3
"""Confirm a seeded change produced by a sub-agent, in its scratch worktree, and file it under /verif/seeded/<id>/.
usage: confirm_seeded.py PROP VARIANT [BASE=/tmp/wt] [OUTVARIANT]       (reads BASE/PROP/_seeded/VARIANT)
Checks: demo exits 0 on the clean worktree; patch applies; demo exits non-zero with it; the test files of the touched
modules pass with it; worktree restored.  Writes seeded/PROP_VARIANT/{patch.diff,demo.py,meta.json}."""
import sys, os, subprocess, json, shutil, re, glob
prop, var = sys.argv[1], sys.argv[2]
base = sys.argv[3] if len(sys.argv) > 3 else '/tmp/wt'
outvar = sys.argv[4] if len(sys.argv) > 4 else var
wt = f'{base}/{prop}'; src = f'{wt}/_seeded/{var}'
PY = '/venv/bin/python'
TESTS = {
 'bbt.py': ['test_bbt.py', 'test_loci.py'], 'drawset.py': ['test_bbt.py', 'test_loci.py'],
 'gf/': ['test_gf.py'],
 'networkdynamics.py': ['test_networkdynamics.py', 'test_events.py', 'test_monitor.py', 'test_pulsecoupled.py'],
 'stochasticdynamics.py': ['test_stochasticrates.py', 'test_networkdynamics.py', 'test_events.py', 'test_adddelete.py'],
 'synchronousdynamics.py': ['test_sto_sync.py', 'test_networkdynamics.py', 'test_events.py'],
 'shuffle.py': ['test_shuffle.py'], 'pulsecoupled.py': ['test_pulsecoupled.py'], 'generator.py': ['test_generators.py'],
 'standard_generators.py': ['test_generators.py'], 'plc_generator.py': ['test_generators.py'],
 'compartmentedmodel.py': ['test_compartmentedmodel.py', 'test_hitting.py', 'test_coinfection.py'],
 'process.py': ['test_process.py', 'test_processsequence.py'], 'processsequence.py': ['test_processsequence.py', 'test_coinfection.py'],
 'monitor.py': ['test_monitor.py'], 'statistics.py': ['test_monitor.py'], 'newmanziff.py': ['test_newmanziff.py'],
 'percolate.py': ['test_percolate.py'], 'adddelete.py': ['test_adddelete.py', 'test_adddeletesir.py'],
 'loci.py': ['test_loci.py', 'test_compartmentedmodel.py'], 'opinion_model.py': ['test_opinion.py'],
 'sir_model.py': ['test_compartmentedmodel.py', 'test_hitting.py'], 'networkexperiment.py': ['test_networkdynamics.py', 'test_generators.py'],
 'coreperiphery_generator.py': ['test_coreperiphery.py'], 'modular_generator.py': ['test_modular.py'],
 'sir_model_fixed_recovery.py': ['test_sir_fixedrecovery.py'], 'sis_model_fixed_recovery.py': ['test_sis_fixedrecovery.py'],
 'sir_model_variable_infection.py': ['test_sir_variable_infection.py'], 'sivr_model.py': [], 'vaccinate_model.py': [],
 'seir_model.py': ['test_seir.py'], 'sis_model.py': ['test_sis.py'], 'sirs_model.py': ['test_sirs.py'],
}
def sh(cmd, **kw): return subprocess.run(cmd, shell=True, capture_output=True, text=True, cwd=wt, **kw)
log = []
def step(name, ok, detail=''):
    log.append(dict(step=name, ok=bool(ok), detail=detail[-600:])); print(name, 'OK' if ok else 'FAIL', detail[-300:].replace('\n', ' | '))
    return ok
demo = glob.glob(f'{src}/demo_*.py')[0]
sh('git checkout -- . && git clean -fdq -e _seeded')
r = sh(f'{PY} {demo}', timeout=600); ok = step('demo passes on unchanged tree', r.returncode == 0, r.stdout + r.stderr)
a = sh(f'git apply {src}/patch.diff'); ok &= step('patch applies', a.returncode == 0, a.stderr)
imp = sh(f'{PY} -c "import epydemic; print(epydemic.__file__)"'); ok &= step('package imports from the worktree', imp.returncode == 0 and wt in imp.stdout, imp.stdout + imp.stderr)
r = sh(f'{PY} {demo}', timeout=600); ok &= step('demo fails with the change', r.returncode != 0, r.stdout + r.stderr)
touched = re.findall(r'^\+\+\+ b/epydemic/(\S+)', open(f'{src}/patch.diff').read(), flags=re.M)
tests = sorted({t for f in touched for k, ts in TESTS.items() if f.startswith(k) or f == k for t in ts})
cmd = f'{PY} -m pytest -q -p no:cacheprovider --timeout=900 -n 4 ' + ' '.join('test/' + t for t in tests)
t = sh(cmd, timeout=3000) if tests else None
known = ('testDecorateUndecorate', 'test_vaccination')
fails = [l for l in (t.stdout.split('\n') if t else []) if l.startswith('FAILED') and not any(k in l for k in known)]
ok &= step(f'existing tests of touched modules pass ({" ".join(tests)})', t is None or (not fails and ' passed' in t.stdout), (t.stdout if t else 'none')[-400:])
sh('git checkout -- . && git clean -fdq -e _seeded')
meta = json.load(open(f'{src}/meta.json'))
meta.update(property=prop, variant=var, touched=touched, confirmed=bool(ok), confirmation=log, test_cmd=cmd,
            base_commit=sh('git rev-parse HEAD').stdout.strip())
out = f'/verif/seeded/{prop}_{outvar}'
os.makedirs(out, exist_ok=True)
shutil.copy(f'{src}/patch.diff', f'{out}/patch.diff'); shutil.copy(demo, f'{out}/demo.py')
json.dump(meta, open(f'{out}/meta.json', 'w'), indent=1)
print('CONFIRMED' if ok else 'NOT CONFIRMED', out)
